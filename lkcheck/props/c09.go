package props

import (
	"fmt"
	"go/types"
	"regexp"
	"sort"
	"strings"

	"golang.org/x/tools/go/ssa"

	"lkcheck/ir"
	"lkcheck/report"
)

func init() { Registry["C09"] = C09 }

// journaled locations: field -> journal entry types that may cover a write
var c09Journaled = map[string][]string{
	"Account.Nonce":            {"nonceChange"},
	"Account.Credits":          {"creditsChange"},
	"Account.Balance":          {"balanceChange", "suicideChange"},
	"Account.Tokens":           {"tokenBalanceChange", "suicideChange"},
	"Account.CodeHash":         {"codeChange"},
	"stateObject.code":         {"codeChange"},
	"stateObject.dirtyCode":    {"codeChange"},
	"stateObject.suicided":     {"suicideChange"},
	"stateObject.dirtyStorage": {"storageChange"},
	"StateDB.refund":           {"refundChange"},
	"StateDB.logs":             {"addLogChange"},
	"StateDB.logSize":          {"addLogChange"},
	"StateDB.preimages":        {"addPreimageChange"},
	"StateDB.stateObjects":     {"createObjectChange", "resetObjectChange"},
}

// raw setters: write a journaled location without journaling; callers must journal
var c09RawSetters = map[string][]string{
	"stateObject.setBalance":      {"balanceChange"},
	"stateObject.setNonce":        {"nonceChange"},
	"stateObject.setCredits":      {"creditsChange"},
	"stateObject.setCode":         {"codeChange"},
	"stateObject.setState":        {"storageChange"},
	"stateObject.setTokenBalance": {"tokenBalanceChange"},
	"stateObject.markSuicided":    {"suicideChange"},
	"StateDB.setStateObject":      {"createObjectChange", "resetObjectChange"},
}

// functions that may write journaled locations without journaling, with the reason
var c09Exempt = map[string]string{
	"state.newObject":                        "constructor of a fresh object",
	"state.(*stateObject).deepCopy":          "copier: writes the fresh copy",
	"state.(*StateDB).Copy":                  "copier: writes the fresh copy",
	"state.(*StateDB).Reset":                 "re-initialises the whole state (journal cleared in the same function)",
	"state.New":                              "constructor",
	"state.(*StateDB).clearJournalAndRefund": "end of transaction: journal and refund are reset together",
	"state.(*stateObject).updateTrie":        "finalisation: flushes dirtyStorage into the trie after the journal has been cleared for the tx",
	"state.(*stateObject).updateRoot":        "finalisation",
	"state.(*stateObject).CommitTrie":        "commit",
	"state.(*StateDB).Commit":                "commit",
	"state.(*StateDB).Finalise":              "finalisation",
	"state.(*StateDB).getStateObject":        "cache fill: installs the committed value of the account, not a state change",
	"state.(*stateObject).Code":              "cache fill of committed code",
	"state.(*StateDB).deleteStateObject":     "finalisation",
	"state.(*StateDB).ForEachStorage":        "read-only iteration (writes its own locals)",
}

// C09 snapshots revert exactly; copies are independent.
func C09(p *ir.Program, r *report.R) {
	c := C{p, r}
	r.Floor = 90
	r.Explain = "Decided (journal discipline): every write to a journaled location (Account.{Nonce,Credits,Balance,Tokens,CodeHash}, stateObject.{code,dirtyCode,suicided,dirtyStorage}, StateDB.{refund,logs,logSize,preimages,stateObjects}) is in a raw setter, a journal revert method, a listed constructor/copier/finaliser, or is preceded on every path by journal.append of the entry type paired with that location; every call of a raw setter likewise; the previous value captured by each append is the current value of the same location; every journalEntry implementation is in the pairing table and its revert writes exactly its locations from its prev fields; dirtied() returns the account iff the location is per-account; RevertToSnapshot/journal.revert shape (downward loop to the snapshot index, truncation). Deep copy: deepCopy/StateDB.Copy assign every field (exemptions listed) and no map/slice field of the copy is the source's own value. ADDED after seeded-change testing: Dirty reference counts: journal.dirties is written only by append/dirty (increment by one) and revert (decrement by one, delete only under count == 0 after the decrement). Rounds 4-5: the check state is read under the state lock; CopyTrie copies the backing trie and never the source. Round 6: suicideChange.revert restores native/token per entry by its address, not by position. NOT decided: value-level equality over nested snapshot histories; trie-level copy independence (CopyTrie)."
	r.Trusted = []string{"Database.CopyTrie", "big.Int values are replaced, never mutated in place (checked by K3 below for balances)"}

	isEntry := func(t types.Type) bool { return false }
	jeIface := p.Obj("state", "journalEntry").Type().Underlying().(*types.Interface)
	isEntry = func(t types.Type) bool { return types.Implements(t, jeIface) }

	appendObj := p.Obj("state", "journal.append").(*types.Func)
	// entry type name appended by a journal.append call
	entryOf := func(call ssa.CallInstruction) string {
		a := Arg(call, 1)
		m := regexp.MustCompile(`^state\.(\w+)\{`).FindStringSubmatch(a)
		if m != nil {
			return m[1]
		}
		return a
	}
	isAppendOf := func(kinds []string) func(ssa.Instruction) bool {
		return func(in ssa.Instruction) bool {
			call, ok := in.(ssa.CallInstruction)
			if !ok || ir.CalleeObj(call.Common()) != appendObj {
				return false
			}
			e := entryOf(call)
			for _, k := range kinds {
				if e == k {
					return true
				}
			}
			return false
		}
	}
	classOf := func(fn *ssa.Function) (string, string) {
		name := ir.FuncName(ir.EnclosingTop(fn))
		if why, ok := c09Exempt[name]; ok {
			return "exempt", why
		}
		if fn.Signature.Recv() != nil && fn.Name() == "revert" && isEntry(fn.Signature.Recv().Type()) {
			return "revert", "journal undo"
		}
		for rs := range c09RawSetters {
			parts := strings.SplitN(rs, ".", 2)
			if name == "state.(*"+parts[0]+")."+parts[1] {
				return "raw", "raw setter (callers journal)"
			}
		}
		return "", ""
	}

	// ---- journal-before-mutate: stores ------------------------------------------
	var locs []string
	for l := range c09Journaled {
		locs = append(locs, l)
	}
	sort.Strings(locs)
	nStores := 0
	for _, loc := range locs {
		fv := p.Field("state", loc)
		for _, s := range p.Stores(fv) {
			if ir.IsLocalAddr(s.Base) {
				// a field of a function-local value (a fresh Account being filled in), not shared state
				continue
			}
			if ir.RelPkg(s.Fn.Pkg.Pkg) != "state" {
				r.Check("K3", "journal/outside-package/"+loc, p.InstrPos(s.Instr), false, "journaled location written outside package state by "+ir.FuncName(s.Fn))
				continue
			}
			nStores++
			fname := ir.FuncName(ir.EnclosingTop(s.Fn))
			key := fname + "/write " + loc
			if cl, why := classOf(s.Fn); cl != "" {
				r.Check("K2", "journal-before-mutate/"+key, p.InstrPos(s.Instr), true, cl+": "+why)
				continue
			}
			if s.Kind == "complit" {
				r.Check("K2", "journal-before-mutate/"+key, p.InstrPos(s.Instr), true, "composite literal of a fresh value")
				continue
			}
			found, _, tr := ir.FindPath(ir.PathQuery{From: ir.Entry(s.Fn), Target: func(in ssa.Instruction) bool { return in == s.Instr }, Avoid: isAppendOf(c09Journaled[loc])})
			r.Check("K2", "journal-before-mutate/"+key, p.InstrPos(s.Instr), !found,
				fmt.Sprintf("write to %s must be preceded on every path by journal.append(%v); path without it: blocks %v; instr: %s", loc, c09Journaled[loc], tr, short(ir.RenderInstr(s.Instr), 120)))
		}
	}
	r.Stats["journaled stores"] = nStores
	// ---- journal-before-mutate: raw setter calls ---------------------------------
	var rss []string
	for rs := range c09RawSetters {
		rss = append(rss, rs)
	}
	sort.Strings(rss)
	for _, rs := range rss {
		obj := p.Obj("state", rs).(*types.Func)
		for _, cs := range p.CallSites(obj) {
			fname := ir.FuncName(ir.EnclosingTop(cs.Fn))
			key := fname + "/call " + rs
			if cl, why := classOf(cs.Fn); cl == "exempt" || cl == "revert" {
				r.Check("K2", "journal-before-mutate/"+key, p.InstrPos(cs.Instr), true, cl+": "+why)
				continue
			}
			// createObject sets nonce 0 and installs a fresh object: the fresh object is covered by the create/reset entry appended in the same function
			kinds := c09RawSetters[rs]
			if fname == "state.(*StateDB).createObject" || fname == "state.(*StateDB).CreateAccount" {
				kinds = append(append([]string{}, kinds...), "createObjectChange", "resetObjectChange")
			}
			if fname == "state.(*StateDB).Suicide" {
				kinds = append(append([]string{}, kinds...), "suicideChange")
			}
			if fname == "state.(*StateDB).createObject" && rs == "stateObject.setNonce" {
				r.Check("K2", "journal-before-mutate/"+key, p.InstrPos(cs.Instr), Arg(cs.Instr, 0) == "state.newObject(s,addr,state.Account{Credits:1})" || strings.HasPrefix(Arg(cs.Instr, 0), "state.newObject("), "raw setter on the object created in this function: "+Arg(cs.Instr, 0))
				continue
			}
			if fname == "state.(*StateDB).CreateAccount" {
				// writes the object just created by createObject (journaled there as create/reset)
				r.Check("K2", "journal-before-mutate/"+key, p.InstrPos(cs.Instr), strings.HasPrefix(Arg(cs.Instr, 0), "state.StateDB.createObject(s,addr)#0"), "raw setter on the object createObject just created and journaled: "+Arg(cs.Instr, 0))
				continue
			}
			found, _, tr := ir.FindPath(ir.PathQuery{From: ir.Entry(cs.Fn), Target: func(in ssa.Instruction) bool { return in == cs.Instr }, Avoid: isAppendOf(kinds)})
			r.Check("K2", "journal-before-mutate/"+key, p.InstrPos(cs.Instr), !found,
				fmt.Sprintf("call of raw setter %s must be preceded on every path by journal.append(%v); path without it: blocks %v", rs, kinds, tr))
		}
	}
	// exported un-journaled root setter: allowed only for the offline dump tool
	{
		got := c.CallersOf(p.Obj("state", "StateDB.SetStorageRoot"))
		ok := true
		for n := range got {
			if !strings.HasPrefix(n, "tools/") && !strings.HasPrefix(n, "main.") {
				ok = false
			}
		}
		r.Check("K3", "who-may-call/state.StateDB.SetStorageRoot", "-", ok, fmt.Sprintf("SetStorageRoot writes Account.Root without a journal entry; it may only be used by offline tools, never inside the node: %v", keys(got)))
		c.WhoMayWrite("state", "Account.Root", "state.(*stateObject).setStorageRoot", "state.(*stateObject).updateRoot", "state.(*stateObject).CommitTrie",
			"tools/statedb_dump.(*StateDump).dump", "tools/statedb_dump.(*StateDump).dumpKv") // the dump tool fills its own local Account values
		c.WhoMayCall("state", "stateObject.setStorageRoot", "state.(*StateDB).SetStorageRoot")
	}

	// ---- what each append captures -------------------------------------------------
	wantAppend := map[string]string{
		"state.(*stateObject).SetBalance/balanceChange":           "state.balanceChange{account:&c.address,prev:big.Int.Set(&new:big.Int,c.data.Balance)}",
		"state.(*stateObject).SetNonce/nonceChange":               "state.nonceChange{account:&c.address,prev:c.data.Nonce}",
		"state.(*stateObject).SetCredits/creditsChange":           "state.creditsChange{account:&c.address,prev:c.data.Credits}",
		"state.(*stateObject).SetCode/codeChange":                 "state.codeChange{account:&c.address,prevcode:state.stateObject.Code(c,c.db.db),prevhash:state.stateObject.CodeHash(c)}",
		"state.(*stateObject).SetState/storageChange":             "state.storageChange{account:&c.address,key:key,prevalue:state.stateObject.GetState(c,db,key)}",
		"state.(*stateObject).SetTokenBalance/tokenBalanceChange": "state.tokenBalanceChange{account:&c.address,token:&token,prev:big.Int.Set(&new:big.Int,c.data.Tokens[token])}",
		"state.(*stateObject).touch/touchChange":                  "state.touchChange{account:&c.address}",
		"state.(*StateDB).AddRefund/refundChange":                 "state.refundChange{prev:s.refund}",
		"state.(*StateDB).SubRefund/refundChange":                 "state.refundChange{prev:s.refund}",
		"state.(*StateDB).AddLog/addLogChange":                    "state.addLogChange{txhash:s.thash}",
		"state.(*StateDB).AddPreimage/addPreimageChange":          "state.addPreimageChange{hash:hash}",
		"state.(*StateDB).Suicide/suicideChange":                  "state.suicideChange{account:&addr,prev:state.StateDB.getStateObject(s,addr).suicided,prevbalance:state.stateObject.TokenBalances(state.StateDB.getStateObject(s,addr))}",
		"state.(*StateDB).createObject/createObjectChange":        "state.createObjectChange{account:&addr}",
		"state.(*StateDB).createObject/resetObjectChange":         "state.resetObjectChange{prev:state.StateDB.getStateObject(s,addr)}",
	}
	seenAppend := map[string]bool{}
	for _, cs := range p.CallSites(appendObj) {
		fname := ir.FuncName(ir.EnclosingTop(cs.Fn))
		e := entryOf(cs.Instr)
		k := fname + "/" + e
		seenAppend[k] = true
		want, ok := wantAppend[k]
		if !ok {
			r.Check("K5", "journal-append/"+k, p.InstrPos(cs.Instr), false, "journal.append site not in the reviewed table: "+short(Arg(cs.Instr, 1), 200))
			continue
		}
		r.Check("K5", "journal-append/"+k, p.InstrPos(cs.Instr), Arg(cs.Instr, 1) == want, "the entry must capture the current value of the location it covers, for the same object; want "+want+" got "+short(Arg(cs.Instr, 1), 260))
	}
	for k := range wantAppend {
		if !seenAppend[k] {
			r.Check("K5", "journal-append/"+k, "-", false, "reviewed journal.append site no longer present")
		}
	}
	c.WhoMayWrite("state", "journal.entries", "state.(*journal).append", "state.(*journal).revert", "state.newJournal")

	// ---- entry / undo pairing -----------------------------------------------------------
	type undo struct {
		calls   []string // rendered calls that must appear in revert
		dirtied string   // "account" or "nil"
	}
	obj := "state.StateDB.getStateObject(s,*ch.account)"
	table := map[string]undo{
		"balanceChange":      {[]string{"state.stateObject.setBalance(" + obj + ",ch.prev)"}, "account"},
		"nonceChange":        {[]string{"state.stateObject.setNonce(" + obj + ",ch.prev)"}, "account"},
		"creditsChange":      {[]string{"state.stateObject.setCredits(" + obj + ",ch.prev)"}, "account"},
		"codeChange":         {[]string{"state.stateObject.setCode(" + obj + ",common.BytesToHash(ch.prevhash),ch.prevcode)"}, "account"},
		"storageChange":      {[]string{"state.stateObject.setState(" + obj + ",ch.key,ch.prevalue)"}, "account"},
		"tokenBalanceChange": {[]string{"state.stateObject.setTokenBalance(" + obj + ",*ch.token,ch.prev)"}, "account"},
		"suicideChange":      {[]string{"store " + obj + ".suicided = ch.prev", "state.stateObject.setBalance(" + obj + ",ch.prevbalance[*].Value)", "state.stateObject.setTokenBalance(" + obj + ",ch.prevbalance[*].TokenAddr,ch.prevbalance[*].Value)"}, "account"},
		"refundChange":       {[]string{"store s.refund = ch.prev"}, "nil"},
		"addLogChange":       {[]string{"store s.logSize = (s.logSize - 1)", "delete(s.logs,ch.txhash)", "mapupdate s.logs[ch.txhash] = s.logs[ch.txhash][:(len(s.logs[ch.txhash]) - 1)]"}, "nil"},
		"addPreimageChange":  {[]string{"delete(s.preimages,ch.hash)"}, "nil"},
		"createObjectChange": {[]string{"delete(s.stateObjects,*ch.account)", "delete(s.stateObjectsDirty,*ch.account)"}, "account"},
		"resetObjectChange":  {[]string{"state.StateDB.setStateObject(s,ch.prev)"}, "nil"},
		"touchChange":        {nil, "account"},
	}
	// exhaustiveness: all implementations of journalEntry in package state
	scope := p.Pkg("state").Types.Scope()
	var impls []string
	for _, n := range scope.Names() {
		tn, ok := scope.Lookup(n).(*types.TypeName)
		if !ok || types.IsInterface(tn.Type()) {
			continue
		}
		if isEntry(tn.Type()) || isEntry(types.NewPointer(tn.Type())) {
			impls = append(impls, n)
		}
	}
	r.Stats["journalEntry implementations"] = len(impls)
	for _, n := range impls {
		u, ok := table[n]
		if !r.Check("K5", "entry-table/"+n, p.Pos(scope.Lookup(n).Pos()), ok, "every journalEntry implementation must be in the pairing table") {
			continue
		}
		rv := p.Func("state", n+".revert")
		var got []string
		ir.Instrs(rv, func(in ssa.Instruction) {
			switch x := in.(type) {
			case *ssa.Store:
				if _, isAlloc := x.Addr.(*ssa.Alloc); !isAlloc {
					got = append(got, ir.RenderInstr(in))
				}
			case *ssa.MapUpdate:
				got = append(got, ir.RenderInstr(in))
			case *ssa.Call:
				n := ir.CalleeName(x)
				if strings.HasPrefix(n, "state.stateObject.set") || n == "state.StateDB.setStateObject" || n == "delete" || n == "state.stateObject.markSuicided" {
					got = append(got, ir.RenderCall(x))
				}
			}
		})
		for _, w := range u.calls {
			found := false
			for _, g := range got {
				if ir.Match(w, g) {
					found = true
				}
			}
			r.Check("K5", "undo/"+n+"/"+short(w, 60), p.Pos(rv.Pos()), found, "revert must perform: "+w+"; it performs: "+short(strings.Join(got, " ; "), 400))
		}
		for _, g := range got {
			exp := false
			for _, w := range u.calls {
				if ir.Match(w, g) {
					exp = true
				}
			}
			r.Check("K5", "undo-only/"+n+"/"+short(g, 60), p.Pos(rv.Pos()), exp, "revert writes nothing but the locations of its row: "+g)
		}
		dv := p.Func("state", n+".dirtied")
		okD := false
		for _, rt := range ir.Returns(dv) {
			s := ir.Render(rt.Results[0])
			okD = (u.dirtied == "account" && s == "ch.account") || (u.dirtied == "nil" && s == "nil")
		}
		r.Check("K5", "dirtied/"+n, p.Pos(dv.Pos()), okD, "dirtied() returns "+u.dirtied)
	}

	// ---- RevertToSnapshot / journal.revert shape ---------------------------------------------
	{
		rt := p.Func("state", "StateDB.RevertToSnapshot")
		calls := ir.Calls(rt, "state.journal.revert")
		if c.MustFind("K2", "state.(*StateDB).RevertToSnapshot/journal.revert", rt, len(calls), "journal.revert call") {
			idx := `sort.Search(len(s.validRevisions),closure:state.StateDB.RevertToSnapshot$1)`
			r.Check("K2", "state.(*StateDB).RevertToSnapshot/journal-index", p.InstrPos(calls[0]), Arg(calls[0], 2) == "s.validRevisions["+idx+"].journalIndex" && Arg(calls[0], 1) == "s",
				"reverts to the journal index recorded for the revision found: "+Arg(calls[0], 2))
			c.Guards("state.(*StateDB).RevertToSnapshot", "revert", calls[0],
				G{"found", "!eq(" + idx + ",len(s.validRevisions)) || !eq(len(s.validRevisions)," + idx + ")"},
				G{"exact-id", ir.EqPat("s.validRevisions["+idx+"].id", "revid")})
			okT := false
			for _, s := range p.Stores(p.Field("state", "StateDB.validRevisions")) {
				if s.Fn == rt && ir.Render(s.Val) == "s.validRevisions[:"+idx+"]" {
					okT = true
				}
			}
			r.Check("K2", "state.(*StateDB).RevertToSnapshot/drop-later-revisions", p.Pos(rt.Pos()), okT, "validRevisions is truncated to the reverted revision")
		}
		sn := p.Func("state", "StateDB.Snapshot")
		okS := false
		ir.Instrs(sn, func(in ssa.Instruction) {
			if st, ok := in.(*ssa.Store); ok && ir.Render(st.Val) == "state.journal.length(s.journal)" {
				okS = true
			}
		})
		r.Check("K2", "state.(*StateDB).Snapshot/records-journal-length", p.Pos(sn.Pos()), okS, "a snapshot records the current journal length")
		jr := p.Func("state", "journal.revert")
		// loop: i from len-1 down to snapshot
		var phiOK, condOK bool
		for _, b := range jr.Blocks {
			for _, in := range b.Instrs {
				if ph, ok := in.(*ssa.Phi); ok && ir.LocalName(ph.Parent(), ph.Comment) == "i" {
					var es []string
					for _, e := range ph.Edges {
						es = append(es, ir.Render(e))
					}
					sort.Strings(es)
					phiOK = len(es) == 2 && es[0] == "(len(j.entries) - 1)" && es[1] == "(φ:i - 1)"
				}
				if ifi, ok := in.(*ssa.If); ok {
					for _, a := range ir.CondAtoms(ifi.Cond, true) {
						if a == "le(snapshot,φ:i)" {
							condOK = true
						}
					}
				}
			}
		}
		r.Check("K2", "state.(*journal).revert/loop-from-last", p.Pos(jr.Pos()), phiOK, "undo loop starts at the last entry and steps down by one")
		r.Check("K2", "state.(*journal).revert/loop-to-snapshot", p.Pos(jr.Pos()), condOK, "undo loop runs while i >= snapshot")
		undoCall := false
		for _, call := range ir.Calls(jr, "state.journalEntry.revert") {
			if Arg(call, 0) == "j.entries[φ:i]" && Arg(call, 1) == "statedb" {
				undoCall = true
			}
		}
		r.Check("K2", "state.(*journal).revert/undo-each", p.Pos(jr.Pos()), undoCall, "each entry i is reverted on statedb")
		okTr := false
		for _, s := range p.Stores(p.Field("state", "journal.entries")) {
			if s.Fn == jr && ir.Render(s.Val) == "j.entries[:snapshot]" {
				okTr = true
			}
		}
		r.Check("K2", "state.(*journal).revert/truncate", p.Pos(jr.Pos()), okTr, "entries are truncated to the snapshot index")
	}

	// ---- dirty reference counts ---------------------------------------------------------------
	// journal.dirties[addr] counts the live entries of addr; Finalise/Copy/Commit visit exactly
	// the addresses with a positive count, so revert must decrement and delete only at zero.
	journalDirtyCounts(c)

	// ---- a reverted self-destruct puts every holding back where it was ---------------------------------------------
	// suicideChange remembers TokenBalances(): a list in which the native coin appears only when its
	// balance was positive, at no fixed position. revert restores the native balance from the entry whose
	// token address is the empty address and a token balance from every other entry - decided per entry,
	// not by position.
	{
		rv := p.Func("state", "suicideChange.revert")
		rn := "state.(suicideChange).revert"
		nb, nt := 0, 0
		for _, call := range ir.Calls(rv, "state.stateObject.setBalance") {
			nb++
			ent := strings.TrimSuffix(Arg(call, 1), ".Value")
			c.Guards(rn, "restore native", call.(ssa.Instruction), G{"entry-is-the-native-coin", "eq(" + ent + ".TokenAddr,common.EmptyAddress) || eq(common.EmptyAddress," + ent + ".TokenAddr)"})
		}
		for _, call := range ir.Calls(rv, "state.stateObject.setTokenBalance") {
			nt++
			ent := strings.TrimSuffix(Arg(call, 2), ".Value")
			r.Check("K1", rn+"/restore token/own-address", p.InstrPos(call.(ssa.Instruction)), Arg(call, 1) == ent+".TokenAddr", "the token restored is the entry's own: "+Arg(call, 1))
			c.Guards(rn, "restore token", call.(ssa.Instruction), G{"entry-is-a-token", "!eq(" + ent + ".TokenAddr,common.EmptyAddress) || !eq(common.EmptyAddress," + ent + ".TokenAddr)"})
		}
		r.Check("K1", rn+"/restores", p.Pos(rv.Pos()), nb >= 1 && nt >= 1, fmt.Sprintf("%d native and %d token restores", nb, nt))
	}

	// ---- storage values handed out by the state are never written in place ---------------------------
	// GetState returns the cached slice itself (originStorage/dirtyStorage share it, Storage.Copy is
	// shallow, trie value nodes are shared): appending into it, copying into it or storing an element
	// changes the state without a journal entry, visibly in the original and in every copy.
	{
		nGet := 0
		var bad []string
		for _, f := range p.Funcs {
			if f.Blocks == nil || f.Pkg == nil || strings.HasSuffix(p.Pos(f.Pos()), "_test.go") {
				continue
			}
			ir.Instrs(f, func(in ssa.Instruction) {
				call, ok := in.(*ssa.Call)
				if !ok {
					return
				}
				n := ir.CalleeName(call)
				if !(n == "state.StateDB.GetState" || n == "state.stateObject.GetState" || n == "types.StateDB.GetState" || n == "state.StateDB.GetCommittedState" || n == "state.stateObject.GetCommittedState") {
					return
				}
				nGet++
				seen := map[ssa.Value]bool{}
				var follow func(v ssa.Value, depth int)
				follow = func(v ssa.Value, depth int) {
					if seen[v] || depth > 6 || v.Referrers() == nil {
						return
					}
					seen[v] = true
					for _, ref := range *v.Referrers() {
						switch x := ref.(type) {
						case *ssa.Slice:
							follow(x, depth+1)
						case *ssa.ChangeType:
							follow(x, depth+1)
						case *ssa.Phi:
							follow(x, depth+1)
						case *ssa.Store:
							if al, isAl := x.Addr.(*ssa.Alloc); isAl && x.Val == v {
								for _, rr := range *al.Referrers() {
									if ld, isLd := rr.(*ssa.UnOp); isLd {
										follow(ld, depth+1)
									}
								}
							}
						case *ssa.IndexAddr:
							// element address: a store through it writes the shared slice
							for _, rr := range *x.Referrers() {
								if st, isSt := rr.(*ssa.Store); isSt && st.Addr == x {
									bad = append(bad, "element store at "+p.InstrPos(st))
								}
							}
						case *ssa.Call:
							if bi, isB := x.Call.Value.(*ssa.Builtin); isB {
								switch bi.Name() {
								case "append":
									if x.Call.Args[0] == v {
										bad = append(bad, "append into the returned slice at "+p.InstrPos(x))
									}
								case "copy":
									if x.Call.Args[0] == v {
										bad = append(bad, "copy into the returned slice at "+p.InstrPos(x))
									}
								}
							}
						}
					}
				}
				follow(call, 0)
			})
		}
		sort.Strings(bad)
		r.Check("K4", "storage-value-not-written-in-place", "-", len(bad) == 0 && nGet >= 10, fmt.Sprintf("%d GetState/GetCommittedState call sites followed (through reslicing and locals); in-place writes: %v", nGet, bad))
	}

	// ---- deep copy ---------------------------------------------------------------------------
	c09DeepCopy(c)

	// balances are replaced, never mutated in place
	{
		mut := map[string]bool{"Add": true, "Sub": true, "Mul": true, "Set": true, "SetUint64": true, "SetInt64": true, "Neg": true, "Div": true, "Mod": true, "SetBytes": true, "Lsh": true, "Rsh": true, "Exp": true, "Quo": true, "Rem": true, "Abs": true, "SetString": true, "SetBit": true, "And": true, "Or": true, "Xor": true, "Not": true}
		bad := []string{}
		n := 0
		for _, fn := range p.Funcs {
			if fn.Pkg == nil || ir.RelPkg(fn.Pkg.Pkg) != "state" {
				continue
			}
			ir.Instrs(fn, func(in ssa.Instruction) {
				call, ok := in.(*ssa.Call)
				if !ok {
					return
				}
				cn := ir.CalleeName(call)
				if !strings.HasPrefix(cn, "big.Int.") || !mut[strings.TrimPrefix(cn, "big.Int.")] {
					return
				}
				n++
				recv := Arg(call, 0)
				if regexp.MustCompile(`\.data\.(Balance|Tokens)`).MatchString(recv) {
					bad = append(bad, ir.FuncName(fn)+": "+short(ir.RenderCall(call), 120))
				}
			})
		}
		r.Stats["big.Int mutator calls in state"] = n
		r.Check("K3", "no-in-place-balance-mutation", "-", len(bad) == 0, fmt.Sprintf("no big.Int mutator has a stored balance as its receiver (shared *big.Int values stay immutable): %v", bad))
	}
	// the mempool's check state is mutated by CheckState under LockState; a reader that copies or
	// queries it must hold the same lock for the whole operation (a Copy() taken after UnlockState
	// races with SubBalance/SetNonce: torn copy, or a concurrent map iteration and write)
	{
		fv := p.Field("app", "LinkApplication.checkTxState")
		n := 0
		for _, f := range p.Funcs {
			if f.Pkg == nil || ir.RelPkg(f.Pkg.Pkg) != "app" || f.Blocks == nil || f.Parent() != nil || len(f.Params) == 0 || strings.HasSuffix(p.Pos(f.Pos()), "_test.go") {
				continue
			}
			if f.Name() == "State" || strings.HasPrefix(f.Name(), "NewLinkApplication") {
				continue // the TxCensor accessor (callers hold LockState, C15) and the constructor
			}
			// the state-lock wrapper's mutex field
			mtxIdx := -1
			var recv ssa.Value
			ir.Instrs(f, func(in ssa.Instruction) {
				if op, ok := lockOpOf(in); ok && strings.HasSuffix(op.Mtx, ".stateLock") {
					mtxIdx, recv = op.Field, op.Owner
				}
			})
			ir.Instrs(f, func(in ssa.Instruction) {
				u, ok := in.(*ssa.UnOp)
				if !ok {
					return
				}
				fa, ok := u.X.(*ssa.FieldAddr)
				if !ok || fieldVarOf(fa) != fv || u.Referrers() == nil {
					return
				}
				for _, use := range *u.Referrers() {
					call, isCall := use.(*ssa.Call)
					if !isCall {
						continue
					}
					n++
					held := mtxIdx >= 0 && lockHeldAt(f, call, recv, mtxIdx, false)
					r.Check("K10", "app.checkTxState/used-under-state-lock/"+ir.FuncName(f), p.InstrPos(call), held, "the check state is read while LockState is held (through the end of the operation): "+short(ir.RenderInstr(call), 80))
				}
			})
		}
		r.Check("K10", "app.checkTxState/uses", "-", n >= 4, fmt.Sprintf("%d operations on the loaded check state found in package app", n))
	}

	// a copy of the flat/trie wrapper copies the backing Merkle trie whenever there is one (trie storage
	// mode), unconditionally: sharing it makes a write of one copy visible in the original and in siblings
	{
		ct := p.Func("state", "wrappedDB.CopyTrie")
		n := 0
		for _, call := range ir.Calls(ct, "state.Database.CopyTrie") {
			n++
			extra := []string{}
			for _, fct := range ir.FactsAt(call.(ssa.Instruction)) {
				if strings.HasSuffix(fct.Atom, ".isTrie") || strings.HasSuffix(fct.Atom, ".(*state.wrappedTrie)#1") {
					continue
				}
				extra = append(extra, fct.Atom)
			}
			r.Check("K5", "state.(*wrappedDB).CopyTrie/backing-trie-copied-whenever-trie-mode", p.InstrPos(call.(ssa.Instruction)), len(extra) == 0, fmt.Sprintf("the copy of the backing trie depends on isTrie only; extra conditions %v", extra))
		}
		c.MustFind("K5", "state.(*wrappedDB).CopyTrie/copy", ct, n, "oldDB.CopyTrie call")
		// and the literal does not fall back to the source's own trie
		ir.Instrs(ct, func(in ssa.Instruction) {
			if st, ok := in.(*ssa.Store); ok && strings.HasSuffix(ir.Render(st.Addr), ".oldTrie") {
				v := ir.Render(st.Val)
				r.Check("K5", "state.(*wrappedDB).CopyTrie/never-the-source-trie", p.InstrPos(in), !strings.Contains(v, "t.(*state.wrappedTrie)#0.oldTrie") || strings.Contains(v, "CopyTrie("), "the new wrapper never holds the source's backing trie object: "+short(v, 100))
			}
		})
	}
}

func c09DeepCopy(c C) {
	p, r := c.P, c.R
	fn := p.Func("state", "stateObject.deepCopy")
	name := "state.(*stateObject).deepCopy"
	so := p.Struct("state", "stateObject")
	acc := p.Struct("state", "Account")
	// the constructor call and its data argument
	calls := ir.Calls(fn, "state.newObject")
	if !c.MustFind("K4", name+"/newObject", fn, len(calls), "newObject call") {
		return
	}
	ctor := calls[0]
	newObj := "state.newObject(" + Arg(ctor, 0) + "," + Arg(ctor, 1) + "," + Arg(ctor, 2) + ")"
	// direct field assignments on the new object
	direct := map[string]string{}
	ir.Instrs(fn, func(in ssa.Instruction) {
		st, ok := in.(*ssa.Store)
		if !ok {
			return
		}
		fa, ok := st.Addr.(*ssa.FieldAddr)
		if !ok {
			return
		}
		if ir.Render(fa.X) == newObj {
			direct[ir.FieldVar(fa.X, fa.Field).Name()] = ir.Render(st.Val)
		}
	})
	viaCtor := map[string]bool{"db": true, "address": true, "addrHash": true, "data": true, "originStorage": true, "dirtyStorage": true}
	exempt := map[string]string{"dbErr": "errors are not carried into a copy", "db": "the new owner"}
	for i := 0; i < so.NumFields(); i++ {
		f := so.Field(i).Name()
		if why, ok := exempt[f]; ok {
			r.Check("K4", name+"/exempt:"+f, p.Pos(so.Field(i).Pos()), true, why)
			continue
		}
		_, d := direct[f]
		r.Check("K4", name+"/assigns:"+f, p.Pos(so.Field(i).Pos()), d || viaCtor[f], "deepCopy sets every field of stateObject (directly: "+direct[f]+")")
	}
	// aliasing of reference-typed fields of stateObject
	pure := regexp.MustCompile(`^c(\.\w+)+$`)
	for i := 0; i < so.NumFields(); i++ {
		f := so.Field(i)
		switch f.Type().Underlying().(type) {
		case *types.Map:
			v, ok := direct[f.Name()]
			r.Check("K4", name+"/no-alias:"+f.Name(), p.Pos(f.Pos()), ok && !pure.MatchString(v), "map field of the copy must be a fresh map, not the source's: "+v)
		}
	}
	// Account fields: what the data argument carries
	dataArg := ctor.Common().Args[2]
	over := map[string]string{}
	whole := ir.Render(dataArg)
	if u, ok := dataArg.(*ssa.UnOp); ok {
		if al, ok := u.X.(*ssa.Alloc); ok {
			for _, ref := range *al.Referrers() {
				switch x := ref.(type) {
				case *ssa.Store:
					if x.Addr == al {
						whole = ir.Render(x.Val)
					}
				case *ssa.FieldAddr:
					for _, rr := range *x.Referrers() {
						if st, ok := rr.(*ssa.Store); ok && st.Addr == x && ir.Precedes(st, ctor) {
							over[ir.FieldVar(x.X, x.Field).Name()] = ir.Render(st.Val)
						}
					}
				}
			}
		}
	}
	r.Check("K4", name+"/data-source", p.InstrPos(ctor), whole == "c.data", "the account data of the copy comes from c.data: "+whole)
	for i := 0; i < acc.NumFields(); i++ {
		f := acc.Field(i)
		switch f.Type().Underlying().(type) {
		case *types.Map:
			v, ok := over[f.Name()]
			r.Check("K4", name+"/no-alias:Account."+f.Name(), p.Pos(f.Pos()), ok && !pure.MatchString(v) && strings.Contains(v, "("),
				"map field of the copied account must be a fresh map (c.data is copied by value, which shares maps); value: "+v)
		case *types.Pointer, *types.Slice:
			r.Check("K4", name+"/shared-immutable:Account."+f.Name(), p.Pos(f.Pos()), true, "pointer/slice shared with the source; sound because the value is only ever replaced (see K3 no-in-place-balance-mutation; CodeHash is assigned from a fresh array slice)")
		}
	}
	// the fresh token map is filled from the source inside deepCopy
	filled := false
	ir.Instrs(fn, func(in ssa.Instruction) {
		if mu, ok := in.(*ssa.MapUpdate); ok && strings.Contains(ir.Render(mu.Key), "rangekey(c.data.Tokens)") {
			filled = true
		}
	})
	r.Check("K4", name+"/tokens-copied", p.Pos(fn.Pos()), filled, "every entry of c.data.Tokens is copied into the fresh map")

	// StateDB.Copy field coverage
	cp := p.Func("state", "StateDB.Copy")
	sd := p.Struct("state", "StateDB")
	set := map[string]string{}
	ir.Instrs(cp, func(in ssa.Instruction) {
		if st, ok := in.(*ssa.Store); ok {
			if fa, ok := st.Addr.(*ssa.FieldAddr); ok {
				if al, ok := fa.X.(*ssa.Alloc); ok && strings.Contains(al.Type().String(), "StateDB") {
					set[ir.FieldVar(fa.X, fa.Field).Name()] = ir.Render(st.Val)
				}
			}
		}
	})
	ex := map[string]string{"dbErr": "errors are not carried over", "validRevisions": "snapshots do not carry over to a copy", "nextRevisionId": "snapshots do not carry over",
		"thash": "per-transaction context, set by Prepare before use", "bhash": "per-transaction context", "txIndex": "per-transaction context"}
	for i := 0; i < sd.NumFields(); i++ {
		f := sd.Field(i)
		if why, ok := ex[f.Name()]; ok {
			r.Check("K4", "state.(*StateDB).Copy/exempt:"+f.Name(), p.Pos(f.Pos()), true, why)
			continue
		}
		v, ok := set[f.Name()]
		fresh := true
		switch f.Type().Underlying().(type) {
		case *types.Map:
			fresh = strings.HasPrefix(v, "make(")
		case *types.Pointer:
			if f.Name() == "journal" {
				fresh = v == "state.newJournal()"
			}
		}
		if f.Name() == "trie" {
			fresh = strings.Contains(v, "CopyTrie(")
		}
		r.Check("K4", "state.(*StateDB).Copy/field:"+f.Name(), p.Pos(f.Pos()), ok && fresh, "copy sets the field from a fresh value: "+v)
	}
	// objects are deep-copied, logs element-wise
	nDC := 0
	for _, call := range ir.Calls(cp, "state.stateObject.deepCopy") {
		nDC++
		r.Check("K4", "state.(*StateDB).Copy/deepCopy-owner", p.InstrPos(call), strings.HasPrefix(Arg(call, 1), "&new:state.StateDB") || Arg(call, 1) == "state", "objects are deep-copied into the new StateDB: "+Arg(call, 1))
	}
	r.Check("K4", "state.(*StateDB).Copy/objects-deep-copied", p.Pos(cp.Pos()), nDC >= 2, "dirty objects (journal.dirties and stateObjectsDirty) are deep-copied")
	// no store of a source object pointer into the copy's stateObjects
	okObj := true
	ir.Instrs(cp, func(in ssa.Instruction) {
		if mu, ok := in.(*ssa.MapUpdate); ok && strings.Contains(ir.Render(mu.Map), "stateObjects") && !strings.Contains(ir.Render(mu.Map), "Dirty") {
			if !strings.Contains(ir.Render(mu.Value), "deepCopy(") {
				okObj = false
			}
		}
	})
	r.Check("K4", "state.(*StateDB).Copy/no-shared-object", p.Pos(cp.Pos()), okObj, "only deep copies are installed in the copy's stateObjects")
	logOK := false
	// the element-wise copy may sit in Copy itself or in a private helper it calls
	scan := []*ssa.Function{cp}
	ir.Instrs(cp, func(in ssa.Instruction) {
		if call, ok := in.(*ssa.Call); ok {
			if callee := call.Call.StaticCallee(); callee != nil && callee.Blocks != nil && callee.Pkg == cp.Pkg && callee != cp {
				scan = append(scan, callee)
			}
		}
	})
	for _, fn := range scan {
		ir.Instrs(fn, func(in ssa.Instruction) {
			if st, ok := in.(*ssa.Store); ok {
				if strings.HasPrefix(ir.Render(st.Addr), "&make([]*types.Log") && strings.HasPrefix(ir.Render(st.Val), "&new:types.Log") {
					logOK = true
				}
			}
		})
	}
	// and what is installed under the copy's logs is never the source slice itself
	ir.Instrs(cp, func(in ssa.Instruction) {
		if mu, ok := in.(*ssa.MapUpdate); ok && strings.Contains(ir.Render(mu.Map), "logs") {
			if v := ir.Render(mu.Value); strings.HasPrefix(v, "rangeval(") || strings.HasPrefix(v, "s.logs[") {
				logOK = false
			}
		}
	})
	r.Check("K4", "state.(*StateDB).Copy/logs-elementwise", p.Pos(cp.Pos()), logOK, "each log is copied into a new Log value")
	// Storage.Copy is a fresh map filled from the source
	sc := p.Func("state", "Storage.Copy")
	okSC := false
	for _, rt := range ir.Returns(sc) {
		if strings.HasPrefix(ir.Render(rt.Results[0]), "make(state.Storage") {
			okSC = true
		}
	}
	r.Check("K4", "state.Storage.Copy/fresh", p.Pos(sc.Pos()), okSC, "Storage.Copy returns a fresh map")
}

var _ = report.Discharged

// journalDirtyCounts: see the call in C09 (shared with C06: a reverted transfer whose account drops out of
// the dirty set is not finalised and its balance change is lost from the state root).
func journalDirtyCounts(c C) {
	p, r := c.P, c.R
	dv := p.Field("state", "journal.dirties")
	allowedW := map[string]bool{"state.(*journal).append": true, "state.(*journal).revert": true, "state.(*journal).dirty": true, "state.newJournal": true}
	nInc, nDec, nDel := 0, 0, 0
	for _, st := range p.Stores(dv) {
		fn := ir.FuncName(ir.EnclosingTop(st.Fn))
		if strings.HasSuffix(p.Pos(st.Fn.Pos()), "_test.go") {
			continue
		}
		if !allowedW[fn] {
			r.Check("K3", "dirty-count/who-may-write/"+fn, p.InstrPos(st.Instr), false, "journal.dirties is maintained only by journal.append/revert/dirty")
			continue
		}
		switch st.Kind {
		case "mapupdate":
			mu := st.Instr.(*ssa.MapUpdate)
			k, v := ir.Render(mu.Key), ir.Render(mu.Value)
			switch fn {
			case "state.(*journal).append", "state.(*journal).dirty":
				nInc++
				r.Check("K2", "dirty-count/"+fn+"/increments-by-one", p.InstrPos(st.Instr), v == "(j.dirties["+k+"] + 1)", "dirties["+k+"] = "+v)
			case "state.(*journal).revert":
				nDec++
				r.Check("K2", "dirty-count/"+fn+"/decrements-by-one", p.InstrPos(st.Instr), v == "(j.dirties["+k+"] - 1)" && strings.Contains(k, "journalEntry.dirtied(j.entries[φ:i])"), "dirties["+k+"] = "+v)
			}
		case "mapdelete":
			nDel++
			call := st.Instr.(*ssa.Call)
			k := ir.Render(call.Call.Args[1])
			okZ := ir.HasFact(ir.FactsAt(st.Instr), "eq(j.dirties["+k+"],0) || le(j.dirties["+k+"],0)")
			// the zero test must see the decremented count: a decrement of the same key precedes the delete
			okDec := false
			for _, st2 := range p.Stores(dv) {
				if st2.Fn == st.Fn && st2.Kind == "mapupdate" && ir.Render(st2.Instr.(*ssa.MapUpdate).Key) == k && ir.Precedes(st2.Instr, st.Instr) {
					okDec = true
				}
			}
			r.Check("K1", "dirty-count/"+fn+"/delete-only-at-zero", p.InstrPos(st.Instr), okZ && okDec, "delete(j.dirties, "+k+") only after the decrement and under count == 0")
		}
	}
	r.Check("K2", "dirty-count/shape", p.Pos(dv.Pos()), nInc >= 2 && nDec == 1 && nDel == 1, fmt.Sprintf("append and dirty increment (%d), revert decrements once per entry (%d) and deletes at zero (%d)", nInc, nDec, nDel))
}
