# Per-property claims. Edited as checks are implemented. exec()'d by gen_manifest.py.
PENDING = "check not implemented yet in this round (see DESIGN.md section 4 for the planned structural clauses)"
for _p in ["C%02d" % i for i in range(1, 21)]:
    na(_p, PENDING)
