package props

import (
	"fmt"
	"sort"
	"strings"

	"golang.org/x/tools/go/ssa"

	"lkcheck/ir"
	"lkcheck/report"
)

// Lock pairing (K10, all properties): "every acquire is released on all exits".
//
// For every function defined in a property's anchor files that BOTH locks and unlocks a mutex itself
// (so pairing inside the function is what the author intended; Lock()/Unlock() wrapper methods and
// lock-handoff protocols are not touched), every path from a Lock()/RLock() that is not covered by a
// deferred unlock to a return passes the matching Unlock()/RUnlock() of the same mutex. A leaked
// read lock blocks the next writer forever, a leaked write lock everyone: after one failed disk write
// the node hangs instead of reporting.
//
// Paths that end in panic / os.Exit are pruned (the engine's pruned CFG), a deferred unlock anywhere
// in the function (directly or in a deferred closure) covers all exits.

func mutexCallKind(name string) (kind string, acquire bool) {
	switch {
	case strings.HasSuffix(name, "Mutex.Lock"):
		return "w", true
	case strings.HasSuffix(name, "Mutex.Unlock"):
		return "w", false
	case strings.HasSuffix(name, "RWMutex.RLock"):
		return "r", true
	case strings.HasSuffix(name, "RWMutex.RUnlock"):
		return "r", false
	}
	return "", false
}

func lockPairing(p *ir.Program, r *report.R, files map[string]bool) {
	type site struct {
		fn  *ssa.Function
		in  ssa.Instruction
		mtx string
		k   string
	}
	var fns []*ssa.Function
	for _, f := range p.Funcs {
		if f.Blocks == nil || f.Parent() != nil || !files[fileOf(p, f)] {
			continue
		}
		fns = append(fns, f)
	}
	sort.Slice(fns, func(i, j int) bool { return ir.FuncName(fns[i]) < ir.FuncName(fns[j]) })
	nFn, nLocks := 0, 0
	for _, f := range fns {
		var acq []site
		rel := map[string]bool{}      // mutex+kind released by a plain call
		deferred := map[string]bool{} // mutex+kind released by a defer (here or in a deferred closure)
		ir.InstrsDeep(f, func(g *ssa.Function, in ssa.Instruction) {
			op, ok := lockOpOf(in)
			if !ok {
				return
			}
			k, isAcq, m, isDefer := op.Kind, op.Acquire, op.Mtx, op.Deferred
			switch {
			case isAcq && g == f && !isDefer:
				acq = append(acq, site{f, in, m, k})
			case !isAcq && (isDefer || g != f && closureDeferredIn(f, g)):
				deferred[m+"/"+k] = true
			case !isAcq && g == f:
				rel[m+"/"+k] = true
			}
		})
		if len(acq) == 0 {
			continue
		}
		checked := false
		var bad []string
		pos := p.Pos(f.Pos())
		for _, a := range acq {
			key := a.mtx + "/" + a.k
			if deferred[key] || !rel[key] {
				continue // covered by a defer, or released elsewhere by design
			}
			checked = true
			nLocks++
			isRel := func(in ssa.Instruction) bool {
				if _, isCall := in.(*ssa.Call); !isCall {
					return false
				}
				op, ok := lockOpOf(in)
				return ok && op.Kind == a.k && !op.Acquire && op.Mtx == a.mtx
			}
			if found, hit, tr := ir.FindPath(ir.PathQuery{From: ir.At(a.in), Target: ir.IsReturn, Avoid: isRel}); found {
				bad = append(bad, fmt.Sprintf("%s locked at %s is still held at the return %s (blocks %v)", a.mtx, p.InstrPos(a.in), p.InstrPos(hit), tr))
				pos = p.InstrPos(hit)
			}
		}
		if checked {
			nFn++
			r.Check("K10", "lock-released-on-every-exit/"+ir.FuncName(f), pos, len(bad) == 0, "every Lock()/RLock() paired with an unlock in this function is released on every path to a return: "+strings.Join(bad, " ; "))
		}
	}
	r.Note("lock pairing: %d functions with in-function lock/unlock pairs, %d acquisitions followed to every return", nFn, nLocks)
}

// closureDeferredIn: g is a function literal of f that f defers.
func closureDeferredIn(f, g *ssa.Function) bool {
	if g.Parent() != f {
		return false
	}
	for _, b := range f.Blocks {
		for _, in := range b.Instrs {
			if d, ok := in.(*ssa.Defer); ok {
				if mc, ok := d.Call.Value.(*ssa.MakeClosure); ok && mc.Fn == g {
					return true
				}
				if fn, ok := d.Call.Value.(*ssa.Function); ok && fn == g {
					return true
				}
			}
		}
	}
	return false
}
