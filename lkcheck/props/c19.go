package props

import (
	"fmt"
	"go/types"
	"sort"
	"strings"

	"golang.org/x/tools/go/ssa"

	"lkcheck/ir"
	"lkcheck/report"
)

func init() { Registry["C19"] = C19 }

// deepCalls collects the call instructions of fn, its closures, and of
// same-package static callees up to depth levels.
func deepCalls(fn *ssa.Function, depth int, seen map[*ssa.Function]bool) []ssa.CallInstruction {
	if fn == nil || seen[fn] || fn.Blocks == nil {
		return nil
	}
	seen[fn] = true
	var out []ssa.CallInstruction
	ir.InstrsDeep(fn, func(_ *ssa.Function, in ssa.Instruction) {
		c, ok := in.(ssa.CallInstruction)
		if !ok {
			return
		}
		out = append(out, c)
		if depth > 0 {
			if callee := c.Common().StaticCallee(); callee != nil && callee.Pkg == fn.Pkg {
				out = append(out, deepCalls(callee, depth-1, seen)...)
			}
		}
	})
	return out
}

// C19 storage backends: sibling agreement only.
func C19(p *ir.Program, r *report.R) {
	c := C{p, r}
	r.Floor = 120
	r.Explain = "Decided (Engler-style sibling cross-check over the matrix backend x method; equivalence with an ordered map over histories is ADDED after seeded-change testing: On-disk batch Write/Commit/WriteSync reach the shard flush loop (or the sibling they delegate to) on every path; iterator positioning tables for goleveldb and bolt (constructor and Seek): forward/nil First, forward/start Seek, reverse/nil Last, reverse/start Seek then Prev when past start and Last when off the end; PrefixToEnd truncates after the incremented byte. NOT decided): every backend / batch / iterator type implements the full DB / Batch / Iterator interface; key and value arguments are normalised with nonNilBytes before they reach the backend primitive, in every backend and method, directly or through the sibling the method delegates to (exemptions with reasons); twin methods inside a backend (Get~Load, Has~Exist, Set~Put~SetSync, Delete~Del~DeleteSync) reach the same primitive; batch atomicity shape: memBatch.write holds the database mutex around the whole loop and applies the operations in slice order; an on-disk batch must hand the whole batch to ONE atomic primitive — the sharded backends issue one write per shard from concurrent goroutines (known findings, relevant when db_counts > 1) and Commit assigns its error result from several goroutines; prefixDB routes every key through prefixed(key) and every batch key through the prefix; the shard of a key is a pure function of the key. Rounds 4-5: every batch Reset zeroes its counter; cpDecr returns nil on underflow; no write path sorts the queued operations with an unstable sort; prefixIterator.Next closes the source when it leaves the view; the prefixing rule is name-independent (what reaches the wrapped store is prefix ++ key). Round 6: the prefix operand of every prefixed key is a copy (cp), and no append in prefix_db.go lands on a view's own prefix slice, also through helper parameters. Round 7: cpIncr returns nil on overflow; memDBIterator.Close invalidates the iterator. NOT decided: iterator order/bounds behaviour, reopen, atomicity on disk."
	r.Trusted = []string{"goleveldb, boltdb, badger (third-party)", "murmur3"}

	dbI := p.Obj("libs/db", "DB").Type().Underlying().(*types.Interface)
	batI := p.Obj("libs/db", "Batch").Type().Underlying().(*types.Interface)
	itI := p.Obj("libs/db", "Iterator").Type().Underlying().(*types.Interface)
	impl := func(name string, iface *types.Interface, what string) {
		o := p.Obj("libs/db", name)
		ok := types.Implements(o.Type(), iface) || types.Implements(types.NewPointer(o.Type()), iface)
		r.Check("K5", "implements/"+name+":"+what, p.Pos(o.Pos()), ok, name+" implements the full "+what+" interface")
	}
	backends := []string{"MemDB", "GoLevelDB", "BoltDB", "BadgerDB", "prefixDB"}
	for _, b := range backends {
		impl(b, dbI, "DB")
	}
	for _, b := range []string{"memBatch", "goLevelDBBatch", "boltBatch", "badgerBatch", "prefixBatch"} {
		impl(b, batI, "Batch")
	}
	for _, b := range []string{"memDBIterator", "goLevelDBIterator", "boltIterator", "badgerIterator", "prefixIterator"} {
		if p.TryObj("libs/db", b) != nil {
			impl(b, itI, "Iterator")
		}
	}

	// ---- normalisation matrix ---------------------------------------------------------
	keyMethods := []string{"Get", "Load", "Has", "Exist", "Set", "Put", "SetSync", "Delete", "Del", "DeleteSync"}
	valMethods := map[string]bool{"Set": true, "Put": true, "SetSync": true}
	exempt := map[string]string{
		"prefixDB": "prefixed(key) = append(prefix, key...) absorbs a nil key; values are passed to the underlying backend, which normalises them",
	}
	cells := 0
	for _, b := range backends {
		for _, m := range keyMethods {
			fn := p.TryFunc("libs/db", b+"."+m)
			if fn == nil {
				r.Undecided("K5", "normalise/"+b+"."+m, "-", "method not found")
				continue
			}
			cells++
			calls := deepCalls(fn, 2, map[*ssa.Function]bool{})
			normKey, normVal := false, false
			for _, call := range calls {
				if ir.CalleeName(call) == "db.nonNilBytes" {
					a := Arg(call, 0)
					if a == "key" {
						normKey = true
					}
					if a == "value" || a == "val" {
						normVal = true
					}
				}
			}
			if b == "MemDB" {
				// the in-memory store is keyed by string(key): a nil and an empty key coincide without normalisation
				r.Check("K5", "normalise/"+b+"."+m+"/key", p.Pos(fn.Pos()), true, "exempt: map key is string(key), which is the same for nil and empty keys")
				if valMethods[m] {
					r.Check("K5", "normalise/"+b+"."+m+"/value", p.Pos(fn.Pos()), normVal, "the value is normalised with nonNilBytes, as in the sibling backends")
				}
				continue
			}
			if why, ok := exempt[b]; ok {
				// prefixDB: the key must go through prefixed()
				// (whatever the prefixing function is called: what reaches the wrapped store is prefix ++ key)
				pk, nPrim := true, 0
				for _, call := range ir.Calls(fn, "db.DB."+m) {
					if len(call.Common().Args) == 0 {
						continue
					}
					nPrim++
					if !prefixPlusKey(call.Common().Args[0], "pdb.prefix") {
						pk = false
					}
				}
				r.Check("K5", "normalise/"+b+"."+m+"/key", p.Pos(fn.Pos()), pk && nPrim > 0, "exempt from nonNilBytes ("+why+"); instead the key handed to the wrapped store is prefix ++ key")
				continue
			}
			r.Check("K5", "normalise/"+b+"."+m+"/key", p.Pos(fn.Pos()), normKey, "the key is normalised with nonNilBytes before the primitive (directly or in the sibling/helper it delegates to), as in the sibling backends")
			if valMethods[m] {
				r.Check("K5", "normalise/"+b+"."+m+"/value", p.Pos(fn.Pos()), normVal, "the value is normalised with nonNilBytes, as in the sibling backends")
			}
		}
	}
	for _, b := range []string{"goLevelDBBatch", "boltBatch", "badgerBatch"} {
		for _, m := range []string{"Set", "Delete"} {
			fn := p.TryFunc("libs/db", b+"."+m)
			if fn == nil {
				continue
			}
			cells++
			nk, nv := false, false
			for _, call := range deepCalls(fn, 1, map[*ssa.Function]bool{}) {
				// nonNilBytes, or cp (which always returns a non-nil copy: make([]byte, len))
				if cn := ir.CalleeName(call); cn == "db.nonNilBytes" || cn == "db.cp" {
					if Arg(call, 0) == "key" {
						nk = true
					}
					if Arg(call, 0) == "value" || Arg(call, 0) == "val" {
						nv = true
					}
				}
			}
			r.Check("K5", "normalise/"+b+"."+m+"/key", p.Pos(fn.Pos()), nk, "batch operations normalise the key like the direct methods")
			if m == "Set" {
				r.Check("K5", "normalise/"+b+"."+m+"/value", p.Pos(fn.Pos()), nv, "batch Set normalises the value like the direct methods")
			}
		}
	}
	r.Stats["matrix cells"] = cells

	// ---- twins reach the same primitive ---------------------------------------------------
	twins := [][]string{{"Get", "Load"}, {"Has", "Exist"}, {"Set", "Put", "SetSync"}, {"Delete", "Del", "DeleteSync"}}
	prims := func(fn *ssa.Function) string {
		set := map[string]bool{}
		for _, call := range deepCalls(fn, 2, map[*ssa.Function]bool{}) {
			n := ir.CalleeName(call)
			// primitives: calls that leave package db (third-party backends, maps, builtins on the store)
			if strings.HasPrefix(n, "leveldb.") || strings.HasPrefix(n, "bolt.") || strings.HasPrefix(n, "badger.") || n == "delete" {
				set[n] = true
			}
			if strings.HasPrefix(n, "db.DB.") || strings.HasPrefix(n, "db.MemDB.SetNoLock") || strings.HasPrefix(n, "db.MemDB.DeleteNoLock") {
				set[strings.TrimSuffix(strings.TrimSuffix(n, "Sync"), "NoLock")] = true
			}
		}
		// map stores of the in-memory backend
		ir.InstrsDeep(fn, func(_ *ssa.Function, in ssa.Instruction) {
			switch in.(type) {
			case *ssa.MapUpdate:
				set["map-store"] = true
			case *ssa.Lookup:
				set["map-load"] = true
			}
		})
		var ks []string
		for k := range set {
			ks = append(ks, k)
		}
		sort.Strings(ks)
		return strings.Join(ks, ",")
	}
	for _, b := range backends {
		for _, tw := range twins {
			ref := ""
			for i, m := range tw {
				fn := p.TryFunc("libs/db", b+"."+m)
				if fn == nil {
					continue
				}
				pr := prims(fn)
				if b == "prefixDB" {
					// wrappers delegate to the same-named method of the wrapped DB: compare modulo the method name
					pr = strings.NewReplacer("db.DB."+strings.TrimSuffix(m, "Sync"), "db.DB.<same>").Replace(pr)
				}
				if i == 0 {
					ref = pr
					continue
				}
				r.Check("K5", "twins/"+b+"."+tw[0]+"~"+m, p.Pos(fn.Pos()), pr == ref && pr != "", fmt.Sprintf("twin methods reach the same backend primitive: %s -> {%s}, %s -> {%s}", tw[0], ref, m, pr))
			}
		}
	}

	// ---- batch atomicity shape ------------------------------------------------------------------
	{
		w := p.Func("libs/db", "memBatch.write")
		name := "db.(*memBatch).write"
		lock := firstCall(w, "sync.Mutex.Lock")
		var unlock ssa.Instruction
		ir.Instrs(w, func(in ssa.Instruction) {
			if d, ok := in.(*ssa.Defer); ok && ir.CalleeName(d) == "sync.Mutex.Unlock" {
				unlock = in
			}
		})
		loops := ir.Loops(w)
		okShape := lock != nil && unlock != nil && len(loops) == 1
		if okShape {
			for _, call := range ir.Calls(w, "db.atomicSetDeleter.*NoLock*") {
				if !ir.Precedes(lock, call) && ir.HasFact(ir.FactsAt(lock), "!eq(db.atomicSetDeleter.Mutex(mBatch.db),nil)") {
					// lock is conditional on the db having a mutex; operations must not precede it
					found, _, _ := ir.FindPath(ir.PathQuery{From: ir.At(call), Target: func(in ssa.Instruction) bool { return in == lock }})
					if found {
						okShape = false
					}
				}
			}
		}
		r.Check("K10", name+"/lock-around-loop", p.Pos(w.Pos()), okShape, "the database mutex is taken before the first operation and released (deferred) after the last")
		okOrder := false
		ir.Instrs(w, func(in ssa.Instruction) {
			if call, ok := in.(*ssa.Call); ok && ir.CalleeName(call) == "db.atomicSetDeleter.SetNoLock" {
				if ir.Match("mBatch.ops[*].key", Arg(call, 1)) && ir.Match("mBatch.ops[*].value", Arg(call, 2)) {
					okOrder = true
				}
			}
		})
		r.Check("K10", name+"/slice-order", p.Pos(w.Pos()), okOrder, "operations are applied from mBatch.ops in index order with their own key and value")
		rs := p.Func("libs/db", "memBatch.Reset")
		okR := false
		for _, s := range p.Stores(p.Field("libs/db", "memBatch.ops")) {
			if s.Fn == rs {
				okR = true
			}
		}
		r.Check("K5", "db.(*memBatch).Reset/clears-ops", p.Pos(rs.Pos()), okR, "Reset clears the pending operations")
	}
	for _, b := range []struct{ typ, prim string }{
		{"goLevelDBBatch", "leveldb.DB.Write"}, {"boltBatch", "bolt.DB.Update"}, {"boltBatch", "bolt.DB.Batch"}, {"badgerBatch", "badger.WriteBatch.Flush"},
	} {
		for _, m := range []string{"Write", "Commit", "WriteSync"} {
			fn := p.TryFunc("libs/db", b.typ+"."+m)
			if fn == nil {
				continue
			}
			// where is the atomic primitive called, and how many times can it run per batch?
			var site ssa.Instruction
			var siteFn *ssa.Function
			ir.InstrsDeep(fn, func(f *ssa.Function, in ssa.Instruction) {
				if call, ok := in.(ssa.CallInstruction); ok && ir.CalleeName(call) == b.prim {
					site, siteFn = in, f
				}
			})
			if site == nil {
				continue
			}
			perShard := false
			// the call sits in a closure that is started with `go` inside a loop of fn, or directly in a loop
			if siteFn != fn {
				ir.Instrs(fn, func(in ssa.Instruction) {
					if g, ok := in.(*ssa.Go); ok {
						if mc, ok := g.Call.Value.(*ssa.MakeClosure); ok && mc.Fn == siteFn {
							for _, l := range ir.Loops(fn) {
								if ir.Info(fn).Dominates(l.Header, in.Block()) && in.Block() != l.Header {
									perShard = true
								}
							}
						}
					}
				})
			} else {
				for _, l := range ir.Loops(fn) {
					if ir.Info(fn).Dominates(l.Header, site.Block()) && site.Block() != l.Header {
						perShard = true
					}
				}
			}
			r.Check("K5", "batch-atomic/"+b.typ+"."+m+"/per-shard-loop", p.InstrPos(site), !perShard,
				"a batch must reach the backend's atomic primitive once; here "+b.prim+" runs once per shard (concurrently): with db_counts > 1 a batch is atomic per shard only")
		}
	}
	// racy error result in Commit
	for _, typ := range []string{"goLevelDBBatch", "boltBatch", "badgerBatch"} {
		fn := p.TryFunc("libs/db", typ+".Commit")
		if fn == nil {
			continue
		}
		racy := false
		for _, a := range fn.AnonFuncs {
			isGo := false
			ir.Instrs(fn, func(in ssa.Instruction) {
				if g, ok := in.(*ssa.Go); ok {
					if mc, ok := g.Call.Value.(*ssa.MakeClosure); ok && mc.Fn == a {
						isGo = true
					}
				}
			})
			if !isGo {
				continue
			}
			ir.Instrs(a, func(in ssa.Instruction) {
				if st, ok := in.(*ssa.Store); ok {
					if fv, ok := st.Addr.(*ssa.FreeVar); ok && fv.Name() == "retErr" {
						if len(ir.Calls(a, "sync.Mutex.Lock")) == 0 {
							racy = true
						}
					}
				}
			})
		}
		r.Check("K10", "batch-error/"+typ+".Commit/unsynchronised-result", p.Pos(fn.Pos()), !racy, "the error result of Commit is assigned from several goroutines without synchronisation (last writer wins; an error can be lost)")
	}
	// shard selection is a pure function of the key
	{
		di := p.Func("libs/db", "dbIndex")
		var bad []string
		ir.Instrs(di, func(in ssa.Instruction) {
			if call, ok := in.(*ssa.Call); ok {
				n := ir.CalleeName(call)
				if n == "time.Now" || strings.HasPrefix(n, "rand.") {
					bad = append(bad, n)
				}
			}
			if u, ok := in.(*ssa.UnOp); ok {
				if _, isG := u.X.(*ssa.Global); isG {
					bad = append(bad, "global:"+ir.Render(u))
				}
			}
		})
		r.Check("K7", "db.dbIndex/pure", p.Pos(di.Pos()), len(bad) == 0, fmt.Sprintf("the shard of a key depends only on the key and the shard count: %v", bad))
	}
	// prefix batch keys
	{
		for _, m := range []string{"Set", "Delete"} {
			fn := p.Func("libs/db", "prefixBatch."+m)
			ok := false
			for _, call := range ir.Calls(fn, "db.Batch."+m) {
				if len(call.Common().Args) > 0 && prefixPlusKey(call.Common().Args[0], "pb.prefix") {
					ok = true
				}
			}
			r.Check("K5", "db.prefixBatch."+m+"/prefixed-key", p.Pos(fn.Pos()), ok, "batch keys of a prefixed view carry the prefix")
		}
		// (that prefixed(key) = prefix ++ key is decided at every site that hands a key to the wrapped store:
		// normalise/prefixDB.*/key above)
	}
	_ = c

	// ---- a batch write flushes on every path ---------------------------------------------------
	// Write/Commit/WriteSync of an on-disk batch reach the shard loop (or the sibling they delegate
	// to) on every path from entry to return: no early return may skip the flush (a batch of only
	// deletes has "size" 0 in some backends and must still be written).
	for _, typ := range []string{"goLevelDBBatch", "boltBatch", "badgerBatch"} {
		for _, m := range []string{"Write", "Commit", "WriteSync"} {
			fn := p.TryFunc("libs/db", typ+"."+m)
			if fn == nil {
				continue
			}
			// flush points: shard-loop headers that contain a go/call of the flushing closure or primitive, and sibling calls
			flushBlocks := map[*ssa.BasicBlock]bool{}
			isFlushCall := func(in ssa.Instruction) bool {
				switch x := in.(type) {
				case *ssa.Go:
					return true
				case *ssa.Call:
					n := ir.CalleeName(x)
					return ir.Match("db."+typ+".*", n) && (strings.HasSuffix(n, ".Write") || strings.HasSuffix(n, ".Commit") || strings.HasSuffix(n, ".WriteSync")) ||
						ir.Match("leveldb.DB.Write", n) || ir.Match("bolt.DB.*", n) || ir.Match("badger.WriteBatch.Flush", n)
				}
				return false
			}
			for _, l := range ir.Loops(fn) {
				has := false
				for b := range l.Body {
					for _, in := range b.Instrs {
						if isFlushCall(in) {
							has = true
						}
					}
				}
				if has {
					flushBlocks[l.Header] = true
				}
			}
			via := func(in ssa.Instruction) bool {
				return flushBlocks[in.Block()] || isFlushCall(in)
			}
			c.MustPass("db.(*"+typ+")."+m, "flush-on-every-path", ir.Entry(fn), ir.IsReturn, via, nil, "every path from entry to return reaches the shard flush loop or the delegated sibling")
		}
	}

	// ---- iterator positioning tables ---------------------------------------------------------------
	// Where an iterator is placed for (direction, start): forward/nil -> First, forward/start -> Seek,
	// reverse/nil -> Last, reverse/start -> Seek then Prev when the seek landed after start and Last
	// when the seek ran off the end. A missing row makes a bounded reverse iteration empty or shifted.
	{
		type row struct {
			label, call string
			facts       []string
		}
		table := func(name string, fn *ssa.Function, rows []row) {
			for _, rw := range rows {
				found := false
				ir.InstrsDeep(fn, func(f *ssa.Function, in ssa.Instruction) {
					call, ok := in.(*ssa.Call)
					if !ok || !ir.Match(rw.call, ir.CalleeName(call)) {
						return
					}
					fs := ir.FactsAt(in)
					all := true
					for _, pat := range rw.facts {
						if !ir.HasFact(fs, pat) {
							all = false
						}
					}
					if all {
						found = true
					}
				})
				r.Check("K6", "iterator-position/"+name+"/"+rw.label, p.Pos(fn.Pos()), found, fmt.Sprintf("a call %s exists under %v", rw.call, rw.facts))
			}
		}
		lv := func(start string) []row {
			return []row{
				{"forward-nil:First", "iterator.Iterator.First", []string{"!*isReverse", "eq(" + start + ",nil)"}},
				{"forward-start:Seek", "iterator.Iterator.Seek", []string{"!*isReverse", "!eq(" + start + ",nil)"}},
				{"reverse-nil:Last", "iterator.Iterator.Last", []string{"*isReverse", "eq(" + start + ",nil)"}},
				{"reverse-start:Seek", "iterator.Iterator.Seek", []string{"*isReverse", "!eq(" + start + ",nil)"}},
				{"reverse-start-after:Prev", "iterator.Iterator.Prev", []string{"*isReverse", "*iterator.Iterator.Seek(*," + start + ")", "lt(bytes.Compare(" + start + ",*Key*),0)"}},
				{"reverse-start-off-end:Last", "iterator.Iterator.Last", []string{"*isReverse", "!eq(" + start + ",nil)", "!*iterator.Iterator.Seek(*," + start + ")"}},
			}
		}
		bl := func(start string) []row {
			return []row{
				{"forward-nil:First", "bolt.Cursor.First", []string{"!*isReverse", "eq(" + start + ",nil)"}},
				{"forward-start:Seek", "bolt.Cursor.Seek", []string{"!*isReverse", "!eq(" + start + ",nil)"}},
				{"reverse-nil:Last", "bolt.Cursor.Last", []string{"*isReverse", "eq(" + start + ",nil)"}},
				{"reverse-start:Seek", "bolt.Cursor.Seek", []string{"*isReverse", "!eq(" + start + ",nil)"}},
				{"reverse-start-after:Prev", "bolt.Cursor.Prev", []string{"*isReverse", "!eq(key,nil)", "lt(bytes.Compare(" + start + ",key),0)"}},
				{"reverse-start-off-end:Last", "bolt.Cursor.Last", []string{"*isReverse", "!eq(" + start + ",nil)", "eq(key,nil)"}},
			}
		}
		table("db.newGoLevelDBIterator", p.Func("libs/db", "newGoLevelDBIterator"), lv("start"))
		table("db.newBoltIterator", p.Func("libs/db", "newBoltIterator"), bl("start"))
		if f := p.TryFunc("libs/db", "boltIterator.Seek"); f != nil {
			table("db.(*boltIterator).Seek", f, bl("skey"))
		}
		if f := p.TryFunc("libs/db", "goLevelDBIterator.Seek"); f != nil {
			var rows []row
			for _, rw := range lv("key") {
				rows = append(rows, rw)
			}
			// report only rows that the function has at all (its shape is checked as a sibling of the constructor)
			n := 0
			ir.InstrsDeep(f, func(_ *ssa.Function, in ssa.Instruction) {
				if call, ok := in.(*ssa.Call); ok && ir.Match("iterator.Iterator.Last", ir.CalleeName(call)) {
					n++
				}
			})
			if n > 0 {
				table("db.(*goLevelDBIterator).Seek", f, rows)
			}
		}
	}

	// ---- the domain logic sits on UNRESTRICTED backend iterators ------------------------------------------
	// newGoLevelDBIterator / newBadgerIterator implement [start, end) (reverse: start inclusive from
	// above) themselves, by positioning and by IsKeyInDomain. They are handed iterators over the whole
	// key space: a backend-side range (leveldb util.Range has an EXCLUSIVE limit) silently removes the
	// inclusive reverse start. Badger iterators run in the direction the constructor is told.
	{
		n := 0
		for _, m := range []string{"Iterator", "ReverseIterator", "NewIteratorWithPrefix"} {
			fn := p.Func("libs/db", "GoLevelDB."+m)
			for _, call := range ir.Calls(fn, "leveldb.DB.NewIterator") {
				n++
				r.Check("K5", "iterator-source/db.(*GoLevelDB)."+m+"/whole-key-space", p.InstrPos(call.(ssa.Instruction)), Arg(call, 1) == "nil", "the backend iterator is created without a range: "+short(Arg(call, 1), 80))
			}
			bf := p.Func("libs/db", "BadgerDB."+m)
			for _, call := range ir.Calls(bf, "badger.Txn.NewIterator") {
				n++
				opt := Arg(call, 1)
				// the options value passed has Reverse set (a field store on the local copy) exactly in the reverse constructor
				rev := false
				ir.Instrs(bf, func(in ssa.Instruction) {
					if st, ok := in.(*ssa.Store); ok {
						if fa, ok := st.Addr.(*ssa.FieldAddr); ok {
							if fv := fieldVarOf(fa); fv != nil && fv.Name() == "Reverse" && ir.Render(st.Val) == "true" {
								rev = true
							}
						}
					}
				})
				okOpt := rev == (m == "ReverseIterator")
				r.Check("K5", "iterator-source/db.(*BadgerDB)."+m+"/direction", p.InstrPos(call.(ssa.Instruction)), okOpt, fmt.Sprintf("default options for forward, Reverse=true for reverse iteration: %s", short(opt, 100)))
			}
		}
		r.Check("K5", "iterator-source/sites", "-", n >= 6, fmt.Sprintf("%d backend iterator creations inspected (confirmed by hand: 3 + 3)", n))
	}

	// ---- the view's prefix is never appended to in place --------------------------------------------------------------
	// Every key and bound of a prefixed view is prefix ++ x built on a fresh copy of the prefix. An
	// `append(prefix, x...)` on the view's own slice (directly, or inside a helper that is handed the slice)
	// reuses its spare capacity: the second bound overwrites the first (pstart and pend of one iterator).
	{
		var bad []string
		nApp := 0
		for _, f := range p.Funcs {
			if f.Pkg == nil || ir.RelPkg(f.Pkg.Pkg) != "libs/db" || f.Blocks == nil || !strings.HasSuffix(fileOf(p, ir.EnclosingTop(f)), "prefix_db.go") {
				continue
			}
			ir.Instrs(f, func(in ssa.Instruction) {
				call, ok := in.(*ssa.Call)
				if !ok {
					return
				}
				if bi, isB := call.Call.Value.(*ssa.Builtin); !isB || bi.Name() != "append" || len(call.Call.Args) != 2 {
					return
				}
				nApp++
				dst := call.Call.Args[0]
				var srcs []string
				if q, isP := dst.(*ssa.Parameter); isP {
					idx := -1
					for i, x := range f.Params {
						if x == q {
							idx = i
						}
					}
					if fo, _ := f.Object().(*types.Func); fo != nil && idx >= 0 {
						for _, cs := range p.CallSites(fo) {
							if a := cs.Instr.Common().Args; idx < len(a) {
								srcs = append(srcs, ir.Render(a[idx]))
							}
						}
					}
				} else {
					srcs = []string{ir.Render(dst)}
				}
				for _, sname := range srcs {
					if strings.HasSuffix(sname, ".prefix") || sname == "prefix" {
						bad = append(bad, p.InstrPos(in)+": append onto "+sname)
					}
				}
			})
		}
		r.Check("K4", "db.prefix/never-appended-in-place", "-", len(bad) == 0 && nApp >= 3, fmt.Sprintf("%d appends in prefix_db.go, none onto a view's own prefix slice: %v", nApp, bad))
	}

	// ---- a batch is applied in the order it was queued --------------------------------------------------------
	// "set k=1; delete k; set k=2" must end with k=2: the write paths replay the queued operations in
	// queue order. No write path sorts them (sort.Slice / sort.Sort are not stable: two operations on the
	// same key may swap) or otherwise permutes the list.
	{
		n := 0
		for _, bt := range []string{"memBatch", "goLevelDBBatch", "boltBatch", "badgerBatch", "prefixBatch"} {
			for _, m := range []string{"Write", "WriteSync", "Commit", "write"} {
				fn := p.TryFunc("libs/db", bt+"."+m)
				if fn == nil {
					continue
				}
				n++
				var sorts []string
				ir.InstrsDeep(fn, func(_ *ssa.Function, in ssa.Instruction) {
					if c, ok := in.(ssa.CallInstruction); ok {
						if cn := ir.CalleeName(c); strings.HasPrefix(cn, "sort.") && cn != "sort.SliceStable" && cn != "sort.Stable" && !strings.HasPrefix(cn, "sort.Search") {
							sorts = append(sorts, p.InstrPos(in)+": "+cn)
						}
					}
				})
				r.Check("K5", "batch-order/db.(*"+bt+")."+m+"/no-reordering", p.Pos(fn.Pos()), len(sorts) == 0, fmt.Sprintf("the queued operations are replayed in queue order, never sorted by an unstable sort: %v", sorts))
			}
		}
		r.Check("K5", "batch-order/sites", "-", n >= 8, fmt.Sprintf("%d batch write paths inspected", n))
	}

	// ---- a prefixed iterator ends at the border of its view ---------------------------------------------------
	// prefixIterator has VALUE receivers: `itr.valid = false` in Next changes a copy. What ends the
	// iteration when the source steps onto a key of the neighbouring view is source.Close() — Valid()
	// asks the source. Every path of Next that reports false after moving the source closes it.
	{
		nx := p.Func("libs/db", "prefixIterator.Next")
		mv := firstCall(nx, "db.Iterator.Next")
		okC := mv != nil
		if mv != nil {
			found, hit, _ := ir.FindPath(ir.PathQuery{From: ir.At(mv), Target: func(in ssa.Instruction) bool {
				rt, ok := in.(*ssa.Return)
				if !ok {
					return false
				}
				for _, x := range ir.Returns(nx) {
					if x.Instr == rt {
						return ir.Render(x.Results[0]) == "false"
					}
				}
				return false
			}, Avoid: ir.CallMatcher("db.Iterator.Close")})
			okC = !found
			_ = hit
		}
		r.Check("K2", "db.prefixIterator.Next/leaving-the-view-closes-the-source", p.Pos(nx.Pos()), okC, "after moving the source, Next returns false only after source.Close() (the receiver is a copy: its valid flag does not survive the call)")
	}

	// ---- Reset empties a batch completely --------------------------------------------------------------------
	// Every batch counts what it queued in `size` (bolt flushes by itself when the count reaches its
	// maximum). Reset starts the batch over: it zeroes the counter in every backend, or a reused batch
	// object flushes part of a LATER batch on its own, before Write and even if that batch is abandoned.
	{
		n := 0
		for _, bt := range []string{"memBatch", "goLevelDBBatch", "boltBatch", "badgerBatch"} {
			fn := p.TryFunc("libs/db", bt+".Reset")
			if fn == nil {
				continue
			}
			n++
			zero := false
			for _, s := range p.Stores(p.Field("libs/db", bt+".size")) {
				if s.Fn == fn && ir.Render(s.Val) == "0" {
					zero = true
				}
			}
			found := false
			if zero {
				isZero := func(in ssa.Instruction) bool {
					st, ok := in.(*ssa.Store)
					return ok && strings.HasSuffix(ir.Render(st.Addr), ".size") && ir.Render(st.Val) == "0"
				}
				found, _, _ = ir.FindPath(ir.PathQuery{From: ir.Entry(fn), Target: ir.IsReturn, Avoid: isZero})
			}
			r.Check("K5", "batch-reset/db.(*"+bt+").Reset/size-zeroed", p.Pos(fn.Pos()), zero && !found, "Reset sets size = 0 on every path, like its siblings")
		}
		r.Check("K5", "batch-reset/sites", "-", n >= 4, fmt.Sprintf("%d Reset methods inspected", n))
	}

	// ---- cpDecr: the exclusive lower neighbour of a key, nil on underflow ------------------------------------
	// prefixDB.ReverseIterator computes its lower bound with cpDecr(prefix); for an all-zero prefix there
	// is no smaller key of the same length: nil ("from the very beginning"), never FF..FF
	{
		cd := p.Func("libs/db", "cpDecr")
		nNil, nOther := 0, 0
		for _, rt := range ir.Returns(cd) {
			v := ir.AbstractResult(rt.Results[0])
			if v == "nil" {
				nNil++
				continue
			}
			nOther++
			// a non-nil result is returned only right after decrementing a byte that was > 0
			r.Check("K11", "db.cpDecr/non-nil-only-after-a-decrement", p.InstrPos(rt.Instr), ir.HasFact(ir.FactsAt(rt.Instr), "lt(0,*[*])"), "the decremented copy is returned under ret[i] > 0")
		}
		r.Check("K11", "db.cpDecr/underflow-is-nil", p.Pos(cd.Pos()), nNil >= 1 && nOther == 1, fmt.Sprintf("all-zero input returns nil (%d nil returns, %d others)", nNil, nOther))
	}

	// ---- cpIncr: the exclusive upper neighbour of a prefix, nil on overflow ---------------------------------------------
	// The callers hand cpIncr(prefix) to the backend as the END of the view: nil means "no upper bound". For a
	// prefix of 0xFF bytes only there is no larger key of that length: nil, never 00..00 (an empty range).
	{
		ci := p.Func("libs/db", "cpIncr")
		nNil, nOther := 0, 0
		for _, rt := range ir.Returns(ci) {
			if ir.AbstractResult(rt.Results[0]) == "nil" {
				nNil++
				continue
			}
			nOther++
			r.Check("K11", "db.cpIncr/non-nil-only-after-an-increment", p.InstrPos(rt.Instr), ir.HasFact(ir.FactsAt(rt.Instr), "lt(*[*],255)"), "the incremented copy is returned under ret[i] < 0xFF")
		}
		r.Check("K11", "db.cpIncr/overflow-is-nil", p.Pos(ci.Pos()), nNil >= 1 && nOther == 1, fmt.Sprintf("all-0xFF (and empty) input returns nil (%d nil returns, %d others)", nNil, nOther))
	}

	// ---- a closed iterator is not valid ------------------------------------------------------------------------------------
	// prefixIterator ends an iteration by closing its source and asking the source (see above): the in-memory
	// iterator becomes invalid on Close by dropping its key list.
	{
		cl := p.Func("libs/db", "memDBIterator.Close")
		okC := false
		for _, st := range p.Stores(p.Field("libs/db", "memDBIterator.keys")) {
			if st.Fn == cl && ir.Render(st.Val) == "nil" {
				okC = true
			}
		}
		r.Check("K5", "db.(*memDBIterator).Close/invalidates", p.Pos(cl.Pos()), okC, "Close sets keys = nil, so Valid() is false afterwards (as for the backends that release a native iterator)")
	}

	// ---- a batch owns what it queues ------------------------------------------------------------------------
	// Between Set/Delete and Write the caller may reuse its key (and value) buffer: every batch either
	// copies the bytes itself or hands them to a backend call that does (goleveldb Batch.Put/Delete,
	// snappy.Encode into a fresh buffer). The caller's slice — or an alias of it (nonNilBytes returns its
	// argument) — is never stored, appended or passed on otherwise.
	{
		copying := []string{"db.cp", "db.cpWithoutNil", "db.dbIndex", "leveldb.Batch.Put", "leveldb.Batch.Delete", "snappy.Encode"}
		ownsEff := ir.DefaultEffects(p)
		n := 0
		for _, bt := range []string{"memBatch", "goLevelDBBatch", "boltBatch", "badgerBatch", "prefixBatch"} {
			for _, m := range []string{"Set", "Delete"} {
				fn := p.TryFunc("libs/db", bt+"."+m)
				if fn == nil {
					continue
				}
				n++
				var bad []string
				seen := map[ssa.Value]bool{}
				var follow func(v ssa.Value, what string)
				follow = func(v ssa.Value, what string) {
					if seen[v] || v.Referrers() == nil {
						return
					}
					seen[v] = true
					for _, u := range *v.Referrers() {
						switch x := u.(type) {
						case *ssa.Call:
							name := ir.CalleeName(x)
							if bi, isB := x.Call.Value.(*ssa.Builtin); isB {
								switch bi.Name() {
								case "len", "cap", "copy":
									continue
								case "append":
									if len(x.Call.Args) == 2 && x.Call.Args[1] == v && x.Call.Args[0] != v {
										// append(dst, v...) copies v's bytes; fine when dst is not the caller's slice
										continue
									}
								}
								bad = append(bad, fmt.Sprintf("%s: %s used by %s", p.InstrPos(x), what, bi.Name()))
								continue
							}
							if strings.HasSuffix(name, "db.nonNilBytes") {
								follow(x, what+" (through nonNilBytes)")
								continue
							}
							okc := false
							for _, c := range copying {
								if strings.HasSuffix(name, c) {
									okc = true
								}
							}
							// a prefixed batch forwards to the batch it wraps (checked on its own)
							if strings.HasSuffix(name, "db.Batch.Set") || strings.HasSuffix(name, "db.Batch.Delete") {
								okc = true
							}
							// a function of the package: what it does with the slice is followed inside it, and its
							// result is an alias unless everything it returns is freshly allocated
							if callee := x.Call.StaticCallee(); !okc && callee != nil && callee.Blocks != nil && callee.Pkg != nil && ir.RelPkg(callee.Pkg.Pkg) == "libs/db" && len(seen) < 200 {
								for i, a := range x.Call.Args {
									if a == v && i < len(callee.Params) {
										follow(callee.Params[i], what+" (inside "+callee.Name()+")")
									}
								}
								allFresh := true
								for _, rt := range ir.Returns(callee) {
									for _, rv := range rt.Results {
										if _, isSlice := rv.Type().Underlying().(*types.Slice); isSlice && !ownsEff.Fresh(rv) {
											allFresh = false
										}
									}
								}
								if !allFresh {
									follow(x, what+" (returned by "+callee.Name()+")")
								}
								continue
							}
							if !okc {
								bad = append(bad, fmt.Sprintf("%s: %s passed to %s", p.InstrPos(x), what, name))
							}
						case *ssa.Store:
							if x.Val == v {
								bad = append(bad, fmt.Sprintf("%s: %s stored at %s", p.InstrPos(x), what, short(ir.Render(x.Addr), 50)))
							}
						case *ssa.Slice:
							follow(x, what+" (resliced)")
						case *ssa.Phi:
							follow(x, what)
						case *ssa.MakeInterface, *ssa.MapUpdate:
							bad = append(bad, fmt.Sprintf("%s: %s retained", p.InstrPos(u.(ssa.Instruction)), what))
						}
					}
				}
				for i, q := range fn.Params {
					if i == 0 {
						continue
					}
					if _, isSlice := q.Type().Underlying().(*types.Slice); isSlice {
						follow(q, "the caller's "+q.Name())
					}
				}
				r.Check("K4", "batch-owns-its-bytes/db.(*"+bt+")."+m, p.Pos(fn.Pos()), len(bad) == 0, fmt.Sprintf("the caller's slices are copied (or handed to a copying backend call), never kept: %v", bad))
			}
		}
		r.Check("K4", "batch-owns-its-bytes/sites", "-", n >= 8, fmt.Sprintf("%d batch Set/Delete methods inspected", n))
	}

	// ---- keys built from an object's own slice are built on a copy ----------------------------------
	// append(obj.field, ...) returns a slice that shares obj.field's spare capacity: two keys built
	// that way overwrite each other (every queued batch operation of a prefixed view ends up with the
	// bytes of the last key). The first operand of append is fresh memory, or the result goes back
	// into the same field.
	{
		eff := ir.DefaultEffects(p)
		nApp := 0
		var bad []string
		for _, f := range p.Funcs {
			if f.Pkg == nil || ir.RelPkg(f.Pkg.Pkg) != "libs/db" || f.Blocks == nil || strings.HasSuffix(p.Pos(f.Pos()), "_test.go") {
				continue
			}
			ir.Instrs(f, func(in ssa.Instruction) {
				call, ok := in.(*ssa.Call)
				if !ok {
					return
				}
				bi, ok := call.Call.Value.(*ssa.Builtin)
				if !ok || bi.Name() != "append" {
					return
				}
				nApp++
				a0 := call.Call.Args[0]
				root := a0
				for k := 0; k < 8; k++ {
					if sl, ok := root.(*ssa.Slice); ok {
						root = sl.X
						continue
					}
					break
				}
				var fieldAddr ssa.Value
				switch x := root.(type) {
				case *ssa.UnOp:
					// the loaded slice itself must be fresh: a field of a by-value copy of the object
					// (value receiver) still shares the object's backing array
					if fa, ok := x.X.(*ssa.FieldAddr); ok && !eff.Fresh(x) {
						fieldAddr = fa
					}
				case *ssa.Field:
					if !eff.Fresh(x) {
						fieldAddr = x
					}
				}
				if fieldAddr == nil {
					return
				}
				// result stored back into the same field?
				back := false
				if call.Referrers() != nil {
					for _, ref := range *call.Referrers() {
						if st, ok := ref.(*ssa.Store); ok && ir.Render(st.Addr) == ir.Render(fieldAddr) {
							back = true
						}
					}
				}
				if !back {
					bad = append(bad, ir.FuncName(f)+": append("+ir.Render(a0)+", ...) at "+p.InstrPos(in))
				}
			})
		}
		sort.Strings(bad)
		r.Check("K4", "db/no-append-to-owned-slice", "-", len(bad) == 0 && nApp >= 10, fmt.Sprintf("%d append calls in libs/db inspected; appends that extend an object's own slice without writing the result back: %v", nApp, bad))
	}

	// ---- PrefixToEnd: the exclusive end of a prefix range ----------------------------------------
	// The limit is the prefix truncated after the last byte below 0xff, with that byte incremented.
	{
		fn := p.Func("libs/db", "PrefixToEnd")
		okLen, okCopy, okInc := false, false, false
		ir.Instrs(fn, func(in ssa.Instruction) {
			switch x := in.(type) {
			case *ssa.MakeSlice:
				if ir.Render(x.Len) == "(φ:i + 1)" && ir.HasFact(ir.FactsAt(in), "lt(prefix[φ:i],255)") {
					okLen = true
				}
			case *ssa.Call:
				if bi, ok := x.Call.Value.(*ssa.Builtin); ok && bi.Name() == "copy" && strings.HasPrefix(ir.Render(x.Call.Args[0]), "make([]byte,(φ:i + 1))") && ir.Render(x.Call.Args[1]) == "prefix" {
					okCopy = true
				}
			case *ssa.Store:
				if strings.HasPrefix(ir.Render(x.Addr), "&make([]byte,(φ:i + 1))[φ:i]") || strings.HasPrefix(ir.Render(x.Addr), "make([]byte,(φ:i + 1))[φ:i]") {
					okInc = ir.Render(x.Val) == "(prefix[φ:i] + 1)"
				}
			}
		})
		r.Check("K11", "db.PrefixToEnd/truncated-incremented", p.Pos(fn.Pos()), okLen && okCopy && okInc,
			fmt.Sprintf("limit = prefix[:i+1] with byte i incremented, for the last i with prefix[i] < 0xff (len %v, copy %v, increment %v)", okLen, okCopy, okInc))
	}

}

var _ = report.Discharged

// prefixPlusKey: v is `append(<copy of prefix>, key...)`, written in place or returned by a function
// of the package (read with the call's arguments in place of its parameters).
func prefixPlusKey(v ssa.Value, prefix string) bool {
	// (the prefix operand is a COPY: appending to the view's own prefix slice writes into its spare
	// capacity, where the previous key built the same way still lives)
	is := func(s string) bool {
		return strings.HasPrefix(s, "append(db.cp(") && strings.Contains(s, prefix) && strings.HasSuffix(s, ",key)") && !strings.Contains(s, "[")
	}
	if is(ir.Render(v)) {
		return true
	}
	call, ok := v.(*ssa.Call)
	if !ok {
		return false
	}
	callee := call.Call.StaticCallee()
	if callee == nil || callee.Blocks == nil || callee.Pkg == nil || ir.RelPkg(callee.Pkg.Pkg) != "libs/db" {
		return false
	}
	rets := ir.Returns(callee)
	for _, rt := range rets {
		if len(rt.Results) != 1 || !is(ir.RenderAt(call, rt.Results[0])) {
			return false
		}
	}
	return len(rets) > 0
}
