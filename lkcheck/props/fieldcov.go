package props

import (
	"encoding/json"
	"fmt"
	"go/types"
	"os"
	"path/filepath"
	"regexp"
	"sort"
	"strings"

	"golang.org/x/tools/go/ssa"

	"lkcheck/ir"
	"lkcheck/report"
)

// Field coverage of constructors, copies and resets (K4, all properties).
//
// A function that PRODUCES an object of a module struct type T (it allocates a T and returns it:
// constructors, Copy/Clone methods, conversions) sets a certain set of T's fields; a RESET method
// (Reset/Clear/Init/Cleanup...) stores a certain set of its receiver's fields. The committed table
// fields.json lists, per such function, the fields it set when the table was written. The rule: it
// still sets each of them (explicitly, or through a whole-struct copy `c := *orig`). A constructor
// that stops initialising a map, a Copy that stops carrying a cached total, a Reset that forgets a
// counter are reported with the function and the field — whatever the property, wherever the type.
//
// The table is inferred and then frozen, like guards.json: the unchanged tree is silent by
// construction. Fields added later are not in the table and nothing is claimed about them; a
// function whose shape no longer allows the analysis (the object now comes from another constructor)
// is skipped, not reported.

type fieldCovEntry struct {
	Type   string   `json:"type"`
	Kind   string   `json:"kind"` // produce | reset
	Fields []string `json:"fields"`
	// FromSame: (methods of T only) the fields whose stored value is derived from the SAME field of the
	// receiver — what a copy is: c.F comes from recv.F
	FromSame []string `json:"from_same,omitempty"`

	wholeCopy bool
}

var resetName = regexp.MustCompile(`^(?i:reset|clear|init|cleanup|restart|flush)[A-Z_]?\w*$`)

func moduleStruct(t types.Type) (*types.Named, *types.Struct) {
	if pt, ok := t.(*types.Pointer); ok {
		t = pt.Elem()
	}
	nt, ok := t.(*types.Named)
	if !ok || nt.Obj().Pkg() == nil || ir.RelPkg(nt.Obj().Pkg()) == "" {
		return nil, nil
	}
	st, ok := nt.Underlying().(*types.Struct)
	if !ok {
		return nil, nil
	}
	return nt, st
}

// fieldCoverage computes the entry of fn (nil when fn is neither a producer nor a reset method, or
// when its shape cannot be analysed).
func fieldCoverage(p *ir.Program, fn *ssa.Function) *fieldCovEntry {
	if fn.Blocks == nil || fn.Parent() != nil || fn.Synthetic != "" {
		return nil
	}
	var nt *types.Named
	var st *types.Struct
	kind := ""
	if res := fn.Signature.Results(); res.Len() >= 1 {
		nt, st = moduleStruct(res.At(0).Type())
		if nt != nil {
			kind = "produce"
		}
	}
	if kind == "" && fn.Signature.Recv() != nil && resetName.MatchString(fn.Name()) {
		if _, isPtr := fn.Signature.Recv().Type().(*types.Pointer); isPtr {
			nt, st = moduleStruct(fn.Signature.Recv().Type())
			if nt != nil {
				kind = "reset"
			}
		}
	}
	if kind == "" {
		return nil
	}
	isT := func(t types.Type) bool {
		if pt, ok := t.(*types.Pointer); ok {
			t = pt.Elem()
		}
		return types.Identical(t, nt)
	}
	// for a method of T that produces a T: which fields come from the receiver's same field
	recvName := ""
	same, notSame := map[string]bool{}, map[string]bool{}
	if kind == "produce" && fn.Signature.Recv() != nil && len(fn.Params) > 0 {
		if rt, _ := moduleStruct(fn.Signature.Recv().Type()); rt != nil && types.Identical(rt, nt) {
			recvName = ir.Render(fn.Params[0])
		}
	}
	// the objects whose stores count
	objs := map[ssa.Value]map[string]bool{}
	whole := map[ssa.Value]bool{}
	if kind == "reset" {
		objs[fn.Params[0]] = map[string]bool{}
	} else {
		for _, b := range fn.Blocks {
			for _, in := range b.Instrs {
				if al, ok := in.(*ssa.Alloc); ok {
					et := al.Type().(*types.Pointer).Elem()
					if types.Identical(et, nt) && !isParamSpill(al) {
						objs[al] = map[string]bool{}
					}
				}
			}
		}
		if len(objs) == 0 {
			return nil
		}
	}
	// resolve the root of an address to one of the objects, also through a transparent helper's parameter
	var resolve func(v ssa.Value, depth int) ssa.Value
	resolve = func(v ssa.Value, depth int) ssa.Value {
		root := ir.RootOf(v)
		if _, ok := objs[root]; ok {
			return root
		}
		if q, ok := root.(*ssa.Parameter); ok && depth < 3 && ir.IsTransparentHelper(q.Parent()) {
			idx := -1
			for i, x := range q.Parent().Params {
				if x == q {
					idx = i
				}
			}
			var found ssa.Value
			ir.Instrs(fn, func(in ssa.Instruction) {
				if c, ok := in.(*ssa.Call); ok && c.Call.StaticCallee() == q.Parent() && idx >= 0 && idx < len(c.Call.Args) {
					if o := resolve(c.Call.Args[idx], depth+1); o != nil {
						found = o
					}
				}
			})
			return found
		}
		return nil
	}
	ir.Instrs(fn, func(in ssa.Instruction) {
		s, ok := in.(*ssa.Store)
		if !ok {
			return
		}
		switch a := s.Addr.(type) {
		case *ssa.FieldAddr:
			if !isT(a.X.Type()) {
				// a store into a nested struct or array field of T sets (part of) that field
				for x := ssa.Value(a); ; {
					fa, ok := x.(*ssa.FieldAddr)
					if !ok {
						if ia, ok := x.(*ssa.IndexAddr); ok {
							x = ia.X
							continue
						}
						return
					}
					if isT(fa.X.Type()) {
						if o := resolve(fa.X, 0); o != nil {
							if fv := ir.FieldVar(fa.X, fa.Field); fv != nil {
								objs[o][fv.Name()] = true
							}
						}
						return
					}
					x = fa.X
				}
			}
			if o := resolve(a.X, 0); o != nil {
				if fv := ir.FieldVar(a.X, a.Field); fv != nil {
					objs[o][fv.Name()] = true
					if recvName != "" {
						v := ir.Render(s.Val)
						if mentionsField(v, recvName, fv.Name()) {
							same[fv.Name()] = true
						} else {
							notSame[fv.Name()] = true
						}
					}
				}
			}
		default:
			// whole-struct store: *obj = value of type T
			if types.Identical(s.Val.Type(), nt) {
				if o := resolve(s.Addr, 0); o != nil && ir.RootOf(s.Addr) == s.Addr {
					whole[o] = true
				}
			}
		}
	})
	// intersection over the objects that are set at all
	var common map[string]bool
	wholeAny := false
	for o, fs := range objs {
		if whole[o] {
			wholeAny = true
			fs = map[string]bool{}
			for i := 0; i < st.NumFields(); i++ {
				fs[st.Field(i).Name()] = true
			}
		}
		if len(fs) == 0 {
			continue
		}
		if common == nil {
			common = map[string]bool{}
			for f := range fs {
				common[f] = true
			}
			continue
		}
		for f := range common {
			if !fs[f] {
				delete(common, f)
			}
		}
	}
	if len(common) < 2 {
		return nil
	}
	e := &fieldCovEntry{Type: typeKey(nt), Kind: kind}
	for f := range common {
		e.Fields = append(e.Fields, f)
	}
	sort.Strings(e.Fields)
	for f := range same {
		if !notSame[f] && common[f] {
			e.FromSame = append(e.FromSame, f)
		}
	}
	sort.Strings(e.FromSame)
	if wholeAny {
		e.FromSame = nil // a whole-struct copy takes every field from the same field by construction
		e.wholeCopy = true
	}
	return e
}

// mentionsField: the rendering v contains the selector recv.field (not as a prefix of a longer name).
func mentionsField(v, recv, field string) bool {
	sel := recv + "." + field
	for i := 0; ; {
		j := strings.Index(v[i:], sel)
		if j < 0 {
			return false
		}
		end := i + j + len(sel)
		if end >= len(v) || !(v[end] == '_' || v[end] >= 'a' && v[end] <= 'z' || v[end] >= 'A' && v[end] <= 'Z' || v[end] >= '0' && v[end] <= '9') {
			return true
		}
		i = end
	}
}

// GenFieldTable writes fields.json from the current tree (maintenance, like guards.json).
func GenFieldTable(p *ir.Program, verifDir string) (int, error) {
	tab := map[string]*fieldCovEntry{}
	for _, fn := range p.Funcs {
		if fn.Pkg == nil || ir.RelPkg(fn.Pkg.Pkg) == "" || strings.HasSuffix(p.Pos(fn.Pos()), "_test.go") {
			continue
		}
		if ir.IsTransparentHelper(fn) {
			continue
		}
		if e := fieldCoverage(p, fn); e != nil {
			tab[ir.FuncName(fn)] = e
		}
	}
	b, err := json.MarshalIndent(tab, "", " ")
	if err != nil {
		return 0, err
	}
	return len(tab), os.WriteFile(filepath.Join(verifDir, "fields.json"), b, 0o644)
}

// fieldCoverageRule adds the obligations for the functions defined in the property's anchor files.
func fieldCoverageRule(p *ir.Program, r *report.R, files map[string]bool) {
	b, err := os.ReadFile(filepath.Join(VerifDir, "fields.json"))
	if err != nil {
		r.Undecided("K4", "field-coverage/table", "-", "fields.json not readable: "+err.Error())
		return
	}
	var tab map[string]*fieldCovEntry
	if err := json.Unmarshal(b, &tab); err != nil {
		r.Undecided("K4", "field-coverage/table", "-", "fields.json: "+err.Error())
		return
	}
	nF, nFields := 0, 0
	var fns []*ssa.Function
	for _, fn := range p.Funcs {
		if fn.Pkg == nil || fn.Blocks == nil || fn.Parent() != nil {
			continue
		}
		if _, ok := tab[ir.FuncName(fn)]; !ok {
			continue
		}
		if files != nil && !files[fileOf(p, fn)] {
			continue
		}
		fns = append(fns, fn)
	}
	sort.Slice(fns, func(i, j int) bool { return ir.FuncName(fns[i]) < ir.FuncName(fns[j]) })
	for _, fn := range fns {
		name := ir.FuncName(fn)
		want := tab[name]
		got := fieldCoverage(p, fn)
		if got == nil || got.Type != want.Type || got.Kind != want.Kind {
			continue // the function no longer builds/resets the object itself: not analysable, nothing claimed
		}
		nF++
		have := map[string]bool{}
		for _, f := range got.Fields {
			have[f] = true
		}
		// fields that still exist in the type
		exists := map[string]bool{}
		if _, st := moduleStructOfFn(fn, want.Kind); st != nil {
			for i := 0; i < st.NumFields(); i++ {
				exists[st.Field(i).Name()] = true
			}
		}
		var missing []string
		for _, f := range want.Fields {
			if !exists[f] {
				continue
			}
			nFields++
			if !have[f] {
				missing = append(missing, f)
			}
		}
		if len(want.FromSame) > 0 && !got.wholeCopy {
			gs := map[string]bool{}
			for _, f := range got.FromSame {
				gs[f] = true
			}
			var wrong []string
			for _, f := range want.FromSame {
				if exists[f] && have[f] && !gs[f] {
					wrong = append(wrong, f)
				}
			}
			r.Check("K4", "field-coverage/"+name+"/from-the-same-field", p.Pos(fn.Pos()), len(wrong) == 0, fmt.Sprintf("each field the copy took from the receiver's field of the same name (%d) still comes from it; now from elsewhere: %v", len(want.FromSame), wrong))
		}
		verb := "sets"
		if want.Kind == "reset" {
			verb = "resets"
		}
		r.Check("K4", "field-coverage/"+name, p.Pos(fn.Pos()), len(missing) == 0, fmt.Sprintf("%s still %s every field of %s it did when the table was frozen (%d); no longer set: %v", fn.Name(), verb, want.Type, len(want.Fields), missing))
	}
	r.Note("field-coverage: %d constructors/copies/resets, %d fields compared", nF, nFields)
}

func moduleStructOfFn(fn *ssa.Function, kind string) (*types.Named, *types.Struct) {
	if kind == "reset" {
		return moduleStruct(fn.Signature.Recv().Type())
	}
	return moduleStruct(fn.Signature.Results().At(0).Type())
}

// isParamSpill: the slot go/ssa creates for a value parameter/receiver whose address is taken
// (`store slot = param`): it is the caller's object, not one this function builds.
func isParamSpill(al *ssa.Alloc) bool {
	if al.Referrers() == nil {
		return false
	}
	for _, u := range *al.Referrers() {
		if st, ok := u.(*ssa.Store); ok && st.Addr == al {
			if _, isP := st.Val.(*ssa.Parameter); isP {
				return true
			}
		}
	}
	return false
}
