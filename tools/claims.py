# Per-property claims. exec()'d by gen_manifest.py. claim(id, text, note, technique) / na(id, reason)
PENDING = "check not implemented yet in this round (see DESIGN.md section 4 for the planned structural clauses)"
TB = " Trusted base: go/packages+go/types+go/ssa of x/tools v0.29.0, the rule tables in /verif/lkcheck/props, cgo/third-party code outside the module."
STATIC = "static analysis of /repo's type-checked SSA: "

claim("C01",
  "Structural necessary conditions of the per-validator voting discipline, decided on every path of consensus/state.go: who may sign votes and with which type, at most one sign call per path, exhaustive interpretation of every enter* re-entry guard and of the stale-timeout guard over all orderings of (height, round, step), own-step update on exit, polka/lock/commit guards dominating every non-nil precommit, lock write and commit call with provenance of the block id. This is what a static tool can decide of C01; cross-node agreement over schedules is NOT decided.",
  "Agreement across nodes and message schedules, liveness and the gossip layer are outside what static analysis can bound; VoteSet arithmetic is decided under C03, cross-restart signing under C04." + TB,
  STATIC + "guard dominance (K1), must-pass/at-most-once CFG paths (K2), who-may-call/write indexes (K3), comparison-only abstract interpretation of guards (K6)")

claim("C12",
  "Structural necessary conditions: Header.Hash covers every exported header field under its own name (field list taken from the struct type, so a new field is noticed); block ids compared whole; Block.ValidateBasic binds the derived hashes to content on every nil-error path; list hashes cover every element; PartSet.AddPart admits a part only under 0<=index<total, empty slot and Merkle proof of the part's own hash at its own index under the set hash; the proposal block is decoded only from a complete set read in index order; part sets are created only from signature-checked or +2/3 block ids. Collision resistance and byte equality are not decided.",
  "Hash functions are trusted; Header.Recover is exempt from the header hash (committed through the part-set hash, compared by every block-id comparison)." + TB,
  STATIC + "field coverage from types.Struct (K4), guard dominance (K1), sibling/shape agreement (K5), who-may-write (K3), truth-table interpretation of Equals/Verify (K6)")

claim("C02",
  "Structural necessary conditions: every prevote for the proposal block and every lock of it is dominated (on all paths) by the evidence check, the application check and the full validateBlock against the current status; validateBlock's nil return is dominated by every comparison the property lists, with the disjunctive cases (recover, first block) decided as path properties, and one loop iteration cannot continue without verifying its evidence item; ApplyBlock validates before updating/saving status. Found and repaired a genuine defect (votes without validateBlock; fix commit 01d431c).",
  "Correctness of CheckBlock's execution (C05) and of VerifyCommit (C03) are assumed here." + TB,
  STATIC + "guard dominance (K1), disjunctive all-paths guards and per-iteration loop paths (K2)")

claim("C03",
  "Structural necessary conditions: in VerifyCommit the tally increment is dominated by nil/height/round/type/signature/block-id guards whose operands are bound to the SAME slot index (provenance through SSA rendering), the nil return by the strict two-thirds normal form; VoteSet admission guards, single-count structure of the round total and per-block totals, first-crossing rule for maj23, quorum normal forms, sign-bytes field coverage, and the arguments/guards of every VerifyCommit call site (validateBlock, fast sync, reconstructLastCommit).",
  "The signature scheme is trusted; int64 overflow above the quantifier's 2^62 bound is not considered; arrival-order behaviour beyond the single-count structure is not decided." + TB,
  STATIC + "guard dominance with slot-index provenance (K1), threshold normal forms (K11), who-may-call/write (K3), field coverage (K4)")

claim("C04",
  "Exhaustive abstract interpretation of FilePV.checkHRS over all 108 orderings of last-vs-requested height/round/step and nil-ness of the stored record against the double-sign specification; guard dominance for the signing call and for every release of a signature; persist-before-release as an all-paths property from PrivKey.Sign to the store into the vote/proposal; field coverage of the persisted record; WriteFileAtomic's O_SYNC and write<close<rename order; who may sign with the validator key. Two genuine weaknesses are reported as known findings (SignVoteWithoutSave, SignData).",
  "File-system durability of O_SYNC+rename and the JSON round trip inside the timestamp-only helpers are trusted." + TB,
  STATIC + "comparison-only abstract interpretation (K6), must-pass-through CFG paths (K2), guard dominance (K1), who-may-call/write (K3), field coverage (K4)")

claim("C09",
  "Journal discipline decided as an all-paths property over every write site found in the store index: each write to a journaled location (14 fields of Account/stateObject/StateDB) is in a raw setter, a revert method, a listed constructor/copier/finaliser (each with a reason) or is preceded on every path by journal.append of the paired entry type; each raw-setter call likewise; what every append captures is compared with the location it covers; every journalEntry implementation (from types.Implements) must be in the entry/undo pairing table and its revert must write exactly its row; RevertToSnapshot/journal.revert loop shape; deepCopy/StateDB.Copy field coverage from the struct types and no aliasing of map fields. A genuine aliasing defect was repaired (9ed95f3); an un-journaled map insert is a known finding.",
  "Value-level equality over nested snapshot histories and trie-level copy independence (CopyTrie) are not decided." + TB,
  STATIC + "must-pass-through CFG paths from the field-store index (K2), entry/undo sibling table (K5), field coverage and alias check on SSA values (K4), who-may-write/call (K3)")

claim("C10",
  "Three structural NECESSARY conditions only (the canonical-root clause itself is not decidable statically here and is not claimed): (B1) no stale cached hash after mutation - every node literal in Trie.insert/delete takes flags from newFlag(), every in-place child write is on a copy()/fresh node whose flags are reset on the same path, nodeFlag.hash has no writer outside hasher/decoder/expander; (B2) every SecureTrie accessor addresses the inner trie with the hashed key; (B3) VerifyProof decodes and uses a proof node only after its bytes hashed to the expected hash, the first expected hash is the root and the next one is the hashNode child of the decoded node (provenance). A genuine defect in B3 was repaired (962bded).",
  "Root independence from operation order, last-write lookup and iteration order are invariants of a recursive structure over operation histories: NOT decided. Keccak and the node encoding are trusted." + TB,
  STATIC + "composite-literal/field-store coverage (K4), same-path ordering (K2), guard dominance with provenance (K1), sibling agreement (K5), who-may-write (K3)")

claim("C14",
  "Structural necessary conditions: CRC and size bound dominate the payload decode in WALDecoder.Decode (with the checksum, length and payload buffers kept apart by allocation-site identity); every error result of Decode is classified (EOF pass-through = end of log, anything derived from the bytes = DataCorruptionError, plain error only for non-EOF I/O failure); writer/reader frame agreement (CRC table object, byte order, offsets, length = len(payload)); SearchForEndHeight finds only an EndHeightMessage of the requested height, newest file first, and skips only classified corruption when asked; catchupReplay replays only after the previous marker was found and none exists for the height; the marker is written with WriteSync between CommitBlock and ApplyBlock and write/flush errors are fatal. A genuine error-classification defect was repaired (46e420a).",
  "Per-offset truncation behaviour, CRC collisions and rotation timing are value/timing properties: NOT decided. GroupReader.Read's fill-or-error contract (bufio) is trusted." + TB,
  STATIC + "guard dominance (K1), error-class discipline on every return (K8), writer/reader sibling agreement (K5), path ordering (K2)")

claim("C13",
  "The crash-point clause is decided through what is visible in the shape of the code: the ORDER of the durable writes of a commit (no CFG path executes a later write before an earlier one) in CommitBlock, finalizeCommit, ApplyBlock, saveStatus, SaveBlock, wrappedTrie.Commit, SaveWAL, StateDB.Commit; the recovery code accepting exactly the lags that order can produce (node.NewNode, NewKeyValueDBWithCache decided as an all-paths property); error discipline at every error-returning storage call on the commit path (each call site classified propagated/fatal/dropped/swallowed); pruning bounds in wrap-free normal form with sibling agreement and the last-changed-record hazard. Two pruning defects were repaired (5323335); six dropped/swallowed storage errors and the last-changed-record pruning hazard are known findings.",
  "Atomicity of each backend's batch on disk (C19), content equality of what is read back, and the writes SaveBlock performs outside its batch are not decided." + TB,
  STATIC + "path-order queries on the CFG (K2), error-discipline classifier over SSA def-use (K8), arithmetic normal forms of guards (K11), all-paths guards (K6/K1)")

claim("C11",
  "Structural clauses of the codec: the type registry (every RegisterConcrete in the module: constant, unique name; unique type; init-time; and for every message interface registered types == case types of the handler's type switch, both directions); encoder/decoder kind dispatch covers the same classes with the same precedence of the special cases (compared on the type-checked AST) and identical map type restrictions; the map writer sorts keys on every path before emitting and Less is strict byte order; bounded allocation (Stream.Kind's sticky size errors, every stream-sized allocation in decode.go dominated by the no-error Kind result or an explicit bound, incremental slice growth, map entry count bounded) and every decode entry point in the module limited; the explicit panic sites / unchecked assertions reachable from the decode entry points equal a reviewed table. A genuine unbounded/negative allocation was repaired (ab2aa21).",
  "Round-trip equality, canonical integer forms and equality of decoded values are value properties of a reflective codec: NOT decided; implicit runtime panics inside reflect other than allocation sizes are not decided." + TB,
  STATIC + "registry/sibling agreement over the call index and type switches (K5), guard dominance at allocation sites (K1), path query sort-before-emit (K7), reachability over static calls and function values with a reviewed sink table (K9)")

claim("C07",
  "Structural necessary conditions of double-spend protection at every layer: duplicate-image test dominates the per-transaction and per-block insertions, the prime-subgroup check is on every path accepting a confidential input, every loop iteration of CheckStoreState/checkState handling a confidential input passes the not-spent (and not-in-mempool) edge (decided per iteration as an all-paths property), images are collected unconditionally for every confidential input, carried into the block result and persisted by CommitBlock/SaveKImages (every element, error returned); the three-way nonce comparison of all six check functions decided from the facts at their rejections and at the exact-nonce continuation, nonce advanced by exactly one on every path of Transit. Known finding: CommitBlock drops SaveUtxo's error.",
  "Uniqueness over the whole history as a set property, mempool/chain interleavings (C15) and the cryptographic link between key image and output are not decided; ringct cgo is trusted." + TB,
  STATIC + "guard dominance (K1), per-iteration all-paths loop queries (K2), ordering-fact tables at rejections (K6), error discipline (K8)")

claim("C08",
  "Structural necessary conditions: per transaction kind the signed values cover every field of the signed structure (field list read from the struct types, exemptions with reasons); both the signing and the verifying hash append the chain parameter and the protected path of STDEIP155Signer.Sender is dominated by sign-param equality; recoverPlain reaches Ecrecover only after V-range and ValidateSignatureValues, all reachable callers use homestead rules and the Frontier signer is unreachable; the transaction hash covers the signature for every kind; a cached/injected sender is used only for an equal signer and only from the listed sites; the ring-signature message is the prefix hash that binds inputs, outputs, token, keys, fee, extra and the account signature, set before verification. Known finding: unprotected V=27/28 falls back to a chain-independent hash.",
  "Soundness of secp256k1/ed25519/RingCT (cgo) and one-time-address ownership are cryptographic: NOT decided." + TB,
  STATIC + "field coverage from types.Struct against rendered literal elements (K4), guard dominance (K1), who-may-call and conversion index (K3), sibling agreement sign/verify (K5)")

for _p in ["C%02d" % i for i in range(1, 21)]:
    if _p not in CLAIMED:
        na(_p, PENDING)
