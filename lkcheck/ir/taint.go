package ir

import (
	"fmt"
	"go/token"
	"go/types"
	"regexp"
	"sort"
	"strings"

	"golang.org/x/tools/go/ssa"
)

// Panic-sink taint analysis (rule kind K9).
//
// Sources are parameters (and fields of long-lived structs) that carry data
// decoded from peer bytes. Taint flows through field/element selection,
// loads, conversions, arithmetic, phis, type assertions and — by parameter
// binding with one summary per function, iterated to a fixed point — through
// static calls inside the scoped package set. It is field-insensitive below
// a tainted root (every component of a peer-supplied struct is
// peer-controlled) and path-insensitive except for dominating guards.
//
// Sinks are the operations that panic on bad values:
//
//	nil-deref   field/method access through a pointer loaded from tainted data
//	            (every pointer inside a decoded message is optional in libs/ser)
//	index       slice/array/string index or slice bounds computed from tainted ints
//	make        allocation sized by a tainted int
//	assert      unchecked type assertion on a tainted interface
//	div         integer division by a tainted value
//
// A sink is discharged by a dominating guard on the same rendered operand
// (x != nil; 0 <= i, i < len/bound; comma-ok) — see the guard recognisers.

// TaintConfig parameterises one analysis run.
type TaintConfig struct {
	// Scope reports whether a function's body is analysed.
	Scope func(*ssa.Function) bool
	// Entries: function -> indices of tainted parameters (receiver = 0 for methods).
	Entries map[*ssa.Function][]int
	// TaintedFields: struct fields whose content is peer data wherever it is loaded.
	TaintedFields map[*types.Var]bool
	// NonNilParams: functions whose listed tainted pointer parameters are known non-nil.
	NonNilParams map[*ssa.Function][]int
	// NonNilOperands: rendered operands (glob) known non-nil, with the obligation that establishes it.
	NonNilOperands []string
	// NonNilFacts: fact patterns with one `$` placeholder: when such a fact dominates, the operand
	// substituted for `$` is non-nil (e.g. "types.Block.HashesTo($,*)").
	NonNilFacts []string
	// UntaintedResults: callee name globs whose results are not peer data even when
	// called with peer data (application boundary).
	UntaintedResults []string
	// NonNilFields: pointer fields that are non-nil by a field invariant established elsewhere
	// (the obligation that establishes it is checked by the caller of the analysis).
	NonNilFields map[*types.Var]bool
	// CallSites lists the in-program call sites of a function (for caller-side discharge).
	CallSites func(*ssa.Function) []ssa.CallInstruction
	// Impls resolves an interface method call to the in-scope concrete methods (CHA).
	Impls func(*types.Func, types.Type) []*ssa.Function
}

// Sink is one panic-capable operation on tainted data.
type Sink struct {
	Fn      *ssa.Function
	Instr   ssa.Instruction
	Kind    string // nil-deref, index, make, assert, div
	Operand string // rendered tainted operand
	Guarded bool
	Why     string // guard found / what is missing
}

// Key is the line-independent identity of a sink.
func (s Sink) Key() string { return FuncName(s.Fn) + "/" + s.Kind + ":" + s.Operand }

type taintState struct {
	cfg     TaintConfig
	params  map[*ssa.Function]map[int]bool // tainted params per function
	retT    map[*ssa.Function]bool         // function may return tainted data
	derefsP map[*ssa.Function]map[int]bool // function dereferences param i without nil check
	values  map[*ssa.Function]map[ssa.Value]bool
	mayNil  map[*ssa.Function]map[ssa.Value]bool
}

// AnalyzeTaint runs the analysis and returns the sinks found in scope.
func AnalyzeTaint(p *Program, cfg TaintConfig) (sinks []Sink, analysed []*ssa.Function) {
	st := &taintState{cfg: cfg, params: map[*ssa.Function]map[int]bool{}, retT: map[*ssa.Function]bool{},
		derefsP: map[*ssa.Function]map[int]bool{}, values: map[*ssa.Function]map[ssa.Value]bool{}, mayNil: map[*ssa.Function]map[ssa.Value]bool{}}
	for f, idx := range cfg.Entries {
		st.params[f] = map[int]bool{}
		for _, i := range idx {
			st.params[f][i] = true
		}
	}
	// fixed point over parameter taint / return taint
	for iter := 0; iter < 30; iter++ {
		changed := false
		var fns []*ssa.Function
		for f := range st.params {
			fns = append(fns, f)
		}
		sort.Slice(fns, func(i, j int) bool { return FuncName(fns[i]) < FuncName(fns[j]) })
		for _, f := range fns {
			if !cfg.Scope(f) || f.Blocks == nil {
				continue
			}
			if st.propagate(f) {
				changed = true
			}
		}
		if !changed {
			break
		}
	}
	var fns []*ssa.Function
	for f := range st.params {
		if cfg.Scope(f) && f.Blocks != nil {
			fns = append(fns, f)
		}
	}
	sort.Slice(fns, func(i, j int) bool { return FuncName(fns[i]) < FuncName(fns[j]) })
	for _, f := range fns {
		sinks = append(sinks, st.sinksOf(f)...)
	}
	// caller-side discharge: an unguarded index/make/nil sink whose operand is rooted at a
	// parameter is discharged when every in-scope call site that passes tainted data
	// establishes the guard on the corresponding argument.
	for i := range sinks {
		if sinks[i].Guarded {
			continue
		}
		if ok, why := st.callerDischarge(sinks[i], 0); ok {
			sinks[i].Guarded = true
			sinks[i].Why = why
		}
	}
	return sinks, fns
}

// callerDischarge substitutes the callee parameter in the operand text by each
// caller's argument text and re-evaluates the guard at the call site.
func (st *taintState) callerDischarge(s Sink, depth int) (bool, string) {
	if st.cfg.CallSites == nil || depth > 3 {
		return false, ""
	}
	f := s.Fn
	// which parameter roots the operand?
	pi := -1
	for i, p := range f.Params {
		if rootRe(p.Name()).MatchString(s.Operand) {
			pi = i
		}
	}
	if pi < 0 {
		return false, ""
	}
	sites := st.cfg.CallSites(f)
	if len(sites) == 0 {
		return false, ""
	}
	n := 0
	for _, cs := range sites {
		caller := cs.Parent()
		if !st.cfg.Scope(caller) {
			continue
		}
		tv := st.values[caller]
		args := cs.Common().Args
		if pi >= len(args) {
			return false, ""
		}
		arg := args[pi]
		if tv == nil || !tv[arg] {
			continue // this caller passes its own (untainted) data
		}
		n++
		argText := Render(arg)
		op := substRoot(s.Operand, f.Params[pi].Name(), argText)
		fs := FactsAt(cs)
		ok := false
		switch s.Kind {
		case "nil-deref":
			ok = HasFact(fs, "!eq("+op+",nil)")
		case "index", "make":
			lower := HasFact(fs, "le(0,"+op+")") || HasFact(fs, "lt(0,"+op+")")
			upper := HasFact(fs, "lt("+op+",*)") || HasFact(fs, "le("+op+",*)")
			if hasFactLiteralAny(fs, "!eq(", "GetByIndex(", ","+op+")#1,nil)") {
				lower, upper = true, true
			}
			if strings.HasPrefix(op, "(") {
				// derived expression such as (i / 64) or ((bits + 63) / 64): bounds of the
				// underlying variable carry over (monotone arithmetic with constants)
				inner := op
				for {
					m := derivedRe.FindStringSubmatch(inner)
					if m == nil {
						break
					}
					inner = m[1]
				}
				if inner != op {
					lower = lower || HasFact(fs, "le(0,"+inner+")") || HasFact(fs, "lt(0,"+inner+")")
					upper = upper || HasFact(fs, "lt("+inner+",*)") || HasFact(fs, "le("+inner+",*)")
					if hasFactLiteralAny(fs, "!eq(", "GetByIndex(", ","+inner+")#1,nil)") {
						lower, upper = true, true
					}
				}
			}
			ok = lower && upper
		}
		if !ok {
			// try one level further up if the argument is itself rooted at a parameter of the caller
			up := Sink{Fn: caller, Instr: cs, Kind: s.Kind, Operand: op}
			if ok2, _ := st.callerDischarge(up, depth+1); !ok2 {
				return false, ""
			}
		}
	}
	if n == 0 {
		return false, ""
	}
	return true, fmt.Sprintf("guard established at all %d call sites that pass peer data", n)
}

func substRoot(operand, param, arg string) string {
	return rootRe(param).ReplaceAllString(operand, "${1}"+strings.Replace(arg, "$", "$$", -1)+"${2}")
}

var rootRes = map[string]*regexp.Regexp{}

// derivedRe matches "(A op const)" and captures A.
var derivedRe = regexp.MustCompile(`^\((.+) [/%+\-] \d+\)$`)

// rootRe matches the parameter name as a whole identifier at the root of an access path.
func rootRe(name string) *regexp.Regexp {
	if re, ok := rootRes[name]; ok {
		return re
	}
	re := regexp.MustCompile(`(^|[(\[, *&])` + regexp.QuoteMeta(name) + `([.\[ ),]|$)`)
	rootRes[name] = re
	return re
}

func paramIndex(f *ssa.Function, v ssa.Value) int {
	for i, p := range f.Params {
		if p == v {
			return i
		}
	}
	return -1
}

// taintCallee marks parameter i of callee tainted; reports whether that is new.
func (st *taintState) taintCallee(callee *ssa.Function, i int) bool {
	if st.params[callee] == nil {
		st.params[callee] = map[int]bool{}
	}
	if st.params[callee][i] {
		return false
	}
	st.params[callee][i] = true
	return true
}

// propagate recomputes the tainted value set of f; returns true if a callee
// summary or f's own return summary changed.
func (st *taintState) propagate(f *ssa.Function) bool {
	tv := map[ssa.Value]bool{}
	nilable := map[ssa.Value]bool{}
	for i := range st.params[f] {
		if i < len(f.Params) {
			tv[f.Params[i]] = true
		}
	}
	changedOut := false
	for round := 0; round < 10; round++ {
		grew := false
		mark := func(v ssa.Value) {
			if !tv[v] {
				tv[v] = true
				grew = true
			}
		}
		for _, b := range f.Blocks {
			for _, in := range b.Instrs {
				switch x := in.(type) {
				case *ssa.FieldAddr:
					if tv[x.X] {
						mark(x)
					} else if fv := FieldVar(x.X, x.Field); fv != nil && st.cfg.TaintedFields[fv] {
						mark(x)
					}
				case *ssa.Field:
					if tv[x.X] {
						mark(x)
					}
				case *ssa.IndexAddr:
					if tv[x.X] {
						mark(x)
					}
				case *ssa.Index:
					if tv[x.X] {
						mark(x)
					}
				case *ssa.Lookup:
					if tv[x.X] {
						mark(x)
					}
				case *ssa.Slice:
					if tv[x.X] {
						mark(x)
					}
				case *ssa.UnOp:
					if tv[x.X] {
						mark(x)
						if x.Op == token.MUL && isPtrLike(x.Type()) {
							// a pointer/interface loaded from tainted memory is optional
							nilable[x] = true
							if fa, ok := x.X.(*ssa.FieldAddr); ok {
								if fv := FieldVar(fa.X, fa.Field); fv != nil && st.cfg.NonNilFields[fv] {
									nilable[x] = false
								}
							}
						}
					}
				case *ssa.BinOp:
					switch x.Op {
					case token.ADD, token.SUB, token.MUL, token.QUO, token.REM, token.SHL, token.SHR, token.AND, token.OR, token.XOR:
						if tv[x.X] || tv[x.Y] {
							mark(x)
						}
					}
				case *ssa.Convert:
					if tv[x.X] {
						mark(x)
					}
				case *ssa.ChangeType:
					if tv[x.X] {
						mark(x)
					}
				case *ssa.ChangeInterface:
					if tv[x.X] {
						mark(x)
					}
				case *ssa.MakeInterface:
					if tv[x.X] {
						mark(x)
					}
				case *ssa.TypeAssert:
					if tv[x.X] {
						mark(x)
					}
				case *ssa.Extract:
					if tv[x.Tuple] {
						mark(x)
						if isPtrLike(x.Type()) && nilable[x.Tuple] {
							nilable[x] = true
						}
					}
				case *ssa.Phi:
					for _, e := range x.Edges {
						if tv[e] {
							mark(x)
							if nilable[e] {
								nilable[x] = true
							}
						}
					}
				case *ssa.Store:
					if tv[x.Val] {
						if al, ok := x.Addr.(*ssa.Alloc); ok {
							mark(al)
						}
					}
				case *ssa.Call:
					callee := x.Call.StaticCallee()
					anyT := false
					for i, a := range x.Call.Args {
						if !tv[a] {
							continue
						}
						anyT = true
						if callee != nil && st.cfg.Scope(callee) && callee.Blocks != nil {
							if st.taintCallee(callee, i) {
								changedOut = true
							}
						}
					}
					if x.Call.IsInvoke() && tv[x.Call.Value] {
						anyT = true
						if st.cfg.Impls != nil {
							for _, impl := range st.cfg.Impls(x.Call.Method, x.Call.Value.Type()) {
								if !st.cfg.Scope(impl) || impl.Blocks == nil {
									continue
								}
								if st.taintCallee(impl, 0) {
									changedOut = true
								}
								for i, a := range x.Call.Args {
									if tv[a] && st.taintCallee(impl, i+1) {
										changedOut = true
									}
								}
							}
						}
					}
					for _, g := range st.cfg.UntaintedResults {
						if Match(g, calleeName(&x.Call)) {
							anyT = false
						}
					}
					if anyT {
						resT := false
						if callee != nil && st.cfg.Scope(callee) && callee.Blocks != nil {
							resT = st.retT[callee]
						} else if _, isB := x.Call.Value.(*ssa.Builtin); isB {
							resT = true
						} else if x.Call.IsInvoke() {
							resT = true
						} else if callee != nil && callee.Signature.Recv() != nil && len(x.Call.Args) > 0 && tv[x.Call.Args[0]] {
							resT = true
						}
						if resT {
							mark(x)
							if isPtrLike(x.Type()) || isTuple(x.Type()) {
								nilable[x] = true
							}
						}
					}
				case *ssa.Return:
					for _, r := range x.Results {
						if tv[r] && !st.retT[f] {
							st.retT[f] = true
							changedOut = true
						}
					}
				}
			}
		}
		if !grew {
			break
		}
	}
	st.values[f] = tv
	st.mayNil[f] = nilable
	// deref summary for parameters
	d := map[int]bool{}
	for _, b := range f.Blocks {
		for _, in := range b.Instrs {
			var base ssa.Value
			switch x := in.(type) {
			case *ssa.FieldAddr:
				base = x.X
			case *ssa.UnOp:
				if x.Op == token.MUL {
					base = x.X
				}
			}
			if base == nil {
				continue
			}
			if i := paramIndex(f, base); i >= 0 && isPointer(base.Type()) {
				if !HasFact(FactsAt(in), "!eq("+Render(base)+",nil)") {
					d[i] = true
				}
			}
		}
	}
	if len(d) != len(st.derefsP[f]) {
		changedOut = true
	}
	st.derefsP[f] = d
	return changedOut
}

func isPtrLike(t types.Type) bool {
	switch t.Underlying().(type) {
	case *types.Pointer, *types.Interface:
		return true
	}
	return false
}
func isPointer(t types.Type) bool {
	_, ok := t.Underlying().(*types.Pointer)
	return ok
}
func isTuple(t types.Type) bool {
	_, ok := t.(*types.Tuple)
	return ok
}
func isInt(t types.Type) bool {
	b, ok := t.Underlying().(*types.Basic)
	return ok && b.Info()&types.IsInteger != 0
}
func isConst(v ssa.Value) bool { _, ok := v.(*ssa.Const); return ok }

// nilGuard decides whether operand v is known non-nil at instruction in.
func (st *taintState) nilGuard(in ssa.Instruction, v ssa.Value) (bool, string) {
	r := Render(v)
	fs := FactsAt(in)
	if HasFact(fs, "!eq("+r+",nil)") {
		return true, "dominated by " + r + " != nil"
	}
	// Commit.FirstPrecommit returns nil only for an empty Precommits slice
	if strings.HasPrefix(r, "types.Commit.FirstPrecommit(") && strings.HasSuffix(r, ")") {
		x := r[len("types.Commit.FirstPrecommit(") : len(r)-1]
		l := "len(" + x + ".Precommits)"
		if HasFact(fs, "!eq("+l+",0)") || HasFact(fs, "lt(0,"+l+")") {
			return true, "FirstPrecommit is nil only for an empty commit, excluded by " + l + " != 0"
		}
	}
	for _, pat := range st.cfg.NonNilOperands {
		if Match(pat, r) {
			return true, "operand known non-nil (obligation checked separately): " + pat
		}
	}
	for _, pat := range st.cfg.NonNilFacts {
		if hasFactLiteral(fs, pat, r) {
			return true, "implied by dominating fact " + pat
		}
	}
	if ex, ok := v.(*ssa.Extract); ok {
		if ta, ok := ex.Tuple.(*ssa.TypeAssert); ok && ta.CommaOk {
			if HasFact(fs, Render(ta)+"#1") {
				return true, "result of a successful comma-ok assertion"
			}
		}
	}
	return false, "no dominating nil check of " + r
}

// sinksOf enumerates the sinks of f and decides their guards.
func (st *taintState) sinksOf(f *ssa.Function) []Sink {
	tv, nilable := st.values[f], st.mayNil[f]
	var out []Sink
	add := func(in ssa.Instruction, kind string, operand ssa.Value, guarded bool, why string) {
		out = append(out, Sink{Fn: f, Instr: in, Kind: kind, Operand: Render(operand), Guarded: guarded, Why: why})
	}
	for _, b := range f.Blocks {
		for _, in := range b.Instrs {
			switch x := in.(type) {
			case *ssa.FieldAddr:
				if nilable[x.X] && isPointer(x.X.Type()) {
					ok, why := st.nilGuard(in, x.X)
					add(in, "nil-deref", x.X, ok, why)
				}
			case *ssa.UnOp:
				if x.Op == token.MUL && nilable[x.X] && isPointer(x.X.Type()) {
					if _, isFA := x.X.(*ssa.FieldAddr); !isFA {
						ok, why := st.nilGuard(in, x.X)
						add(in, "nil-deref", x.X, ok, why)
					}
				}
			case *ssa.IndexAddr:
				if tv[x.Index] && isInt(x.Index.Type()) && !isConst(x.Index) {
					ok, why := indexGuard(in, x.Index, x.X)
					add(in, "index", x.Index, ok, why)
				}
			case *ssa.Index:
				if tv[x.Index] && isInt(x.Index.Type()) && !isConst(x.Index) {
					ok, why := indexGuard(in, x.Index, x.X)
					add(in, "index", x.Index, ok, why)
				}
			case *ssa.Slice:
				for _, bnd := range []ssa.Value{x.Low, x.High, x.Max} {
					if bnd != nil && tv[bnd] && !isConst(bnd) {
						ok, why := indexGuard(in, bnd, x.X)
						add(in, "index", bnd, ok, why)
					}
				}
			case *ssa.MakeSlice:
				if tv[x.Len] && !isConst(x.Len) {
					ok, why := sizeGuard(in, x.Len)
					add(in, "make", x.Len, ok, why)
				}
			case *ssa.TypeAssert:
				if !x.CommaOk && tv[x.X] {
					add(in, "assert", x.X, false, "unchecked type assertion on peer data")
				}
			case *ssa.BinOp:
				if (x.Op == token.QUO || x.Op == token.REM) && tv[x.Y] && isInt(x.Y.Type()) && !isConst(x.Y) {
					r := Render(x.Y)
					fs := FactsAt(in)
					ok := HasFact(fs, "!eq("+r+",0)") || HasFact(fs, "lt(0,"+r+")")
					add(in, "div", x.Y, ok, "division by peer data needs a non-zero guard")
				}
			case ssa.CallInstruction:
				cc := x.Common()
				callee := cc.StaticCallee()
				if cc.IsInvoke() {
					if nilable[cc.Value] {
						ok, why := st.nilGuard(in, cc.Value)
						add(in, "nil-deref", cc.Value, ok, "method call on an optional interface value: "+why)
					}
					continue
				}
				if callee == nil {
					continue
				}
				for i, a := range cc.Args {
					if !nilable[a] || !isPointer(a.Type()) {
						continue
					}
					derefs := false
					if st.cfg.Scope(callee) && callee.Blocks != nil {
						derefs = st.derefsP[callee][i]
					} else if i == 0 && callee.Signature.Recv() != nil {
						derefs = true
					}
					if derefs {
						ok, why := st.nilGuard(in, a)
						add(in, "nil-deref", a, ok, fmt.Sprintf("passed to %s which dereferences it: %s", fnShort(callee), why))
					}
				}
			}
		}
	}
	return out
}

// boundsFromFacts decides lower/upper bounds of a rendered integer operand
// from dominating facts and from its construction.
func boundsFromFacts(fs []Fact, v ssa.Value, r string) (lower, upper bool) {
	lower = HasFact(fs, "le(0,"+r+")") || HasFact(fs, "lt(0,"+r+")") || isUnsigned(v.Type()) || nonNegativeByConstruction(v)
	upper = HasFact(fs, "lt("+r+",*)") || HasFact(fs, "le("+r+",*)")
	// a successful lookup by this index bounds it on both sides
	if hasFactLiteralAny(fs, "!eq(", "GetByIndex(", ","+r+")#1,nil)") {
		lower, upper = true, true
	}
	// len(x)-c with len(x) known large enough
	if b, ok := v.(*ssa.BinOp); ok && b.Op == token.SUB {
		if isLenCall(b.X) {
			l := Render(b.X)
			if HasFact(fs, "!eq("+l+",0)") || HasFact(fs, "lt(0,"+l+")") || HasFact(fs, "le(1,"+l+")") || HasFact(fs, "lt(*,"+l+")") || HasFact(fs, "le(*,"+l+")") {
				lower = true
			}
			upper = true
		}
	}
	return
}

func hasFactLiteralAny(fs []Fact, pre, mid, post string) bool {
	for _, f := range fs {
		if strings.HasPrefix(f.Atom, pre) && strings.Contains(f.Atom, mid) && strings.HasSuffix(f.Atom, post) {
			return true
		}
	}
	return false
}

// hasFactLiteral matches pattern with `$` replaced by the literal operand text.
func hasFactLiteral(fs []Fact, pat, operand string) bool {
	i := strings.Index(pat, "$")
	if i < 0 {
		return false
	}
	pre, post := pat[:i], pat[i+1:]
	for _, f := range fs {
		a := f.Atom
		if strings.HasPrefix(a, "!") != strings.HasPrefix(pat, "!") {
			continue
		}
		if !strings.HasPrefix(a, pre+operand) {
			continue
		}
		if Match(post, a[len(pre)+len(operand):]) {
			return true
		}
	}
	return false
}

func isLenCall(v ssa.Value) bool {
	c, ok := v.(*ssa.Call)
	if !ok {
		return false
	}
	b, ok := c.Call.Value.(*ssa.Builtin)
	return ok && (b.Name() == "len" || b.Name() == "cap")
}

// indexGuard: 0 <= i and i < bound for some bound, both dominating.
func indexGuard(in ssa.Instruction, idx, coll ssa.Value) (bool, string) {
	r := Render(idx)
	lower, upper := boundsFromFacts(FactsAt(in), idx, r)
	if lower && upper {
		return true, "dominated by 0 <= " + r + " < bound"
	}
	var miss []string
	if !lower {
		miss = append(miss, "lower bound 0 <= "+r)
	}
	if !upper {
		miss = append(miss, "upper bound on "+r)
	}
	return false, "missing " + strings.Join(miss, " and ")
}

func sizeGuard(in ssa.Instruction, sz ssa.Value) (bool, string) {
	r := Render(sz)
	if isLenCall(sz) {
		return true, "size is the length of a value that already exists (bounded by the input that produced it)"
	}
	lower, upper := boundsFromFacts(FactsAt(in), sz, r)
	if lower && upper {
		return true, "size bounded on both sides"
	}
	return false, "allocation size " + r + " from peer data is not bounded on both sides"
}

func isUnsigned(t types.Type) bool {
	b, ok := t.Underlying().(*types.Basic)
	return ok && b.Info()&types.IsUnsigned != 0
}

// nonNegativeByConstruction: len(x), cap(x).
func nonNegativeByConstruction(v ssa.Value) bool {
	switch x := v.(type) {
	case *ssa.Call:
		return isLenCall(x)
	case *ssa.Convert:
		return nonNegativeByConstruction(x.X)
	}
	return false
}
