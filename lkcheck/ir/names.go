package ir

import (
	"encoding/json"
	"fmt"
	"go/ast"
	"go/types"
	"os"
	"sort"

	"golang.org/x/tools/go/ssa"
)

// Rename-robust rendering.
//
// Rule patterns name operands through the rendering, which uses source names
// of receivers, parameters and locals (`ps.total`, `part.Index`, `φ:i`). A pure
// rename (receiver `ps` -> `partSet`, local `i` -> `idx`) leaves behaviour
// unchanged and must not change a verdict. The names the patterns were
// written against are therefore frozen in a committed table, per function and
// BY POSITION: parameter k of function F, and the k-th local variable
// definition of F in source order. When the current function has the same
// number of parameters / local definitions as the frozen entry, the renderer
// prints the frozen name instead of the current one; when the shape differs
// (a parameter or local was added or removed) the current names are used, so
// the table can only ever undo a rename, never invent one.

// FnNames are the frozen names of one function.
type FnNames struct {
	Params []string `json:"p,omitempty"` // receiver first, as in ssa.Function.Params
	Locals []string `json:"l,omitempty"` // local variable definitions (named results included) in source order
}

// NameTable maps FuncName(f) to its frozen names.
type NameTable map[string]FnNames

var (
	paramAlias = map[*ssa.Parameter]string{}
	localAlias = map[*ssa.Function]map[string]string{}
)

// localDefs lists the variable definitions of a function body in source
// order, excluding nested function literals (they are separate functions).
func localDefs(info *types.Info, node ast.Node) []string {
	var body *ast.BlockStmt
	var ftype *ast.FuncType
	switch n := node.(type) {
	case *ast.FuncDecl:
		body, ftype = n.Body, n.Type
	case *ast.FuncLit:
		body, ftype = n.Body, n.Type
	}
	if body == nil {
		return nil
	}
	type def struct {
		pos  int
		name string
	}
	var defs []def
	if ftype != nil && ftype.Results != nil {
		for _, f := range ftype.Results.List {
			for _, id := range f.Names {
				if id.Name != "_" {
					defs = append(defs, def{int(id.Pos()), id.Name})
				}
			}
		}
	}
	ast.Inspect(body, func(n ast.Node) bool {
		if _, ok := n.(*ast.FuncLit); ok {
			return false
		}
		id, ok := n.(*ast.Ident)
		if !ok || id.Name == "_" {
			return true
		}
		if obj, ok := info.Defs[id].(*types.Var); ok && obj != nil && !obj.IsField() {
			defs = append(defs, def{int(id.Pos()), id.Name})
		}
		return true
	})
	sort.Slice(defs, func(i, j int) bool { return defs[i].pos < defs[j].pos })
	out := make([]string, len(defs))
	for i, d := range defs {
		out[i] = d.name
	}
	return out
}

// CurrentNames computes the table for the loaded program.
func (p *Program) CurrentNames() NameTable {
	t := NameTable{}
	for _, f := range p.Funcs {
		var fn FnNames
		for _, q := range f.Params {
			fn.Params = append(fn.Params, q.Name())
		}
		if syn := f.Syntax(); syn != nil && f.Pkg != nil {
			if pk := p.ByPath[f.Pkg.Pkg.Path()]; pk != nil && pk.TypesInfo != nil {
				fn.Locals = localDefs(pk.TypesInfo, syn)
			}
		}
		t[FuncName(f)] = fn
	}
	return t
}

// WriteNames writes the current table (used once, when rules are written or reviewed).
func (p *Program) WriteNames(path string) error {
	b, err := json.Marshal(p.CurrentNames())
	if err != nil {
		return err
	}
	return os.WriteFile(path, b, 0o644)
}

// ApplyFrozenNames installs aliases from a committed table. It returns the
// number of functions in which at least one name is currently different.
func (p *Program) ApplyFrozenNames(path string) (renamed int, err error) {
	b, err := os.ReadFile(path)
	if err != nil {
		if os.IsNotExist(err) {
			return 0, nil
		}
		return 0, err
	}
	var frozen NameTable
	if err := json.Unmarshal(b, &frozen); err != nil {
		return 0, err
	}
	p.detectFormChanges(frozen)
	p.detectHelpers(frozen)
	cur := p.CurrentNames()
	for _, f := range p.Funcs {
		key := FuncName(f)
		fr, ok := frozen[key]
		if !ok {
			continue
		}
		now := cur[key]
		changed := false
		if len(fr.Params) == len(now.Params) {
			for i, q := range f.Params {
				if fr.Params[i] != now.Params[i] && fr.Params[i] != "" {
					paramAlias[q] = fr.Params[i]
					changed = true
				}
			}
		}
		if len(fr.Locals) == len(now.Locals) {
			m := map[string]string{}
			consistent := true
			// a RENAME introduces a name the frozen function did not have and drops one it had; moving a
			// declaration up or down only permutes the list and needs (and gets) no alias
			frozenSet, nowSet := map[string]bool{}, map[string]bool{}
			for i := range now.Locals {
				frozenSet[fr.Locals[i]] = true
				nowSet[now.Locals[i]] = true
			}
			for i := range now.Locals {
				if now.Locals[i] == fr.Locals[i] {
					continue
				}
				if frozenSet[now.Locals[i]] || nowSet[fr.Locals[i]] {
					consistent = false // reordered declarations (or a swap): positions do not identify variables
					break
				}
				if prev, seen := m[now.Locals[i]]; seen && prev != fr.Locals[i] {
					consistent = false // one current name would map to two frozen names
				}
				m[now.Locals[i]] = fr.Locals[i]
			}
			if consistent {
				for a, b := range m {
					if a != b {
						if localAlias[f] == nil {
							localAlias[f] = map[string]string{}
						}
						localAlias[f][a] = b
						changed = true
					}
				}
			}
		}
		if changed {
			renamed++
		}
	}
	return renamed, nil
}

func paramName(q *ssa.Parameter) string {
	if a, ok := paramAlias[q]; ok {
		return a
	}
	return q.Name()
}

// localName maps the current name of a local of fn (or of an enclosing
// function, for captured variables) to its frozen name.
func localName(fn *ssa.Function, name string) string {
	for f := fn; f != nil; f = f.Parent() {
		if m := localAlias[f]; m != nil {
			if a, ok := m[name]; ok {
				return a
			}
		}
		// a captured parameter of an enclosing function
		for _, q := range f.Params {
			if q.Name() == name {
				return paramName(q)
			}
		}
	}
	return name
}

// LocalName is the frozen name of a local variable of fn (see the file comment).
func LocalName(fn *ssa.Function, name string) string { return localName(fn, name) }

// Method <-> function conversions. A private method `func (t *T) m(a)` rewritten as the function
// `func m(t *T, a)` (or the reverse) is the same code under another spelling: go/ssa passes the
// receiver as the first argument either way. When the frozen table knows the old spelling, the
// program no longer has it, and a function of the new spelling with the same name exists (and is
// itself unknown to the table), the new function goes by the old name: FuncName, callee names and
// Func/TryFunc lookups all use it.
type formAlias struct{ full, short string }

var formAliases = map[*ssa.Function]formAlias{}

func (p *Program) detectFormChanges(frozen NameTable) {
	formAliases = map[*ssa.Function]formAlias{}
	have := map[string]bool{}
	for _, f := range p.Funcs {
		if f.Parent() == nil {
			have[plainFuncName(f)] = true
		}
	}
	for _, f := range p.Funcs {
		if f.Parent() != nil || f.Pkg == nil || f.Blocks == nil || RelPkg(f.Pkg.Pkg) == "" || f.Synthetic != "" {
			continue
		}
		if _, known := frozen[plainFuncName(f)]; known {
			continue
		}
		pk := RelPkg(f.Pkg.Pkg)
		if f.Signature.Recv() == nil {
			if len(f.Params) == 0 {
				continue
			}
			t := f.Params[0].Type()
			star := ""
			if pt, ok := t.(*types.Pointer); ok {
				t, star = pt.Elem(), "*"
			}
			nt, ok := t.(*types.Named)
			if !ok || nt.Obj().Pkg() != f.Pkg.Pkg {
				continue
			}
			cand := fmt.Sprintf("%s.(%s%s).%s", pk, star, nt.Obj().Name(), f.Name())
			if _, was := frozen[cand]; was && !have[cand] {
				formAliases[f] = formAlias{cand, f.Pkg.Pkg.Name() + "." + nt.Obj().Name() + "." + f.Name()}
			}
			continue
		}
		cand := pk + "." + f.Name()
		if _, was := frozen[cand]; was && !have[cand] {
			formAliases[f] = formAlias{cand, f.Pkg.Pkg.Name() + "." + f.Name()}
		}
	}
}
