#!/usr/bin/env python3
# Regenerates the block between ASBUILT-BEGIN/END in DESIGN.md from evidence/*.json and known_findings.json.
import json, os, glob, re
here = os.path.dirname(os.path.dirname(os.path.abspath(__file__)))
kf = json.load(open(os.path.join(here, 'known_findings.json')))['findings']
out = []
for i in range(1, 21):
    pid = 'C%02d' % i
    ev = json.load(open(os.path.join(here, 'evidence', pid + '.json')))
    c = ev['coverage']
    rules = ' '.join('%s:%d' % (k, v) for k, v in sorted(c['obligations_by_rule'].items()))
    known = [f for f in kf if f['property'] == pid and f['status'] == 'known']
    fixed = [f for f in kf if f['property'] == pid and f['status'] == 'fixed']
    out.append('#### %s — %d obligations (%s), floor %d, %d known findings, %d fixed' % (pid, c['obligations'], rules, c['floor'], len(known), len(fixed)))
    out.append('')
    out.append(c['explanation'])
    out.append('')
    st = c.get('selftest_variants')
    if st is not None:
        out.append('Self-test (thorough): %d variants, %d detected, %d missed, %d stale.' % (st, c.get('selftest_detected', 0), c.get('selftest_missed', 0), c.get('selftest_stale', 0)))
        out.append('')
p = os.path.join(here, 'DESIGN.md')
s = open(p).read()
a = s.index('<!-- ASBUILT-BEGIN -->') + len('<!-- ASBUILT-BEGIN -->')
b = s.index('<!-- ASBUILT-END -->')
s = s[:a] + '\n' + '\n'.join(out) + '\n' + s[b:]
open(p, 'w').write(s)
print('DESIGN.md as-built block regenerated')
