package props

import (
	"fmt"
	"go/types"
	"strings"

	"golang.org/x/tools/go/ssa"

	"lkcheck/ir"
)

// K8 error discipline. For a call whose last result is an error, classify
// what the caller does with it:
//
//	propagated   the error (or an error built from it) is returned
//	fatal        the failure branch panics / exits
//	dropped      the result is not used at all (`_ =`, bare call statement)
//	swallowed    the failure branch continues or returns a nil error
//	              (log-and-continue)
//	unknown      anything else (stored, passed on) — reported as undecided
type errUse struct {
	Class  string
	Detail string
}

func errorResultIndex(sig *types.Signature) int {
	rs := sig.Results()
	if rs.Len() == 0 {
		return -1
	}
	last := rs.At(rs.Len() - 1).Type()
	if types.Identical(last, types.Universe.Lookup("error").Type()) {
		return rs.Len() - 1
	}
	return -1
}

func fnReturnsError(fn *ssa.Function) int { return errorResultIndex(fn.Signature) }

// classifyErrUse inspects the uses of the error result of call.
func classifyErrUse(call *ssa.Call) errUse {
	sig := call.Call.Signature()
	idx := errorResultIndex(sig)
	if idx < 0 {
		return errUse{"none", "callee returns no error"}
	}
	var errVal ssa.Value
	if sig.Results().Len() == 1 {
		errVal = call
	} else {
		if call.Referrers() != nil {
			for _, r := range *call.Referrers() {
				if ex, ok := r.(*ssa.Extract); ok && ex.Index == idx {
					errVal = ex
				}
			}
		}
	}
	if errVal == nil || errVal.Referrers() == nil || len(nonDebugRefs(errVal)) == 0 {
		return errUse{"dropped", "the error result is not used"}
	}
	fn := call.Parent()
	best := errUse{"unknown", "error value is used in a way the rule does not recognise"}
	for _, r := range nonDebugRefs(errVal) {
		switch x := r.(type) {
		case *ssa.Return:
			return errUse{"propagated", "returned to the caller"}
		case *ssa.Panic:
			return errUse{"fatal", "panic(err)"}
		case *ssa.MakeInterface, *ssa.ChangeInterface:
			// panic(err) / wrapping
			for _, rr := range nonDebugRefs(x.(ssa.Value)) {
				if _, ok := rr.(*ssa.Panic); ok {
					return errUse{"fatal", "panic(err)"}
				}
			}
		case *ssa.BinOp:
			// err != nil / err == nil feeding an If
			for _, rr := range nonDebugRefs(x) {
				ifi, ok := rr.(*ssa.If)
				if !ok {
					continue
				}
				atoms := ir.CondAtoms(x, true)
				if len(atoms) != 1 {
					continue
				}
				// which successor is the failure branch?
				var fail *ssa.BasicBlock
				if strings.HasPrefix(atoms[0], "!eq(") { // cond true means err != nil
					fail = ifi.Block().Succs[0]
				} else if strings.HasPrefix(atoms[0], "eq(") {
					fail = ifi.Block().Succs[1]
				} else {
					continue
				}
				// not final: the same error may ALSO be carried to a return through a variable (`err = f();
				// if err != nil { log; err = ErrX }; ...; return err`), which reports it; the verdict is the
				// strongest use, independent of the order in which the uses are listed
				cand := classifyFailureBranch(fn, fail, errVal)
				if rank(cand.Class) > rank(best.Class) {
					best = cand
				}
			}
		case *ssa.Phi:
			// err flows into a variable that is tested/returned later
			for _, rr := range nonDebugRefs(x) {
				if _, ok := rr.(*ssa.Return); ok {
					best = errUse{"propagated", "returned through a variable"}
				}
			}
			// ... possibly after a test of the variable
			for _, rr := range nonDebugRefs(x) {
				if bo, ok := rr.(*ssa.BinOp); ok {
					for _, r3 := range nonDebugRefs(bo) {
						if ifi, ok := r3.(*ssa.If); ok {
							atoms := ir.CondAtoms(bo, true)
							if len(atoms) != 1 {
								continue
							}
							var fail *ssa.BasicBlock
							if strings.HasPrefix(atoms[0], "!eq(") {
								fail = ifi.Block().Succs[0]
							} else if strings.HasPrefix(atoms[0], "eq(") {
								fail = ifi.Block().Succs[1]
							} else {
								continue
							}
							if cand := classifyFailureBranch(fn, fail, x); rank(cand.Class) > rank(best.Class) {
								best = cand
							}
						}
					}
				}
			}
		case *ssa.Store:
			// named result / captured variable
			if al, ok := x.Addr.(*ssa.Alloc); ok {
				for _, rr := range *al.Referrers() {
					if u, ok := rr.(*ssa.UnOp); ok {
						for _, r3 := range nonDebugRefs(u) {
							if _, ok := r3.(*ssa.Return); ok {
								best = errUse{"propagated", "returned through the result variable"}
							}
						}
					}
				}
			}
		case *ssa.Call:
			n := ir.CalleeName(x)
			if ir.IsNoReturnCall(x) {
				return errUse{"fatal", n}
			}
		}
	}
	return best
}

func nonDebugRefs(v ssa.Value) []ssa.Instruction {
	var out []ssa.Instruction
	if v.Referrers() == nil {
		return nil
	}
	for _, r := range *v.Referrers() {
		if _, ok := r.(*ssa.DebugRef); ok {
			continue
		}
		out = append(out, r)
	}
	return out
}

// classifyFailureBranch: every path from the failure branch must end in a
// non-nil error return or die; a path that returns nil/without error or that
// rejoins the normal flow is "swallowed".
func classifyFailureBranch(fn *ssa.Function, fail *ssa.BasicBlock, errVal ssa.Value) errUse {
	fi := ir.Info(fn)
	ei := fnReturnsError(fn)
	// join point: the first block reachable from `fail` that is not dominated by it
	seen := map[*ssa.BasicBlock]bool{}
	work := []*ssa.BasicBlock{fail}
	fatalOnly := true
	for len(work) > 0 {
		b := work[0]
		work = work[1:]
		if seen[b] {
			continue
		}
		seen[b] = true
		if !fi.Dominates(fail, b) {
			return errUse{"swallowed", fmt.Sprintf("the failure branch rejoins the normal flow at block %d (log-and-continue)", b.Index)}
		}
		if fi.Dies[b] {
			continue
		}
		killed := false
		for _, in := range b.Instrs {
			if call, ok := in.(*ssa.Call); ok && ir.CalleeName(call) == "common.Kill" {
				killed = true // cmn.Kill() terminates the process (SIGTERM to self)
			}
		}
		if killed {
			continue
		}
		if len(b.Instrs) > 0 {
			if rt, ok := b.Instrs[len(b.Instrs)-1].(*ssa.Return); ok {
				fatalOnly = false
				if ei < 0 {
					return errUse{"swallowed", "the failure branch returns normally from a function without an error result"}
				}
				res := rt.Results[ei]
				for _, r := range ir.Returns(fn) {
					if r.Instr == rt {
						res = r.Results[ei]
					}
				}
				if ir.AbstractResult(res) == "nil" {
					return errUse{"swallowed", "the failure branch returns a nil error"}
				}
				continue
			}
		}
		work = append(work, fi.Succs[b]...)
	}
	if fatalOnly {
		return errUse{"fatal", "the failure branch never returns"}
	}
	return errUse{"propagated", "the failure branch returns a non-nil error"}
}

// ErrorDiscipline checks every call in fn (and its closures) whose callee
// matches one of the globs and returns an error.
func (c C) ErrorDiscipline(fnName string, fn *ssa.Function, calleeGlobs ...string) int {
	n := 0
	ir.InstrsDeep(fn, func(f *ssa.Function, in ssa.Instruction) {
		var cc *ssa.CallCommon
		var call *ssa.Call
		switch x := in.(type) {
		case *ssa.Call:
			cc, call = &x.Call, x
		case *ssa.Defer:
			cc = &x.Call
		case *ssa.Go:
			cc = &x.Call
		default:
			return
		}
		name := ir.CalleeName(in.(ssa.CallInstruction))
		match := false
		for _, g := range calleeGlobs {
			if ir.Match(g, name) {
				match = true
			}
		}
		if !match || errorResultIndex(cc.Signature()) < 0 {
			return
		}
		n++
		key := fnName + "/" + name
		if call == nil {
			c.R.Check("K8", "error-discipline/"+key, c.P.InstrPos(in), false, "error result of a deferred/go call is lost")
			return
		}
		u := classifyErrUse(call)
		switch u.Class {
		case "propagated", "fatal":
			c.R.Check("K8", "error-discipline/"+key, c.P.InstrPos(in), true, u.Class+": "+u.Detail)
		case "unknown":
			c.R.Undecided("K8", "error-discipline/"+key, c.P.InstrPos(in), u.Detail)
		default:
			c.R.Check("K8", "error-discipline/"+key, c.P.InstrPos(in), false, u.Class+": "+u.Detail)
		}
	})
	return n
}

// ErrorCensus classifies every error-returning call in the functions defined in the given files
// (debug aid: `lkcheck -census`).
func ErrorCensus(p *ir.Program, files map[string]bool) map[string][]string {
	out := map[string][]string{}
	for _, f := range p.Funcs {
		if f.Blocks == nil {
			continue
		}
		pos := p.Pos(f.Pos())
		file := pos
		if i := strings.LastIndex(pos, ":"); i > 0 {
			file = pos[:i]
		}
		if !files[file] {
			continue
		}
		for _, b := range f.Blocks {
			for _, in := range b.Instrs {
				call, ok := in.(*ssa.Call)
				if !ok || errorResultIndex(call.Call.Signature()) < 0 {
					continue
				}
				u := classifyErrUse(call)
				out[u.Class] = append(out[u.Class], p.InstrPos(in)+" "+ir.FuncName(f)+" -> "+ir.CalleeName(call))
			}
		}
	}
	return out
}

// rank orders the classes of an error's uses: the strongest use decides.
func rank(class string) int {
	switch class {
	case "propagated":
		return 5
	case "fatal":
		return 4
	case "swallowed":
		return 2
	case "dropped":
		return 1
	}
	return 0 // unknown
}
