package props

import (
	"fmt"
	"strconv"
	"strings"

	"golang.org/x/tools/go/ssa"

	"lkcheck/ir"
	"lkcheck/report"
)

func init() { Registry["C13"] = C13 }

// firstCall returns the first call of fn (incl. closures) matching the glob.
func firstCall(fn *ssa.Function, glob string) ssa.CallInstruction {
	cs := ir.Calls(fn, glob)
	if len(cs) == 0 {
		return nil
	}
	return cs[0]
}

// Order records K2 obligations: the calls matching globs occur in this order
// (each dominates the next).
func (c C) Order(fnName string, fn *ssa.Function, globs ...string) {
	var prev ssa.CallInstruction
	var prevG string
	for _, g := range globs {
		cur := firstCall(fn, g)
		if cur == nil {
			c.R.Undecided("K2", fnName+"/order/"+strings.TrimPrefix(g, "*"), c.P.Pos(fn.Pos()), "call not found: "+g)
			return
		}
		if prev != nil {
			c.R.Check("K2", fnName+"/order/"+strings.TrimPrefix(prevG, "*")+" ≺ "+strings.TrimPrefix(g, "*"), c.P.InstrPos(cur), notBefore(cur, prev),
				"durable-write order: "+g+" never runs before "+prevG+" (no CFG path from the former to the latter)")
		}
		prev, prevG = cur, g
	}
}

// notBefore: b never executes before a — there is no CFG path from b to a.
func notBefore(b, a ssa.Instruction) bool {
	found, _, _ := ir.FindPath(ir.PathQuery{From: ir.At(b), Target: func(in ssa.Instruction) bool { return in == a }})
	return !found && b != a
}

// allocStores renders the values stored into the named local of fn.
func allocStores(fn *ssa.Function, name string) []string {
	var out []string
	ir.Instrs(fn, func(in ssa.Instruction) {
		if st, ok := in.(*ssa.Store); ok {
			if al, ok := st.Addr.(*ssa.Alloc); ok && ir.LocalName(al.Parent(), al.Comment) == name {
				out = append(out, ir.Render(st.Val))
			}
		}
	})
	return out
}

// C13 committed history survives crashes and pruning.
func C13(p *ir.Program, r *report.R) {
	c := C{p, r}
	r.Floor = 55
	r.Explain = "Decided: (i) the ORDER of the durable writes of a commit — in LinkApplication.CommitBlock, ConsensusState.finalizeCommit, BlockExecutor.ApplyBlock, BlockStore.SaveBlock (data batch before the height descriptor before the in-memory height), wrappedTrie.Commit (undo log synced before the data batch) and SaveWAL (truncate before height); (ii) the recovery code accepts exactly the lags that order can produce (node.NewNode re-applies iff status lags the app by one; NewKeyValueDBWithCache handles kv-height in {h, h+1, 0} and panics otherwise); (iii) error discipline: no error of the storage layer is dropped or logged-and-continued on the commit path (each call site classified: propagated / fatal / dropped / swallowed); (iv) pruning: every delete in both DeleteHistoricalData loops is guarded by the wrap-free bound h+keep <= max, the early return uses the same inequality, the siblings agree, and the loaded start height is the one used. ADDED after seeded-change testing: Flat-state undo log: every batch operation of wrappedTrie.Commit is preceded in its iteration by the undo record's key and by the old value or the did-not-exist marker; the batch is committed only after saveWAL succeeded; StateDB.Commit resets the log before any trie commit; rebuildLastState reads a length field or a record body only under a bounds check (torn tail = stop). Rounds 4-5: the undo log is opened in append mode; the max-sequence key is read as written. Round 7: every text/number conversion of the UTXO store uses the base positionalNotation. NOT decided: atomicity of each backend's batch on disk (C19), content equality of what is read back, consequences of the writes SaveBlock performs outside its batch."
	r.Trusted = []string{"libs/db backends (C19)", "os.File.Sync/Truncate"}

	// ---- (i) order ------------------------------------------------------------
	cb := p.Func("app", "LinkApplication.CommitBlock")
	cbn := "app.(*LinkApplication).CommitBlock"
	c.Order(cbn, cb, "state.StateDB.Commit", "*TrieDB.Commit", "blockchain.BlockStore.SaveBlock", "utxo.UtxoStore.SaveUtxo", "*Mempool.Update")
	{
		// in-memory switch-over after all durable writes
		last := firstCall(cb, "*Mempool.Update")
		for _, f := range []string{"storeState", "currentBlock", "lastTxsResult"} {
			for _, s := range p.Stores(p.Field("app", "LinkApplication."+f)) {
				if s.Fn == cb && last != nil {
					r.Check("K2", cbn+"/order/durable-writes ≺ app."+f, p.InstrPos(s.Instr), notBefore(s.Instr, last), "the application switches to the new state only after the durable writes")
				}
			}
		}
		// mempool update happens under the mempool lock
		lk, ul, up := firstCall(cb, "*Mempool.Lock"), firstCall(cb, "*Mempool.Unlock"), firstCall(cb, "*Mempool.Update")
		if lk != nil && ul != nil && up != nil {
			r.Check("K2", cbn+"/order/mempool Lock ≺ Update ≺ Unlock", p.InstrPos(up), notBefore(up, lk) && notBefore(ul, up) && ir.Precedes(lk, up), "mempool maintenance under its lock")
		}
	}
	fin := p.Func("consensus", "ConsensusState.finalizeCommit")
	c.Order(csT+"finalizeCommit", fin, "*BlockChainApp.CommitBlock", "consensus.WAL.WriteSync", "consensus.BlockExecutor.ApplyBlock", "consensus.ConsensusState.updateToStatus")
	ab := p.Func("consensus", "BlockExecutor.ApplyBlock")
	c.Order("consensus.(*BlockExecutor).ApplyBlock", ab, "consensus.BlockExecutor.ValidateBlock", "consensus.updateStatus", "consensus.SaveStatus")
	{
		ss := p.Func("consensus", "saveStatus")
		c.Order("consensus.saveStatus", ss, "consensus.saveValidatorsInfo", "consensus.saveConsensusParamsInfo", "db.DB.SetSync")
		okSync := false
		for _, call := range ir.Calls(ss, "db.DB.SetSync") {
			if Arg(call, 1) == "consensus.statusKey" {
				okSync = true
			}
		}
		r.Check("K2", "consensus.saveStatus/status-synced", p.Pos(ss.Pos()), okSync, "the status record is written with SetSync")
	}
	{
		sb := p.Func("blockchain", "BlockStore.SaveBlock")
		sbn := "blockchain.(*BlockStore).SaveBlock"
		commit := firstCall(sb, "db.Batch.Commit")
		save := firstCall(sb, "blockchain.BlockStoreStateJSON.Save")
		if commit == nil || save == nil {
			r.Undecided("K2", sbn+"/order", p.Pos(sb.Pos()), "batch commit / state save not found")
		} else {
			r.Check("K2", sbn+"/order/batch.Commit ≺ BlockStoreStateJSON.Save", p.InstrPos(save), ir.Precedes(commit, save) && notBefore(save, commit), "the height descriptor moves only after the data batch is committed")
			// receipts, the block result and the tx index are written by helper goroutines: the descriptor
			// that acknowledges the block moves only after they were joined
			nGo := 0
			ir.Instrs(sb, func(in ssa.Instruction) {
				if _, ok := in.(*ssa.Go); ok {
					nGo++
				}
			})
			if nGo > 0 {
				wait := firstCall(sb, "sync.WaitGroup.Wait")
				okW := wait != nil && ir.Precedes(wait.(ssa.Instruction), save.(ssa.Instruction))
				if okW {
					ir.Instrs(sb, func(in ssa.Instruction) {
						if g, ok := in.(*ssa.Go); ok && !ir.Precedes(g, wait.(ssa.Instruction)) {
							okW = false
						}
					})
				}
				r.Check("K2", sbn+"/order/goroutines joined ≺ BlockStoreStateJSON.Save", p.InstrPos(save), okW, fmt.Sprintf("the %d writer goroutines are started and joined (WaitGroup.Wait) before the height descriptor is written", nGo))
			}
			for _, s := range p.Stores(p.Field("blockchain", "BlockStore.height")) {
				if s.Fn == sb {
					r.Check("K2", sbn+"/order/BlockStoreStateJSON.Save ≺ bs.height", p.InstrPos(s.Instr), ir.Precedes(save, s.Instr), "the in-memory height moves last")
					hv := allocStores(sb, "height")
					r.Check("K2", sbn+"/height-value", p.InstrPos(s.Instr), ir.Render(s.Val) == "block.Header.Height" || (ir.Render(s.Val) == "height" && len(hv) == 1 && hv[0] == "block.Header.Height"), "the height stored is the saved block's: "+ir.Render(s.Val))
				}
			}
			// every batch Set precedes the commit and goes to the same batch
			nSet := 0
			bat := Arg(commit, 0)
			ir.InstrsDeep(sb, func(f *ssa.Function, in ssa.Instruction) {
				call, ok := in.(ssa.CallInstruction)
				if !ok || ir.CalleeName(call) != "db.Batch.Set" {
					return
				}
				nSet++
				r.Check("K2", sbn+"/batch/Set ≺ Commit", p.InstrPos(in), f == sb && notBefore(commit, in) && Arg(call, 0) == bat, "block data is put into the one batch before it is committed")
			})
			// parts go through saveBlockPart with the same batch
			for _, call := range ir.Calls(sb, "blockchain.BlockStore.saveBlockPart") {
				r.Check("K2", sbn+"/batch/parts-in-batch", p.InstrPos(call), Arg(call, 4) == bat && notBefore(commit, call), "block parts are saved into the same batch before the commit: "+Arg(call, 4))
			}
			for _, g := range []G{{"contiguous", ir.EqPat("block.Header.Height", "(blockchain.BlockStore.Height(bs) + 1)") + " || le(block.Header.Height,*)"}, {"complete-parts", "types.PartSet.IsComplete(blockParts)"}} {
				if g.Label == "contiguous" {
					c.GuardsAny(sbn, "commit batch", "contiguous-or-genesis", commit, ir.EqPat("height", "(blockchain.BlockStore.Height(bs) + 1)"), ir.EqPat("block.Header.Height", "(blockchain.BlockStore.Height(bs) + 1)"), "le(height,types.BlockHeightZero)", "le(block.Header.Height,types.BlockHeightZero)")
				} else {
					c.Guards(sbn, "commit batch", commit, g)
				}
			}
		}
	}
	{
		wc := p.Func("state", "wrappedTrie.Commit")
		wn := "state.(*wrappedTrie).Commit"
		c.Order(wn, wc, "state.wrappedDB.saveWAL", "db.Batch.Commit")
		sw := p.Func("state", "wrappedDB.saveWAL")
		wr, sy := firstCall(sw, "os.File.Write"), firstCall(sw, "os.File.Sync")
		r.Check("K2", "state.(*wrappedDB).saveWAL/write ≺ sync", p.Pos(sw.Pos()), wr != nil && sy != nil && notBefore(sy, wr), "the undo log is synced after it is written")
		c.ErrorDiscipline("state.(*wrappedDB).saveWAL", sw, "os.File.*")
		c.ErrorDiscipline(wn, wc, "state.wrappedDB.saveWAL", "db.Batch.*")
		s2 := p.Func("state", "wrappedDB.SaveWAL")
		c.Order("state.(*wrappedDB).SaveWAL", s2, "os.File.Truncate", "state.saveHeight")
		c.ErrorDiscipline("state.(*wrappedDB).SaveWAL", s2, "os.File.*")
		sh := p.Func("state", "saveHeight")
		r.Check("K2", "state.saveHeight/synced", p.Pos(sh.Pos()), firstCall(sh, "db.DB.SetSync") != nil, "the kv height marker is written with SetSync")
		// StateDB.Commit records the WAL height before writing state
		sc := p.Func("state", "StateDB.Commit")
		c.Order("state.(*StateDB).Commit", sc, "state.wrappedDB.SaveWAL", "state.Trie.Commit")
	}

	// ---- (ii) recovery matches order ----------------------------------------------
	{
		rebuildStatusRules(c)
		kv := p.Func("state", "NewKeyValueDBWithCache")
		d := ir.Domain{Axes: []ir.Axis{
			ir.BoolAxis("isTrie", "isTrie"),
			ir.OrderAxis("cache", "cache", "zero"),
			ir.EnumAxis("kvh-height", "state.loadHeight(db)", []int64{0, 4, 5, 6, 7}),
			ir.NilAxis("openErr", "os.OpenFile(*)#1"),
		}}
		_ = d
		// switch shape: rebuildLastState only under kvh == height+1; panic in the default case
		for _, call := range ir.Calls(kv, "state.rebuildLastState") {
			c.Guards("state.NewKeyValueDBWithCache", "rebuild", call, G{"kv-ahead-by-one", ir.EqPat("state.loadHeight(db)", "(height + 1)")})
		}
		c.MustFind("K5", "state.NewKeyValueDBWithCache/rebuild", kv, len(ir.Calls(kv, "state.rebuildLastState")), "rebuildLastState call")
		// the non-trie, cached path returns normally only for kvh in {height, height+1, 0}
		for _, rt := range ir.Returns(kv) {
			ok, tr := ir.EveryPathHas(rt.Instr, "isTrie", "le(cache,0)", ir.EqPat("state.loadHeight(db)", "height"), ir.EqPat("state.loadHeight(db)", "(height + 1)"), "eq(state.loadHeight(db),0)")
			r.Check("K6", "state.NewKeyValueDBWithCache/accepted-lags", p.InstrPos(rt.Instr), ok, fmt.Sprintf("a kv database is opened only when its height is h, h+1 (rolled back) or 0; any other lag panics; offending path %v", tr))
		}
		c.ErrorDiscipline("state.NewKeyValueDBWithCache", kv, "state.rebuildLastState", "os.OpenFile")
	}

	// ---- (iii) error discipline on the commit path ---------------------------------
	storage := []string{"state.StateDB.Commit", "state.StateDB.Reset", "*TrieDB.Commit", "*UTXOStore.Save*", "utxo.UtxoStore.*", "db.Batch.*", "db.DB.*",
		"*BalanceRecordStore.Save", "*blockchain.*Save*", "state.Trie.Commit", "state.stateObject.CommitTrie", "*CrossState.*", "txmgr.Service.*", "blockchain.BlockStore.deleteBlock"}
	n := 0
	n += c.ErrorDiscipline(cbn, cb, storage...)
	n += c.ErrorDiscipline("blockchain.(*BlockStore).SaveBlock", p.Func("blockchain", "BlockStore.SaveBlock"), storage...)
	n += c.ErrorDiscipline("blockchain.(*BlockStore).saveReceipts", p.Func("blockchain", "BlockStore.saveReceipts"), storage...)
	n += c.ErrorDiscipline("blockchain.(*BlockStore).saveTxsResult", p.Func("blockchain", "BlockStore.saveTxsResult"), storage...)
	n += c.ErrorDiscipline("utxo.(*UtxoStore).SaveUtxo", p.Func("utxo", "UtxoStore.SaveUtxo"), storage...)
	n += c.ErrorDiscipline("utxo.(*UtxoStore).SaveKImages", p.Func("utxo", "UtxoStore.SaveKImages"), storage...)
	n += c.ErrorDiscipline("utxo.(*UtxoStore).SaveUtxoOutputs", p.Func("utxo", "UtxoStore.SaveUtxoOutputs"), append(storage, "ser.EncodeToBytes")...)
	n += c.ErrorDiscipline("utxo.(*UtxoStore).saveTokenUtxoOutputSeq", p.Func("utxo", "UtxoStore.saveTokenUtxoOutputSeq"), storage...)
	n += c.ErrorDiscipline("state.(*StateDB).Commit", p.Func("state", "StateDB.Commit"), storage...)
	n += c.ErrorDiscipline(csT+"finalizeCommit", fin, "*BlockChainApp.CommitBlock", "consensus.BlockExecutor.ApplyBlock")
	n += c.ErrorDiscipline("consensus.(*BlockExecutor).ApplyBlock", ab, "consensus.BlockExecutor.ValidateBlock", "consensus.updateStatus")
	r.Stats["error-returning storage calls on the commit path"] = n

	// ---- (iv) pruning bounds ------------------------------------------------------------
	for _, sp := range []struct{ rel, fn, name, del string }{
		{"blockchain", "BlockStore.DeleteHistoricalData", "blockchain.(*BlockStore).DeleteHistoricalData", "blockchain.BlockStore.deleteBlock"},
		{"consensus", "ConsensusState.DeleteHistoricalData", csT + "DeleteHistoricalData", "db.DB.Delete"},
	} {
		fn := p.Func(sp.rel, sp.fn)
		dels := ir.Calls(fn, sp.del)
		if !c.MustFind("K11", sp.name+"/deletes", fn, len(dels), "delete calls") {
			continue
		}
		for _, d := range dels {
			fs := ir.FactsAt(d)
			ok := ir.HasFact(fs, "le((φ:minHeight + keepLatestBlocks),*)") ||
				(ir.HasFact(fs, "le(φ:minHeight,(* - keepLatestBlocks))") && ir.HasFact(fs, "le(keepLatestBlocks,*)"))
			r.Check("K11", sp.name+"/delete-inside-window-bound", p.InstrPos(d), ok,
				"every delete(h) is guarded by the wrap-free retention bound h + keep <= max (or h <= max-keep together with keep <= max); facts: "+short(strings.Join(ir.FactStrings(fs), " ; "), 300))
			// the height deleted is the loop variable
			arg := ir.RenderCall(d)
			r.Check("K11", sp.name+"/delete-loop-variable", p.InstrPos(d), strings.Contains(arg, "φ:minHeight"), "the record deleted is the one at the loop height: "+short(arg, 160))
		}
		// the loop variable starts from the persisted start height (not a shadowed copy)
		startOK := false
		for _, b := range fn.Blocks {
			for _, in := range b.Instrs {
				if ph, ok := in.(*ssa.Phi); ok && ir.LocalName(ph.Parent(), ph.Comment) == "minHeight" {
					for _, e := range ph.Edges {
						s := ir.Render(e)
						if strings.Contains(s, "loadStartDeleteHeight(") {
							startOK = true
						}
					}
				}
			}
		}
		r.Check("K11", sp.name+"/start-height-loaded", p.Pos(fn.Pos()), startOK, "when the cached start height is 0 the loop starts from loadStartDeleteHeight(db) (the loaded value must reach the loop variable)")
		// the new start height is persisted
		okSave := false
		for _, call := range ir.Calls(fn, "*.saveStartDeleteHeight") {
			if strings.Contains(Arg(call, 1), "minHeight") {
				okSave = true
			}
		}
		r.Check("K11", sp.name+"/progress-persisted", p.Pos(fn.Pos()), okSave, "the height reached is persisted with saveStartDeleteHeight")
	}
	// validator / params records that in-window heights still point to
	{
		fn := p.Func("consensus", "ConsensusState.DeleteHistoricalData")
		for _, d := range ir.Calls(fn, "db.DB.Delete") {
			key := Arg(d, 1)
			which := "validators"
			field := "LastHeightValidatorsChanged"
			if strings.Contains(key, "calcConsensusParamsKey") {
				which, field = "consensus-params", "LastHeightConsensusParamsChanged"
			}
			fs := ir.FactsAt(d)
			ok := ir.HasFact(fs, "lt(φ:minHeight,*"+field+"*)") || ir.HasFact(fs, "!eq(φ:minHeight,*"+field+"*)")
			r.Check("K1", csT+"DeleteHistoricalData/keeps-last-changed-"+which, p.InstrPos(d), ok,
				"records inside the window that did not change store only a pointer to the height of the last change (LoadValidators falls back to it); pruning must not delete the record at status."+field)
		}
		lv := p.Func("consensus", "LoadValidators")
		calls := ir.Calls(lv, "consensus.loadValidatorsInfo")
		okFB := false
		for _, call := range calls {
			if Arg(call, 1) == "consensus.loadValidatorsInfo(db,height).LastHeightChanged" && ir.HasFact(ir.FactsAt(call), "eq(consensus.loadValidatorsInfo(db,height).ValidatorSet,nil)") {
				okFB = true
			}
		}
		r.Check("K1", "consensus.LoadValidators/fallback", p.Pos(lv.Pos()), okFB, "a record without a set is resolved through its LastHeightChanged")
	}

	// ---- one positional notation for every number the UTXO store writes and reads -----------------------------------
	// Sequence numbers are stored as text in base positionalNotation (36): every FormatInt/FormatUint/
	// ParseInt/ParseUint of utxo/store.go names that constant as its base. A writer in base 10 and a reader
	// in base 36 agree for 0..9 and part ways at the first restart after that.
	{
		nConv := 0
		var bad []string
		base := fmt.Sprint(c.ConstInt("utxo", "positionalNotation"))
		for _, f := range p.Funcs {
			if f.Pkg == nil || ir.RelPkg(f.Pkg.Pkg) != "utxo" || f.Blocks == nil || strings.HasSuffix(p.Pos(f.Pos()), "_test.go") {
				continue
			}
			ir.Instrs(f, func(in ssa.Instruction) {
				call, ok := in.(*ssa.Call)
				if !ok {
					return
				}
				switch ir.CalleeName(call) {
				case "strconv.FormatInt", "strconv.FormatUint", "strconv.ParseInt", "strconv.ParseUint":
					nConv++
					if Arg(call, 1) != base {
						bad = append(bad, p.InstrPos(in)+": "+ir.CalleeName(call)+" base "+Arg(call, 1))
					}
				case "strconv.Itoa", "strconv.Atoi":
					nConv++
					bad = append(bad, p.InstrPos(in)+": "+ir.CalleeName(call)+" (base 10)")
				}
			})
		}
		r.Check("K5", "utxo/store/one-positional-notation/writer~reader", "-", len(bad) == 0 && nConv >= 5, fmt.Sprintf("%d text/number conversions in utxo, all in base %s: %v", nConv, base, bad))
	}

	// ---- flat-state undo log (state/keyvalue.go) ---------------------------------------------
	// In key/value storage mode a block's state writes are applied in place; a crash between the
	// state commit and SaveBlock is undone from the undo log. Necessary shape:
	//  (U1) every key of the batch gets an undo record (key, then old value or the zero-length
	//       "did not exist" marker) before its batch operation is queued;
	//  (U2) the undo records are written and synced before the batch is committed;
	//  (U3) saveWAL syncs on every successful path;
	//  (U4) the reader tolerates a torn tail: every read of the log buffer is bounds-checked.
	{
		cm := p.Func("state", "wrappedTrie.Commit")
		name := "state.(*wrappedTrie).Commit"
		isKeyRec := func(in ssa.Instruction) bool {
			st, ok := in.(*ssa.Store)
			return ok && ir.Render(st.Addr) == "&kvTrie.walBz" && ir.Match("append(kvTrie.walBz,*key*)", ir.Render(st.Val)) && !strings.Contains(ir.Render(st.Val), "lenBuf")
		}
		isOldRec := func(in ssa.Instruction) bool {
			st, ok := in.(*ssa.Store)
			if !ok || ir.Render(st.Addr) != "&kvTrie.walBz" {
				return false
			}
			v := ir.Render(st.Val)
			// second length field of the record: either the old value follows or the length is zero
			return ir.Match("append(kvTrie.walBz,db.DB.Load(*)#0)", v) || (ir.Match("append(kvTrie.walBz,state.lenBuf)", v) && ir.HasFact(ir.FactsAt(in), "le(len(db.DB.Load(*)#0),0)"))
		}
		isOp := ir.CallMatcher("db.Batch.Set", "db.Batch.Delete")
		var loop *ir.Loop
		for _, l := range ir.Loops(cm) {
			l := l
			for b := range l.Body {
				for _, in := range b.Instrs {
					if isOp(in) {
						loop = &l
					}
				}
			}
		}
		if loop == nil {
			r.Undecided("K2", name+"/undo-log/loop", p.Pos(cm.Pos()), "batch loop not found")
		} else {
			from := ir.Point{B: loop.Header, I: -1}
			found, hit, tr := ir.FindPath(ir.PathQuery{From: from, Target: isOp, Avoid: isKeyRec})
			d := "every batch operation is preceded in its iteration by the undo record's key"
			if found {
				d += fmt.Sprintf(" — but %s (%s) is reached without it, blocks %v", ir.RenderInstr(hit), p.InstrPos(hit), tr)
			}
			r.Check("K2", name+"/undo-log/key-record-for-every-key", p.Pos(cm.Pos()), !found, d)
			found, hit, tr = ir.FindPath(ir.PathQuery{From: from, Target: isOp, Avoid: isOldRec})
			d = "every batch operation is preceded in its iteration by the old value or the did-not-exist marker"
			if found {
				d += fmt.Sprintf(" — but %s (%s) is reached without it, blocks %v", ir.RenderInstr(hit), p.InstrPos(hit), tr)
			}
			r.Check("K2", name+"/undo-log/old-value-or-absent-marker", p.Pos(cm.Pos()), !found, d)
		}
		// trie storage mode: the wrapper delegates the commit with its own arguments. The leaf callback is
		// what records the references from an account to its storage root and code; without it the trie
		// database flushes the account trie only and everything else is lost at the next restart.
		{
			n := 0
			for _, call := range ir.Calls(cm, "state.Trie.Commit") {
				if Arg(call, 0) != "kvTrie.oldTrie" {
					continue
				}
				n++
				r.Check("K5", name+"/trie-mode/delegates-with-own-arguments", p.InstrPos(call.(ssa.Instruction)), Arg(call, 1) == "onleaf" && Arg(call, 2) == "height", "oldTrie.Commit(onleaf, height): "+Arg(call, 1)+", "+Arg(call, 2))
			}
			c.MustFind("K5", name+"/trie-mode/delegation", cm, n, "oldTrie.Commit call")
		}
		// the key in the undo record is the key the batch writes (and the key whose old value was loaded):
		// the same SSA value, after the storage-address prefix was prepended — a record that names
		// keccak(slot) instead of addrHash||keccak(slot) rolls back nothing.
		{
			var recKeys, opKeys, loadKeys []ssa.Value
			ir.Instrs(cm, func(in ssa.Instruction) {
				if isKeyRec(in) {
					if ap, ok := in.(*ssa.Store).Val.(*ssa.Call); ok && len(ap.Call.Args) == 2 && !strings.Contains(ir.Render(ap.Call.Args[1]), "Load(") {
						recKeys = append(recKeys, ap.Call.Args[1])
					}
				}
				if call, ok := in.(*ssa.Call); ok {
					switch ir.CalleeName(call) {
					case "db.Batch.Set", "db.Batch.Delete":
						opKeys = append(opKeys, operandArgs(call)[1])
					case "db.DB.Load":
						if loop != nil && loop.Body[in.Block()] {
							loadKeys = append(loadKeys, operandArgs(call)[1])
						}
					}
				}
			})
			same := len(recKeys) > 0 && len(opKeys) > 0 && len(loadKeys) > 0
			for _, k := range append(append([]ssa.Value{}, opKeys...), loadKeys...) {
				for _, rk := range recKeys {
					if k != rk {
						same = false
					}
				}
			}
			r.Check("K5", name+"/undo-log/recorded-key-is-the-written-key", p.Pos(cm.Pos()), same, fmt.Sprintf("the undo record, the old-value lookup and the batch operation use one key value (%d records, %d lookups, %d operations)", len(recKeys), len(loadKeys), len(opKeys)))
		}
		for _, call := range ir.Calls(cm, "db.Batch.Commit") {
			c.Guards(name, "batch commit", call.(ssa.Instruction), G{"undo-log-synced-first", "eq(state.wrappedDB.saveWAL(kvTrie.db,kvTrie.walBz),nil)"})
		}
		c.MustFind("K2", name+"/batch commit", cm, len(ir.Calls(cm, "db.Batch.Commit")), "Batch.Commit call")
		// the state commit truncates the previous undo log and records the height first
		sc := p.Func("state", "StateDB.Commit")
		c.Order("state.(*StateDB).Commit", sc, "state.wrappedDB.SaveWAL", "state.stateObject.CommitTrie")
		c.Order("state.(*StateDB).Commit", sc, "state.wrappedDB.SaveWAL", "state.Trie.Commit")
		// (U4) reader
		rb := p.Func("state", "rebuildLastState")
		nRead := 0
		ir.Instrs(rb, func(in ssa.Instruction) {
			switch x := in.(type) {
			case *ssa.Call:
				if ir.Match("binary.bigEndian.Uint32", ir.CalleeName(x)) {
					nRead++
					a := Arg(x, 1)
					ok, tr := ir.EveryPathHas(in, "le(4,len("+a+"))", "lt(3,len("+a+"))")
					r.Check("K1", "state.rebuildLastState/torn-tail/length-field", p.InstrPos(in), ok, fmt.Sprintf("a length field is read only when 4 bytes remain (else the tail is torn: stop); path without the check: %v", tr))
				}
			case *ssa.Slice:
				if x.High == nil || !strings.Contains(ir.Render(x.High), "binary.bigEndian.Uint32") {
					return
				}
				nRead++
				hi, base := ir.Render(x.High), ir.Render(x.X)
				_ = hi
				ln := "*binary.bigEndian.Uint32(binary.BigEndian," + base + ")*"
				ok, tr := ir.EveryPathHas(in, "le("+ln+",*len("+base+")*)", "lt("+ln+",*len("+base+")*)")
				r.Check("K1", "state.rebuildLastState/torn-tail/record-body", p.InstrPos(in), ok, fmt.Sprintf("a record body %s[..:%s] is sliced only when that many bytes remain; path without the check: %v", short(base, 40), short(hi, 60), tr))
			}
		})
		c.MustFind("K1", "state.rebuildLastState/torn-tail", rb, nRead, "reads of the undo log buffer")
	}

	// pruning and saving address blocks only through the injective key builders (shared with C12)
	storeKeyRules(c, "blockchain", 7)
	// the flat-state undo log is truncated to 0 before every block but keeps its file offset: it must be
	// opened in append mode, or from the second block of a run the records sit behind a hole of zero bytes
	// and the rollback after a crash reads garbage
	{
		nk := p.Func("state", "NewKeyValueDBWithCache")
		n := 0
		for _, call := range ir.Calls(nk, "os.OpenFile") {
			if !strings.Contains(Arg(call, 0), "walFile") {
				continue
			}
			n++
			flags, _ := strconv.Atoi(Arg(call, 1))
			r.Check("K2", "state.NewKeyValueDBWithCache/undo-log-append-mode", p.InstrPos(call.(ssa.Instruction)), flags&1024 != 0 && flags&64 != 0, fmt.Sprintf("the undo log is opened with O_APPEND|O_CREATE (flags %d)", flags))
		}
		c.MustFind("K2", "state.NewKeyValueDBWithCache/undo-log-open", nk, n, "os.OpenFile of the undo log")
	}

	// what is reloaded after a restart is keyed the way it was written: the per-token maximum output
	// sequence is stored under prefix+tokenId and read back under the SAME text (no re-encoding of the key
	// suffix): a restarted node that finds no maximum numbers the next outputs from 0 and overwrites
	// committed ones
	{
		ld := p.Func("utxo", "loadTokenUtxoStoreMaxUtxoOutputSeqMap")
		n := 0
		ir.Instrs(ld, func(in ssa.Instruction) {
			mu, ok := in.(*ssa.MapUpdate)
			if !ok {
				return
			}
			n++
			k := ir.Render(mu.Key)
			r.Check("K5", "utxo.loadTokenUtxoStoreMaxUtxoOutputSeqMap/key-as-written", p.InstrPos(in), ir.Match("db.Iterator.Key(*)[11:]", k) || ir.Match("db.Iterator.Key(*)[len(*):]", k), "the map key is the database key without its prefix, verbatim: "+short(k, 120))
		})
		c.MustFind("K5", "utxo.loadTokenUtxoStoreMaxUtxoOutputSeqMap/map", ld, n, "map update")
		// the writer builds prefix + tokenId
		if gk := p.TryFunc("utxo", "genTokenMaxSeqKey"); gk != nil {
			for _, rt := range ir.Returns(gk) {
				ps := keyPieces(p, rt.Results[0], 0)
				r.Check("K5", "utxo.genTokenMaxSeqKey/prefix-plus-id", p.InstrPos(rt.Instr), len(ps) == 2 && ps[0].Kind == kpLit && len(ps[0].Lit) == 11, "written key = 11-byte prefix + token id text: "+keyString(ps))
			}
		}
	}
}

var _ = report.Discharged

// rebuildStatusRules: after a crash between CommitBlock and SaveStatus the node re-applies the block
// stored at the application height — that block, its meta, and the validators the application computed
// FOR THAT HEIGHT (an older set makes every later block fail the validators-hash comparison).
// Shared by C13 (recovery) and C02 (the status validateBlock compares against).
func rebuildStatusRules(c C) {
	p, r := c.P, c.R
	nn := p.Func("node", "NewNode")
	calls := ir.Calls(nn, "consensus.BlockExecutor.ApplyBlock")
	if c.MustFind("K5", "node.NewNode/rebuild", nn, len(calls), "ApplyBlock call") {
		c.Guards("node.NewNode", "rebuild status", calls[0], G{"status-lags-app-by-one", ir.EqPat("(consensus.LoadStatus(*).LastBlockHeight + 1)", "*.Height(*)") + " || " + ir.EqPat("(*.LastBlockHeight + 1)", "*LinkApplication.Height(*)")})
		r.Check("K5", "node.NewNode/rebuild/block", p.InstrPos(calls[0]), strings.Contains(Arg(calls[0], 3), "LoadBlock(") && strings.Contains(Arg(calls[0], 2), "LoadBlockMeta("), "re-applies the block stored at the application height: "+short(Arg(calls[0], 3), 100))
		// same height for block, meta and validators
		blk, vals := Arg(calls[0], 3), Arg(calls[0], 4)
		hOf := func(s, fn string) string {
			i := strings.Index(s, fn+"(")
			if i < 0 {
				return "?" + fn
			}
			rest := s[i+len(fn)+1:]
			// second argument up to the matching parenthesis
			depth, start := 0, -1
			for j, ch := range rest {
				switch ch {
				case '(':
					depth++
				case ')':
					if depth == 0 {
						if start >= 0 {
							return rest[start:j]
						}
						return rest[:j]
					}
					depth--
				case ',':
					if depth == 0 && start < 0 {
						start = j + 1
					}
				}
			}
			return "?"
		}
		hb, hv := hOf(blk, "LoadBlock"), hOf(vals, "GetValidators")
		r.Check("K5", "node.NewNode/rebuild/validators-of-that-height", p.InstrPos(calls[0]), hb == hv && strings.Contains(hv, "Height("),
			"the validators handed to ApplyBlock are GetValidators(h) for the same application height h as the block: block@"+short(hb, 80)+" validators@"+short(hv, 80))
	}
}
