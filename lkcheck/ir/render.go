package ir

import (
	"fmt"
	"go/constant"
	"go/token"
	"go/types"
	"strings"

	"golang.org/x/tools/go/ssa"
)

// Render gives a canonical, source-independent text for an SSA value: an
// access path for loads (root parameter / receiver / local + field chain, a
// load renders like its address), resolved callee names for calls, folded
// constants by value. Two occurrences of the same source expression render
// identically even though go/ssa re-loads them (no CSE). Local temporaries do
// not appear, so introducing or renaming a helper variable does not change the
// text. A store between two loads of the same path is NOT visible in the text
// (rules that need it check stores separately).
func Render(v ssa.Value) string { return render(v, 0) }

const maxDepth = 14

func typeShort(t types.Type) string {
	return types.TypeString(t, func(p *types.Package) string { return p.Name() })
}

func calleeName(c *ssa.CallCommon) string {
	if c.IsInvoke() {
		rt := c.Value.Type()
		return typeShortNoPtr(rt) + "." + c.Method.Name()
	}
	switch f := c.Value.(type) {
	case *ssa.Function:
		return fnShort(f)
	case *ssa.Builtin:
		return f.Name()
	case *ssa.MakeClosure:
		if fn, ok := f.Fn.(*ssa.Function); ok {
			return "closure:" + fnShort(fn)
		}
	}
	return "dyn:" + render(c.Value, 1)
}

func typeShortNoPtr(t types.Type) string {
	if p, ok := t.(*types.Pointer); ok {
		t = p.Elem()
	}
	return typeShort(t)
}

func fnShort(f *ssa.Function) string {
	if f.Parent() != nil {
		return fnShort(f.Parent()) + "$" + strings.TrimPrefix(f.Name(), f.Parent().Name()+"$")
	}
	if o := f.Origin(); o != nil {
		f = o
	}
	if a, ok := formAliases[f]; ok {
		return a.short
	}
	if recv := f.Signature.Recv(); recv != nil {
		return typeShortNoPtr(recv.Type()) + "." + f.Name()
	}
	if f.Pkg != nil {
		return f.Pkg.Pkg.Name() + "." + f.Name()
	}
	if f.Object() != nil && f.Object().Pkg() != nil {
		return f.Object().Pkg().Name() + "." + f.Name()
	}
	return f.Name()
}

func renderConst(c *ssa.Const) string {
	if c.Value == nil {
		if types.IsInterface(c.Type()) || isNilable(c.Type()) {
			return "nil"
		}
		return "zero:" + typeShort(c.Type())
	}
	switch c.Value.Kind() {
	case constant.String:
		return fmt.Sprintf("%q", constant.StringVal(c.Value))
	case constant.Bool:
		if constant.BoolVal(c.Value) {
			return "true"
		}
		return "false"
	}
	return c.Value.ExactString()
}

func isNilable(t types.Type) bool {
	switch t.Underlying().(type) {
	case *types.Pointer, *types.Slice, *types.Map, *types.Chan, *types.Signature, *types.Interface:
		return true
	}
	if b, ok := t.Underlying().(*types.Basic); ok && b.Kind() == types.UntypedNil {
		return true
	}
	return false
}

func fieldName(x ssa.Value, idx int) string {
	t := x.Type()
	if p, ok := t.Underlying().(*types.Pointer); ok {
		t = p.Elem()
	}
	if st, ok := t.Underlying().(*types.Struct); ok && idx < st.NumFields() {
		return st.Field(idx).Name()
	}
	return fmt.Sprintf("#%d", idx)
}

// FieldVar returns the struct field object addressed by a FieldAddr/Field.
func FieldVar(x ssa.Value, idx int) *types.Var {
	t := x.Type()
	if p, ok := t.Underlying().(*types.Pointer); ok {
		t = p.Elem()
	}
	if st, ok := t.Underlying().(*types.Struct); ok && idx < st.NumFields() {
		return st.Field(idx)
	}
	return nil
}

func render(v ssa.Value, d int) string {
	if v == nil {
		return "<nil>"
	}
	if d > maxDepth {
		return "…"
	}
	switch v := v.(type) {
	case *CtxValue:
		return renderCtx(v, d)
	case *ssa.Parameter:
		if a, ok := paramSubst[v]; ok {
			return render(a, d+1)
		}
		if len(newHelpers) > 0 {
			if a := helperArg(v); a != nil {
				return render(a, d+1)
			}
		}
		return paramName(v)
	case *ssa.FreeVar:
		return "&" + localName(v.Parent().Parent(), v.Name())
	case *ssa.Const:
		return renderConst(v)
	case *ssa.Global:
		if v.Pkg != nil {
			return "&" + v.Pkg.Pkg.Name() + "." + v.Name()
		}
		return "&" + v.Name()
	case *ssa.Function:
		return "func:" + fnShort(v)
	case *ssa.Builtin:
		return v.Name()
	case *ssa.Alloc:
		if v.Comment != "" && v.Comment != "complit" && v.Comment != "makeslice" && v.Comment != "varargs" && !strings.HasPrefix(v.Comment, "new") && !strings.Contains(v.Comment, ".") {
			return "&" + localName(v.Parent(), v.Comment)
		}
		if v.Comment == "makeslice" || v.Comment == "varargs" {
			return "&" + v.Comment + ordinal(v)
		}
		return "&new:" + typeShortNoPtr(v.Type()) + ordinal(v)
	case *ssa.FieldAddr:
		if al, ok := v.X.(*ssa.Alloc); ok {
			if sv := singleStore(al, v); sv != nil {
				return "&" + render(sv, d+1) + "." + fieldName(v.X, v.Field)
			}
		}
		return "&" + strings.TrimPrefix(render(v.X, d+1), "&") + "." + fieldName(v.X, v.Field)
	case *ssa.Field:
		return render(v.X, d+1) + "." + fieldName(v.X, v.Field)
	case *ssa.IndexAddr:
		base := render(v.X, d+1)
		if _, isPtr := v.X.Type().Underlying().(*types.Pointer); isPtr {
			base = deref(base)
		}
		return "&" + base + "[" + render(v.Index, d+1) + "]"
	case *ssa.Index:
		return render(v.X, d+1) + "[" + render(v.Index, d+1) + "]"
	case *ssa.Lookup:
		return render(v.X, d+1) + "[" + render(v.Index, d+1) + "]"
	case *ssa.UnOp:
		switch v.Op {
		case token.MUL:
			if sv := singleStore(v.X, v); sv != nil {
				return render(sv, d+1)
			}
			if al, ok := v.X.(*ssa.Alloc); ok {
				if lit := structLit(al, v, d); lit != "" {
					return lit
				}
				// block-local reaching definition: `err = f(); if err != nil` on a
				// variable that is assigned several times (or whose address is taken)
				if sv := blockLocalStore(al, v); sv != nil {
					return render(sv, d+1)
				}
			}
			return deref(render(v.X, d+1))
		case token.NOT:
			return "!" + render(v.X, d+1)
		case token.SUB:
			return "-" + render(v.X, d+1)
		case token.ARROW:
			return "<-" + render(v.X, d+1)
		case token.XOR:
			return "^" + render(v.X, d+1)
		}
		return v.Op.String() + render(v.X, d+1)
	case *ssa.BinOp:
		return "(" + render(v.X, d+1) + " " + v.Op.String() + " " + render(v.Y, d+1) + ")"
	case *ssa.Call:
		if v.Call.Signature().Results().Len() == 1 {
			if s, ok := inlineHelperResult(v, 0, d); ok {
				return s
			}
		}
		return renderCall(&v.Call, d)
	case *ssa.Extract:
		if c, isCall := v.Tuple.(*ssa.Call); isCall {
			if s, ok := inlineHelperResult(c, v.Index, d); ok {
				return s
			}
		}
		if n, ok := v.Tuple.(*ssa.Next); ok {
			it := render(n.Iter, d+1)
			switch v.Index {
			case 0:
				return "rangeok(" + it + ")"
			case 1:
				return "rangekey(" + it + ")"
			default:
				return "rangeval(" + it + ")"
			}
		}
		return render(v.Tuple, d+1) + fmt.Sprintf("#%d", v.Index)
	case *ssa.Range:
		return render(v.X, d+1)
	case *ssa.Next:
		return "next(" + render(v.Iter, d+1) + ")"
	case *ssa.Phi:
		if v.Comment != "" {
			return "φ:" + localName(v.Parent(), v.Comment)
		}
		var parts []string
		for _, e := range v.Edges {
			if e == v {
				continue
			}
			parts = append(parts, render(e, d+4))
		}
		return "φ(" + strings.Join(parts, "|") + ")"
	case *ssa.Convert:
		return render(v.X, d)
	case *ssa.ChangeType:
		return render(v.X, d)
	case *ssa.ChangeInterface:
		return render(v.X, d)
	case *ssa.MakeInterface:
		return render(v.X, d)
	case *ssa.SliceToArrayPointer:
		return render(v.X, d)
	case *ssa.MultiConvert:
		return render(v.X, d)
	case *ssa.TypeAssert:
		return render(v.X, d+1) + ".(" + typeShort(v.AssertedType) + ")"
	case *ssa.Slice:
		if al, ok := v.X.(*ssa.Alloc); ok && al.Comment == "varargs" && v.Low == nil && v.High == nil {
			if es := arrayElems(al, d); es != nil {
				return "[" + strings.Join(es, ",") + "]"
			}
		}
		s := render(v.X, d+1)
		if _, isPtr := v.X.Type().Underlying().(*types.Pointer); isPtr {
			s = deref(s)
		}
		s += "["
		if v.Low != nil {
			s += render(v.Low, d+1)
		}
		s += ":"
		if v.High != nil {
			s += render(v.High, d+1)
		}
		if v.Max != nil {
			s += ":" + render(v.Max, d+1)
		}
		return s + "]"
	case *ssa.MakeSlice:
		return "make" + ordinal(v) + "(" + typeShort(v.Type()) + "," + render(v.Len, d+1) + ")"
	case *ssa.MakeMap:
		if v.Reserve != nil {
			return "make(" + typeShort(v.Type()) + "," + render(v.Reserve, d+1) + ")"
		}
		return "make(" + typeShort(v.Type()) + ")"
	case *ssa.MakeChan:
		return "make(" + typeShort(v.Type()) + ")"
	case *ssa.MakeClosure:
		if fn, ok := v.Fn.(*ssa.Function); ok {
			return "closure:" + fnShort(fn)
		}
		return "closure"
	case *ssa.Select:
		return "select"
	}
	return fmt.Sprintf("?%T", v)
}

func deref(s string) string {
	if strings.HasPrefix(s, "&") {
		return s[1:]
	}
	return "*" + s
}

func renderCall(c *ssa.CallCommon, d int) string {
	var args []string
	if c.IsInvoke() {
		args = append(args, render(c.Value, d+1))
	}
	for _, a := range c.Args {
		args = append(args, render(a, d+1))
	}
	return calleeName(c) + "(" + strings.Join(args, ",") + ")"
}

// RenderCall renders a call instruction (call, go, defer).
func RenderCall(c ssa.CallInstruction) string { return renderCall(c.Common(), 0) }

// RenderInstr renders any instruction for diagnostics.
func RenderInstr(in ssa.Instruction) string {
	switch x := in.(type) {
	case *ssa.Store:
		return "store " + deref(Render(x.Addr)) + " = " + Render(x.Val)
	case *ssa.MapUpdate:
		return "mapupdate " + Render(x.Map) + "[" + Render(x.Key) + "] = " + Render(x.Value)
	case ssa.CallInstruction:
		pre := ""
		switch in.(type) {
		case *ssa.Go:
			pre = "go "
		case *ssa.Defer:
			pre = "defer "
		}
		return pre + RenderCall(x)
	case *ssa.Return:
		var rs []string
		for _, r := range x.Results {
			rs = append(rs, Render(r))
		}
		return "return " + strings.Join(rs, ",")
	case *ssa.If:
		return "if " + Render(x.Cond)
	case *ssa.Panic:
		return "panic(" + Render(x.X) + ")"
	case ssa.Value:
		return Render(x)
	}
	return in.String()
}

// singleStore: if addr is a local Alloc that is assigned exactly once, whose
// address does not escape (all other uses are loads or field loads), and the
// assignment dominates the use, return the assigned value. Such locals are
// transparent in renderings: `blockID, ok := f(); g(blockID.Hash)` renders as
// g(f()#0.Hash), which gives provenance across helper variables.
func singleStore(addr ssa.Value, use ssa.Instruction) ssa.Value {
	al, ok := addr.(*ssa.Alloc)
	if !ok {
		return nil
	}
	st := allocSingleStore(al)
	if st == nil {
		return nil
	}
	if use != nil && use.Block() != nil && st.Block() != nil {
		if use.Parent() != st.Parent() {
			return nil
		}
		if !Precedes(st, use) {
			return nil
		}
	}
	return st.Val
}

var singleStoreCache = map[*ssa.Alloc]*ssa.Store{}
var singleStoreDone = map[*ssa.Alloc]bool{}

func allocSingleStore(al *ssa.Alloc) *ssa.Store {
	if singleStoreDone[al] {
		return singleStoreCache[al]
	}
	singleStoreDone[al] = true
	refs := al.Referrers()
	if refs == nil {
		return nil
	}
	var st *ssa.Store
	var onlyLoads func(v ssa.Value, top bool) bool
	onlyLoads = func(v ssa.Value, top bool) bool {
		rs := v.Referrers()
		if rs == nil {
			return false
		}
		for _, r := range *rs {
			switch x := r.(type) {
			case *ssa.UnOp:
				if x.Op != token.MUL {
					return false
				}
			case *ssa.FieldAddr:
				if !onlyLoads(x, false) {
					return false
				}
			case *ssa.DebugRef:
			case *ssa.Store:
				if !top || x.Addr != v || x.Val == v {
					return false
				}
				if st != nil {
					return false
				}
				st = x
			default:
				return false
			}
		}
		return true
	}
	if !onlyLoads(al, true) || st == nil {
		return nil
	}
	singleStoreCache[al] = st
	return st
}

// arrayElems renders the elements stored into a local array (variadic
// argument packs): stores through IndexAddr with constant index.
func arrayElems(al *ssa.Alloc, d int) []string {
	refs := al.Referrers()
	if refs == nil {
		return nil
	}
	m := map[int64]string{}
	max := int64(-1)
	for _, r := range *refs {
		ia, ok := r.(*ssa.IndexAddr)
		if !ok {
			continue
		}
		c, ok := ia.Index.(*ssa.Const)
		if !ok || c.Value == nil {
			return nil
		}
		idx := c.Int64()
		irefs := ia.Referrers()
		if irefs == nil {
			continue
		}
		for _, rr := range *irefs {
			if st, ok := rr.(*ssa.Store); ok && st.Addr == ia {
				m[idx] = render(st.Val, d+1)
				if idx > max {
					max = idx
				}
			}
		}
	}
	if max < 0 {
		return nil
	}
	out := make([]string, max+1)
	for i := range out {
		out[i] = m[int64(i)]
	}
	return out
}

// structLit renders a local struct built field by field (composite literal
// or var + field assignments, each field assigned once before the use) as
// T{f:v,...}.
func structLit(al *ssa.Alloc, use ssa.Instruction, d int) string {
	pt, ok := al.Type().Underlying().(*types.Pointer)
	if !ok {
		return ""
	}
	st, ok := pt.Elem().Underlying().(*types.Struct)
	if !ok {
		return ""
	}
	refs := al.Referrers()
	if refs == nil {
		return ""
	}
	vals := map[int]string{}
	for _, r := range *refs {
		switch x := r.(type) {
		case *ssa.FieldAddr:
			frefs := x.Referrers()
			if frefs == nil {
				continue
			}
			for _, rr := range *frefs {
				switch y := rr.(type) {
				case *ssa.Store:
					if y.Addr != x {
						return ""
					}
					if _, dup := vals[x.Field]; dup {
						return ""
					}
					if use != nil && y.Parent() == use.Parent() && !Precedes(y, use) {
						return ""
					}
					vals[x.Field] = render(y.Val, d+2)
				case *ssa.UnOp, *ssa.DebugRef, *ssa.FieldAddr:
				default:
					return ""
				}
			}
		case *ssa.UnOp, *ssa.DebugRef:
		case *ssa.Store:
			return ""
		default:
			return ""
		}
	}
	if len(vals) == 0 {
		return ""
	}
	var parts []string
	for i := 0; i < st.NumFields(); i++ {
		if v, ok := vals[i]; ok {
			parts = append(parts, st.Field(i).Name()+":"+v)
		}
	}
	return typeShortNoPtr(al.Type()) + "{" + strings.Join(parts, ",") + "}"
}

// ordinal distinguishes allocation sites of one function that would otherwise
// render identically (two `make([]byte, 4)` buffers are different values):
// the first site of a (kind, type) group has no suffix, the k-th gets 'k.
var ordinals = map[*ssa.Function]map[ssa.Value]int{}

func ordinal(v ssa.Value) string {
	in, ok := v.(ssa.Instruction)
	if !ok || in.Parent() == nil {
		return ""
	}
	fn := in.Parent()
	m := ordinals[fn]
	if m == nil {
		m = map[ssa.Value]int{}
		count := map[string]int{}
		for _, b := range fn.Blocks {
			for _, x := range b.Instrs {
				var key string
				switch y := x.(type) {
				case *ssa.Alloc:
					switch {
					case y.Comment == "makeslice" || y.Comment == "varargs":
						key = y.Comment + ":" + y.Type().String()
					case y.Comment == "complit" || strings.HasPrefix(y.Comment, "new") || y.Comment == "" || strings.Contains(y.Comment, "."):
						key = "new:" + y.Type().String()
					}
				case *ssa.MakeSlice:
					key = "make:" + y.Type().String()
				}
				if key == "" {
					continue
				}
				count[key]++
				m[x.(ssa.Value)] = count[key]
			}
		}
		ordinals[fn] = m
	}
	if k := m[v]; k > 1 {
		return fmt.Sprintf("'%d", k)
	}
	return ""
}

// blockLocalStore returns the value of the closest store to al that precedes
// the load in the same basic block, provided no call executes in between
// (a callee could write through an escaped address).
func blockLocalStore(al *ssa.Alloc, load *ssa.UnOp) ssa.Value {
	b := load.Block()
	if b == nil {
		return nil
	}
	idx := -1
	for i, in := range b.Instrs {
		if in == ssa.Instruction(load) {
			idx = i
			break
		}
	}
	for i := idx - 1; i >= 0; i-- {
		switch x := b.Instrs[i].(type) {
		case *ssa.Store:
			if x.Addr == al {
				return x.Val
			}
		case *ssa.Call, *ssa.Go, *ssa.Defer:
			return nil
		}
	}
	return nil
}
