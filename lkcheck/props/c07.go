package props

import (
	"fmt"
	"go/types"
	"strings"

	"golang.org/x/tools/go/ssa"

	"lkcheck/ir"
	"lkcheck/report"
)

func init() { Registry["C07"] = C07 }

// nonceTable checks the three-way nonce comparison of a function through the
// facts at its error returns: ErrNonceTooLow only under txNonce < stateNonce,
// ErrNonceTooHigh only under stateNonce < txNonce, for the exact operands.
func (c C) nonceTable(fnName string, fn *ssa.Function, stateNonce, txNonce string) {
	low, high := 0, 0
	for _, rt := range ir.Returns(fn) {
		if len(rt.Results) == 0 {
			continue
		}
		res := ir.AbstractResult(rt.Results[len(rt.Results)-1])
		fs := ir.FactsAt(rt.Instr)
		switch {
		case strings.HasSuffix(res, "ErrNonceTooLow"):
			low++
			c.R.Check("K6", fnName+"/nonce/too-low", c.P.InstrPos(rt.Instr), ir.HasFact(fs, "lt("+txNonce+","+stateNonce+")"),
				"ErrNonceTooLow exactly when the transaction nonce is below the account nonce; facts: "+short(strings.Join(ir.FactStrings(fs), " ; "), 300))
		case strings.HasSuffix(res, "ErrNonceTooHigh"):
			high++
			c.R.Check("K6", fnName+"/nonce/too-high", c.P.InstrPos(rt.Instr), ir.HasFact(fs, "lt("+stateNonce+","+txNonce+")"),
				"ErrNonceTooHigh exactly when the transaction nonce is above the account nonce; facts: "+short(strings.Join(ir.FactStrings(fs), " ; "), 300))
		}
	}
	if low == 0 || high == 0 {
		c.R.Undecided("K6", fnName+"/nonce", c.P.Pos(fn.Pos()), fmt.Sprintf("expected both nonce rejections (too-low returns %d, too-high returns %d)", low, high))
	}
}

// C07 every spendable unit is spent at most once.
func C07(p *ir.Program, r *report.R) {
	c := C{p, r}
	// the signature pre-check trusts the mempool cache only for transactions that passed their basic check
	c05Cache(c)
	r.Floor = 45
	r.Explain = "Decided: (in one transaction) the duplicate-key-image test dominates the insertion into the per-transaction set and the subgroup check (ScalarmultKey(KeyImage, CurveOrder) == Identity) is on every path that accepts a confidential input; (in one block) the per-block key-image set test dominates its insertion, after CheckStoreState succeeded, and GetInputKeyImages returns the image of every confidential input; (across blocks / mempool) every iteration of CheckStoreState and checkState that handles a confidential input passes the not-spent-in-store test (checkState additionally not-in-mempool) and checkState pushes every collected image on its success path; (persistence) the images of every confidential transaction are collected by txRawProcess, stored with the block by CommitBlock after SaveBlock and SaveKImages writes every element and returns the batch error; (accounts) the three-way nonce comparison of all six check functions rejects txNonce<stateNonce as too low and txNonce>stateNonce as too high with the exact operands, the nonce is advanced by exactly one for every input on every path of Transit after preTransit succeeded. ADDED after seeded-change testing: SaveUtxo reaches SaveKImages(kImgs) on every path (skipped only for an empty image slice); the per-block and mempool key-image sets are keyed by the image value, not a pointer; in GenerateTransaction every input nonce is the transaction's own Nonce() (reviewed exemption: the account input of a confidential transaction, compared in CheckStoreState). Rounds 4-5: checkValid consults the store state on every UTXO path; the mempool signature cache rule is shared. NOT decided: global uniqueness over histories as a set property, mempool/chain interleavings (C15), the cryptographic link between key image and output."
	r.Trusted = []string{"ringct.ScalarmultKey / CurveOrder / Identity (cgo)", "UTXOStore backend (C19)"}

	// ---- in one transaction --------------------------------------------------
	{
		fn := p.Func("types", "UTXOTransaction.checkTxSemantic")
		name := "types.(*UTXOTransaction).checkTxSemantic"
		n := 0
		ir.Instrs(fn, func(in ssa.Instruction) {
			mu, ok := in.(*ssa.MapUpdate)
			if !ok || !strings.Contains(ir.Render(mu.Key), "KeyImage") {
				return
			}
			n++
			m, k := ir.Render(mu.Map), ir.Render(mu.Key)
			c.Guards(name, "insert key image", in, G{"not-seen-in-this-tx", "!" + m + "[" + k + "]"})
			r.Check("K1", name+"/insert key image/value", p.InstrPos(in), ir.Render(mu.Value) == "true", "marks the image as seen")
		})
		c.MustFind("K1", name+"/insert key image", fn, n, "map insert keyed by KeyImage")
		// subgroup check on every accepting path of a confidential input: the Uin kind bit is set only after it
		nK := 0
		ir.Instrs(fn, func(in ssa.Instruction) {
			b, ok := in.(*ssa.BinOp)
			if !ok || b.Op.String() != "|" {
				return
			}
			uin := fmt.Sprint(c.ConstInt("types", "Uin"))
			if ir.Render(b.Y) != uin {
				return
			}
			nK++
			sm := "ringct.ScalarmultKey(*.KeyImage,ringct.CurveOrder())"
			c.Guards(name, "accept confidential input", in,
				G{"subgroup-check-ran", "eq(" + sm + "#1,nil)"},
				G{"image-in-prime-subgroup", ir.EqPat(sm+"#0", "ringct.Identity()")})
		})
		c.MustFind("K1", name+"/accept confidential input", fn, nK, "kind |= Uin")
		// CheckBasic runs checkTxSemantic first
		cb := p.Func("types", "UTXOTransaction.CheckBasic")
		for _, rt := range ir.Returns(cb) {
			if ir.AbstractResult(rt.Results[0]) == "nil" {
				c.Guards("types.(*UTXOTransaction).CheckBasic", "return nil", rt.Instr, G{"semantic", "eq(types.UTXOTransaction.checkTxSemantic(tx,censor),nil)"})
			}
		}
	}
	// ---- in one block ------------------------------------------------------------
	{
		fn := p.Func("app", "processState.checkValid")
		name := "app.(*processState).checkValid"
		n := 0
		for _, s := range p.Stores(p.Field("app", "processState.KeyImagesMap")) {
			if s.Fn != fn || s.Kind != "mapupdate" {
				continue
			}
			n++
			mu := s.Instr.(*ssa.MapUpdate)
			k := ir.Render(mu.Key)
			c.GuardsS(name, "insert block key image", s,
				G{"not-seen-in-this-block", "!s.KeyImagesMap[" + k + "]"},
				G{"store-state-ok", "eq(types.UTXOTransaction.CheckStoreState(*),nil)"})
			r.Check("K1", name+"/insert block key image/source", p.InstrPos(s.Instr), strings.Contains(k, "types.UTXOTransaction.GetInputKeyImages("), "the images tested are those of GetInputKeyImages(): "+short(k, 120))
		}
		c.MustFind("K1", name+"/insert block key image", fn, n, "KeyImagesMap insert")
		// Process calls checkValid before Transit for each tx
		pr := p.Func("app", "StateProcessor.Process")
		for _, call := range ir.Calls(pr, "app.processTransaction.Transit") {
			c.Guards("app.(*StateProcessor).Process", "Transit", call, G{"checkValid-ok", "eq(app.processState.checkValid(*),nil)"})
		}
		c.MustFind("K1", "app.(*StateProcessor).Process/Transit", pr, len(ir.Calls(pr, "app.processTransaction.Transit")), "Transit call")
		// GetInputKeyImages: appends &input.KeyImage for every *UTXOInput of tx.Inputs
		gk := p.Func("types", "UTXOTransaction.GetInputKeyImages")
		okA := false
		ir.Instrs(gk, func(in ssa.Instruction) {
			if call, ok := in.(*ssa.Call); ok && ir.CalleeName(call) == "append" && strings.Contains(Arg(call, 1), "tx.Inputs[") && strings.Contains(Arg(call, 1), ".(*types.UTXOInput)#0.KeyImage") {
				okA = true
				var extra []string
				for _, f := range ir.FactStrings(ir.FactsAt(in)) {
					if !ir.Match("lt(*,len(tx.Inputs))", f) && !ir.Match("tx.Inputs[*].(*types.UTXOInput)#1", f) {
						extra = append(extra, f)
					}
				}
				r.Check("K4", "types.(*UTXOTransaction).GetInputKeyImages/unconditional", p.InstrPos(in), len(extra) == 0, fmt.Sprintf("the image of a confidential input is collected unconditionally; extra conditions: %v", extra))
			}
		})
		r.Check("K4", "types.(*UTXOTransaction).GetInputKeyImages/every-utxo-input", p.Pos(gk.Pos()), okA, "appends the key image of each *UTXOInput while ranging over tx.Inputs")
		loops := ir.Loops(gk)
		r.Check("K4", "types.(*UTXOTransaction).GetInputKeyImages/whole-slice", p.Pos(gk.Pos()), len(loops) == 1, "one loop over the inputs, no early exit")
		for _, rt := range ir.Returns(gk) {
			c.Guards("types.(*UTXOTransaction).GetInputKeyImages", "return", rt.Instr, G{"loop-finished", "le(len(tx.Inputs),*)"})
		}
	}
	// ---- across blocks / mempool ---------------------------------------------------
	for _, sp := range []struct {
		fn   string
		pats []string
	}{
		{"UTXOTransaction.CheckStoreState", []string{"!types.UTXOStore.HaveTxKeyimgAsSpent(*)"}},
		{"UTXOTransaction.checkState", []string{"!types.UTXOStore.HaveTxKeyimgAsSpent(*)"}},
		{"UTXOTransaction.checkState", []string{"!types.Mempool.KeyImageExists(*)"}},
	} {
		fn := p.Func("types", sp.fn)
		name := "types.(*UTXOTransaction)." + strings.TrimPrefix(sp.fn, "UTXOTransaction.")
		var inputLoop *ir.Loop
		for _, l := range ir.Loops(fn) {
			l := l
			for _, in := range l.Header.Instrs {
				if ifi, ok := in.(*ssa.If); ok && strings.Contains(ir.Render(ifi.Cond), "len(tx.Inputs)") {
					inputLoop = &l
				}
			}
		}
		label := strings.TrimPrefix(strings.SplitN(sp.pats[0], "(", 2)[0], "!")
		if inputLoop == nil {
			r.Undecided("K2", name+"/inputs-loop/"+label, p.Pos(fn.Pos()), "loop over tx.Inputs not found")
			continue
		}
		pats := append([]string{"!*.(*types.UTXOInput)#1"}, sp.pats...)
		ok, tr := ir.EveryPathFromHas(inputLoop.Header, inputLoop.Header, pats...)
		r.Check("K2", name+"/inputs-loop/"+label, p.Pos(fn.Pos()), ok, fmt.Sprintf("every iteration that handles a confidential input passes %s before continuing; offending path %v", sp.pats[0], tr))
		// the argument is the input's own key image
		for _, call := range ir.CallsDeep(fn, strings.TrimPrefix(strings.SplitN(sp.pats[0], "(", 2)[0], "!")) {
			a := ir.RenderCall(call)
			r.Check("K1", name+"/"+label+"/argument", p.InstrPos(call), strings.Contains(a, ".(*types.UTXOInput)#0.KeyImage"), "tests the key image of the input at hand: "+short(a, 160))
		}
	}
	{
		fn := p.Func("types", "UTXOTransaction.checkState")
		name := "types.(*UTXOTransaction).checkState"
		// success return: after the push loop over all collected images
		push := ir.Calls(fn, "types.Mempool.KeyImagePush")
		if c.MustFind("K2", name+"/push", fn, len(push), "KeyImagePush call") {
			r.Check("K2", name+"/push/collected-images", p.InstrPos(push[0]), strings.Contains(Arg(push[0], 1), "["), "pushes the images collected from the inputs: "+Arg(push[0], 1))
			for _, rt := range ir.Returns(fn) {
				if ir.AbstractResult(rt.Results[0]) == "nil" {
					okL := ir.HasFact(ir.FactsAt(rt.Instr), "le(len(*),*)")
					r.Check("K2", name+"/return nil/after-push-loop", p.InstrPos(rt.Instr), okL && !ir.Precedes(rt.Instr, push[0]), "success is returned after the push loop ran over every collected image")
				}
			}
		}
		// every UTXOInput image tested is collected
		okC := false
		ir.Instrs(fn, func(in ssa.Instruction) {
			if call, ok := in.(*ssa.Call); ok && ir.CalleeName(call) == "append" && strings.Contains(ir.RenderCall(call), ".(*types.UTXOInput)#0.KeyImage") {
				okC = true
				c.Guards(name, "collect image", in, G{"not-spent", "!types.UTXOStore.HaveTxKeyimgAsSpent(*)"}, G{"not-in-mempool", "!types.Mempool.KeyImageExists(*)"})
			}
		})
		r.Check("K2", name+"/collect image", p.Pos(fn.Pos()), okC, "the image of each confidential input is collected for the mempool set")
		// mempool set semantics
		kp := p.Func("mempool", "Mempool.KeyImagePush")
		for _, s := range p.Stores(p.Field("mempool", "Mempool.kImageCache")) {
			if s.Fn == kp && s.Kind == "mapupdate" {
				c.GuardsS("mempool.(*Mempool).KeyImagePush", "insert", s, G{"absent", "!m.kImageCache[key]#1 || !m.kImageCache[key]"})
			}
		}
	}
	// ---- persistence ----------------------------------------------------------------------
	{
		tr := p.Func("app", "processState.txRawProcess")
		okK := false
		for _, s := range p.Stores(p.Field("app", "processState.KeyImages")) {
			if s.Fn == tr && strings.Contains(ir.Render(s.Val), "types.UTXOTransaction.GetInputKeyImages(") && strings.HasPrefix(ir.Render(s.Val), "append(s.KeyImages,") {
				okK = true
			}
		}
		r.Check("K2", "app.(*processState).txRawProcess/collects-images", p.Pos(tr.Pos()), okK, "s.KeyImages = append(s.KeyImages, tx.GetInputKeyImages()...) for every confidential transaction")
		pr := p.Func("app", "StateProcessor.Process")
		for _, call := range ir.Calls(pr, "app.processTransaction.Transit") {
			c.Guards("app.(*StateProcessor).Process", "Transit", call, G{"images-collected", "eq(app.processState.txRawProcess(*),nil)"})
		}
		pb := p.Func("app", "LinkApplication.processBlock")
		okS := false
		ir.InstrsDeep(pb, func(f *ssa.Function, in ssa.Instruction) {
			if call, ok := in.(ssa.CallInstruction); ok && ir.CalleeName(call) == "types.TxsResult.SetKeyImages" {
				okS = true
			}
		})
		r.Check("K2", "app.(*LinkApplication).processBlock/result-carries-images", p.Pos(pb.Pos()), okS, "the block result is given the collected key images (SetKeyImages)")
		cb := p.Func("app", "LinkApplication.CommitBlock")
		su := ir.Calls(cb, "utxo.UtxoStore.SaveUtxo")
		if c.MustFind("K2", "app.(*LinkApplication).CommitBlock/SaveUtxo", cb, len(su), "SaveUtxo call") {
			r.Check("K2", "app.(*LinkApplication).CommitBlock/SaveUtxo/images", p.InstrPos(su[0]), strings.HasPrefix(Arg(su[0], 1), "types.TxsResult.KeyImages("), "stores the key images of this block's result: "+short(Arg(su[0], 1), 120))
			found, _, _ := ir.FindPath(ir.PathQuery{From: ir.At(firstCall(cb, "blockchain.BlockStore.SaveBlock")), Target: ir.IsReturn, Avoid: func(in ssa.Instruction) bool { return in == su[0] }})
			r.Check("K2", "app.(*LinkApplication).CommitBlock/SaveUtxo/on-every-path", p.InstrPos(su[0]), !found, "every path from SaveBlock to a return passes SaveUtxo")
		}
		sk := p.Func("utxo", "UtxoStore.SaveKImages")
		sets := ir.Calls(sk, "db.Batch.Set")
		okSet := len(sets) == 1 && strings.Contains(Arg(sets[0], 1), "kImgs[")
		r.Check("K2", "utxo.(*UtxoStore).SaveKImages/every-image", p.Pos(sk.Pos()), okSet && len(ir.Loops(sk)) == 1, "one batch Set per element of the image slice")
		c.ErrorDiscipline("utxo.(*UtxoStore).SaveKImages", sk, "db.Batch.*")
		su2 := p.Func("utxo", "UtxoStore.SaveUtxo")
		c.ErrorDiscipline("utxo.(*UtxoStore).SaveUtxo", su2, "utxo.UtxoStore.SaveKImages")
		saveUtxoStoresImages(c)
		// the mempool's key-image set is rebuilt from the pending transactions after every commit
		mempoolRecheckRules(c)
		// membership structures for key images are keyed by the image VALUE (a pointer key would
		// compare identities: two transactions carrying the same image have different pointers)
		for _, fld := range []struct{ rel, name string }{{"app", "processState.KeyImagesMap"}, {"mempool", "Mempool.kImageCache"}} {
			fv := p.Field(fld.rel, fld.name)
			okK := false
			kt := "?"
			if mt, ok := fv.Type().Underlying().(*types.Map); ok {
				kt = mt.Key().String()
				_, isPtr := mt.Key().Underlying().(*types.Pointer)
				_, isIface := mt.Key().Underlying().(*types.Interface)
				okK = !isPtr && !isIface
			}
			r.Check("K4", "key-image-set/"+fld.rel+"."+fld.name+"/keyed-by-value", p.Pos(fv.Pos()), okK, "map key type "+kt+" compares image bytes, not identities")
		}
		// the nonce the exact-next-nonce test sees is the transaction's own signed nonce
		{
			gt := p.Func("app", "GenerateTransaction")
			nN := 0
			for _, st := range p.Stores(p.Field("app", "txInput.Nonce")) {
				if st.Fn != gt {
					continue
				}
				nN++
				v := ir.Render(st.Val)
				switch {
				case ir.Match("types.*.Nonce(txi.(*types.*)#0)", v):
					r.Check("K5", "nonce-source/app.GenerateTransaction/"+strings.TrimSuffix(strings.TrimPrefix(v, "types."), v[strings.Index(v, ".Nonce("):]), p.InstrPos(st.Instr), true, "input nonce is the transaction's own nonce: "+v)
				case strings.Contains(v, "types.UTXOTransaction"):
					r.Check("K5", "nonce-source/app.GenerateTransaction/UTXOTransaction", p.InstrPos(st.Instr), strings.HasPrefix(v, "state.StateDB.GetNonce(state,types.UTXOTransaction.From("), "reviewed exemption: the account input of a confidential transaction carries its nonce inside the signed input and is compared with the state in CheckStoreState (nonce table above); Transit only advances it: "+short(v, 120))
				default:
					r.Check("K5", "nonce-source/app.GenerateTransaction/other", p.InstrPos(st.Instr), false, "input nonce does not come from the transaction: "+short(v, 160))
				}
			}
			r.Check("K5", "nonce-source/app.GenerateTransaction/sites", p.Pos(gt.Pos()), nN >= 5, fmt.Sprintf("%d input nonce assignments found (confirmed by hand: 5)", nN))
		}
		c.ErrorDiscipline("app.(*LinkApplication).CommitBlock", cb, "utxo.UtxoStore.SaveUtxo")
		hs := p.Func("utxo", "UtxoStore.HaveTxKeyimgAsSpent")
		okH := false
		for _, call := range ir.Calls(hs, "db.DB.Get") {
			if Arg(call, 1) == "*kImg[:]" && Arg(call, 0) == "u.utxoDB" {
				okH = true
			}
		}
		r.Check("K5", "utxo.(*UtxoStore).HaveTxKeyimgAsSpent/same-key", p.Pos(hs.Pos()), okH && len(sets) == 1 && ir.Match("*kImgs[*][:]", Arg(sets[0], 1)) && Arg(sets[0], 0) == "db.DB.NewBatch(u.utxoDB)", "the lookup reads the key (image bytes) and database SaveKImages writes")
	}
	// ---- exact nonce -----------------------------------------------------------------------
	{
		c.nonceTable("app.(*processTransaction).checkNonce", p.Func("app", "processTransaction.checkNonce"), "*StateDB.GetNonce(tx.State,tx.Inputs[*].From)", "tx.Inputs[*].Nonce")
		c.nonceTable("types.(*Transaction).CheckState", p.Func("types", "Transaction.CheckState"), "types.State.GetNonce(*)", "types.Transaction.Nonce(tx)")
		c.nonceTable("types.(*TokenTransaction).CheckState", p.Func("types", "TokenTransaction.CheckState"), "types.State.GetNonce(*)", "types.TokenTransaction.Nonce(tx)")
		c.nonceTable("types.(*ContractUpgradeTx).CheckState", p.Func("types", "ContractUpgradeTx.CheckState"), "types.State.GetNonce(*)", "types.ContractUpgradeTx.Nonce(tx)")
		c.nonceTable("types.(*UTXOTransaction).checkState", p.Func("types", "UTXOTransaction.checkState"), "types.State.GetNonce(*)", "*.(*types.AccountInput)#0.Nonce")
		c.nonceTable("types.(*UTXOTransaction).CheckStoreState", p.Func("types", "UTXOTransaction.CheckStoreState"), "types.State.GetNonce(*)", "*.(*types.AccountInput)#0.Nonce")
		// check-only functions: every iteration that handles an account input continues only at the exact nonce
		for _, sp := range []struct{ rel, fn, name, st, tn, skip string }{
			{"app", "processTransaction.checkNonce", "app.(*processTransaction).checkNonce", "*StateDB.GetNonce(tx.State,tx.Inputs[*].From)", "tx.Inputs[*].Nonce", ""},
			{"types", "UTXOTransaction.CheckStoreState", "types.(*UTXOTransaction).CheckStoreState", "types.State.GetNonce(*)", "*.(*types.AccountInput)#0.Nonce", "!*.(*types.AccountInput)#1"},
			{"types", "UTXOTransaction.checkState", "types.(*UTXOTransaction).checkState", "types.State.GetNonce(*)", "*.(*types.AccountInput)#0.Nonce", "!*.(*types.AccountInput)#1"},
		} {
			fn := p.Func(sp.rel, sp.fn)
			var loop *ir.Loop
			for _, l := range ir.Loops(fn) {
				l := l
				for _, in := range l.Header.Instrs {
					if ifi, ok := in.(*ssa.If); ok && strings.Contains(ir.Render(ifi.Cond), "len(tx.Inputs)") {
						loop = &l
					}
				}
			}
			if loop == nil {
				r.Undecided("K6", sp.name+"/nonce/exact-per-input", p.Pos(fn.Pos()), "loop over tx.Inputs not found")
				continue
			}
			for _, o := range []struct{ label, pat string }{{"not-below", "le(" + sp.st + "," + sp.tn + ")"}, {"not-above", "le(" + sp.tn + "," + sp.st + ")"}} {
				pats := []string{o.pat}
				if sp.skip != "" {
					pats = append(pats, sp.skip, "*.(*types.UTXOInput)#1")
				}
				ok, tr := ir.EveryPathFromHas(loop.Header, loop.Header, pats...)
				r.Check("K6", sp.name+"/nonce/exact-per-input/"+o.label, p.Pos(fn.Pos()), ok, fmt.Sprintf("every iteration over an account input continues only when %s; offending path %v", o.pat, tr))
			}
		}
		// success of ContractUpgradeTx.CheckState likewise
		{
			fn := p.Func("types", "ContractUpgradeTx.CheckState")
			for _, rt := range ir.Returns(fn) {
				if ir.AbstractResult(rt.Results[0]) == "nil" {
					c.Guards("types.(*ContractUpgradeTx).CheckState", "return nil", rt.Instr,
						G{"not-below", "le(types.State.GetNonce(*),types.ContractUpgradeTx.Nonce(tx))"}, G{"not-above", "le(types.ContractUpgradeTx.Nonce(tx),types.State.GetNonce(*))"})
				}
			}
		}
		// mempool-side functions advance the check state only after both rejections
		for _, sp := range []struct{ fn, name, want string }{
			{"Transaction.CheckState", "types.(*Transaction).CheckState", "(types.Transaction.Nonce(tx) + 1)"},
			{"TokenTransaction.CheckState", "types.(*TokenTransaction).CheckState", "(types.TokenTransaction.Nonce(tx) + 1)"},
		} {
			fn := p.Func("types", sp.fn)
			for _, call := range ir.Calls(fn, "types.State.SetNonce") {
				r.Check("K6", sp.name+"/advance-by-one", p.InstrPos(call), ir.Match(sp.want, Arg(call, 2)), "the check state nonce becomes txNonce+1: "+Arg(call, 2))
				fs := ir.FactsAt(call)
				tn := strings.TrimSuffix(strings.TrimPrefix(sp.want, "("), " + 1)")
				okB := ir.HasFact(fs, "le(types.State.GetNonce(*),"+tn+")") && ir.HasFact(fs, "le("+tn+",types.State.GetNonce(*))")
				r.Check("K6", sp.name+"/advance-only-at-exact-nonce", p.InstrPos(call), okB, "the nonce is advanced only where stateNonce <= txNonce and txNonce <= stateNonce both hold (exact next nonce)")
			}
		}
		// UTXO checkState applies the account input after all checks: the input recorded is the one that
		// passed the exact-nonce test in its iteration, and the nonce becomes that input's nonce + 1
		{
			fn := p.Func("types", "UTXOTransaction.checkState")
			name := "types.(*UTXOTransaction).checkState"
			for _, call := range ir.Calls(fn, "types.State.SetNonce") {
				r.Check("K6", name+"/advance-by-one", p.InstrPos(call), Arg(call, 2) == "(φ:accInput.Nonce + 1)", "the check state nonce becomes the recorded account input's nonce + 1: "+Arg(call, 2))
				c.Guards(name, "advance", call, G{"account-input-recorded", "!eq(φ:accInput,nil)"})
				// nothing rejects after the advance
				bad := false
				for _, rt := range ir.Returns(fn) {
					if ir.AbstractResult(rt.Results[0]) != "nil" {
						if found, _, _ := ir.FindPath(ir.PathQuery{From: ir.At(call), Target: func(x ssa.Instruction) bool { return x == ssa.Instruction(rt.Instr) }}); found {
							bad = true
						}
					}
				}
				r.Check("K2", name+"/advance-is-final", p.InstrPos(call), !bad, "no rejection can follow the advance of the check state")
			}
			// the recorded input comes from the AccountInput case of the loop
			okRec := false
			for _, b := range fn.Blocks {
				for _, in := range b.Instrs {
					if ph, ok := in.(*ssa.Phi); ok && ir.LocalName(ph.Parent(), ph.Comment) == "accInput" {
						for _, e := range ph.Edges {
							if ir.Match("*.(*types.AccountInput)#0", ir.Render(e)) {
								okRec = true
							}
						}
					}
				}
			}
			r.Check("K6", name+"/records-the-checked-input", p.Pos(fn.Pos()), okRec, "accInput is assigned from the account input handled in the loop")
		}
		// execution side
		sn := p.Func("app", "processTransaction.setNonce")
		calls := ir.Calls(sn, "*StateDB.SetNonce")
		okN := len(calls) == 1 && ir.Match("tx.State", Arg(calls[0], 0)) && ir.Match("tx.Inputs[*].From", Arg(calls[0], 1)) && ir.Match("(tx.Inputs[*].Nonce + 1)", Arg(calls[0], 2))
		r.Check("K2", "app.(*processTransaction).setNonce/each-input-plus-one", p.Pos(sn.Pos()), okN && len(ir.Loops(sn)) == 1, "SetNonce(in.From, in.Nonce+1) for every input")
		pt := p.Func("app", "processTransaction.postTransit")
		r.Check("K2", "app.(*processTransaction).postTransit/setNonce", p.Pos(pt.Pos()), len(ir.Calls(pt, "app.processTransaction.setNonce")) == 1 && len(pt.Blocks) == 1, "postTransit always calls setNonce")
		tr := p.Func("app", "processTransaction.Transit")
		post := firstCall(tr, "app.processTransaction.postTransit")
		pre := firstCall(tr, "app.processTransaction.preTransit")
		if post == nil || pre == nil {
			r.Undecided("K2", "app.(*processTransaction).Transit/shape", p.Pos(tr.Pos()), "preTransit/postTransit not found")
		} else {
			found, _, trc := ir.FindPath(ir.PathQuery{From: ir.At(pre), Target: ir.IsReturn, Avoid: func(in ssa.Instruction) bool { return in == post },
				AvoidEdge: func(atoms []string) bool {
					for _, a := range atoms {
						if a == "!eq(app.processTransaction.preTransit(tx),nil)" {
							return true
						}
					}
					return false
				}})
			r.Check("K2", "app.(*processTransaction).Transit/postTransit-on-every-path", p.InstrPos(post), !found, fmt.Sprintf("after preTransit succeeded every path to return runs postTransit (nonce advance); offending %v", trc))
		}
		prt := p.Func("app", "processTransaction.preTransit")
		for _, call := range ir.Calls(prt, "app.processTransaction.buyGas") {
			c.Guards("app.(*processTransaction).preTransit", "buyGas", call, G{"nonce-checked", "eq(app.processTransaction.checkNonce(tx),nil)"})
		}
	}
	// every confidential transaction of a block goes through CheckStoreState, whatever its kind: for an
	// account-funded one it is the ONLY comparison of the account input's nonce with the state during
	// block processing (GenerateTransaction fills that nonce from the state, so checkNonce is vacuous)
	{
		cv := p.Func("app", "processState.checkValid")
		var entry *ssa.BasicBlock
		ir.Instrs(cv, func(in ssa.Instruction) {
			if ta, ok := in.(*ssa.TypeAssert); ok && strings.HasSuffix(ta.AssertedType.String(), "types.UTXOTransaction") && ta.CommaOk {
				// the block entered when the assertion holds
				for _, u := range *ta.Referrers() {
					if ex, ok := u.(*ssa.Extract); ok && ex.Index == 1 {
						for _, uu := range *ex.Referrers() {
							if ifi, ok := uu.(*ssa.If); ok {
								entry = ifi.Block().Succs[0]
							}
						}
					}
				}
			}
		})
		if entry == nil {
			r.Undecided("K2", "app.(*processState).checkValid/utxo-case", p.Pos(cv.Pos()), "type-switch case for *UTXOTransaction not found")
		} else {
			found, hit, tr := ir.FindPath(ir.PathQuery{From: ir.Point{B: entry, I: -1}, Target: ir.IsReturn, Avoid: ir.CallMatcher("types.UTXOTransaction.CheckStoreState")})
			d := "no return from the confidential-transaction case without CheckStoreState"
			if found {
				d += fmt.Sprintf(" — but %s is reached without it, blocks %v", p.InstrPos(hit), tr)
			}
			r.Check("K2", "app.(*processState).checkValid/utxo-case/store-state-checked-on-every-path", p.Pos(cv.Pos()), !found, d)
		}
	}
}

var _ = report.Discharged

// saveUtxoStoresImages (shared by C06 and C07): the key images of a block are stored whatever else
// the block contains (a block of pure withdrawals has key images and no confidential outputs): no
// return of SaveUtxo before SaveKImages(kImgs). An image that is not stored can be spent again (C07),
// which pays the same hidden value out twice (C06).
func saveUtxoStoresImages(c C) {
	p, r := c.P, c.R
	su2 := p.Func("utxo", "UtxoStore.SaveUtxo")
	ski := ir.Calls(su2, "utxo.UtxoStore.SaveKImages")
	okArg := len(ski) == 1 && Arg(ski[0], 1) == "kImgs"
	r.Check("K2", "utxo.(*UtxoStore).SaveUtxo/SaveKImages/argument", p.Pos(su2.Pos()), okArg, "SaveKImages receives the block's image slice unchanged")
	found, hit, tr := ir.FindPath(ir.PathQuery{From: ir.Entry(su2), Target: ir.IsReturn, Avoid: ir.CallMatcher("utxo.UtxoStore.SaveKImages"),
		AvoidEdge: func(atoms []string) bool {
			for _, a := range atoms {
				if a == "eq(len(kImgs),0)" || a == "le(len(kImgs),0)" {
					return true
				}
			}
			return false
		}})
	d := "every path to a return passes SaveKImages (skipped only for an empty image slice)"
	if found {
		d += fmt.Sprintf(" — but %s is reached without it, blocks %v", p.InstrPos(hit), tr)
	}
	r.Check("K2", "utxo.(*UtxoStore).SaveUtxo/SaveKImages/on-every-path", p.Pos(su2.Pos()), !found, d)
}
