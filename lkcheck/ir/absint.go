package ir

import (
	"fmt"
	"go/constant"
	"go/token"
	"go/types"
	"sort"
	"strings"

	"golang.org/x/tools/go/ssa"
)

// Comparison-only abstract interpretation (rule kind K6).
//
// A decision function whose inputs are touched only through comparisons and
// nil tests is interpreted over a finite abstract domain: every designated
// leaf (a rendered access path or call) is given one representative of each
// order type / nil-ness / truth value. The interpreter follows the SSA CFG
// from the entry block, resolving only comparison BinOps, negations, phis of
// short-circuit evaluation and the designated boolean leaves. Anything else
// that a branch depends on makes the run *unknown* (the instance is then
// undecided, never discharged). No linkchain code is executed.

// Env assigns representatives to leaves.
type Env struct {
	Int  map[string]int64 // leaf rendered text -> representative integer
	Nil  map[string]bool  // leaf -> is nil
	Bool map[string]bool  // leaf (boolean call / field) -> value
}

// Outcome of one abstract run.
type Outcome struct {
	Kind    string   // "return", "panic", "proceeds", "unknown"
	Results []string // abstracted results for "return"
	Why     string   // for unknown / proceeds: the construct that stopped the run
	Calls   []string // rendered callee names executed on the path (effects)
}

func (o Outcome) String() string {
	s := o.Kind
	if o.Kind == "return" {
		s += "(" + strings.Join(o.Results, ",") + ")"
	}
	return s
}

// InterpOpts tunes the interpreter.
type InterpOpts struct {
	// StopAtEffect: stop with "proceeds" at the first call that is not in
	// Transparent, at a defer or a store to non-local memory (guard-prefix mode).
	StopAtEffect bool
	// Transparent callee globs (loggers, formatters) that are skipped.
	Transparent []string
}

var defaultTransparent = []string{"*Logger.*", "dyn:common.Fmt", "common.Fmt", "fmt.Sprintf", "fmt.Errorf", "errors.New", "log.*", "reflect.TypeOf", "*.String"}

type tri int

const (
	tFalse tri = iota
	tTrue
	tUnknown
)

type interp struct {
	env  Env
	prev *ssa.BasicBlock
	// cameFrom records, for every block entered on this run, the predecessor it
	// was entered from, so that a phi of an earlier block (nested && / ||) is
	// resolved by the edge actually taken.
	cameFrom map[*ssa.BasicBlock]*ssa.BasicBlock
	why      string
}

func (it *interp) predFor(b *ssa.BasicBlock) *ssa.BasicBlock {
	if p, ok := it.cameFrom[b]; ok {
		return p
	}
	return it.prev
}

func (it *interp) intVal(v ssa.Value) (int64, bool) {
	switch x := v.(type) {
	case *ssa.Const:
		if x.Value != nil && x.Value.Kind() == constant.Int {
			if i, ok := constant.Int64Val(x.Value); ok {
				return i, true
			}
		}
	case *ssa.Convert:
		// The domain is "inputs are only compared". A conversion that changes signedness (or narrows) of
		// an input value is outside it: int64(a - b) < 0 is not a > b for unsigned a, b.
		if _, isConst := x.X.(*ssa.Const); !isConst && changesIntegerMeaning(x.X.Type(), x.Type()) {
			it.why = "a signedness-changing or narrowing conversion of an input value is outside the comparison-only fragment: " + Render(v)
			return 0, false
		}
		return it.intVal(x.X)
	case *ssa.ChangeType:
		return it.intVal(x.X)
	case *ssa.Phi:
		from := it.predFor(x.Block())
		for i, p := range x.Block().Preds {
			if p == from {
				return it.intVal(x.Edges[i])
			}
		}
	case *ssa.BinOp:
		// arithmetic is exact only with a constant offset (round+1); the difference or sum of two inputs
		// can wrap and is not a comparison
		_, c1 := x.X.(*ssa.Const)
		_, c2 := x.Y.(*ssa.Const)
		if !c1 && !c2 && (x.Op == token.ADD || x.Op == token.SUB || x.Op == token.MUL) {
			it.why = "arithmetic on two input values is outside the comparison-only fragment: " + Render(v)
			return 0, false
		}
		a, ok1 := it.intVal(x.X)
		b, ok2 := it.intVal(x.Y)
		if ok1 && ok2 {
			switch x.Op {
			case token.ADD:
				return a + b, true
			case token.SUB:
				return a - b, true
			}
		}
	}
	if i, ok := it.env.Int[Render(v)]; ok {
		return i, true
	}
	return 0, false
}

func isNilConst(v ssa.Value) bool {
	c, ok := v.(*ssa.Const)
	return ok && c.Value == nil && isNilable(c.Type())
}

func (it *interp) boolVal(v ssa.Value) tri {
	switch x := v.(type) {
	case *ssa.Const:
		if x.Value != nil && x.Value.Kind() == constant.Bool {
			if constant.BoolVal(x.Value) {
				return tTrue
			}
			return tFalse
		}
	case *ssa.UnOp:
		if x.Op == token.NOT {
			switch it.boolVal(x.X) {
			case tTrue:
				return tFalse
			case tFalse:
				return tTrue
			}
			return tUnknown
		}
	case *ssa.Phi:
		from := it.predFor(x.Block())
		for i, p := range x.Block().Preds {
			if p == from {
				return it.boolVal(x.Edges[i])
			}
		}
		return tUnknown
	case *ssa.BinOp:
		switch x.Op {
		case token.EQL, token.NEQ:
			var res tri = tUnknown
			if isNilConst(x.Y) || isNilConst(x.X) {
				o := x.X
				if isNilConst(x.X) {
					o = x.Y
				}
				if n, ok := it.env.Nil[Render(o)]; ok {
					res = b2t(n)
				}
			} else if a, ok1 := it.intVal(x.X); ok1 {
				if b, ok2 := it.intVal(x.Y); ok2 {
					res = b2t(a == b)
				}
			}
			if res == tUnknown {
				// boolean leaf for the whole comparison?
				for _, a := range CondAtoms(x, true) {
					if bv, ok := it.env.Bool[a]; ok {
						return b2t(bv)
					}
					if strings.HasPrefix(a, "!") {
						if bv, ok := it.env.Bool[a[1:]]; ok {
							return b2t(!bv)
						}
					}
				}
				it.why = "comparison outside the domain: " + Render(x)
				return tUnknown
			}
			if x.Op == token.NEQ {
				return not3(res)
			}
			return res
		case token.LSS, token.LEQ, token.GTR, token.GEQ:
			a, ok1 := it.intVal(x.X)
			b, ok2 := it.intVal(x.Y)
			if !ok1 || !ok2 {
				it.why = "ordering outside the domain: " + Render(x)
				return tUnknown
			}
			switch x.Op {
			case token.LSS:
				return b2t(a < b)
			case token.LEQ:
				return b2t(a <= b)
			case token.GTR:
				return b2t(a > b)
			default:
				return b2t(a >= b)
			}
		}
	}
	if bv, ok := it.env.Bool[Render(v)]; ok {
		return b2t(bv)
	}
	it.why = "condition outside the domain: " + Render(v)
	return tUnknown
}

func b2t(b bool) tri {
	if b {
		return tTrue
	}
	return tFalse
}
func not3(t tri) tri {
	switch t {
	case tTrue:
		return tFalse
	case tFalse:
		return tTrue
	}
	return tUnknown
}

// AbstractResult abstracts a returned value: "nil", "nonnil", "true",
// "false", an integer constant, or the rendered text.
func AbstractResult(v ssa.Value) string {
	switch x := v.(type) {
	case *CtxValue:
		// a result of a transparent helper: its class is the class of the helper's value
		if a := AbstractResult(x.Value); a == "nil" || strings.HasPrefix(a, "nonnil:") {
			return a
		}
		return Render(v)
	case *ssa.Const:
		return renderConst(x)
	case *ssa.MakeInterface:
		// error values constructed from concrete types are non-nil
		if u, ok := x.X.(*ssa.UnOp); ok && u.Op == token.MUL {
			if g, ok := u.X.(*ssa.Global); ok && (strings.HasPrefix(g.Name(), "Err") || strings.HasPrefix(g.Name(), "err")) {
				return "nonnil:" + g.Name()
			}
		}
		return "nonnil:" + typeShortNoPtr(x.X.Type())
	case *ssa.Call:
		n := calleeName(&x.Call)
		if n == "errors.New" || n == "fmt.Errorf" || strings.HasPrefix(n, "errors.Wrap") {
			return "nonnil:error"
		}
	case *ssa.UnOp:
		if x.Op == token.MUL {
			if g, ok := x.X.(*ssa.Global); ok && (strings.HasPrefix(g.Name(), "Err") || strings.HasPrefix(g.Name(), "err")) {
				return "nonnil:" + g.Name()
			}
		}
	}
	return Render(v)
}

// Interpret runs fn under env.
func Interpret(fn *ssa.Function, env Env, opts InterpOpts) Outcome {
	it := &interp{env: env, cameFrom: map[*ssa.BasicBlock]*ssa.BasicBlock{}}
	transparent := append(append([]string{}, defaultTransparent...), opts.Transparent...)
	isTransparent := func(n string) bool {
		for _, g := range transparent {
			if Match(g, n) {
				return true
			}
		}
		return false
	}
	b := fn.Blocks[0]
	visited := map[*ssa.BasicBlock]int{}
	var calls []string
	// spilled results (functions with defer keep results in allocs)
	spill := map[ssa.Value]ssa.Value{}
	for {
		visited[b]++
		if visited[b] > 2 {
			return Outcome{Kind: "unknown", Why: "loop", Calls: calls}
		}
		for _, in := range b.Instrs {
			switch x := in.(type) {
			case *ssa.Store:
				if al, ok := x.Addr.(*ssa.Alloc); ok {
					spill[al] = x.Val
					continue
				}
				if isLocalAddr(x.Addr) {
					continue
				}
				if opts.StopAtEffect {
					return Outcome{Kind: "proceeds", Why: RenderInstr(in), Calls: calls}
				}
			case *ssa.Defer:
				if opts.StopAtEffect {
					return Outcome{Kind: "proceeds", Why: RenderInstr(in), Calls: calls}
				}
			case *ssa.Go:
				if opts.StopAtEffect {
					return Outcome{Kind: "proceeds", Why: RenderInstr(in), Calls: calls}
				}
			case *ssa.Call:
				n := calleeName(&x.Call)
				if IsNoReturnCall(in) {
					return Outcome{Kind: "panic", Why: n, Calls: calls}
				}
				if isTransparent(n) {
					continue
				}
				// designated boolean leaves and pure accessors are not effects
				if _, ok := env.Bool[Render(x)]; ok {
					continue
				}
				calls = append(calls, n)
				if opts.StopAtEffect {
					return Outcome{Kind: "proceeds", Why: RenderInstr(in), Calls: calls}
				}
			case *ssa.Panic:
				return Outcome{Kind: "panic", Why: Render(x.X), Calls: calls}
			case *ssa.Return:
				var rs []string
				for _, r := range x.Results {
					// results loaded from spill slots
					if u, ok := r.(*ssa.UnOp); ok && u.Op == token.MUL {
						if sv, ok := spill[u.X]; ok {
							r = sv
						}
					}
					if b, ok := r.Type().Underlying().(*types.Basic); ok && b.Info()&types.IsBoolean != 0 {
						it.prev = prevOf(b0(x), it.prev)
						switch it.boolVal(r) {
						case tTrue:
							rs = append(rs, "true")
							continue
						case tFalse:
							rs = append(rs, "false")
							continue
						}
					}
					rs = append(rs, AbstractResult(r))
				}
				return Outcome{Kind: "return", Results: rs, Calls: calls}
			case *ssa.If:
				t := it.boolVal(x.Cond)
				if t == tUnknown {
					if opts.StopAtEffect {
						return Outcome{Kind: "proceeds", Why: "if " + Render(x.Cond), Calls: calls}
					}
					return Outcome{Kind: "unknown", Why: it.why, Calls: calls}
				}
				it.prev = b
				if t == tTrue {
					b = b.Succs[0]
				} else {
					b = b.Succs[1]
				}
				it.cameFrom[b] = it.prev
				goto next
			case *ssa.Jump:
				it.prev = b
				b = b.Succs[0]
				it.cameFrom[b] = it.prev
				goto next
			case *ssa.RunDefers:
				continue
			}
		}
		return Outcome{Kind: "unknown", Why: "block without terminator", Calls: calls}
	next:
	}
}

// Domain describes the abstract input space as independent axes.
type Domain struct {
	Axes []Axis
}

// Axis is one independent choice; each Choice sets some leaves.
type Axis struct {
	Name    string
	Choices []Choice
}

// Choice is one abstract value of an axis.
type Choice struct {
	Label string
	Int   map[string]int64
	Nil   map[string]bool
	Bool  map[string]bool
}

// OrderAxis: leaf a compared with leaf b (b fixed at 1, a in {0,1,2}).
func OrderAxis(name, a, b string) Axis {
	mk := func(l string, v int64) Choice {
		return Choice{Label: name + l, Int: map[string]int64{a: v, b: 1}}
	}
	return Axis{name, []Choice{mk("<", 0), mk("=", 1), mk(">", 2)}}
}

// EqAxis: leaf a equal / different from b.
func EqAxis(name, a, b string) Axis {
	return Axis{name, []Choice{
		{Label: name + "=", Int: map[string]int64{a: 1, b: 1}},
		{Label: name + "≠", Int: map[string]int64{a: 2, b: 1}},
	}}
}

// EnumAxis: leaf takes each of the given integer values.
func EnumAxis(name, a string, vals []int64) Axis {
	ax := Axis{Name: name}
	for _, v := range vals {
		ax.Choices = append(ax.Choices, Choice{Label: fmt.Sprintf("%s=%d", name, v), Int: map[string]int64{a: v}})
	}
	return ax
}

// NilAxis: leaf nil or not.
func NilAxis(name, a string) Axis {
	return Axis{name, []Choice{
		{Label: name + "=nil", Nil: map[string]bool{a: true}},
		{Label: name + "≠nil", Nil: map[string]bool{a: false}},
	}}
}

// BoolAxis: boolean leaf.
func BoolAxis(name, a string) Axis {
	return Axis{name, []Choice{
		{Label: name, Bool: map[string]bool{a: true}},
		{Label: "!" + name, Bool: map[string]bool{a: false}},
	}}
}

// Row is one line of a decision table.
type Row struct {
	Labels  []string
	Env     Env
	Outcome Outcome
}

// Enumerate interprets fn for every point of the domain.
func Enumerate(fn *ssa.Function, d Domain, opts InterpOpts) []Row {
	var rows []Row
	idx := make([]int, len(d.Axes))
	for {
		env := Env{Int: map[string]int64{}, Nil: map[string]bool{}, Bool: map[string]bool{}}
		var labels []string
		for i, ax := range d.Axes {
			c := ax.Choices[idx[i]]
			labels = append(labels, c.Label)
			for k, v := range c.Int {
				env.Int[k] = v
			}
			for k, v := range c.Nil {
				env.Nil[k] = v
			}
			for k, v := range c.Bool {
				env.Bool[k] = v
			}
		}
		rows = append(rows, Row{labels, env, Interpret(fn, env, opts)})
		i := len(idx) - 1
		for ; i >= 0; i-- {
			idx[i]++
			if idx[i] < len(d.Axes[i].Choices) {
				break
			}
			idx[i] = 0
		}
		if i < 0 {
			break
		}
	}
	return rows
}

// Has reports whether the row has the label.
func (r Row) Has(label string) bool {
	for _, l := range r.Labels {
		if l == label {
			return true
		}
	}
	return false
}

// Label joins the row labels.
func (r Row) Label() string { return strings.Join(r.Labels, " ") }

// SummariseRows gives a compact table outcome -> count for evidence.
func SummariseRows(rows []Row) map[string]int {
	m := map[string]int{}
	for _, r := range rows {
		m[r.Outcome.String()]++
	}
	return m
}

// SortedKeys is a small helper.
func SortedKeys(m map[string]int) []string {
	var ks []string
	for k := range m {
		ks = append(ks, k)
	}
	sort.Strings(ks)
	return ks
}

// isLocalAddr reports whether the address is inside a function-local
// allocation (varargs arrays, local structs).
// IsLocalAddr is exported for rule code.
func IsLocalAddr(v ssa.Value) bool { return isLocalAddr(v) }

func isLocalAddr(v ssa.Value) bool {
	for i := 0; i < 8; i++ {
		switch x := v.(type) {
		case *ssa.Alloc:
			return true
		case *ssa.IndexAddr:
			v = x.X
		case *ssa.FieldAddr:
			v = x.X
		default:
			return false
		}
	}
	return false
}

func b0(r *ssa.Return) *ssa.BasicBlock { return r.Block() }

// prevOf keeps the predecessor used for phi resolution.
func prevOf(_ *ssa.BasicBlock, prev *ssa.BasicBlock) *ssa.BasicBlock { return prev }

// changesIntegerMeaning: converting from -> to can change the numeric value of an integer
// (signed<->unsigned, or to a narrower type).
func changesIntegerMeaning(from, to types.Type) bool {
	fb, ok1 := from.Underlying().(*types.Basic)
	tb, ok2 := to.Underlying().(*types.Basic)
	if !ok1 || !ok2 || fb.Info()&types.IsInteger == 0 || tb.Info()&types.IsInteger == 0 {
		return false
	}
	fu, tu := fb.Info()&types.IsUnsigned != 0, tb.Info()&types.IsUnsigned != 0
	size := func(b *types.Basic) int {
		switch b.Kind() {
		case types.Int8, types.Uint8:
			return 8
		case types.Int16, types.Uint16:
			return 16
		case types.Int32, types.Uint32:
			return 32
		}
		return 64
	}
	return fu != tu || size(tb) < size(fb)
}
