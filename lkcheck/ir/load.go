// Package ir loads /repo's current working tree as a type-checked program
// (go/packages + go/ssa) and offers the helpers the rule engines share:
// anchor resolution by type-checked identity, canonical rendering of SSA
// values, dominating guard facts, CFG path queries, store/call indexes and a
// comparison-only abstract interpreter.
package ir

import (
	"fmt"
	"go/ast"
	"go/token"
	"go/types"
	"os"
	"sort"
	"strings"

	"golang.org/x/tools/go/packages"
	"golang.org/x/tools/go/ssa"
	"golang.org/x/tools/go/ssa/ssautil"
)

// Module is the import path prefix of the analysed repository.
const Module = "github.com/lianxiangcloud/linkchain"

// Program is the loaded repository.
type Program struct {
	Dir     string
	Fset    *token.FileSet
	Pkgs    []*packages.Package          // module packages only, sorted by path
	ByPath  map[string]*packages.Package // every loaded package, by import path
	SSA     *ssa.Program
	SSAPkg  map[string]*ssa.Package // module packages, by import path
	Funcs   []*ssa.Function         // every function with a body in module packages (incl. anonymous)
	NumAll  int                     // number of packages loaded including dependencies
	fnByObj map[*types.Func]*ssa.Function

	storeIdx map[*types.Var][]Store
	callIdx  map[*types.Func][]CallSite
}

// Config controls loading.
type Config struct {
	Dir      string            // repository root
	Overlay  map[string][]byte // optional in-memory file replacements (self-test variants)
	Patterns []string          // default ./...
	Tags     string
}

// Load type-checks the repository and builds SSA for the module's packages.
func Load(c Config) (*Program, error) {
	env := append(os.Environ(),
		"GOFLAGS=-mod=mod", "GOPROXY=off", "GOSUMDB=off", "GOTOOLCHAIN=local",
		"GOWORK=off", "CGO_ENABLED=1")
	pats := c.Patterns
	if len(pats) == 0 {
		pats = []string{"./..."}
	}
	cfg := &packages.Config{
		Mode:    packages.LoadAllSyntax,
		Dir:     c.Dir,
		Env:     env,
		Overlay: c.Overlay,
		Tests:   false,
	}
	if c.Tags != "" {
		cfg.BuildFlags = []string{"-tags=" + c.Tags}
	}
	initial, err := packages.Load(cfg, pats...)
	if err != nil {
		return nil, fmt.Errorf("packages.Load: %v", err)
	}
	p := &Program{
		Dir:     c.Dir,
		ByPath:  map[string]*packages.Package{},
		SSAPkg:  map[string]*ssa.Package{},
		fnByObj: map[*types.Func]*ssa.Function{},
	}
	var terr []string
	packages.Visit(initial, nil, func(pk *packages.Package) {
		p.ByPath[pk.PkgPath] = pk
		p.NumAll++
		if strings.HasPrefix(pk.PkgPath, Module) {
			for _, e := range pk.Errors {
				terr = append(terr, e.Error())
			}
		}
	})
	for _, pk := range initial {
		if strings.HasPrefix(pk.PkgPath, Module) {
			p.Pkgs = append(p.Pkgs, pk)
		}
	}
	sort.Slice(p.Pkgs, func(i, j int) bool { return p.Pkgs[i].PkgPath < p.Pkgs[j].PkgPath })
	if len(p.Pkgs) == 0 {
		return nil, fmt.Errorf("no module packages loaded from %s", c.Dir)
	}
	if len(terr) > 0 {
		if len(terr) > 10 {
			terr = terr[:10]
		}
		return nil, fmt.Errorf("type errors in module packages:\n  %s", strings.Join(terr, "\n  "))
	}
	p.Fset = initial[0].Fset

	prog, _ := ssautil.AllPackages(initial, ssa.InstantiateGenerics)
	p.SSA = prog
	for _, pk := range p.Pkgs {
		sp := prog.Package(pk.Types)
		if sp == nil {
			return nil, fmt.Errorf("no SSA package for %s", pk.PkgPath)
		}
		sp.Build()
		p.SSAPkg[pk.PkgPath] = sp
	}
	// Collect functions with bodies.
	seen := map[*ssa.Function]bool{}
	var add func(f *ssa.Function)
	add = func(f *ssa.Function) {
		if f == nil || seen[f] {
			return
		}
		seen[f] = true
		if f.Blocks != nil {
			p.Funcs = append(p.Funcs, f)
		}
		for _, a := range f.AnonFuncs {
			add(a)
		}
	}
	for _, pk := range p.Pkgs {
		sp := p.SSAPkg[pk.PkgPath]
		for _, m := range sp.Members {
			switch m := m.(type) {
			case *ssa.Function:
				add(m)
			case *ssa.Type:
				for _, t := range []types.Type{m.Type(), types.NewPointer(m.Type())} {
					ms := prog.MethodSets.MethodSet(t)
					for i := 0; i < ms.Len(); i++ {
						f := prog.MethodValue(ms.At(i))
						if f != nil && f.Pkg == sp && f.Synthetic == "" {
							add(f)
						}
					}
				}
			}
		}
	}
	sort.Slice(p.Funcs, func(i, j int) bool {
		a, b := p.Funcs[i], p.Funcs[j]
		if a.String() != b.String() {
			return a.String() < b.String()
		}
		return a.Pos() < b.Pos()
	})
	return p, nil
}

// Pkg returns the module package with the given path relative to the module
// root ("" for the root, "consensus", "libs/ser", ...).
func (p *Program) Pkg(rel string) *packages.Package {
	path := Module
	if rel != "" {
		path += "/" + rel
	}
	pk := p.ByPath[path]
	if pk == nil {
		panic(Unresolved{fmt.Sprintf("package %q", rel)})
	}
	return pk
}

// Unresolved is the panic value raised when an anchor named in a rule table
// does not exist in the program. The driver turns it into exit status 2.
type Unresolved struct{ What string }

func (u Unresolved) Error() string { return "unresolved anchor: " + u.What }

// Obj resolves "Name" or "Type.Member" in package rel to its types.Object.
func (p *Program) Obj(rel, name string) types.Object {
	o := p.TryObj(rel, name)
	if o == nil {
		panic(Unresolved{rel + "." + name})
	}
	return o
}

// TryObj is Obj without the panic.
func (p *Program) TryObj(rel, name string) types.Object {
	path := Module
	if rel != "" {
		path += "/" + rel
	}
	pk := p.ByPath[path]
	if pk == nil {
		return nil
	}
	parts := strings.SplitN(name, ".", 2)
	o := pk.Types.Scope().Lookup(parts[0])
	if o == nil || len(parts) == 1 {
		return o
	}
	tn, ok := o.(*types.TypeName)
	if !ok {
		return nil
	}
	obj, _, _ := types.LookupFieldOrMethod(types.NewPointer(tn.Type()), true, pk.Types, parts[1])
	if obj == nil {
		obj, _, _ = types.LookupFieldOrMethod(tn.Type(), true, pk.Types, parts[1])
	}
	return obj
}

// Func resolves a function or method ("F", "T.M") in package rel to its SSA
// function (with body).
func (p *Program) Func(rel, name string) *ssa.Function {
	f := p.TryFunc(rel, name)
	if f == nil {
		panic(Unresolved{"func " + rel + "." + name})
	}
	return f
}

// TryFunc is Func without the panic.
func (p *Program) TryFunc(rel, name string) *ssa.Function {
	o := p.TryObj(rel, name)
	fo, ok := o.(*types.Func)
	if !ok {
		// a method that became a function (or the reverse) is found under its old name
		var want []string
		if parts := strings.SplitN(name, ".", 2); len(parts) == 2 {
			want = []string{fmt.Sprintf("%s.(*%s).%s", rel, parts[0], parts[1]), fmt.Sprintf("%s.(%s).%s", rel, parts[0], parts[1])}
		} else {
			want = []string{rel + "." + name}
		}
		for f, a := range formAliases {
			for _, w := range want {
				if a.full == w && f.Blocks != nil {
					return f
				}
			}
		}
		return nil
	}
	f := p.SSA.FuncValue(fo)
	if f == nil || f.Blocks == nil {
		return nil
	}
	return f
}

// Field resolves a struct field "T.f" (through embedding) in package rel.
func (p *Program) Field(rel, name string) *types.Var {
	o := p.TryObj(rel, name)
	v, ok := o.(*types.Var)
	if !ok || !v.IsField() {
		panic(Unresolved{"field " + rel + "." + name})
	}
	return v
}

// TryField is Field without the panic.
func (p *Program) TryField(rel, name string) *types.Var {
	o := p.TryObj(rel, name)
	v, ok := o.(*types.Var)
	if !ok || !v.IsField() {
		return nil
	}
	return v
}

// Struct returns the struct type underlying named type T in package rel.
func (p *Program) Struct(rel, name string) *types.Struct {
	o := p.Obj(rel, name)
	st, ok := o.Type().Underlying().(*types.Struct)
	if !ok {
		panic(Unresolved{"struct " + rel + "." + name})
	}
	return st
}

// Named returns the named type T in package rel.
func (p *Program) Named(rel, name string) *types.Named {
	o := p.Obj(rel, name)
	n, ok := o.Type().(*types.Named)
	if !ok {
		panic(Unresolved{"named type " + rel + "." + name})
	}
	return n
}

// Pos renders a position relative to the repository root.
func (p *Program) Pos(pos token.Pos) string {
	if !pos.IsValid() {
		return "-"
	}
	ps := p.Fset.Position(pos)
	f := strings.TrimPrefix(ps.Filename, p.Dir+"/")
	return fmt.Sprintf("%s:%d", f, ps.Line)
}

// InstrPos is the best available position of an instruction.
func (p *Program) InstrPos(in ssa.Instruction) string {
	pos := in.Pos()
	if !pos.IsValid() {
		if v, ok := in.(ssa.Value); ok {
			_ = v
		}
		// fall back to the nearest instruction with a position in the block
		b := in.Block()
		idx := -1
		for i, x := range b.Instrs {
			if x == in {
				idx = i
			}
		}
		for d := 1; d < len(b.Instrs); d++ {
			for _, j := range []int{idx - d, idx + d} {
				if j >= 0 && j < len(b.Instrs) && b.Instrs[j].Pos().IsValid() {
					return p.Pos(b.Instrs[j].Pos()) + "~"
				}
			}
		}
		return p.Pos(in.Parent().Pos()) + "~"
	}
	return p.Pos(pos)
}

// RelPkg returns the package path of f relative to the module ("" if outside).
func RelPkg(pkg *types.Package) string {
	if pkg == nil {
		return ""
	}
	s := pkg.Path()
	if s == Module {
		return "."
	}
	if strings.HasPrefix(s, Module+"/") {
		return s[len(Module)+1:]
	}
	return ""
}

// FuncName is a stable readable name: "consensus.(*ConsensusState).addVote",
// anonymous functions as "parent$1".
func FuncName(f *ssa.Function) string {
	if f == nil {
		return "<nil>"
	}
	if f.Parent() != nil {
		return FuncName(f.Parent()) + "$" + strings.TrimPrefix(f.Name(), f.Parent().Name()+"$")
	}
	if a, ok := formAliases[f]; ok {
		return a.full
	}
	return plainFuncName(f)
}

// plainFuncName is FuncName without the method<->function aliases (see names.go).
func plainFuncName(f *ssa.Function) string {
	pk := ""
	if f.Pkg != nil {
		pk = RelPkg(f.Pkg.Pkg)
		if pk == "" {
			pk = f.Pkg.Pkg.Path()
		}
	}
	if recv := f.Signature.Recv(); recv != nil {
		t := recv.Type()
		star := ""
		if pt, ok := t.(*types.Pointer); ok {
			t = pt.Elem()
			star = "*"
		}
		tn := t.String()
		if n, ok := t.(*types.Named); ok {
			tn = n.Obj().Name()
			if n.Obj().Pkg() != nil && pk == "" {
				pk = RelPkg(n.Obj().Pkg())
				if pk == "" {
					pk = n.Obj().Pkg().Path()
				}
			}
		}
		return fmt.Sprintf("%s.(%s%s).%s", pk, star, tn, f.Name())
	}
	return pk + "." + f.Name()
}

// FileOf returns the syntax file containing pos.
func (p *Program) FileOf(pk *packages.Package, pos token.Pos) *ast.File {
	for _, f := range pk.Syntax {
		if f.Pos() <= pos && pos <= f.End() {
			return f
		}
	}
	return nil
}

// FuncDecl finds the declaration of function/method "F" or "T.M" in package rel.
func (p *Program) FuncDecl(rel, name string) (*packages.Package, *ast.FuncDecl) {
	pk := p.Pkg(rel)
	o := p.Obj(rel, name)
	for _, f := range pk.Syntax {
		for _, d := range f.Decls {
			if fd, ok := d.(*ast.FuncDecl); ok && pk.TypesInfo.Defs[fd.Name] == o {
				return pk, fd
			}
		}
	}
	panic(Unresolved{"decl " + rel + "." + name})
}
