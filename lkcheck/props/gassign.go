package props

import (
	"fmt"
	"go/types"
	"regexp"
	"strings"

	"golang.org/x/tools/go/ssa"

	"lkcheck/ir"
)

// gasNeverSigned: gas quantities are uint64 everywhere and enter the fee arithmetic through
// big.Int.SetUint64. Reinterpreting one as a signed integer (int64(gasLimit)) turns a limit
// above 2^63 into a NEGATIVE cost: the balance test "balance >= Cost()" passes for an account
// that owns nothing and the mempool offers a transaction whose gas purchase fails (C15), or the
// fee that is charged differs from the one that is refunded (C06).
// Rule: in the transaction types, the application and the mempool no uint64 -> signed conversion
// is applied to a value whose expression names gas; positive evidence: the SetUint64 sites.
func gasNeverSigned(c C) {
	p, r := c.P, c.R
	gasRe := regexp.MustCompile(`(?i)gas`)
	inScope := func(f *ssa.Function) bool {
		if f.Pkg == nil {
			return false
		}
		pp := f.Pkg.Pkg.Path()
		for _, s := range []string{"/types", "/app", "/mempool"} {
			if strings.HasSuffix(pp, "linkchain"+s) {
				return true
			}
		}
		return false
	}
	nPos, nBad := 0, 0
	for _, f := range p.Funcs {
		if f.Blocks == nil || !inScope(f) || strings.HasSuffix(p.Pos(f.Pos()), "_test.go") {
			continue
		}
		ir.Instrs(f, func(in ssa.Instruction) {
			switch x := in.(type) {
			case *ssa.Convert:
				src, ok1 := x.X.Type().Underlying().(*types.Basic)
				dst, ok2 := x.Type().Underlying().(*types.Basic)
				if !ok1 || !ok2 || src.Kind() != types.Uint64 || dst.Info()&types.IsInteger == 0 || dst.Info()&types.IsUnsigned != 0 {
					return
				}
				if _, isConst := x.X.(*ssa.Const); isConst {
					return
				}
				v := ir.Render(x.X)
				if !gasRe.MatchString(v) {
					return
				}
				// a conversion guarded by an explicit upper bound keeps its meaning
				for _, a := range ir.FactsAt(in) {
					if strings.HasPrefix(a.Atom, "le("+v+",") || strings.HasPrefix(a.Atom, "lt("+v+",") {
						return
					}
				}
				nBad++
				r.Check("K6", "gas-never-signed/"+ir.FuncName(f)+"/convert "+short(v, 60), p.InstrPos(in), false, "a uint64 gas quantity is converted to "+dst.Name()+" without a bound: above 2^63 it becomes negative")
			case *ssa.Call:
				if ir.CalleeName(x) == "big.Int.SetUint64" && gasRe.MatchString(Arg(x, 1)) {
					nPos++
				}
			}
		})
	}
	r.Check("K6", "gas-never-signed/sites", "-", nPos >= 15 && nBad == 0, fmt.Sprintf("%d big.Int.SetUint64(gas) sites in types/app/mempool, %d unbounded signed conversions of gas", nPos, nBad))
}
