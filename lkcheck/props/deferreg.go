package props

import (
	"encoding/json"
	"fmt"
	"os"
	"path/filepath"
	"sort"
	"strings"

	"golang.org/x/tools/go/ssa"

	"lkcheck/ir"
	"lkcheck/report"
)

// Deferred cleanup (K2, all properties).
//
// What a function defers is what it promises to do on EVERY exit, the panicking ones included:
// release the lock, close the file or iterator, mark the WaitGroup, flush, recover. The committed
// table defers.json lists, per function of the module, the callees it deferred when the table was
// written (for a deferred closure: the callees called in the closure's body). The rule: each is still
// deferred (directly or inside a deferred closure), or — when the defer was turned into explicit
// calls — is called on every path from the entry to every return. A cleanup that was dropped, moved
// into one branch, or is now skipped by an early return is reported with the function and the callee.
//
// Inferred and frozen like the other regression tables: silent on the unchanged tree by
// construction; a function that disappeared is skipped.

type deferTable map[string][]string // function -> deferred callees

// deferredCallees lists what fn defers: callee names of direct defers, and of the calls inside
// deferred closures (depth 1). Logging and formatting are not cleanup and are left out.
func deferredCallees(fn *ssa.Function, seeThrough bool) map[string]bool {
	out := map[string]bool{}
	uninteresting := func(n string) bool {
		return n == "" || strings.HasPrefix(n, "dyn:") || strings.HasPrefix(n, "log.") || strings.HasPrefix(n, "fmt.") || strings.Contains(n, "Logger.") || strings.HasPrefix(n, "time.") || strings.HasPrefix(n, "debug.") || strings.HasPrefix(n, "errors.") || strings.HasPrefix(n, "strings.") || strings.HasPrefix(n, "runtime.")
	}
	ir.Instrs(fn, func(in ssa.Instruction) {
		d, ok := in.(*ssa.Defer)
		if !ok {
			return
		}
		if mc, ok := d.Call.Value.(*ssa.MakeClosure); ok {
			if cl, ok := mc.Fn.(*ssa.Function); ok {
				for _, b := range cl.Blocks {
					for _, x := range b.Instrs {
						if c, ok := x.(ssa.CallInstruction); ok {
							if _, isB := c.Common().Value.(*ssa.Builtin); isB {
								if c.Common().Value.Name() == "recover" {
									out["recover"] = true
								}
								continue
							}
							if n := ir.CalleeName(c); !uninteresting(n) {
								out[n] = true
							}
						}
					}
				}
			}
			return
		}
		if _, isB := d.Call.Value.(*ssa.Builtin); isB {
			return
		}
		// a deferred release through a private lock wrapper (`defer pv.unlock()`) is the release it wraps
		if op, isOp := lockOpOf(in); seeThrough && isOp && !op.Acquire {
			if op.Kind == "r" {
				out["sync.RWMutex.RUnlock"] = true
			} else {
				out["sync.Mutex.Unlock"] = true
				out["sync.RWMutex.Unlock"] = true
			}
		}
		// a deferred call of a function that is read as part of this one (a helper that did not exist when
		// the rules were reviewed): what its body calls
		if callee := d.Call.StaticCallee(); seeThrough && callee != nil && ir.IsTransparentHelper(callee) {
			for _, b := range callee.Blocks {
				for _, x := range b.Instrs {
					if c, ok := x.(ssa.CallInstruction); ok {
						if _, isB := c.Common().Value.(*ssa.Builtin); !isB {
							if n := ir.CalleeName(c); !uninteresting(n) {
								out[n] = true
							}
						}
					}
				}
			}
		}
		if n := ir.CalleeName(d); !uninteresting(n) {
			out[n] = true
		}
	})
	return out
}

// GenDeferTable writes defers.json from the current tree.
func GenDeferTable(p *ir.Program, verifDir string) (int, error) {
	tab := deferTable{}
	n := 0
	for name, fn := range topFuncs(p) {
		if strings.HasSuffix(fileOf(p, fn), "_test.go") || ir.IsTransparentHelper(fn) {
			continue
		}
		ds := deferredCallees(fn, false)
		if len(ds) == 0 {
			continue
		}
		var l []string
		for d := range ds {
			l = append(l, d)
		}
		sort.Strings(l)
		tab[name] = l
		n += len(l)
	}
	b, err := json.MarshalIndent(tab, "", " ")
	if err != nil {
		return 0, err
	}
	return n, os.WriteFile(filepath.Join(verifDir, "defers.json"), b, 0o644)
}

// deferRegression adds one obligation per listed function defined in the property's anchor files.
func deferRegression(p *ir.Program, r *report.R, files map[string]bool) {
	b, err := os.ReadFile(filepath.Join(VerifDir, "defers.json"))
	if err != nil {
		r.Undecided("K2", "deferred-cleanup/table", "-", "defers.json not readable: "+err.Error())
		return
	}
	var tab deferTable
	if err := json.Unmarshal(b, &tab); err != nil {
		r.Undecided("K2", "deferred-cleanup/table", "-", "defers.json: "+err.Error())
		return
	}
	funcs := topFuncs(p)
	var names []string
	for name := range tab {
		if fn := funcs[name]; fn != nil && files[fileOf(p, fn)] {
			names = append(names, name)
		}
	}
	sort.Strings(names)
	nC := 0
	for _, name := range names {
		fn := funcs[name]
		have := deferredCallees(fn, true)
		var missing []string
		for _, callee := range tab[name] {
			nC++
			if have[callee] {
				continue
			}
			if callee == "recover" {
				missing = append(missing, "recover (no deferred recover left)")
				continue
			}
			// turned into explicit calls: every path that TOUCHES the resource (any other call on the same
			// receiver/first argument: the Lock of that mutex, a write to that file) reaches a return only
			// through the call; a return taken before the resource is touched (the nil-receiver exit above the
			// Lock) needs none - the defer statement was not reached there either. Without such an anchor:
			// every path from the entry.
			calls := ir.Calls(fn, callee)
			explicit := len(calls) > 0
			if explicit {
				isCall := func(in ssa.Instruction) bool {
					c, ok := in.(*ssa.Call)
					return ok && ir.CalleeName(c) == callee
				}
				res := map[string]bool{}
				for _, c := range calls {
					if len(c.Common().Args) > 0 {
						res[ir.Render(c.Common().Args[0])] = true
					} else if c.Common().IsInvoke() {
						res[ir.Render(c.Common().Value)] = true
					}
				}
				var anchors []ssa.Instruction
				ir.Instrs(fn, func(in ssa.Instruction) {
					c, ok := in.(*ssa.Call)
					if !ok || ir.CalleeName(c) == callee {
						return
					}
					if c.Call.IsInvoke() && res[ir.Render(c.Call.Value)] {
						anchors = append(anchors, in)
						return
					}
					for _, a := range c.Call.Args {
						if res[ir.Render(a)] {
							anchors = append(anchors, in)
							return
						}
					}
				})
				if len(anchors) == 0 {
					if found, _, _ := ir.FindPath(ir.PathQuery{From: ir.Entry(fn), Target: ir.IsReturn, Avoid: isCall}); found {
						explicit = false
					}
				}
				for _, a := range anchors {
					if found, _, _ := ir.FindPath(ir.PathQuery{From: ir.At(a), Target: ir.IsReturn, Avoid: isCall}); found {
						explicit = false
					}
				}
			}
			if !explicit {
				missing = append(missing, callee)
			}
		}
		r.Check("K2", "deferred-cleanup/"+name, p.Pos(fn.Pos()), len(missing) == 0, fmt.Sprintf("what %s deferred when the table was frozen (%v) is still deferred, or called on every path to a return; no longer: %v", fn.Name(), tab[name], missing))
	}
	r.Note("deferred-cleanup: %d functions, %d deferred callees compared", len(names), nC)
}
