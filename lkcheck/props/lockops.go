package props

import (
	"go/token"
	"go/types"

	"golang.org/x/tools/go/ssa"

	"lkcheck/ir"
)

// lockOp describes a mutex operation: a direct sync.(RW)Mutex call, or a call of a private "lock
// wrapper" — a method whose whole body is one such call on a field of its receiver
// (`func (pv *FilePV) lock() { pv.mtx.Lock() }`), a common way to restructure locking without changing it.
type lockOp struct {
	Kind     string // "w" | "r"
	Acquire  bool
	Deferred bool
	Mtx      string    // rendering of the mutex address (&recv.mtx)
	Owner    ssa.Value // the struct value whose field the mutex is (nil when not a field)
	Field    int
}

func lockOpOf(in ssa.Instruction) (lockOp, bool) {
	call, ok := in.(ssa.CallInstruction)
	if !ok {
		return lockOp{}, false
	}
	_, isDefer := in.(*ssa.Defer)
	if _, isGo := in.(*ssa.Go); isGo {
		return lockOp{}, false
	}
	cc := call.Common()
	if k, acq := mutexCallKind(ir.CalleeName(call)); k != "" {
		op := lockOp{Kind: k, Acquire: acq, Deferred: isDefer, Mtx: Arg(call, 0), Field: -1}
		if len(cc.Args) > 0 {
			v := cc.Args[0]
			if u, ok := v.(*ssa.UnOp); ok && u.Op == token.MUL {
				v = u.X
			}
			if fa, ok := v.(*ssa.FieldAddr); ok {
				op.Owner, op.Field = fa.X, fa.Field
			}
		}
		return op, true
	}
	// wrapper method
	callee := cc.StaticCallee()
	if callee == nil || callee.Blocks == nil || len(callee.Blocks) != 1 || callee.Signature.Recv() == nil || len(callee.Params) != 1 || len(cc.Args) != 1 {
		return lockOp{}, false
	}
	var inner *ssa.Call
	for _, x := range callee.Blocks[0].Instrs {
		switch y := x.(type) {
		case *ssa.Call:
			if inner != nil {
				return lockOp{}, false
			}
			inner = y
		case *ssa.FieldAddr, *ssa.Return, *ssa.DebugRef, *ssa.UnOp:
		default:
			return lockOp{}, false
		}
	}
	if inner == nil {
		return lockOp{}, false
	}
	k, acq := mutexCallKind(ir.CalleeName(inner))
	if k == "" || len(inner.Call.Args) == 0 {
		return lockOp{}, false
	}
	v := inner.Call.Args[0]
	if u, ok := v.(*ssa.UnOp); ok && u.Op == token.MUL {
		v = u.X
	}
	fa, ok := v.(*ssa.FieldAddr)
	if !ok || fa.X != ssa.Value(callee.Params[0]) {
		return lockOp{}, false
	}
	fname := "?"
	t := callee.Params[0].Type()
	if pt, ok := t.Underlying().(*types.Pointer); ok {
		t = pt.Elem()
	}
	if st, ok := t.Underlying().(*types.Struct); ok && fa.Field < st.NumFields() {
		fname = st.Field(fa.Field).Name()
	}
	return lockOp{Kind: k, Acquire: acq, Deferred: isDefer, Mtx: "&" + ir.Render(cc.Args[0]) + "." + fname, Owner: cc.Args[0], Field: fa.Field}, true
}
