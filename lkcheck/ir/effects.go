package ir

import (
	"go/types"
	"strings"

	"golang.org/x/tools/go/ssa"
)

// Effects decides, conservatively, whether a function can modify memory that
// existed before it was called ("pure" here means: all writes go to memory the
// function allocated itself, all callees are pure, no channel or goroutine
// operations). The answer "impure" carries the first reason found.
type Effects struct {
	P *Program
	// NoEffect lists callee-name globs treated as having no effect relevant to
	// the caller's rule (logging, metrics, lock operations).
	NoEffect []string
	// PureExternal lists callee-name globs of body-less (or trusted) functions
	// that do not write caller-visible memory.
	PureExternal []string
	// WritesReceiver lists body-less callees that write only their first
	// argument (receiver); they are pure when that argument is fresh.
	WritesReceiver []string
	// FreshResult lists callees whose result is freshly allocated memory.
	FreshResult []string
	// ResultAliasesDst lists external callees of the append family: the result is (a slice of) the
	// first argument when that has room, and fresh memory when it is nil.
	ResultAliasesDst []string

	memo    map[*ssa.Function]*effRes
	methods map[string][]*ssa.Function
}

type effRes struct {
	state int // 1 in progress, 2 done
	sum   *Summary
}

// DefaultEffects returns the analysis with the tables used by the rules.
func DefaultEffects(p *Program) *Effects {
	return &Effects{
		P: p,
		NoEffect: []string{
			"log.*", "sync.Mutex.*", "sync.RWMutex.*", "sync.WaitGroup.*", "sync/atomic.Load*", "atomic.Load*",
			"metrics.*", "prometheus.*", "fmt.Print*", "time.Since", "time.Now", "runtime.KeepAlive",
		},
		PureExternal: []string{
			"bytes.Equal", "bytes.Compare", "bytes.TrimLeft", "bytes.TrimRight", "bytes.HasPrefix", "bytes.HasSuffix", "bytes.Index*", "bytes.Contains", "bytes.Trim*",
			"strings.*", "strconv.*", "math.*", "bits.*", "unicode.*", "utf8.*", "errors.New", "fmt.Sprintf", "fmt.Sprint", "fmt.Errorf", "fmt.Sprintln",
			"binary.bigEndian.Uint*", "binary.littleEndian.Uint*", "binary.bigEndian.String", "hex.EncodeToString", "hex.DecodeString",
			"big.Int.Sign", "big.Int.Cmp", "big.Int.CmpAbs", "big.Int.Bytes", "big.Int.BitLen", "big.Int.Int64", "big.Int.Uint64", "big.Int.IsInt64", "big.Int.IsUint64", "big.Int.String", "big.Int.Text", "big.Int.Bit", "big.Int.Bits", "big.Int.ProbablyPrime",
			"big.NewInt", "big.NewFloat", "reflect.TypeOf", "reflect.ValueOf", "reflect.Value.Kind", "reflect.Value.Len", "reflect.Value.Type", "reflect.Value.IsNil", "reflect.Value.Interface", "reflect.Value.Elem", "reflect.Value.Index", "reflect.Value.Field", "reflect.Value.NumField", "reflect.Value.Int", "reflect.Value.Uint", "reflect.Value.Bytes", "reflect.Value.String", "reflect.Value.Bool", "reflect.Value.IsValid", "reflect.Value.CanAddr", "reflect.Value.Addr", "reflect.Value.MapIndex", "reflect.rtype.*", "reflect.Type.*",
			"sha3.NewLegacyKeccak256", "sha3.NewKeccak256", "sha256.Sum256", "sha256.New", "ripemd160.New", "sha3.Sum256",
			"time.Time.*", "time.Duration.*", "time.Unix", "sort.SearchInts", "sort.Search", "sort.IsSorted", "sort.SliceIsSorted",
			"atomic.Value.Load", "sync/atomic.Value.Load",
		},
		WritesReceiver: []string{
			"big.Int.Set*", "big.Int.Add", "big.Int.Sub", "big.Int.Mul", "big.Int.Div", "big.Int.Mod", "big.Int.Exp", "big.Int.Neg", "big.Int.Abs", "big.Int.Lsh", "big.Int.Rsh", "big.Int.And", "big.Int.Or", "big.Int.Xor", "big.Int.Not", "big.Int.Quo", "big.Int.Rem", "big.Int.Sqrt", "big.Int.DivMod", "big.Int.QuoRem", "big.Int.ModInverse", "big.Int.GCD",
			"binary.bigEndian.PutUint*", "binary.littleEndian.PutUint*",
			"sort.Sort", "sort.Stable", "sort.Slice", "sort.SliceStable", "sort.Strings", "sort.Ints",
			"bytes.Buffer.*", "hash.Hash.Write", "hash.Hash.Sum", "hash.Hash.Reset", "io.Writer.Write", "sha3.state.*", "sha3.KeccakState.*", "crypto.KeccakState.*",
		},
		ResultAliasesDst: []string{"snappy.Decode", "snappy.Encode", "secretbox.Seal", "secretbox.Open", "strconv.Append*", "hex.AppendEncode"},
		FreshResult:      []string{"big.NewInt", "sha3.NewLegacyKeccak256", "sha3.NewKeccak256", "sha256.New", "ripemd160.New", "big.Int.Set*", "big.Int.Add", "big.Int.Sub", "big.Int.Mul", "big.Int.Div", "big.Int.Mod", "big.Int.Exp", "big.Int.Neg", "big.Int.Abs", "big.Int.Lsh", "big.Int.Rsh", "big.Int.And", "big.Int.Or", "big.Int.Xor", "big.Int.Not", "big.Int.Quo"},
		memo:             map[*ssa.Function]*effRes{},
	}
}

func matchAny(globs []string, name string) bool {
	for _, g := range globs {
		if Match(g, name) {
			return true
		}
	}
	return false
}

func (e *Effects) methodsByName() map[string][]*ssa.Function {
	if e.methods == nil {
		e.methods = map[string][]*ssa.Function{}
		for _, f := range e.P.Funcs {
			if f.Signature.Recv() != nil && f.Parent() == nil && f.Blocks != nil {
				e.methods[f.Name()] = append(e.methods[f.Name()], f)
			}
		}
	}
	return e.methods
}

// Impls lists module methods that may be the target of an interface call.
func (e *Effects) Impls(cc *ssa.CallCommon) []*ssa.Function {
	iface, ok := cc.Value.Type().Underlying().(*types.Interface)
	if !ok {
		return nil
	}
	var out []*ssa.Function
	for _, m := range e.methodsByName()[cc.Method.Name()] {
		if strings.HasSuffix(e.P.Pos(m.Pos()), "_test.go") {
			continue
		}
		rt := m.Signature.Recv().Type()
		if types.Implements(rt, iface) {
			out = append(out, m)
		}
	}
	return out
}

// Fresh reports whether v denotes memory allocated by the enclosing function
// (so that writing through it cannot be observed through pre-existing memory).
func (e *Effects) Fresh(v ssa.Value) bool { return e.fresh(v, map[ssa.Value]bool{}) }

func (e *Effects) fresh(v ssa.Value, seen map[ssa.Value]bool) bool {
	if seen[v] {
		return true // cycle through phis: decided by the other edges
	}
	seen[v] = true
	switch x := v.(type) {
	case *ssa.Alloc, *ssa.MakeMap, *ssa.MakeSlice, *ssa.MakeChan, *ssa.MakeClosure:
		return true
	case *ssa.Const:
		return true // nil
	case *ssa.FieldAddr:
		return e.fresh(x.X, seen)
	case *ssa.IndexAddr:
		return e.fresh(x.X, seen)
	case *ssa.Slice:
		return e.fresh(x.X, seen)
	case *ssa.ChangeType:
		return e.fresh(x.X, seen)
	case *ssa.Convert:
		// string->[]byte and similar conversions allocate
		if _, ok := x.Type().Underlying().(*types.Slice); ok {
			return true
		}
		return e.fresh(x.X, seen)
	case *ssa.MakeInterface:
		return e.fresh(x.X, seen)
	case *ssa.TypeAssert:
		return e.fresh(x.X, seen)
	case *ssa.Extract:
		return e.fresh(x.Tuple, seen)
	case *ssa.Phi:
		for _, ed := range x.Edges {
			if !e.fresh(ed, seen) {
				return false
			}
		}
		return true
	case *ssa.UnOp:
		if x.Op.String() == "*" {
			// a pointer loaded out of fresh memory: fresh when everything this
			// function stored under the same root is fresh
			root := rootOf(x.X)
			if root == nil || !e.fresh(root, seen) {
				return false
			}
			return e.rootHoldsOnlyFresh(x.Parent(), root, seen)
		}
		return false
	case *ssa.Call:
		n := calleeName(&x.Call)
		if b, ok := x.Call.Value.(*ssa.Builtin); ok {
			switch b.Name() {
			case "append":
				// the result may alias the first argument's backing array
				return e.fresh(x.Call.Args[0], seen)
			}
			return false
		}
		if matchAny(e.ResultAliasesDst, n) && len(x.Call.Args) > 0 {
			return e.fresh(x.Call.Args[0], seen)
		}
		if matchAny(e.FreshResult, n) {
			if len(x.Call.Args) > 0 && matchAny(e.WritesReceiver, n) {
				return e.fresh(x.Call.Args[0], seen) // x.Set(y) returns x
			}
			return true
		}
		if callee := x.Call.StaticCallee(); callee != nil && callee.Blocks != nil && x.Parent() != callee {
			return e.Summarize(callee).RetFresh
		}
		return false
	}
	return false
}

// directRootOf walks field/index/slice arithmetic only (no loads).
func directRootOf(v ssa.Value) ssa.Value {
	for i := 0; i < 32; i++ {
		switch x := v.(type) {
		case *ssa.FieldAddr:
			v = x.X
		case *ssa.IndexAddr:
			v = x.X
		case *ssa.Slice:
			v = x.X
		case *ssa.ChangeType:
			v = x.X
		default:
			return v
		}
	}
	return v
}

// RootOf is the value an address expression starts from.
func RootOf(v ssa.Value) ssa.Value { return rootOf(v) }

// rootOf walks address arithmetic down to the allocation (or other value) it starts from.
func rootOf(v ssa.Value) ssa.Value {
	for i := 0; i < 32; i++ {
		switch x := v.(type) {
		case *ssa.FieldAddr:
			v = x.X
		case *ssa.IndexAddr:
			v = x.X
		case *ssa.Slice:
			v = x.X
		case *ssa.ChangeType:
			v = x.X
		case *ssa.UnOp:
			if x.Op.String() == "*" {
				v = x.X
			} else {
				return v
			}
		default:
			return v
		}
	}
	return v
}

func (e *Effects) rootHoldsOnlyFresh(fn *ssa.Function, root ssa.Value, seen map[ssa.Value]bool) bool {
	ok := true
	Instrs(fn, func(in ssa.Instruction) {
		st, isSt := in.(*ssa.Store)
		if !isSt || !ok {
			return
		}
		// only stores INTO the root's own memory count (addr reaches the root through field/index
		// arithmetic); a store through a pointer loaded out of it writes a different object
		if directRootOf(st.Addr) != root {
			return
		}
		if !pointerLike(st.Val.Type()) {
			return
		}
		if !e.fresh(st.Val, seen) {
			ok = false
		}
	})
	return ok
}

func pointerLike(t types.Type) bool {
	switch u := t.Underlying().(type) {
	case *types.Pointer, *types.Map, *types.Slice, *types.Chan, *types.Interface, *types.Signature:
		return true
	case *types.Struct:
		for i := 0; i < u.NumFields(); i++ {
			if pointerLike(u.Field(i).Type()) {
				return true
			}
		}
	case *types.Array:
		return pointerLike(u.Elem())
	}
	return false
}

// Summary is the write effect of a function: the parameters (receiver is
// parameter 0) through which it may write, and Global != "" when it may write
// memory not reachable from a parameter and not allocated by itself.
type Summary struct {
	Params   map[int]bool
	Global   string
	RetFresh bool
}

// Pure reports whether fn (with everything it may call) writes only memory it allocated.
func (e *Effects) Pure(fn *ssa.Function) (bool, string) {
	s := e.Summarize(fn)
	if s.Global != "" {
		return false, s.Global
	}
	if len(s.Params) > 0 {
		return false, FuncName(fn) + " writes through its parameters"
	}
	return true, ""
}

// Summarize computes (and memoises) the write summary of fn.
func (e *Effects) Summarize(fn *ssa.Function) *Summary {
	if r := e.memo[fn]; r != nil {
		return r.sum // in-progress recursion sees the partial summary
	}
	r := &effRes{state: 1, sum: &Summary{Params: map[int]bool{}}}
	e.memo[fn] = r
	if fn.Blocks == nil {
		r.sum.Global = "no body: " + FuncName(fn)
		r.state = 2
		return r.sum
	}
	for pass := 0; pass < 2; pass++ { // second pass settles simple recursion
		for _, b := range fn.Blocks {
			for _, in := range b.Instrs {
				for _, w := range e.Writes(in) {
					e.account(fn, r.sum, w)
				}
			}
		}
	}
	r.sum.RetFresh = true
	nret := 0
	for _, b := range fn.Blocks {
		if ret, ok := b.Instrs[len(b.Instrs)-1].(*ssa.Return); ok {
			for _, v := range ret.Results {
				if pointerLike(v.Type()) {
					nret++
					if !e.Fresh(v) {
						r.sum.RetFresh = false
					}
				}
			}
		}
	}
	if nret == 0 {
		r.sum.RetFresh = false
	}
	r.state = 2
	return r.sum
}

// Write is one possible write of an instruction: the value (address, map,
// slice) written through, or Global != "" when the target is unknown.
type Write struct {
	Target ssa.Value
	Global string
	What   string
}

func (e *Effects) account(fn *ssa.Function, s *Summary, w Write) {
	if w.Global != "" {
		if s.Global == "" {
			s.Global = FuncName(fn) + ": " + w.Global
		}
		return
	}
	if e.Fresh(w.Target) {
		return
	}
	root := rootOf(w.Target)
	if pa, ok := root.(*ssa.Parameter); ok {
		for i, q := range fn.Params {
			if q == pa {
				s.Params[i] = true
				return
			}
		}
	}
	if s.Global == "" {
		s.Global = FuncName(fn) + ": " + w.What + " " + Render(w.Target)
	}
}

// InstrEffect returns "" when the instruction cannot write memory that
// existed before the enclosing function was entered, else a description.
func (e *Effects) InstrEffect(in ssa.Instruction) string {
	for _, w := range e.Writes(in) {
		if w.Global != "" {
			return w.Global
		}
		if !e.Fresh(w.Target) {
			return w.What + " " + Render(w.Target)
		}
	}
	return ""
}

// Writes lists what an instruction may write.
func (e *Effects) Writes(in ssa.Instruction) []Write {
	switch x := in.(type) {
	case *ssa.Store:
		return []Write{{Target: x.Addr, What: "store to"}}
	case *ssa.MapUpdate:
		return []Write{{Target: x.Map, What: "map update of"}}
	case *ssa.Send:
		return []Write{{Global: "channel send"}}
	case *ssa.Go:
		return []Write{{Global: "go statement"}}
	case *ssa.Select:
		return []Write{{Global: "select"}}
	case *ssa.Defer:
		return e.callWrites(&x.Call)
	case *ssa.Call:
		return e.callWrites(&x.Call)
	}
	return nil
}

func (e *Effects) callWrites(cc *ssa.CallCommon) []Write {
	if b, ok := cc.Value.(*ssa.Builtin); ok {
		switch b.Name() {
		case "copy":
			return []Write{{Target: cc.Args[0], What: "copy into"}}
		case "delete":
			return []Write{{Target: cc.Args[0], What: "delete from"}}
		case "close":
			return []Write{{Global: "close"}}
		}
		return nil
	}
	n := calleeName(cc)
	if matchAny(e.NoEffect, n) || matchAny(e.PureExternal, n) {
		return nil
	}
	arg := func(i int) ssa.Value {
		if cc.IsInvoke() {
			if i == 0 {
				return cc.Value
			}
			i--
		}
		if i < len(cc.Args) {
			return cc.Args[i]
		}
		return nil
	}
	if matchAny(e.WritesReceiver, n) {
		if a := arg(0); a != nil {
			return []Write{{Target: a, What: "call " + n + " on"}}
		}
		return []Write{{Global: "call " + n}}
	}
	var callees []*ssa.Function
	if cc.IsInvoke() {
		callees = e.Impls(cc)
		if len(callees) == 0 {
			return []Write{{Global: "interface call " + n + " with no module implementation"}}
		}
	} else if callee := cc.StaticCallee(); callee != nil {
		if callee.Blocks == nil {
			return []Write{{Global: "call to body-less " + n}}
		}
		callees = []*ssa.Function{callee}
	} else {
		return []Write{{Global: "dynamic call " + n}}
	}
	var out []Write
	for _, c := range callees {
		s := e.Summarize(c)
		if s.Global != "" {
			return []Write{{Global: "call " + n + " -> " + s.Global}}
		}
		for i := range s.Params {
			a := arg(i)
			if c.Signature.Recv() == nil && len(c.FreeVars) > 0 {
				a = arg(i) // closures: parameters only; free variables are never fresh
			}
			if a == nil {
				return []Write{{Global: "call " + n + " writes an argument that cannot be identified"}}
			}
			out = append(out, Write{Target: a, What: "call " + n + " writes through"})
		}
	}
	return out
}
