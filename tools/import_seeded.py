#!/usr/bin/env python3
# import_seeded.py <prop> <k> <confirmed-note> [caught_by keys...]   (no keys = not caught)
import sys, os, json, shutil, glob
prop, k, note = sys.argv[1], sys.argv[2], sys.argv[3]
keys = sys.argv[4:]
src = os.environ.get('SEEDROOT','/tmp/wt') + f'/{prop}.out'
dst = f'/verif/seeded/{prop}-{int(k)+int(os.environ.get("OFFSET","0"))}'
os.makedirs(dst, exist_ok=True)
shutil.copy(f'{src}/patch{k}.diff', f'{dst}/patch.diff')
for f in glob.glob(f'{src}/demo{k}*'):
    base = os.path.basename(f).replace(f'demo{k}', 'demo', 1)
    if os.path.isdir(f):
        shutil.copytree(f, f'{dst}/{base}', dirs_exist_ok=True)
    elif os.path.getsize(f) < 200000:
        shutil.copy(f, f'{dst}/{base}')
for extra in ('shim.sh', 'run_existing_in_shim.sh'):
    if os.path.exists(f'{src}/{extra}') and not os.path.exists(f'/verif/seeded/{prop}-support-{extra}'):
        shutil.copy(f'{src}/{extra}', f'/verif/seeded/{prop}-support-{extra}')
try:
    meta = json.load(open(f'{src}/meta{k}.json'))
except Exception as e:
    meta = {'property': prop, 'summary': 'meta file unreadable: %s' % e}
meta['seeded_by'] = 'independent sub-agent given only the property text and a scratch worktree'
meta['confirmed'] = note
meta['caught'] = bool(keys)
meta['caught_by'] = keys
json.dump(meta, open(f'{dst}/meta.json', 'w'), indent=1)
print(dst, 'caught' if keys else 'NOT caught')
