package props

import (
	"fmt"
	"go/types"
	"regexp"
	"strconv"
	"strings"

	"golang.org/x/tools/go/ssa"

	"lkcheck/ir"
	"lkcheck/report"
)

func init() { Registry["C18"] = C18 }

// C18 peer connections: authentication and frame bounds only.
func C18(p *ir.Program, r *report.R) {
	c := C{p, r}
	r.Floor = 30
	r.Explain = "Decided (authentication + bounds only): MakeSecretConnection returns a connection only after the remote key is non-nil and its signature over the challenge verified, where (provenance) the challenge is genChallenge of the sorted pair of THIS handshake's ephemeral keys, the key and signature are the fields of the message shareAuthSignature returned, the local side signs that same challenge, and sc.remPubKey has no other writer; in SecretConnection.Read the frame buffer allocation and the chunk slice are dominated by their bounds, the header version/type test precedes any use, nonces advance exactly after a successful Open / every Seal; Write and Read agree on the frame header (leading byte, 4-byte big-endian length at the same offset); Channel.recvPacketMsg appends only within the channel capacity and returns a message only on EOF, resetting the buffer; the connection decodes packets with a non-zero size limit. ADDED after seeded-change testing: sc.recvBuffer only holds memory allocated for the frame (freshness through snappy.Decode(nil,..)/make; pooled buffers rejected); c.bufConnWriter / c.bufConnReader are used only by methods that run on the send / receive goroutine (greatest fixed point over plain calls; each routine started exactly once in OnStart) ; Channel.nextPacketMsg sets EOF exactly under len(rest) <= max (clearing the buffer) and sends a non-final packet only under len(rest) > max; SecretConnection.Read reads frame header and body with io.ReadFull only. Rounds 4-5: a fresh ephemeral key pair on every handshake; the receive limit keeps its slack for two-byte channel ids. Round 7: sender and receiver cut packets by the same configured size. NOT decided: byte-stream identity and per-channel ordering over all chunkings and interleavings (value/schedule properties), flow control. Observation outside the statement: SecretConnection.RemotePubKey() has no caller — the authenticated key is not compared with the node id the switch uses."
	r.Trusted = []string{"crypto.PubKey.VerifyBytes, nacl/secretbox, curve25519", "golang/snappy"}

	// ---- handshake ---------------------------------------------------------------
	{
		fn := p.Func("libs/p2p/conn", "MakeSecretConnection")
		name := "conn.MakeSecretConnection"
		eph := "conn.shareEphPubKey(conn,conn.genEphKeys()#0)#0"
		srt := "conn.sort32(conn.genEphKeys()#0," + eph + ")"
		chal := "conn.genChallenge(" + srt + "#0," + srt + "#1)"
		n := 0
		for _, rt := range ir.Returns(fn) {
			if ir.AbstractResult(rt.Results[1]) != "nil" {
				continue
			}
			n++
			fs := ir.FactsAt(rt.Instr)
			var verify string
			for _, a := range ir.FactStrings(fs) {
				if strings.HasPrefix(a, "crypto.PubKey.VerifyBytes(") {
					verify = a
				}
			}
			r.Check("K1", name+"/success/challenge-verified", p.InstrPos(rt.Instr), verify != "", "success is dominated by remPubKey.VerifyBytes(challenge, remSignature)")
			r.Check("K1", name+"/success/verifies-this-challenge", p.InstrPos(rt.Instr), strings.Contains(verify, "*"+chal+"[:]") || strings.Contains(verify, chal),
				"the verified message is genChallenge(sort32(locEphPub, remEphPub)) of this handshake: "+short(verify, 400))
			r.Check("K1", name+"/success/key-and-signature-from-peer-message", p.InstrPos(rt.Instr),
				strings.HasPrefix(verify, "crypto.PubKey.VerifyBytes(conn.shareAuthSignature(") && strings.Contains(verify, "#0.Key,") && strings.HasSuffix(verify, "#0.Sig)"),
				"key and signature are the Key and Sig fields of the message shareAuthSignature returned")
			c.Guards(name, "success", rt.Instr,
				G{"key-non-nil", "!eq(conn.shareAuthSignature(*)#0.Key,nil)"},
				G{"auth-exchange-ok", "eq(conn.shareAuthSignature(*)#1,nil)"},
				G{"eph-exchange-ok", "eq(conn.shareEphPubKey(*)#1,nil)"})
		}
		c.MustFind("K1", name+"/success", fn, n, "nil-error return")
		for _, s := range c.WhoMayWrite("libs/p2p/conn", "SecretConnection.remPubKey", "libs/p2p/conn.MakeSecretConnection") {
			if s.Kind == "complit" {
				continue
			}
			c.GuardsS(name, "store remPubKey", s, G{"verified", "crypto.PubKey.VerifyBytes(*)"})
		}
		for _, call := range ir.Calls(fn, "conn.signChallenge") {
			r.Check("K5", name+"/signs-same-challenge", p.InstrPos(call), Arg(call, 0) == chal && Arg(call, 1) == "locPrivKey", "the local side signs the same challenge with its own key: "+short(Arg(call, 0), 200))
		}
		for _, call := range ir.Calls(fn, "conn.shareAuthSignature") {
			r.Check("K5", name+"/sends-own-key-and-signature", p.InstrPos(call), Arg(call, 1) == "crypto.PrivKey.PubKey(locPrivKey)" && strings.HasPrefix(Arg(call, 2), "conn.signChallenge("), "sends PubKey(locPrivKey) and the challenge signature")
		}
		sg := p.Func("libs/p2p/conn", "signChallenge")
		okS := false
		for _, call := range ir.Calls(sg, "crypto.PrivKey.Sign") {
			if Arg(call, 0) == "locPrivKey" && (Arg(call, 1) == "*challenge[:]" || Arg(call, 1) == "challenge[:]") {
				okS = true
			}
		}
		r.Check("K5", "conn.signChallenge/signs-challenge", p.Pos(sg.Pos()), okS, "signs challenge[:] with locPrivKey")
		gc := p.Func("libs/p2p/conn", "genChallenge")
		okG := false
		for _, rt := range ir.Returns(gc) {
			s := ir.Render(rt.Results[0])
			if strings.HasPrefix(s, "conn.hash32(") && strings.Contains(s, "loPubKey") && strings.Contains(s, "hiPubKey") {
				okG = true
			}
		}
		r.Check("K4", "conn.genChallenge/covers-both-keys", p.Pos(gc.Pos()), okG, "the challenge hashes both ephemeral keys")
	}
	// ---- frame bounds ----------------------------------------------------------------
	{
		fn := p.Func("libs/p2p/conn", "SecretConnection.Read")
		name := "conn.(*SecretConnection).Read"
		cap := c.ConstInt("libs/p2p/conn", "frameCapacity") - c.ConstInt("libs/p2p/conn", "headerSize")
		dmax := c.ConstInt("libs/p2p/conn", "dataMaxSize")
		nA := 0
		ir.Instrs(fn, func(in ssa.Instruction) {
			if ms, ok := in.(*ssa.MakeSlice); ok {
				if _, isConst := ms.Len.(*ssa.Const); !isConst {
					nA++
					c.Guards(name, "alloc frame", in, G{"bounded", fmt.Sprintf("le(%s,%d)", ir.Render(ms.Len), cap)})
				}
			}
			if sl, ok := in.(*ssa.Slice); ok && sl.High != nil && strings.Contains(ir.Render(sl.High), "chunkLength") {
				c.Guards(name, "slice chunk", in, G{"bounded", fmt.Sprintf("le(%s,%d)", ir.Render(sl.High), dmax)})
			}
		})
		c.MustFind("K1", name+"/alloc frame", fn, nA, "stream-sized allocation")
		// header test dominates the length decode
		for _, call := range ir.Calls(fn, "binary.bigEndian.Uint32") {
			if strings.Contains(Arg(call, 1), "[1:]") {
				c.Guards(name, "decode length", call, G{"version", ir.EqPat("(*[0] & 240)", "240")}, G{"header-read", "eq(io.ReadFull(sc.conn,*)#1,nil)"})
			}
		}
		// nonce discipline
		for _, fnn := range []string{"SecretConnection.Read", "SecretConnection.rawRead"} {
			f := p.Func("libs/p2p/conn", fnn)
			for _, inc := range ir.Calls(f, "conn.incr2Nonce") {
				r.Check("K2", "conn.(*"+strings.Replace(fnn, ".", ").", 1)+"/recv-nonce-after-open", p.InstrPos(inc), Arg(inc, 0) == "sc.recvNonce" && ir.HasFact(ir.FactsAt(inc), "secretbox.Open(*)#1"), "the receive nonce advances exactly after a successful Open")
			}
			for _, op := range ir.Calls(f, "secretbox.Open") {
				found, _, tr := ir.FindPath(ir.PathQuery{From: ir.At(op), Target: ir.IsReturn, Avoid: ir.CallMatcher("conn.incr2Nonce"), AvoidEdge: func(atoms []string) bool {
					for _, a := range atoms {
						if strings.HasPrefix(a, "!secretbox.Open(") {
							return true
						}
					}
					return false
				}})
				r.Check("K2", "conn.(*"+strings.Replace(fnn, ".", ").", 1)+"/open-then-advance", p.InstrPos(op), !found, fmt.Sprintf("every successful Open is followed by incr2Nonce before returning; offending %v", tr))
			}
		}
		w := p.Func("libs/p2p/conn", "SecretConnection.Write")
		for _, seal := range ir.Calls(w, "secretbox.Seal") {
			found, _, tr := ir.FindPath(ir.PathQuery{From: ir.At(seal), Target: ir.CallMatcher("io.ReadWriteCloser.Write"), Avoid: ir.CallMatcher("conn.incr2Nonce")})
			r.Check("K2", "conn.(*SecretConnection).Write/seal-then-advance", p.InstrPos(seal), !found, fmt.Sprintf("the send nonce advances after every Seal before the frame is sent; offending %v", tr))
			r.Check("K2", "conn.(*SecretConnection).Write/seal-nonce", p.InstrPos(seal), Arg(seal, 2) == "sc.sendNonce" && Arg(seal, 3) == "sc.shrSecret", "seals with the send nonce and the shared secret")
		}
		// writer/reader header agreement
		okLead, okLenW := false, false
		ir.Instrs(w, func(in ssa.Instruction) {
			if st, ok := in.(*ssa.Store); ok && strings.HasSuffix(ir.Render(st.Addr), "[0]") && ir.Render(st.Val) == "(conn.leadingVersion | conn.leadingType)" {
				okLead = true
			}
			if call, ok := in.(*ssa.Call); ok && ir.CalleeName(call) == "binary.bigEndian.PutUint32" && strings.HasSuffix(Arg(call, 1), "[1:]") {
				okLenW = true
			}
		})
		r.Check("K5", "conn.(*SecretConnection).Write/header-byte", p.Pos(w.Pos()), okLead, "frame[0] = leadingVersion | leadingType")
		r.Check("K5", "conn.(*SecretConnection).Write/length-at-1", p.Pos(w.Pos()), okLenW, "big-endian payload length at frame[1:]")
		okLenR := false
		for _, call := range ir.Calls(fn, "binary.bigEndian.Uint32") {
			if strings.HasSuffix(Arg(call, 1), "[1:]") {
				okLenR = true
			}
		}
		r.Check("K5", name+"/length-at-1", p.Pos(fn.Pos()), okLenR, "reader takes the big-endian length from header[1:]")
		for _, call := range ir.Calls(w, "io.ReadWriteCloser.Write") {
			c.Guards("conn.(*SecretConnection).Write", "send frame", call, G{"fits-frame-capacity", fmt.Sprintf("le(len(*),%d)", c.ConstInt("libs/p2p/conn", "frameCapacity"))})
		}
	}
	// ---- channel reassembly --------------------------------------------------------------
	{
		fn := p.Func("libs/p2p/conn", "Channel.recvPacketMsg")
		name := "conn.(*Channel).recvPacketMsg"
		n := 0
		for _, s := range p.Stores(p.Field("libs/p2p/conn", "Channel.recving")) {
			if s.Fn != fn {
				continue
			}
			v := ir.Render(s.Val)
			if strings.HasPrefix(v, "append(") {
				n++
				c.GuardsS(name, "append", s, G{"within-capacity", "le((len(ch.recving) + len(packet.Bytes)),ch.desc.RecvMessageCapacity)"})
				r.Check("K1", name+"/append/bytes", p.InstrPos(s.Instr), v == "append(ch.recving,packet.Bytes)", "appends exactly the packet bytes: "+v)
			}
		}
		c.MustFind("K1", name+"/append", fn, n, "append to ch.recving")
		for _, rt := range ir.Returns(fn) {
			if ir.Render(rt.Results[0]) == "nil" {
				continue
			}
			c.Guards(name, "return message", rt.Instr, G{"eof", "eq(packet.EOF,1)"})
			okReset := false
			for _, s := range p.Stores(p.Field("libs/p2p/conn", "Channel.recving")) {
				if s.Fn == fn && ir.Render(s.Val) == "ch.recving[:0]" && ir.Precedes(s.Instr, rt.Instr) {
					okReset = true
				}
			}
			r.Check("K2", name+"/return message/reset", p.InstrPos(rt.Instr), okReset, "the reassembly buffer is reset when a message is delivered")
		}
		rr := p.Func("libs/p2p/conn", "MConnection.recvRoutine")
		okLim := false
		ir.InstrsDeep(rr, func(_ *ssa.Function, in ssa.Instruction) {
			if call, ok := in.(ssa.CallInstruction); ok && ir.CalleeName(call) == "ser.DecodeReaderWithType" && Arg(call, 2) == "c._maxPacketMsgSize" {
				okLim = true
			}
		})
		r.Check("K1", "conn.(*MConnection).recvRoutine/packet-size-limit", p.Pos(rr.Pos()), okLim, "packets are decoded with the connection's maximum packet size")
	}
	var _ ssa.Value

	// ---- message framing: the last packet of a message carries EOF -----------------------------------
	// nextPacketMsg cuts ch.sending into packets of at most maxSize bytes; the packet is the last one
	// exactly when what remains fits (len <= maxSize), and then the send buffer is cleared. Otherwise the
	// buffer keeps the strictly non-empty rest. With `<` a message of exactly k*maxSize bytes never gets
	// its EOF and is glued to the next message.
	{
		fn := p.Func("libs/p2p/conn", "Channel.nextPacketMsg")
		name := "conn.(*Channel).nextPacketMsg"
		n1, n0 := 0, 0
		for _, st := range p.Stores(p.Field("libs/p2p/conn", "PacketMsg.EOF")) {
			if st.Fn != fn {
				continue
			}
			fs := ir.FactsAt(st.Instr)
			switch ir.Render(st.Val) {
			case "1":
				n1++
				r.Check("K11", name+"/EOF=1/rest-fits", p.InstrPos(st.Instr), ir.HasFact(fs, "le(len(ch.sending),ch.maxPacketMsgPayloadSize)"), "EOF is set exactly when the rest fits one packet (len <= max)")
				cleared := false
				for _, s2 := range p.Stores(p.Field("libs/p2p/conn", "Channel.sending")) {
					if s2.Fn == fn && s2.Instr.Block() == st.Instr.Block() && ir.Render(s2.Val) == "nil" {
						cleared = true
					}
				}
				r.Check("K2", name+"/EOF=1/clears-buffer", p.InstrPos(st.Instr), cleared, "the send buffer is cleared with the last packet")
			case "0":
				n0++
				r.Check("K11", name+"/EOF=0/rest-remains", p.InstrPos(st.Instr), ir.HasFact(fs, "lt(ch.maxPacketMsgPayloadSize,len(ch.sending))"), "a non-final packet is sent only when strictly more than max remains")
			}
		}
		r.Check("K11", name+"/EOF/both-branches", p.Pos(fn.Pos()), n1 == 1 && n0 == 1, fmt.Sprintf("one EOF=1 and one EOF=0 assignment (%d, %d)", n1, n0))
	}

	// ---- the secret connection reads whole frames ---------------------------------------------------
	// Header and body of a frame are read with io.ReadFull: a transport may return a frame in several
	// reads (TCP segments); decoding a partially filled buffer corrupts and desynchronises the stream.
	{
		fn := p.Func("libs/p2p/conn", "SecretConnection.Read")
		name := "conn.(*SecretConnection).Read"
		var partial []string
		nFull := 0
		ir.Instrs(fn, func(in ssa.Instruction) {
			call, ok := in.(*ssa.Call)
			if !ok {
				return
			}
			n := ir.CalleeName(call)
			switch {
			case n == "io.ReadFull" && strings.HasPrefix(Arg(call, 0), "sc.conn"):
				nFull++
			case (n == "io.Reader.Read" || n == "io.ReadWriteCloser.Read" || strings.HasSuffix(n, ".Read")) && strings.HasPrefix(Arg(call, 0), "sc.conn"):
				partial = append(partial, p.InstrPos(in))
			}
		})
		r.Check("K2", name+"/whole-frame-reads", p.Pos(fn.Pos()), len(partial) == 0 && nFull >= 2, fmt.Sprintf("frame header and body are read with io.ReadFull (%d); plain Read on the transport: %v", nFull, partial))
	}

	// ---- the challenge hash is the hash of the whole input ---------------------------------------------
	// hash.Hash.Sum(b) APPENDS the digest of what was written to b: handing it the data instead of writing
	// the data first returns data||sha256("") and the "hash" is the first 32 input bytes (the low
	// ephemeral key alone). In this package every Sum gets nil, and hash32 writes its whole input first.
	{
		n := 0
		for _, f := range p.Funcs {
			if f.Pkg == nil || ir.RelPkg(f.Pkg.Pkg) != "libs/p2p/conn" || f.Blocks == nil || strings.HasSuffix(p.Pos(f.Pos()), "_test.go") {
				continue
			}
			for _, call := range ir.Calls(f, "hash.Hash.Sum") {
				n++
				written := false
				for _, w := range ir.Calls(f, "hash.Hash.Write") {
					if Arg(w, 0) == Arg(call, 0) && ir.Precedes(w.(ssa.Instruction), call.(ssa.Instruction)) {
						written = true
					}
				}
				r.Check("K11", "conn/"+f.Name()+"/digest-of-written-data", p.InstrPos(call.(ssa.Instruction)), Arg(call, 1) == "nil" && written, "Sum(nil) after Write(data) on the same hasher: Sum("+short(Arg(call, 1), 40)+")")
			}
		}
		h := p.Func("libs/p2p/conn", "hash32")
		okIn := false
		for _, w := range ir.Calls(h, "hash.Hash.Write") {
			if Arg(w, 1) == "input" {
				okIn = true
			}
		}
		r.Check("K11", "conn/hash32/hashes-its-input", p.Pos(h.Pos()), okIn && n >= 1, "hash32 writes its whole input into the hasher")
	}

	// ---- fresh ephemeral keys for every handshake ----------------------------------------------------------------
	// The challenge that the remote signs is built from both ephemeral keys; a verifier that reuses its
	// ephemeral key accepts a recorded handshake again. genEphKeys draws a new pair from crypto/rand on
	// every call: directly in its body, on every path, not inside a once-only closure.
	{
		ge := p.Func("libs/p2p/conn", "genEphKeys")
		direct := ir.Calls(ge, "box.GenerateKey")
		okD := len(direct) >= 1
		for _, d := range direct {
			if d.Parent() != ge {
				okD = false
			}
			if !strings.Contains(Arg(d, 0), "rand.Reader") {
				okD = false
			}
		}
		found := true
		if okD {
			found, _, _ = ir.FindPath(ir.PathQuery{From: ir.Entry(ge), Target: ir.IsReturn, Avoid: ir.CallMatcher("box.GenerateKey")})
		}
		r.Check("K2", "conn.genEphKeys/fresh-pair-on-every-call", p.Pos(ge.Pos()), okD && !found && len(ir.Calls(ge, "sync.Once.Do")) == 0, "box.GenerateKey(crypto/rand.Reader) runs on every path through genEphKeys")
		// and the results are what is returned
		for _, rt := range ir.Returns(ge) {
			r.Check("K2", "conn.genEphKeys/returns-the-new-pair", p.InstrPos(rt.Instr), strings.HasPrefix(ir.Render(rt.Results[0]), "box.GenerateKey(") && strings.HasPrefix(ir.Render(rt.Results[1]), "box.GenerateKey("), "the returned keys are the generated ones: "+short(ir.Render(rt.Results[0]), 60))
		}
	}

	// ---- the receive limit leaves room for any channel id ---------------------------------------------------------
	// maxPacketMsgSize is computed from a sample packet on channel 0x01; ids >= 0x80 encode in one byte
	// more. The slack added to the sample's size covers that (and encoding changes): a full packet on any
	// channel must fit the receiver's limit.
	{
		mp := p.Func("libs/p2p/conn", "MConnection.maxPacketMsgSize")
		for _, rt := range ir.Returns(mp) {
			v := ir.Render(rt.Results[0])
			m := regexp.MustCompile(`^\(len\(ser\.MustEncodeToBytesWithType\(.*\)\) \+ (\d+)\)$`).FindStringSubmatch(v)
			slack := 0
			if m != nil {
				slack, _ = strconv.Atoi(m[1])
			}
			r.Check("K11", "conn.(*MConnection).maxPacketMsgSize/slack", p.InstrPos(rt.Instr), slack >= 2, fmt.Sprintf("limit = size of a sample full packet + slack >= 2 bytes (found %d): %s", slack, short(v, 100)))
		}
	}

	// ---- every channel reassembles in its own buffer ---------------------------------------------------------
	// Packets of different channels interleave; a multi-packet message is collected in ch.recving until
	// its EOF packet. Two channels sharing one backing array overwrite each other's partial messages.
	{
		eff := ir.DefaultEffects(p)
		n := 0
		for _, s := range p.Stores(p.Field("libs/p2p/conn", "Channel.recving")) {
			if strings.HasSuffix(p.Pos(s.Fn.Pos()), "_test.go") || s.Val == nil {
				continue
			}
			n++
			v := ir.Render(s.Val)
			own := eff.Fresh(s.Val) || v == "ch.recving[:0]" || strings.HasPrefix(v, "append(ch.recving,") || v == "nil"
			r.Check("K4", "conn.Channel.recving/own-buffer/"+ir.FuncName(ir.EnclosingTop(s.Fn)), p.InstrPos(s.Instr), own, "ch.recving is a buffer allocated for this channel (or its own reslice/extension): "+short(v, 100))
		}
		r.Check("K4", "conn.Channel.recving/stores", "-", n >= 3, fmt.Sprintf("%d stores to Channel.recving (confirmed by hand: newChannel, append, reset)", n))
	}

	// ---- packets are decoded straight from the connection's buffered reader ------------------------------------
	// ser.NewStream wraps a reader that is not an io.ByteReader in a NEW bufio.Reader on every call; its
	// read-ahead beyond the current packet is thrown away with it. The reader handed to the packet decoder
	// is the long-lived *bufio.Reader itself (static type with a ReadByte method), not a per-packet wrapper.
	{
		rr := p.Func("libs/p2p/conn", "MConnection.recvRoutine")
		n := 0
		ir.InstrsDeep(rr, func(_ *ssa.Function, in ssa.Instruction) {
			call, ok := in.(ssa.CallInstruction)
			if !ok || !strings.HasPrefix(ir.CalleeName(call), "ser.DecodeReader") {
				return
			}
			n++
			arg := operandArgs(call)[0]
			if mi, ok := arg.(*ssa.MakeInterface); ok {
				arg = mi.X
			}
			hasReadByte := false
			ms := p.SSA.MethodSets.MethodSet(arg.Type())
			for i := 0; i < ms.Len(); i++ {
				if ms.At(i).Obj().Name() == "ReadByte" {
					hasReadByte = true
				}
			}
			r.Check("K5", "conn.(*MConnection).recvRoutine/decodes-from-the-buffered-reader", p.InstrPos(in), hasReadByte && Arg(call, 0) == "c.bufConnReader",
				"the packet decoder reads from c.bufConnReader (an io.ByteReader: no per-call read-ahead buffer): "+short(Arg(call, 0), 80)+" of type "+arg.Type().String())
		})
		c.MustFind("K5", "conn.(*MConnection).recvRoutine/decode", rr, n, "ser.DecodeReader* call")
	}

	// ---- the unread remainder of a frame is the connection's own memory -------------------------------
	// Read keeps what the caller's buffer could not take in sc.recvBuffer until the next Read: it must
	// be memory nobody else writes in between (a fresh decode buffer, never a pooled or shared one).
	{
		eff := ir.DefaultEffects(p)
		fv := p.Field("libs/p2p/conn", "SecretConnection.recvBuffer")
		n := 0
		for _, s := range p.Stores(fv) {
			if strings.HasSuffix(p.Pos(s.Fn.Pos()), "_test.go") {
				continue
			}
			n++
			v := ir.Render(s.Val)
			own := eff.Fresh(s.Val) || ir.Match("sc.recvBuffer[*:]", v) || v == "nil"
			r.Check("K4", "conn.(*SecretConnection)."+s.Fn.Name()+"/recv-buffer-owned", p.InstrPos(s.Instr), own, "sc.recvBuffer holds memory allocated for this frame: "+short(v, 160))
		}
		r.Check("K4", "conn.SecretConnection.recvBuffer/stores", "-", n >= 3, fmt.Sprintf("%d stores to recvBuffer analysed (confirmed by hand: Read x2, rawRead, constructor)", n))
	}

	// ---- one goroutine per direction owns the buffered transport -------------------------------------
	// ---- one byte stream: everything is written through the buffered writer ---------------------------------------
	// Packets are encoded into c.bufConnWriter; what is in the buffer may be the tail of a packet whose head
	// is already on the wire. A write that goes to c.conn directly (a pong "answered right away") lands in
	// the middle of that packet. The raw connection is handed to bufio at construction and otherwise only
	// closed, asked for addresses, or given deadlines.
	{
		cf := p.Field("libs/p2p/conn", "MConnection.conn")
		n := 0
		var bad []string
		for _, f := range p.Funcs {
			if f.Pkg == nil || ir.RelPkg(f.Pkg.Pkg) != "libs/p2p/conn" || f.Blocks == nil || strings.HasSuffix(p.Pos(f.Pos()), "_test.go") {
				continue
			}
			ir.Instrs(f, func(in ssa.Instruction) {
				fa, ok := in.(*ssa.FieldAddr)
				if !ok || ir.FieldVar(fa.X, fa.Field) != cf || fa.Referrers() == nil {
					return
				}
				for _, ld := range *fa.Referrers() {
					u, isLoad := ld.(*ssa.UnOp)
					if !isLoad || u.Referrers() == nil {
						continue // the store in the constructor
					}
					for _, use := range *u.Referrers() {
						n++
						okU := false
						switch x := use.(type) {
						case ssa.CallInstruction:
							cn := ir.CalleeName(x)
							// as receiver of a net.Conn method that does not move data
							if x.Common().IsInvoke() && x.Common().Value == ssa.Value(u) {
								switch x.Common().Method.Name() {
								case "Close", "RemoteAddr", "LocalAddr", "SetDeadline", "SetReadDeadline", "SetWriteDeadline":
									okU = true
								}
							}
							_ = cn
						case *ssa.MakeInterface, *ssa.ChangeInterface:
							// converted to io.Writer / io.Reader: only for the bufio constructors
							okU = true
							if v, isV := use.(ssa.Value); isV && v.Referrers() != nil {
								for _, uu := range *v.Referrers() {
									if c2, isC := uu.(ssa.CallInstruction); !isC || !strings.HasPrefix(ir.CalleeName(c2), "bufio.New") {
										okU = false
									}
								}
							}
						}
						if !okU {
							bad = append(bad, p.InstrPos(use)+": "+short(ir.RenderInstr(use), 80))
						}
					}
				}
			})
		}
		r.Check("K3", "conn.MConnection.conn/data-moves-only-through-the-buffered-ends", "-", len(bad) == 0 && n >= 2, fmt.Sprintf("%d uses of c.conn: closed / asked for an address / handed to bufio, never read or written directly: %v", n, bad))
	}

	// ---- sender and receiver cut packets by the same configured size -------------------------------------------------
	// The receiver's per-packet limit (maxPacketMsgSize) is computed from config.MaxPacketMsgPayloadSize; the
	// sender cuts messages by channel.maxPacketMsgPayloadSize. Both come from the connection's configuration.
	{
		nc := p.Func("libs/p2p/conn", "newChannel")
		okS := false
		for _, st := range p.Stores(p.Field("libs/p2p/conn", "Channel.maxPacketMsgPayloadSize")) {
			if ir.EnclosingTop(st.Fn) == nc {
				okS = ir.Render(st.Val) == "conn.config.MaxPacketMsgPayloadSize"
				r.Check("K5", "conn.newChannel/packet-size-from-the-connection-config", p.InstrPos(st.Instr), okS, "channel.maxPacketMsgPayloadSize = conn.config.MaxPacketMsgPayloadSize (what maxPacketMsgSize uses): "+ir.Render(st.Val))
			}
		}
		mp := p.Func("libs/p2p/conn", "MConnection.maxPacketMsgSize")
		uses := false
		ir.Instrs(mp, func(in ssa.Instruction) {
			if strings.Contains(ir.RenderInstr(in), "c.config.MaxPacketMsgPayloadSize") {
				uses = true
			}
		})
		r.Check("K5", "conn/packet-size/writer~reader", p.Pos(nc.Pos()), okS && uses, "sender and receiver sizes both derive from config.MaxPacketMsgPayloadSize")
	}

	// ---- channel defaults are the package defaults ----------------------------------------------------------------
	// FillDefaults replaces a zero capacity by the package constant of that capacity. A default taken from
	// another field (the 128 KiB receive buffer as the message capacity) makes every reactor that relies on
	// the default drop peers on messages its own protocol allows.
	{
		fd := p.Func("libs/p2p/conn", "ChannelDescriptor.FillDefaults")
		n := 0
		ir.Instrs(fd, func(in ssa.Instruction) {
			st, ok := in.(*ssa.Store)
			if !ok {
				return
			}
			fa, isF := st.Addr.(*ssa.FieldAddr)
			if !isF {
				return
			}
			n++
			_, isConst := st.Val.(*ssa.Const)
			fld := ""
			if fv := ir.FieldVar(fa.X, fa.Field); fv != nil {
				fld = fv.Name()
			}
			r.Check("K11", "conn.ChannelDescriptor.FillDefaults/default-is-a-constant:"+fld, p.InstrPos(in), isConst && ir.HasFact(ir.FactsAt(in), "eq(chDesc."+fld+",0)"), "a zero "+fld+" is replaced by a package constant: "+ir.Render(st.Val))
		})
		r.Check("K11", "conn.ChannelDescriptor.FillDefaults/sites", p.Pos(fd.Pos()), n >= 3, fmt.Sprintf("%d defaults", n))
	}

	// bufio.Writer/Reader are not safe for concurrent use: c.bufConnWriter is touched only by code that
	// runs on the send goroutine, c.bufConnReader only by the receive goroutine. "Runs on goroutine G"
	// is the greatest set of methods that are G's body or are only ever called (plainly, never as
	// values, never with `go`) from such methods; each body is started exactly once, in OnStart.
	for _, side := range []struct{ field, routine string }{{"bufConnWriter", "sendRoutine"}, {"bufConnReader", "recvRoutine"}} {
		root := p.Func("libs/p2p/conn", "MConnection."+side.routine)
		inPkg := func(f *ssa.Function) bool {
			return f != nil && f.Pkg != nil && ir.RelPkg(f.Pkg.Pkg) == "libs/p2p/conn" && !strings.HasSuffix(p.Pos(f.Pos()), "_test.go")
		}
		on := map[*ssa.Function]bool{}
		for _, f := range p.Funcs {
			if inPkg(f) && f.Parent() == nil && f.Object() != nil && f.Synthetic == "" {
				on[f] = true
			}
		}
		// functions used as values / go / defer targets are not provably on the goroutine (except the root's go statement)
		starts := 0
		for _, f := range p.Funcs {
			if !inPkg(f) {
				continue
			}
			for _, b := range f.Blocks {
				for _, in := range b.Instrs {
					if g, ok := in.(*ssa.Go); ok && g.Call.StaticCallee() == root {
						starts++
						r.Check("K3", "conn.(*MConnection)."+side.routine+"/started-in-OnStart", p.InstrPos(in), ir.FuncName(ir.EnclosingTop(f)) == "libs/p2p/conn.(*MConnection).OnStart", "the routine is started by OnStart")
						continue
					}
					for _, op := range in.Operands(nil) {
						var g *ssa.Function
						switch x := (*op).(type) {
						case *ssa.Function:
							g = x
						case *ssa.MakeClosure:
							if bf, ok := x.Fn.(*ssa.Function); ok && bf.Synthetic != "" && bf.Object() != nil {
								for h := range on {
									if h.Object() == bf.Object() {
										g = h
									}
								}
							}
						}
						if g == nil || !on[g] {
							continue
						}
						if _, plain := in.(*ssa.Call); plain && in.(*ssa.Call).Call.Value == *op {
							continue
						}
						delete(on, g)
					}
				}
			}
		}
		on[root] = true
		r.Check("K3", "conn.(*MConnection)."+side.routine+"/started-once", p.Pos(root.Pos()), starts == 1 && len(p.CallSites(root.Object().(*types.Func))) == 1, fmt.Sprintf("%d go statements start the routine; it is not called otherwise", starts))
		for changed := true; changed; {
			changed = false
			for f := range on {
				if f == root {
					continue
				}
				ok := false
				for _, cs := range p.CallSites(f.Object().(*types.Func)) {
					if !inPkg(cs.Fn) {
						if !strings.HasSuffix(p.Pos(cs.Fn.Pos()), "_test.go") {
							ok = false
							break
						}
						continue
					}
					if !on[ir.EnclosingTop(cs.Fn)] || cs.Fn != ir.EnclosingTop(cs.Fn) && !ir.IsTransparentHelper(cs.Fn) && closureEscapes(cs.Fn) {
						ok = false
						break
					}
					ok = true
				}
				if !ok {
					delete(on, f)
					changed = true
				}
			}
		}
		fv := p.Field("libs/p2p/conn", "MConnection."+side.field)
		n := 0
		for _, f := range p.Funcs {
			if !inPkg(f) {
				continue
			}
			for _, b := range f.Blocks {
				for _, in := range b.Instrs {
					fa, ok := in.(*ssa.FieldAddr)
					if !ok || fieldVarOf(fa) != fv {
						continue
					}
					// the constructor fills the field before any goroutine exists
					if fa.Referrers() != nil && len(*fa.Referrers()) == 1 {
						if _, isStore := (*fa.Referrers())[0].(*ssa.Store); isStore && strings.HasPrefix(f.Name(), "NewMConnection") {
							continue
						}
					}
					n++
					top := ir.EnclosingTop(f)
					r.Check("K3", "conn.MConnection."+side.field+"/only-on-"+side.routine+"/"+top.Name(), p.InstrPos(in), on[top] && (f == top || !closureEscapes(f)), "c."+side.field+" is used only by code that runs on the "+side.routine+" goroutine")
				}
			}
		}
		r.Check("K3", "conn.MConnection."+side.field+"/uses", "-", n >= 1, fmt.Sprintf("%d uses of c.%s analysed", n, side.field))
	}
}

// closureEscapes: a function literal that is started as a goroutine, deferred or stored (anything but
// being called in place) may run on another goroutine.
func closureEscapes(f *ssa.Function) bool {
	parent := f.Parent()
	if parent == nil {
		return false
	}
	for _, b := range parent.Blocks {
		for _, in := range b.Instrs {
			for _, op := range in.Operands(nil) {
				mc, ok := (*op).(*ssa.MakeClosure)
				if !ok || mc.Fn != f {
					if fn, ok2 := (*op).(*ssa.Function); !ok2 || fn != f {
						continue
					}
				}
				switch c := in.(type) {
				case *ssa.Call:
					if c.Call.Value == *op {
						continue
					}
				case *ssa.Defer:
					if c.Call.Value == *op {
						continue // runs on the same goroutine
					}
				}
				return true
			}
		}
	}
	return false
}

func fieldVarOf(fa *ssa.FieldAddr) *types.Var {
	t := fa.X.Type().Underlying()
	if pt, ok := t.(*types.Pointer); ok {
		t = pt.Elem().Underlying()
	}
	st, ok := t.(*types.Struct)
	if !ok {
		return nil
	}
	return st.Field(fa.Field)
}

var _ = report.Discharged
