package props

import (
	"fmt"
	"go/token"
	"go/types"
	"sort"
	"strings"

	"golang.org/x/tools/go/ssa"

	"lkcheck/ir"
	"lkcheck/report"
)

// Error identity (K8, all properties).
//
// Some decisions depend on WHICH error came back, by identity: `err == ErrVoteNil`,
// `err.(*types.ErrVoteConflictingVotes)` (conflicting votes become evidence only through that
// assertion), `err == io.EOF` (end of log). Between the function that creates such an error and the
// function that tests it the value must travel unchanged: an intermediate function that wraps it
// (`fmt.Errorf("...: %v", err)`) keeps "an error is reported" true — the error-regression rule stays
// silent — but the test never matches again.
//
// For every identity test in a function defined in the property's anchor files whose operand is the
// error result of a statically resolved call, the callee (and, through pass-through returns, its
// callees, depth 5) is examined: every return either passes a callee's error on unchanged, creates a
// fresh error, or returns nil. A return whose error is BUILT FROM the error of a callee that can
// produce the tested identity is reported.

type errIdent struct {
	typ  types.Type  // asserted type, or
	glob *ssa.Global // sentinel compared with
}

func (e errIdent) String() string {
	if e.typ != nil {
		return "type " + types.TypeString(e.typ, func(p *types.Package) string { return p.Name() })
	}
	return "sentinel " + e.glob.Pkg.Pkg.Name() + "." + e.glob.Name()
}

var errorType = types.Universe.Lookup("error").Type()

func isErrorTyped(v ssa.Value) bool { return types.Identical(v.Type(), errorType) }

// errSource: the static call whose error result v is (looking through phis of a single call and
// loads of single-assignment locals is left to the renderer; here only direct results count).
func errSource(v ssa.Value) *ssa.Call {
	switch x := v.(type) {
	case *ssa.Call:
		return x
	case *ssa.Extract:
		if c, ok := x.Tuple.(*ssa.Call); ok {
			return c
		}
	}
	return nil
}

type identWalker struct {
	p       *ir.Program
	produce map[*ssa.Function]map[string]bool // memo: identities a function can return (pass-through closure)
	busy    map[*ssa.Function]bool
}

func identKey(e errIdent) string { return e.String() }

// returnsOf lists the values returned in the error slot, phis expanded.
func errReturnValues(fn *ssa.Function) []ssa.Value {
	idx := errorResultIndex(fn.Signature)
	if idx < 0 {
		return nil
	}
	var out []ssa.Value
	seen := map[ssa.Value]bool{}
	var add func(v ssa.Value)
	add = func(v ssa.Value) {
		if seen[v] {
			return
		}
		seen[v] = true
		if ph, ok := v.(*ssa.Phi); ok {
			for _, e := range ph.Edges {
				add(e)
			}
			return
		}
		// a named result kept in memory (functions with defer): everything stored into it
		if vals := storedInto(v); vals != nil {
			for _, e := range vals {
				add(e)
			}
			return
		}
		out = append(out, v)
	}
	for _, rt := range ir.Returns(fn) {
		if idx < len(rt.Results) {
			add(rt.Results[idx])
		}
	}
	return out
}

// produces: can fn return an error with this identity (created here or passed through)?
func (w *identWalker) produces(fn *ssa.Function, e errIdent, depth int) bool {
	if fn == nil || fn.Blocks == nil || depth > 5 {
		return false
	}
	k := identKey(e)
	if m := w.produce[fn]; m != nil {
		if v, ok := m[k]; ok {
			return v
		}
	}
	if w.busy[fn] {
		return false
	}
	w.busy[fn] = true
	defer delete(w.busy, fn)
	res := false
	for _, v := range errReturnValues(fn) {
		switch x := v.(type) {
		case *ssa.MakeInterface:
			if e.typ != nil && types.Identical(x.X.Type(), e.typ) {
				res = true
			}
			// a constructor call returning the concrete type
		case *ssa.UnOp:
			if g, ok := x.X.(*ssa.Global); ok && x.Op == token.MUL && e.glob == g {
				res = true
			}
		}
		if c := errSource(v); c != nil {
			if w.produces(c.Call.StaticCallee(), e, depth+1) {
				res = true
			}
		}
	}
	if w.produce[fn] == nil {
		w.produce[fn] = map[string]bool{}
	}
	w.produce[fn][k] = res
	return res
}

// derivedFromCall: does value v (an argument of an error constructor) derive from the error result of
// a call (directly, through MakeInterface, varargs slices, or err.Error())?
func derivedErrCalls(v ssa.Value, depth int, out *[]*ssa.Call) {
	if depth > 6 || v == nil {
		return
	}
	if isErrorTyped(v) {
		if c := errSource(v); c != nil {
			*out = append(*out, c)
			return
		}
	}
	if vals := storedInto(v); vals != nil {
		for _, e := range vals {
			derivedErrCalls(e, depth+1, out)
		}
		return
	}
	switch x := v.(type) {
	case *ssa.MakeInterface:
		derivedErrCalls(x.X, depth+1, out)
	case *ssa.ChangeInterface:
		derivedErrCalls(x.X, depth+1, out)
	case *ssa.Phi:
		for _, e := range x.Edges {
			derivedErrCalls(e, depth+1, out)
		}
	case *ssa.Slice:
		for _, a := range varargValues(x) {
			derivedErrCalls(a, depth+1, out)
		}
	case *ssa.Call:
		// err.Error() and friends
		if x.Call.IsInvoke() {
			derivedErrCalls(x.Call.Value, depth+1, out)
		}
		for _, a := range x.Call.Args {
			if isErrorTyped(a) {
				derivedErrCalls(a, depth+1, out)
			}
		}
	}
}

// wraps: returns (position, wrapped callee) where fn returns an error built from the error of a
// callee that can produce identity e; recursion follows pass-through returns.
func (w *identWalker) wraps(fn *ssa.Function, e errIdent, depth int, seen map[*ssa.Function]bool) []string {
	if fn == nil || fn.Blocks == nil || depth > 5 || seen[fn] {
		return nil
	}
	seen[fn] = true
	var out []string
	for _, v := range errReturnValues(fn) {
		if c := errSource(v); c != nil {
			callee := c.Call.StaticCallee()
			name := ir.CalleeName(c)
			isCtor := callee == nil && (strings.HasSuffix(name, "fmt.Errorf") || strings.Contains(name, "errors."))
			if callee != nil && callee.Blocks == nil {
				isCtor = true
			}
			if callee != nil && callee.Blocks != nil && !(strings.HasSuffix(name, "fmt.Errorf")) {
				// pass-through: look inside
				out = append(out, w.wraps(callee, e, depth+1, seen)...)
				// a module function that takes an error and returns a new one is a wrapper too
			}
			// a module function that is handed the error decides by its body: passing the parameter on (or
			// replacing it by an unrelated value) is not wrapping; building a new error FROM it is
			if !isCtor && callee != nil && callee.Blocks != nil && !buildsErrorFromParam(callee, 0) {
				continue
			}
			if isCtor || callee != nil {
				var from []*ssa.Call
				for _, a := range c.Call.Args {
					derivedErrCalls(a, 0, &from)
				}
				for _, src := range from {
					if src == c {
						continue
					}
					if w.produces(src.Call.StaticCallee(), e, 0) {
						out = append(out, fmt.Sprintf("%s: %s returns %s(...) built from the error of %s, which can be %s", w.p.InstrPos(c), ir.FuncName(fn), name, ir.CalleeName(src), e))
					}
				}
				// ... or built from a value of the tested identity created right here
				// (errors.Wrapf(NewConflictingVoteError(..), ..), fmt.Errorf("..: %v", ErrSentinel))
				for _, a := range c.Call.Args {
					if holdsIdentity(a, e, 0) {
						out = append(out, fmt.Sprintf("%s: %s returns %s(...) built from a %s created in place", w.p.InstrPos(c), ir.FuncName(fn), name, e))
					}
				}
			}
		}
	}
	return out
}

// errorIdentity adds the obligations of one property.
func errorIdentity(p *ir.Program, r *report.R, files map[string]bool) {
	w := &identWalker{p: p, produce: map[*ssa.Function]map[string]bool{}, busy: map[*ssa.Function]bool{}}
	type site struct {
		fn   *ssa.Function
		in   ssa.Instruction
		call *ssa.Call
		id   errIdent
	}
	var sites []site
	for _, fn := range p.Funcs {
		if fn.Blocks == nil || !files[fileOf(p, ir.EnclosingTop(fn))] {
			continue
		}
		for _, b := range fn.Blocks {
			for _, in := range b.Instrs {
				switch x := in.(type) {
				case *ssa.TypeAssert:
					if !isErrorTyped(x.X) {
						continue
					}
					if c := errSource(x.X); c != nil && c.Call.StaticCallee() != nil {
						if nt := namedOf(x.AssertedType); nt != nil && nt.Obj().Pkg() != nil && strings.HasPrefix(nt.Obj().Pkg().Path(), ir.Module) {
							sites = append(sites, site{fn, in, c, errIdent{typ: x.AssertedType}})
						}
					}
				case *ssa.BinOp:
					if x.Op != token.EQL && x.Op != token.NEQ {
						continue
					}
					for _, pair := range [][2]ssa.Value{{x.X, x.Y}, {x.Y, x.X}} {
						ev, gv := pair[0], pair[1]
						if !isErrorTyped(ev) {
							continue
						}
						u, ok := gv.(*ssa.UnOp)
						if !ok || u.Op != token.MUL {
							continue
						}
						g, ok := u.X.(*ssa.Global)
						if !ok {
							continue
						}
						if c := errSource(ev); c != nil && c.Call.StaticCallee() != nil {
							sites = append(sites, site{fn, in, c, errIdent{glob: g}})
						}
					}
				}
			}
		}
	}
	sort.Slice(sites, func(i, j int) bool { return sites[i].in.Pos() < sites[j].in.Pos() })
	n := 0
	for _, s := range sites {
		callee := s.call.Call.StaticCallee()
		if callee.Blocks == nil {
			continue
		}
		n++
		bad := w.wraps(callee, s.id, 0, map[*ssa.Function]bool{})
		key := "error-identity/" + ir.FuncName(ir.EnclosingTop(s.fn)) + "/" + ir.CalleeName(s.call) + "/" + s.id.String()
		r.Check("K8", key, p.InstrPos(s.in), len(bad) == 0, "the tested error reaches the test unchanged (no wrapping on the way up): "+strings.Join(bad, " ; "))
	}
	r.Note("error identity: %d identity tests on statically resolved callees examined", n)
}

func namedOf(t types.Type) *types.Named {
	if pt, ok := t.(*types.Pointer); ok {
		t = pt.Elem()
	}
	nt, _ := t.(*types.Named)
	return nt
}

// storedInto: for a load of a local variable kept in memory, the values stored into it anywhere in
// the function (flow-insensitive); nil for other values.
func storedInto(v ssa.Value) []ssa.Value {
	u, ok := v.(*ssa.UnOp)
	if !ok || u.Op != token.MUL {
		return nil
	}
	al, ok := u.X.(*ssa.Alloc)
	if !ok || al.Referrers() == nil {
		return nil
	}
	var out []ssa.Value
	for _, r := range *al.Referrers() {
		if st, ok := r.(*ssa.Store); ok && st.Addr == al {
			out = append(out, st.Val)
		}
	}
	return out
}

// buildsErrorFromParam: some error return of fn is the result of a body-less constructor
// (fmt.Errorf, errors.Wrap, ...) one of whose arguments derives from an error parameter of fn.
func buildsErrorFromParam(fn *ssa.Function, depth int) bool {
	if depth > 3 {
		return false
	}
	var derives func(v ssa.Value, d int) bool
	derives = func(v ssa.Value, d int) bool {
		if d > 6 || v == nil {
			return false
		}
		switch x := v.(type) {
		case *ssa.Parameter:
			return isErrorTyped(x)
		case *ssa.MakeInterface:
			return derives(x.X, d+1)
		case *ssa.ChangeInterface:
			return derives(x.X, d+1)
		case *ssa.Phi:
			for _, e := range x.Edges {
				if derives(e, d+1) {
					return true
				}
			}
		case *ssa.Slice:
			for _, a := range varargValues(x) {
				if derives(a, d+1) {
					return true
				}
			}
		case *ssa.Call:
			if x.Call.IsInvoke() && derives(x.Call.Value, d+1) {
				return true // err.Error()
			}
		}
		if vals := storedInto(v); vals != nil {
			for _, e := range vals {
				if derives(e, d+1) {
					return true
				}
			}
		}
		return false
	}
	for _, v := range errReturnValues(fn) {
		c := errSource(v)
		if c == nil {
			continue
		}
		callee := c.Call.StaticCallee()
		if callee != nil && callee.Blocks != nil {
			continue // another module function: its own body decides when it is looked at
		}
		for _, a := range c.Call.Args {
			if derives(a, 0) {
				return true
			}
		}
	}
	return false
}

// holdsIdentity: v is (an interface holding, or a vararg list containing) a value of the identity:
// a concrete value of the asserted type, or the sentinel itself.
func holdsIdentity(v ssa.Value, e errIdent, d int) bool {
	if d > 6 || v == nil {
		return false
	}
	switch x := v.(type) {
	case *ssa.MakeInterface:
		if e.typ != nil && types.Identical(x.X.Type(), e.typ) {
			return true
		}
		return holdsIdentity(x.X, e, d+1)
	case *ssa.ChangeInterface:
		return holdsIdentity(x.X, e, d+1)
	case *ssa.UnOp:
		if g, ok := x.X.(*ssa.Global); ok && x.Op == token.MUL && e.glob == g {
			return true
		}
	case *ssa.Phi:
		for _, ed := range x.Edges {
			if holdsIdentity(ed, e, d+1) {
				return true
			}
		}
	case *ssa.Slice:
		for _, a := range varargValues(x) {
			if holdsIdentity(a, e, d+1) {
				return true
			}
		}
	}
	return false
}
