package props

import (
	"encoding/json"
	"fmt"
	"go/token"
	"go/types"
	"os"
	"path/filepath"
	"sort"
	"strings"

	"golang.org/x/tools/go/ssa"

	"lkcheck/ir"
	"lkcheck/report"
)

// Guarded-by (K10, all properties).
//
// For every struct type with a sync.Mutex / sync.RWMutex field, the committed table guards.json lists
// the fields that — when the table was written — were accessed in the type's methods ONLY with that
// mutex held (at least twice): in the method itself, or because the method is private and entered
// with the lock held at every call site (greatest fixed point). The rule: they still are. A store
// needs the write lock, a load any lock. An access that appears outside the lock — the critical
// section narrowed, a read hoisted above Lock(), an Unlock() moved up, a new method that forgets the
// lock — is reported with the method and field.
//
// The table is inferred (Engler et al.: beliefs from consistent behaviour) and then frozen: a field
// that is touched even once without the lock today is not in it, so the unchanged tree is silent by
// construction, and nothing is claimed about fields that were never consistently protected.

type guardTable map[string]struct { // "pkg.T"
	Mutex  string         `json:"mutex"`
	Fields map[string]int `json:"fields"` // field -> accesses seen under the lock when frozen
}

type fieldAccess struct {
	fn    *ssa.Function
	in    ssa.Instruction
	field string
	write bool
	held  bool
}

func isMutexType(t types.Type) bool {
	if pt, ok := t.(*types.Pointer); ok {
		t = pt.Elem()
	}
	nt, ok := t.(*types.Named)
	if !ok || nt.Obj().Pkg() == nil || nt.Obj().Pkg().Path() != "sync" {
		return false
	}
	return nt.Obj().Name() == "Mutex" || nt.Obj().Name() == "RWMutex"
}

// lockHeldAt: fn holds recv.mtx at `in` through an own Lock (write) or RLock (unless needWrite).
func lockHeldAt(fn *ssa.Function, in ssa.Instruction, recv ssa.Value, mtxIdx int, needWrite bool) bool {
	for _, b := range fn.Blocks {
		for _, x := range b.Instrs {
			if _, ok := x.(*ssa.Call); !ok {
				continue
			}
			op, isOp := lockOpOf(x)
			if !isOp || !op.Acquire || (needWrite && op.Kind != "w") || op.Owner != recv || op.Field != mtxIdx {
				continue
			}
			if !ir.Precedes(x, in) {
				continue
			}
			found, _, _ := ir.FindPath(ir.PathQuery{From: ir.At(x), Target: func(y ssa.Instruction) bool { return y == in },
				Avoid: func(y ssa.Instruction) bool {
					if _, ok := y.(*ssa.Call); !ok {
						return false
					}
					op2, ok := lockOpOf(y)
					return ok && !op2.Acquire && op2.Owner == recv && op2.Field == mtxIdx
				}})
			if found {
				return true
			}
		}
	}
	return false
}

// isMutexOf: the call's receiver argument is &recv.<field mtxIdx>.
func isMutexOf(args []ssa.Value, recv ssa.Value, mtxIdx int) bool {
	if len(args) == 0 {
		return false
	}
	v := args[0]
	// pointer-typed mutex field: a load of the field
	if u, ok := v.(*ssa.UnOp); ok && u.Op == token.MUL {
		v = u.X
	}
	fa, ok := v.(*ssa.FieldAddr)
	return ok && fa.X == recv && fa.Field == mtxIdx
}

// guardedAccesses analyses one struct type.
func guardedAccesses(p *ir.Program, named *types.Named) (mutex string, acc []fieldAccess) {
	st, ok := named.Underlying().(*types.Struct)
	if !ok {
		return "", nil
	}
	mtxIdx := -1
	for i := 0; i < st.NumFields(); i++ {
		if isMutexType(st.Field(i).Type()) {
			if mtxIdx >= 0 {
				return "", nil // several mutexes: which protects what is not inferable this way
			}
			mtxIdx = i
		}
	}
	if mtxIdx < 0 {
		return "", nil
	}
	mutex = st.Field(mtxIdx).Name()
	// methods with bodies, pointer receivers
	var methods []*ssa.Function
	for _, f := range p.Funcs {
		if f.Blocks == nil || f.Parent() != nil || f.Signature.Recv() == nil || len(f.Params) == 0 || strings.HasSuffix(p.Pos(f.Pos()), "_test.go") {
			continue
		}
		rt := f.Signature.Recv().Type()
		pt, isPtr := rt.(*types.Pointer)
		if !isPtr || !types.Identical(pt.Elem(), named) {
			continue
		}
		methods = append(methods, f)
	}
	if len(methods) == 0 {
		return mutex, nil
	}
	isMethod := map[*ssa.Function]bool{}
	for _, m := range methods {
		isMethod[m] = true
	}
	// entered-locked: private methods never used as values whose every call site is in a method of the
	// type on the same receiver with the lock held (or in an entered-locked method)
	type ent struct{ any, write bool }
	entered := map[*ssa.Function]*ent{}
	for _, m := range methods {
		if !m.Object().Exported() && len(p.FuncValueUses(m)) == 0 {
			entered[m] = &ent{true, true}
		}
	}
	for changed := true; changed; {
		changed = false
		for m, e := range entered {
			sites := p.CallSites(m.Object().(*types.Func))
			okAny, okW, n := true, true, 0
			for _, cs := range sites {
				if strings.HasSuffix(p.Pos(cs.Fn.Pos()), "_test.go") {
					continue
				}
				n++
				call, isCall := cs.Instr.(*ssa.Call)
				if !isCall || !isMethod[cs.Fn] || len(call.Call.Args) == 0 || call.Call.Args[0] != ssa.Value(cs.Fn.Params[0]) {
					okAny, okW = false, false
					continue
				}
				ce := entered[cs.Fn]
				hAny := lockHeldAt(cs.Fn, call, cs.Fn.Params[0], mtxIdx, false) || (ce != nil && ce.any)
				hW := lockHeldAt(cs.Fn, call, cs.Fn.Params[0], mtxIdx, true) || (ce != nil && ce.write)
				okAny = okAny && hAny
				okW = okW && hW
			}
			if n == 0 {
				okAny, okW = false, false
			}
			if !okAny {
				delete(entered, m)
				changed = true
				continue
			}
			if e.write && !okW {
				e.write = false
				changed = true
			}
		}
	}
	for _, m := range methods {
		recv := m.Params[0]
		e := entered[m]
		for _, b := range m.Blocks {
			for _, in := range b.Instrs {
				fa, ok := in.(*ssa.FieldAddr)
				if !ok || fa.X != ssa.Value(recv) || fa.Field == mtxIdx || fa.Referrers() == nil {
					continue
				}
				write := false
				for _, u := range *fa.Referrers() {
					if s, ok := u.(*ssa.Store); ok && s.Addr == fa {
						write = true
					}
				}
				// the access happens where the address is used; use the first user in this function
				at := ssa.Instruction(fa)
				if len(*fa.Referrers()) > 0 {
					at = (*fa.Referrers())[0]
				}
				held := lockHeldAt(m, at, recv, mtxIdx, write) || (e != nil && (e.write || (!write && e.any)))
				acc = append(acc, fieldAccess{m, at, st.Field(fa.Field).Name(), write, held})
			}
		}
	}
	return mutex, acc
}

func guardedTypes(p *ir.Program, files map[string]bool) []*types.Named {
	var out []*types.Named
	seen := map[*types.Named]bool{}
	for _, f := range p.Funcs {
		if f.Signature.Recv() == nil || f.Blocks == nil {
			continue
		}
		pt, ok := f.Signature.Recv().Type().(*types.Pointer)
		if !ok {
			continue
		}
		nt, ok := pt.Elem().(*types.Named)
		if !ok || seen[nt] || nt.Obj().Pkg() == nil || ir.RelPkg(nt.Obj().Pkg()) == "" {
			continue
		}
		seen[nt] = true
		if files != nil && !files[filePosOf(p, nt)] {
			continue
		}
		out = append(out, nt)
	}
	sort.Slice(out, func(i, j int) bool { return out[i].String() < out[j].String() })
	return out
}

func filePosOf(p *ir.Program, nt *types.Named) string {
	pos := p.Pos(nt.Obj().Pos())
	if i := strings.LastIndex(pos, ":"); i > 0 {
		return pos[:i]
	}
	return pos
}

func typeKey(nt *types.Named) string { return ir.RelPkg(nt.Obj().Pkg()) + "." + nt.Obj().Name() }

// GenGuardTable writes guards.json from the current tree (maintenance, like names.json).
func GenGuardTable(p *ir.Program, verifDir string) (int, error) {
	tab := guardTable{}
	n := 0
	for _, nt := range guardedTypes(p, nil) {
		mutex, acc := guardedAccesses(p, nt)
		if mutex == "" || len(acc) == 0 {
			continue
		}
		held, unheld := map[string]int{}, map[string]int{}
		for _, a := range acc {
			if a.held {
				held[a.field]++
			} else {
				unheld[a.field]++
			}
		}
		fields := map[string]int{}
		for f, h := range held {
			if unheld[f] == 0 && h >= 2 {
				fields[f] = h
				n++
			}
		}
		if len(fields) > 0 {
			e := tab[typeKey(nt)]
			e.Mutex, e.Fields = mutex, fields
			tab[typeKey(nt)] = e
		}
	}
	b, err := json.MarshalIndent(tab, "", " ")
	if err != nil {
		return 0, err
	}
	return n, os.WriteFile(filepath.Join(verifDir, "guards.json"), b, 0o644)
}

// guardedBy adds the obligations for the types defined in the property's anchor files.
func guardedBy(p *ir.Program, r *report.R, files map[string]bool) {
	b, err := os.ReadFile(filepath.Join(VerifDir, "guards.json"))
	if err != nil {
		r.Undecided("K10", "guarded-by/table", "-", "guards.json not readable: "+err.Error())
		return
	}
	var tab guardTable
	if err := json.Unmarshal(b, &tab); err != nil {
		r.Undecided("K10", "guarded-by/table", "-", "guards.json: "+err.Error())
		return
	}
	nT, nA := 0, 0
	for _, nt := range guardedTypes(p, files) {
		e, ok := tab[typeKey(nt)]
		if !ok {
			continue
		}
		mutex, acc := guardedAccesses(p, nt)
		if mutex != e.Mutex {
			continue // the mutex field was renamed or a second one added: nothing to compare
		}
		nT++
		bad := map[string][]string{}
		pos := map[string]string{}
		seenF := map[string]bool{}
		for _, a := range acc {
			if _, guarded := e.Fields[a.field]; !guarded {
				continue
			}
			nA++
			seenF[a.field] = true
			if !a.held {
				kind := "read"
				if a.write {
					kind = "written"
				}
				bad[a.field] = append(bad[a.field], fmt.Sprintf("%s in %s at %s without %s held", kind, a.fn.Name(), p.InstrPos(a.in), mutex))
				pos[a.field] = p.InstrPos(a.in)
			}
		}
		var fs []string
		for f := range seenF {
			fs = append(fs, f)
		}
		sort.Strings(fs)
		for _, f := range fs {
			ps := pos[f]
			if ps == "" {
				ps = p.Pos(nt.Obj().Pos())
			}
			r.Check("K10", "guarded-by/"+typeKey(nt)+"."+f, ps, len(bad[f]) == 0, fmt.Sprintf("every access of %s.%s in the type's methods holds %s (write lock for stores): %s", nt.Obj().Name(), f, mutex, strings.Join(bad[f], " ; ")))
		}
	}
	r.Note("guarded-by: %d types, %d accesses of guarded fields compared", nT, nA)
}
