package props

import (
	"fmt"
	"go/ast"
	"go/types"
	"regexp"
	"sort"
	"strings"

	"golang.org/x/tools/go/ssa"

	"lkcheck/ir"
	"lkcheck/report"
)

func init() { Registry["C20"] = C20 }

// C20 contract execution metered, atomic, crash-free — structural clauses.
func C20(p *ir.Program, r *report.R) {
	c := C{p, r}
	r.Floor = 170
	r.Explain = "Decided: (charge before execute) in Interpreter.Run the call of operation.execute is dominated by operation.valid, successful validateStack and enforceRestrictions, a nil gasCost error and contract.UseGas(cost) true, with the memory-size overflow tests on the memorySize path and memory resized before execution; Contract.UseGas subtracts only under Gas >= gas; (jump table registry) every operation literal of vm/evm has execute, gasCost, validateStack and valid:true, and every entry whose execute function touches memory (Set/Set32/Get/GetPtr/GetCopy, directly or through a same-package helper) declares memorySize; (frame atomicity) every EVM and WASM frame function that takes a state snapshot reverts to that same snapshot on every path on which the frame's error is non-nil, takes the snapshot before transferring value, transfers only after the depth and balance checks, and burns the remaining gas unless the error is the explicit revert; app.CallWasmContract reverts on both error paths; (determinism) no map iteration, clock-dependent value, randomness or goroutine in vm/evm execution code outside the tracer; (crash-free) the explicit panic sites of vm/evm reachable from Run equal the reviewed table. ADDED after seeded-change testing: The revert-on-error rule is path-sensitive (the returned error value is followed backwards through phis and local stores; branch conditions on one SSA value are kept consistent); slices bounded by big.Int.Uint64() need BitLen <= 64 and <= len or a BigMin clamp; CREATE/CREATE2 hand the child exactly the amount charged with UseGas, the CALL family evm.callGasTemp (+ stipend). Rounds 4-5: EVM.Reset empties the per-transaction fee lists; every call-family gas function leaves the forwarded amount in evm.callGasTemp; every frame is created with a non-nil value (or is a delegate frame). Round 6: the fee flag is lowered at the start of every operation. Round 7: hash and code of a frame come from the same address; the state object stores a new integer for every balance it is handed. NOT decided: termination, gas totals, memory-offset arithmetic inside the gas/memory functions, the third-party tc-wasm engine."
	r.Trusted = []string{"tc-wasm engine (third party)", "big.Int arithmetic"}

	// ---- charge before execute ---------------------------------------------------------
	{
		fn := p.Func("vm/evm", "Interpreter.Run")
		name := "evm.(*Interpreter).Run"
		var exec []ssa.CallInstruction
		ir.Instrs(fn, func(in ssa.Instruction) {
			if call, ok := in.(*ssa.Call); ok && strings.Contains(ir.CalleeName(call), ".execute") {
				exec = append(exec, call)
			}
		})
		if c.MustFind("K1", name+"/execute", fn, len(exec), "operation.execute call") {
			r.Check("K1", name+"/execute/single", p.InstrPos(exec[0]), len(exec) == 1, "one execution site")
			op := "in.cfg.JumpTable[evm.Contract.GetOp(contract,φ:pc)]"
			c.Guards(name, "execute", exec[0],
				G{"valid-opcode", "*" + op + ".valid || *.valid"},
				G{"stack-validated", "eq(dyn:*.validateStack(*),nil)"},
				G{"restrictions", "eq(evm.Interpreter.enforceRestrictions(in,*),nil)"},
				G{"gas-cost-known", "eq(dyn:*.gasCost(*)#1,nil)"},
				G{"gas-paid", "evm.Contract.UseGas(contract,*gasCost(*)#0) || evm.Contract.UseGas(contract,cost)"},
			)
			cs := allocStores(fn, "cost")
			okCost := true
			for _, v := range cs {
				if !strings.Contains(v, ".gasCost(") {
					okCost = false
				}
			}
			r.Check("K1", name+"/execute/cost-is-gasCost-result", p.InstrPos(exec[0]), okCost && len(cs) >= 1, fmt.Sprintf("the amount charged is the result of operation.gasCost: %v", cs))
			c.GuardsAny(name, "execute", "memory-size-no-overflow", exec[0], "!evm.bigUint64(*)#1", "eq(*.memorySize,nil)")
			c.GuardsAny(name, "execute", "memory-words-no-overflow", exec[0], "!math.SafeMul(*)#1", "eq(*.memorySize,nil)")
			// memory resized before execution when needed
			rs := ir.Calls(fn, "evm.Memory.Resize")
			okRs := len(rs) == 1 && ir.HasFact(ir.FactsAt(rs[0]), "lt(0,*memorySize*)")
			if okRs {
				// within one iteration: from the gas payment to execute, Resize is passed unless memorySize == 0
				var pay ssa.Instruction
				for _, ug := range ir.Calls(fn, "evm.Contract.UseGas") {
					pay = ug
				}
				if pay == nil {
					okRs = false
				} else {
					found, _, _ := ir.FindPath(ir.PathQuery{From: ir.At(pay), Target: func(in ssa.Instruction) bool { return in == ssa.Instruction(exec[0]) },
						Avoid: func(in ssa.Instruction) bool { return in == ssa.Instruction(rs[0]) },
						AvoidEdge: func(atoms []string) bool {
							for _, a := range atoms {
								if ir.Match("le(*memorySize*,0)", a) {
									return true
								}
							}
							return false
						}})
					okRs = !found && Arg(rs[0], 1) == "φ:memorySize"
				}
			}
			r.Check("K2", name+"/resize-before-execute", p.Pos(fn.Pos()), okRs, "memory is resized to the charged size before the operation runs")
			// the loop continues only while not aborted
			okAb := false
			for _, l := range ir.Loops(fn) {
				for _, in := range l.Header.Instrs {
					if ifi, ok := in.(*ssa.If); ok && strings.Contains(ir.Render(ifi.Cond), "atomic.LoadInt32(&in.evm.abort)") {
						okAb = true
					}
				}
			}
			r.Check("K2", name+"/abort-flag", p.Pos(fn.Pos()), okAb, "the run loop re-checks the abort flag every step")
		}
		ug := p.Func("vm/evm", "Contract.UseGas")
		n := 0
		for _, s := range p.Stores(p.Field("vm/evm", "Contract.Gas")) {
			if s.Fn != ug {
				continue
			}
			n++
			c.GuardsS("evm.(*Contract).UseGas", "subtract", s, G{"enough-gas", "le(gas,c.Gas)"})
			r.Check("K6", "evm.(*Contract).UseGas/subtract/amount", p.InstrPos(s.Instr), ir.Render(s.Val) == "(c.Gas - gas)", "subtracts exactly the charged amount: "+ir.Render(s.Val))
		}
		c.MustFind("K6", "evm.(*Contract).UseGas/subtract", ug, n, "store to c.Gas")
		for _, rt := range ir.Returns(ug) {
			if ir.AbstractResult(rt.Results[0]) == "true" {
				c.Guards("evm.(*Contract).UseGas", "return true", rt.Instr, G{"enough-gas", "le(gas,c.Gas)"})
			}
		}
	}

	// ---- jump table registry ------------------------------------------------------------
	{
		pk := p.Pkg("vm/evm")
		opT := p.Obj("vm/evm", "operation").Type()
		memObj := map[string]bool{"Set": true, "Set32": true, "Get": true, "GetPtr": true, "GetCopy": true}
		touchesMemory := func(f *ssa.Function) bool {
			t := false
			for _, call := range deepCalls(f, 1, map[*ssa.Function]bool{}) {
				n := ir.CalleeName(call)
				if strings.HasPrefix(n, "evm.Memory.") && memObj[strings.TrimPrefix(n, "evm.Memory.")] {
					t = true
				}
			}
			return t
		}
		nLit := 0
		for _, file := range pk.Syntax {
			ast.Inspect(file, func(n ast.Node) bool {
				cl, ok := n.(*ast.CompositeLit)
				if !ok {
					return true
				}
				tv, ok := pk.TypesInfo.Types[cl]
				if !ok || !types.Identical(tv.Type, opT) || len(cl.Elts) == 0 {
					return true
				}
				nLit++
				fields := map[string]ast.Expr{}
				for _, e := range cl.Elts {
					if kv, ok := e.(*ast.KeyValueExpr); ok {
						if id, ok := kv.Key.(*ast.Ident); ok {
							fields[id.Name] = kv.Value
						}
					}
				}
				execName := "?"
				if e, ok := fields["execute"]; ok {
					execName = types.ExprString(e)
				}
				key := "jump-table/" + execName
				pos := p.Pos(cl.Pos())
				for _, f := range []string{"execute", "gasCost", "validateStack"} {
					_, ok := fields[f]
					r.Check("K5", key+"/has:"+f, pos, ok, "every operation declares "+f)
				}
				v, ok := fields["valid"]
				r.Check("K5", key+"/valid", pos, ok && types.ExprString(v) == "true", "every declared operation is marked valid")
				// memory
				if e, ok := fields["execute"]; ok {
					if id, ok := e.(*ast.Ident); ok {
						if fo, ok := pk.TypesInfo.Uses[id].(*types.Func); ok {
							if sf := p.SSA.FuncValue(fo); sf != nil && touchesMemory(sf) {
								_, hasMem := fields["memorySize"]
								r.Check("K5", key+"/memorySize", pos, hasMem, "an operation whose execute function reads or writes memory declares memorySize (so the interpreter charges and resizes before it runs)")
							}
						}
					}
				}
				return true
			})
		}
		r.Stats["operation literals"] = nLit
		if nLit < 120 {
			r.Undecided("K5", "jump-table/literals", "-", fmt.Sprintf("only %d operation literals found", nLit))
		}
	}

	// ---- frame atomicity ---------------------------------------------------------------------
	{
		var frames []*ssa.Function
		for _, fn := range p.Funcs {
			if fn.Pkg == nil || fn.Parent() != nil {
				continue
			}
			rel := ir.RelPkg(fn.Pkg.Pkg)
			if rel != "vm/evm" && rel != "vm/wasm" {
				continue
			}
			if len(ir.Calls(fn, "*StateDB.Snapshot")) > 0 && !strings.Contains(p.Pos(fn.Pos()), "_test") {
				frames = append(frames, fn)
			}
		}
		sort.Slice(frames, func(i, j int) bool { return ir.FuncName(frames[i]) < ir.FuncName(frames[j]) })
		r.Stats["frame functions with a snapshot"] = len(frames)
		if len(frames) < 10 {
			r.Undecided("K2", "frames/found", "-", fmt.Sprintf("only %d frame functions found", len(frames)))
		}
		for _, fn := range frames {
			name := ir.FuncName(fn)
			snaps := ir.Calls(fn, "*StateDB.Snapshot")
			revs := ir.Calls(fn, "*StateDB.RevertToSnapshot")
			if !r.Check("K2", "frame/"+name+"/has-revert", p.Pos(fn.Pos()), len(revs) >= 1 && len(snaps) == 1, fmt.Sprintf("a frame that snapshots also reverts (snapshots %d, reverts %d)", len(snaps), len(revs))) {
				continue
			}
			snap := snaps[0]
			for _, rv := range revs {
				a := Arg(rv, 1)
				r.Check("K2", "frame/"+name+"/revert-same-snapshot", p.InstrPos(rv), a == "snapshot" || a == ir.RenderCall(snap), "reverts to the snapshot taken in this frame: "+a)
			}
			// every return with a possibly non-nil error after the snapshot passes a revert
			isRev := ir.CallMatcher("*StateDB.RevertToSnapshot")
			errIdx := errorResultIndex(fn.Signature)
			bad := ""
			for _, rt := range ir.Returns(fn) {
				if errIdx < 0 || !ir.Precedes(snap, rt.Instr) {
					continue
				}
				if ir.AbstractResult(rt.Results[errIdx]) == "nil" {
					continue
				}
				// path-sensitive: follow the returned error value backwards (phis by the edge taken,
				// locals by the last store) and drop paths on which it is nil
				found, tr := ir.NonNilPathWithout(snap.(ssa.Instruction), rt.Instr, rt.Results[errIdx], isRev)
				if found {
					bad = fmt.Sprintf("return at %s reachable with a possibly non-nil error without revert via blocks %v", p.InstrPos(rt.Instr), tr)
				}
			}
			r.Check("K2", "frame/"+name+"/revert-on-every-error-path", p.InstrPos(snap), bad == "", "after the snapshot, every path that returns a possibly non-nil error passes RevertToSnapshot; "+bad)
			// value transfer after the snapshot and after the checks
			for _, tr := range ir.Calls(fn, "dyn:*.Transfer") {
				r.Check("K2", "frame/"+name+"/snapshot ≺ transfer", p.InstrPos(tr), ir.Precedes(snap, tr), "value moves only after the snapshot was taken")
				c.GuardsAny("frame/"+name, "transfer", "can-transfer", tr, "dyn:*.CanTransfer(*)", "eq(evm.depth,0)")
				if strings.HasPrefix(name, "vm/evm.") {
					c.Guards("frame/"+name, "transfer", tr, G{"depth", "le(*.depth,*)"})
				} else {
					r.Check("K5", "frame/"+name+"/transfer/depth", p.InstrPos(tr), true, "sibling difference noted: the WASM frames have no call-depth test of their own; nesting is limited inside the third-party tc-wasm engine (not analysed)")
				}
			}
			// remaining gas burnt unless explicit revert
			for _, ug := range ir.Calls(fn, "evm.Contract.UseGas") {
				if Arg(ug, 1) != Arg(ug, 0)+".Gas" {
					continue
				}
				c.Guards("frame/"+name, "burn gas", ug, G{"not-explicit-revert", "!eq(*,types.ExecutionReverted) || !eq(types.ExecutionReverted,*) || !eq(*,evm.errExecutionReverted)"})
			}
		}
		cw := p.Func("app", "CallWasmContract")
		rv := ir.Calls(cw, "*StateDB.RevertToSnapshot")
		r.Check("K2", "app.CallWasmContract/reverts-on-errors", p.Pos(cw.Pos()), len(rv) >= 2, fmt.Sprintf("both error paths revert (found %d reverts)", len(rv)))
	}

	// ---- a child frame gets no more gas than the caller was charged ----------------------------------
	// CREATE/CREATE2: the amount passed to the child is exactly the amount charged with UseGas just
	// before (all but one 64th). CALL family: the amount is evm.callGasTemp (charged by the gas
	// function as part of the call cost), plus the fixed stipend only when value is transferred.
	{
		for _, opn := range []string{"opCreate", "opCreate2"} {
			fn := p.Func("vm/evm", opn)
			var child ssa.CallInstruction
			for _, call := range ir.Calls(fn, "evm.EVM.Create*") {
				child = call
			}
			ug := ir.Calls(fn, "evm.Contract.UseGas")
			if child == nil || len(ug) != 1 {
				r.Undecided("K5", "child-gas/vm/evm."+opn, p.Pos(fn.Pos()), "Create call or single UseGas not found")
				continue
			}
			charged := Arg(ug[0], 1)
			given := Arg(child, 3)
			r.Check("K5", "child-gas/vm/evm."+opn+"/given==charged", p.InstrPos(child.(ssa.Instruction)), given == charged && ir.Precedes(ug[0].(ssa.Instruction), child.(ssa.Instruction)),
				"child gas "+given+" equals the amount charged with UseGas "+charged+", charged first (opCreate hands over everything, opCreate2 all but one 64th)")
		}
		for _, opn := range []string{"opCall", "opCallCode", "opDelegateCall", "opStaticCall"} {
			fn := p.Func("vm/evm", opn)
			for _, call := range ir.Calls(fn, "evm.EVM.*Call*") {
				gi := 5
				if opn == "opDelegateCall" || opn == "opStaticCall" {
					gi = 4
				}
				// locate the gas argument by type/position: it is the only uint64 argument
				given := ""
				var gv ssa.Value
				for i, a := range call.Common().Args {
					if b, ok := a.Type().Underlying().(*types.Basic); ok && b.Kind() == types.Uint64 {
						given, gv = ir.Render(a), a
						_ = i
					}
				}
				_ = gi
				ok := given == "evm.callGasTemp"
				if ph, isPhi := gv.(*ssa.Phi); isPhi {
					ok = true
					for _, e := range ph.Edges {
						es := ir.Render(e)
						if es != "evm.callGasTemp" && es != "(evm.callGasTemp + config.CallStipend)" && es != "(evm.callGasTemp + 2300)" {
							ok = false
						}
					}
				}
				r.Check("K5", "child-gas/vm/evm."+opn+"/given==callGasTemp", p.InstrPos(call.(ssa.Instruction)), ok, "child gas is evm.callGasTemp (plus the stipend on value transfer): "+given)
			}
		}
	}

	// ---- everything that reads operands off the stack runs after the stack-depth check ------------------
	// enforceRestrictions looks at stack.Back(2) for CALL in a read-only frame; the gas and memory
	// functions read their operands too: all of them are dominated by validateStack(...) == nil.
	{
		run := p.Func("vm/evm", "Interpreter.Run")
		nR := 0
		ir.Instrs(run, func(in ssa.Instruction) {
			call, ok := in.(*ssa.Call)
			if !ok {
				return
			}
			n := ir.CalleeName(call)
			kind := ""
			switch {
			case n == "evm.Interpreter.enforceRestrictions":
				kind = "enforceRestrictions"
			case strings.HasPrefix(n, "dyn:") && strings.HasSuffix(n, ".gasCost"):
				kind = "gasCost"
			case strings.HasPrefix(n, "dyn:") && strings.HasSuffix(n, ".memorySize"):
				kind = "memorySize"
			case strings.HasPrefix(n, "dyn:") && strings.HasSuffix(n, ".execute"):
				kind = "execute"
			}
			if kind != "" {
				nR++
				c.Guards("evm.(*Interpreter).Run", "stack reader "+kind, in, G{"after-stack-validation", "eq(dyn:*.validateStack(stack),nil)"})
			}
		})
		r.Check("K1", "evm.(*Interpreter).Run/stack-readers", p.Pos(run.Pos()), nR >= 4, fmt.Sprintf("%d stack-reading calls found in Run (enforceRestrictions, gasCost, memorySize, execute)", nR))
	}

	// ---- the gas function and the operation agree on which stack word is the value ------------------------
	// CALL and CALLCODE charge the value-transfer surcharge when stack.Back(2) (the value the operation
	// pops third) is non-zero; the operation grants the stipend under the same word.
	for _, gn := range []string{"gasCall", "gasCallCode"} {
		fn := p.Func("vm/evm", gn)
		okSlot := false
		nSign := 0
		ir.Instrs(fn, func(in ssa.Instruction) {
			if call, ok := in.(*ssa.Call); ok && ir.CalleeName(call) == "big.Int.Sign" {
				nSign++
				if Arg(call, 0) == "evm.Stack.Back(stack,2)" {
					okSlot = true
				} else {
					okSlot = false
					nSign += 100
				}
			}
		})
		r.Check("K5", "call-value-slot/vm/evm."+gn, p.Pos(fn.Pos()), okSlot && nSign >= 1 && nSign < 100, "the value-transfer surcharge is decided by stack.Back(2), the word the operation pops as value")
	}

	// ---- slices bounded by 256-bit stack words ---------------------------------------------------
	// A slice bound taken from a big.Int with Uint64() silently truncates: the word must be known
	// to fit 64 bits and to be within the sliced buffer (or be clamped with BigMin to its length).
	{
		nSl := 0
		for _, f := range p.Funcs {
			if f.Pkg == nil || ir.RelPkg(f.Pkg.Pkg) != "vm/evm" || f.Blocks == nil || strings.HasSuffix(p.Pos(f.Pos()), "_test.go") {
				continue
			}
			ir.Instrs(f, func(in ssa.Instruction) {
				sl, ok := in.(*ssa.Slice)
				if !ok || sl.High == nil {
					return
				}
				hc, ok := sl.High.(*ssa.Call)
				if !ok || ir.CalleeName(hc) != "big.Int.Uint64" {
					return
				}
				nSl++
				x := ir.Render(hc.Call.Args[0])
				base := ir.Render(sl.X)
				fs := ir.FactsAt(in)
				fits := ir.HasFact(fs, "le(big.Int.BitLen("+x+"),64)") || ir.HasFact(fs, "big.Int.IsUint64("+x+")")
				within := ir.HasFact(fs, "le(big.Int.Uint64("+x+"),len("+base+"))") || ir.HasFact(fs, "le(big.Int.Uint64("+x+"),uint64(len("+base+")))")
				clamped := strings.HasPrefix(x, "math.BigMin(") && strings.HasSuffix(x, ",big.NewInt(len("+base+")))")
				r.Check("K1", "evm/slice-bound/"+ir.FuncName(f), p.InstrPos(in), (fits && within) || clamped,
					fmt.Sprintf("%s[..:%s.Uint64()] needs BitLen<=64 and <= len (fits %v, within %v) or a BigMin clamp to the length (%v)", short(base, 50), short(x, 80), fits, within, clamped))
			})
		}
		r.Check("K1", "evm/slice-bound/sites", "-", nSl >= 2, fmt.Sprintf("%d slices bounded by big.Int.Uint64() found in vm/evm (confirmed by hand: 2)", nSl))
	}

	// ---- JUMPDEST analysis belongs to the code it was computed from -----------------------------------
	// The analysis map is shared by all frames of a transaction and keyed by code hash. Init code runs
	// without a hash (SetCodeOptionalHash): under the empty key two different codes would share one
	// bitmap, and the bitmap of a shorter code indexed with a destination inside a longer one panics.
	// (a) every lookup in the shared map happens under a code hash known to be set; (b) a bitmap is
	// only ever computed from the code it is stored for; (c) the destination is inside the code before
	// code and bitmap are indexed.
	{
		has := p.Func("vm/evm", "destinations.has")
		nSites := 0
		for _, cs := range p.CallSites(has.Object().(*types.Func)) {
			if strings.HasSuffix(p.Pos(cs.Fn.Pos()), "_test.go") {
				continue
			}
			nSites++
			in := cs.Instr.(ssa.Instruction)
			key := Arg(cs.Instr, 1)
			fs := ir.FactsAt(in)
			set := ir.HasFact(fs, "!eq("+key+",zero:common.Hash)") || strings.HasPrefix(key, "crypto.Keccak256Hash(") || strings.HasPrefix(key, "evm.codeAndHash.Hash(")
			r.Check("K1", "evm/jumpdest-analysis/shared-only-under-set-hash/"+ir.FuncName(cs.Fn), p.InstrPos(in), set, "the shared analysis map is consulted only with a non-empty code hash: key "+short(key, 80))
			r.Check("K5", "evm/jumpdest-analysis/hash-and-code-of-one-contract/"+ir.FuncName(cs.Fn), p.InstrPos(in),
				strings.HasSuffix(key, ".CodeHash") && Arg(cs.Instr, 2) == strings.TrimSuffix(key, ".CodeHash")+".Code", "hash and code passed to the analysis belong to the same contract: "+short(key, 60)+" / "+short(Arg(cs.Instr, 2), 60))
		}
		r.Check("K1", "evm/jumpdest-analysis/sites", p.Pos(has.Pos()), nSites >= 1, fmt.Sprintf("%d lookups in the shared analysis map", nSites))
		// (b) bitmaps
		nMaps := 0
		for _, f := range p.Funcs {
			if f.Pkg == nil || ir.RelPkg(f.Pkg.Pkg) != "vm/evm" || strings.HasSuffix(p.Pos(f.Pos()), "_test.go") {
				continue
			}
			ir.Instrs(f, func(in ssa.Instruction) {
				switch x := in.(type) {
				case *ssa.MapUpdate:
					if !strings.HasSuffix(x.Map.Type().String(), "evm.destinations") {
						return
					}
					nMaps++
					r.Check("K5", "evm/jumpdest-analysis/bitmap-of-the-keyed-code/"+ir.FuncName(f), p.InstrPos(in),
						f == has && ir.Render(x.Key) == "codehash" && ir.Render(x.Value) == "evm.codeBitmap(code)", "the shared map is filled only by destinations.has with codeBitmap(code) under codehash: "+short(ir.Render(x.Value), 80))
				}
			})
		}
		var private []ir.Store
		if fv := p.TryField("vm/evm", "Contract.analysis"); fv != nil {
			private = p.Stores(fv)
		}
		for _, s := range private {
			if strings.HasSuffix(p.Pos(s.Fn.Pos()), "_test.go") {
				continue
			}
			nMaps++
			base := ir.Render(s.Base)
			r.Check("K5", "evm/jumpdest-analysis/bitmap-of-own-code/"+ir.FuncName(s.Fn), p.InstrPos(s.Instr), ir.Render(s.Val) == "evm.codeBitmap("+base+".Code)", "a frame's private analysis is computed from the frame's code: "+short(ir.Render(s.Val), 80))
		}
		r.Check("K5", "evm/jumpdest-analysis/bitmaps", "-", nMaps >= 1, fmt.Sprintf("%d places that store an analysis", nMaps))
		// Contract.Code never changes without CodeHash changing with it (a stale hash would key the
		// shared analysis of other code)
		for _, s := range p.Stores(p.Field("vm/evm", "Contract.Code")) {
			if strings.HasSuffix(p.Pos(s.Fn.Pos()), "_test.go") || s.Kind != "store" {
				continue
			}
			together := false
			for _, h := range p.Stores(p.Field("vm/evm", "Contract.CodeHash")) {
				if h.Fn == s.Fn && h.Kind == "store" && ir.Render(h.Base) == ir.Render(s.Base) {
					together = true
				}
			}
			r.Check("K5", "evm/jumpdest-analysis/code-set-with-hash/"+ir.FuncName(s.Fn), p.InstrPos(s.Instr), together, "Contract.Code is assigned only together with CodeHash")
		}
		// (c) bounds before indexing
		nIdx := 0
		for _, f := range []*ssa.Function{has, p.TryFunc("vm/evm", "Contract.validJumpdest")} {
			if f == nil {
				continue
			}
			ir.Instrs(f, func(in ssa.Instruction) {
				call, ok := in.(*ssa.Call)
				var idx, code string
				switch {
				case ok && ir.CalleeName(call) == "evm.bitvec.codeSegment":
					idx = Arg(call, 1)
				default:
					u, isLoad := in.(*ssa.UnOp)
					if !isLoad {
						return
					}
					ia, isIdx := u.X.(*ssa.IndexAddr)
					if !isIdx {
						return
					}
					idx = ir.Render(ia.Index)
				}
				if f == has {
					code = "code"
				} else {
					code = "c.Code"
				}
				nIdx++
				fs := ir.FactsAt(in)
				r.Check("K1", "evm/jumpdest-analysis/destination-inside-code/"+ir.FuncName(f), p.InstrPos(in),
					ir.HasFact(fs, "lt("+idx+",len("+code+"))") && ir.HasFact(fs, "lt(big.Int.BitLen(dest),63)"), "code and bitmap are indexed with a destination below len(code) that fits 63 bits: "+short(idx, 60))
			})
		}
		r.Check("K1", "evm/jumpdest-analysis/index-sites", "-", nIdx >= 2, fmt.Sprintf("%d index sites (confirmed by hand: 2 per function)", nIdx))
	}

	// ---- an operation that could not be paid leaves no fee behind ---------------------------------------------
	// The gas function of a value-transferring op records the transfer fee in evm.fees (feeSaved) BEFORE
	// the interpreter knows whether the op can be paid. On both failure paths (gas function error, UseGas
	// false) the entry is popped; only the part the remaining gas really covered may be re-appended.
	// A fee that stays recorded although it was never charged comes back as refunded gas: more gas out
	// than was put in.
	{
		run := p.Func("vm/evm", "Interpreter.Run")
		isPop := func(in ssa.Instruction) bool {
			st, ok := in.(*ssa.Store)
			return ok && ir.Render(st.Addr) == "&in.evm.fees" && ir.Render(st.Val) == "in.evm.fees[:(len(in.evm.fees) - 1)]"
		}
		n := 0
		ir.Instrs(run, func(in ssa.Instruction) {
			ifi, ok := in.(*ssa.If)
			if !ok || ir.Render(ifi.Cond) != "in.evm.feeSaved" {
				return
			}
			n++
			tb := ifi.Block().Succs[0]
			found, hit, tr := ir.FindPath(ir.PathQuery{From: ir.Point{B: tb, I: -1}, Target: ir.IsReturn, Avoid: isPop})
			d := "on a failing operation with a saved fee the fee entry is popped before the frame returns"
			if found {
				d += fmt.Sprintf(" — but %s is reached without the pop, blocks %v", p.InstrPos(hit), tr)
			}
			r.Check("K2", "evm.(*Interpreter).Run/unpaid-fee-popped", p.InstrPos(in), !found, d)
		})
		r.Check("K2", "evm.(*Interpreter).Run/unpaid-fee-popped/sites", p.Pos(run.Pos()), n >= 2, fmt.Sprintf("%d failure paths with a saved fee (gas function error, UseGas false)", n))
		// the flag says "THIS operation saved a fee": it is lowered at the start of every operation. The flag
		// lives on the EVM and is raised inside the loop by the gas functions; lowered once per frame it stays
		// up for every later operation of the frame, and an ordinary out-of-gas pops a fee list that is empty.
		{
			okReset := false
			where := p.Pos(run.Pos())
			for _, st := range p.Stores(p.Field("vm/evm", "EVM.feeSaved")) {
				if st.Fn != run || ir.Render(st.Val) != "false" {
					continue
				}
				where = p.InstrPos(st.Instr)
				for _, l := range ir.Loops(run) {
					if !l.Body[st.Instr.Block()] {
						continue
					}
					// every iteration passes the reset before it reads the flag
					reads := func(in ssa.Instruction) bool {
						ifi, ok := in.(*ssa.If)
						return ok && ir.Render(ifi.Cond) == "in.evm.feeSaved"
					}
					found, _, _ := ir.FindPath(ir.PathQuery{From: ir.Point{B: l.Header, I: -1}, Target: reads, Avoid: func(in ssa.Instruction) bool { return in == st.Instr }})
					if !found {
						okReset = true
					}
				}
			}
			r.Check("K2", "evm.(*Interpreter).Run/fee-flag-lowered-per-operation", where, okReset, "in.evm.feeSaved = false sits inside the interpreter loop and precedes every read of the flag in the iteration")
		}
		// what is re-appended is what the remaining gas covered beyond the op's own cost
		for _, st := range p.Stores(p.Field("vm/evm", "EVM.fees")) {
			if st.Fn != run || st.Kind != "store" {
				continue
			}
			v := ir.Render(st.Val)
			if strings.HasPrefix(v, "append(") {
				r.Check("K11", "evm.(*Interpreter).Run/partial-fee-is-covered-part", p.InstrPos(st.Instr), ir.Match("append(in.evm.fees,[(contract.Gas - (cost - in.evm.fees[*]))])", v) && ir.HasFact(ir.FactsAt(st.Instr), "lt((cost - in.evm.fees[*]),contract.Gas)"),
					"re-appended fee = contract.Gas - (cost - fee), only when that is positive: "+short(v, 120))
			}
		}
		// and no element of the list is rewritten in place
		for _, st := range p.Stores(p.Field("vm/evm", "EVM.fees")) {
			if strings.HasSuffix(p.Pos(st.Fn.Pos()), "_test.go") {
				continue
			}
			r.Check("K3", "evm/fees-append-or-truncate-only/"+ir.FuncName(ir.EnclosingTop(st.Fn)), p.InstrPos(st.Instr), st.Kind != "elem", "evm.fees is only appended to, truncated or reset, never edited in place")
		}
	}

	// ---- the gas handed to a callee is the gas that was charged for it ---------------------------------------------
	// The gas function of every call-family opcode computes the forwarded amount with callGas(..) and
	// leaves it in evm.callGasTemp; the opcode's execute function forwards evm.callGasTemp. A gas function
	// that keeps the amount in a local makes the opcode forward what the PREVIOUS call left there: gas
	// nobody paid for.
	{
		cgt := p.Field("vm/evm", "EVM.callGasTemp")
		stored := map[*ssa.Function]bool{}
		for _, s := range p.Stores(cgt) {
			if strings.HasPrefix(ir.Render(s.Val), "evm.callGas(") && strings.HasSuffix(ir.Render(s.Val), "#0") {
				stored[s.Fn] = true
			}
		}
		nG := 0
		for _, f := range p.Funcs {
			if f.Pkg == nil || ir.RelPkg(f.Pkg.Pkg) != "vm/evm" || f.Blocks == nil || strings.HasSuffix(p.Pos(f.Pos()), "_test.go") {
				continue
			}
			if len(ir.Calls(f, "evm.callGas")) == 0 {
				continue
			}
			nG++
			r.Check("K5", "evm/forwarded-gas/"+ir.FuncName(f)+"/left-in-callGasTemp", p.Pos(f.Pos()), stored[f], "the result of callGas is stored in evm.callGasTemp, as in the sibling gas functions")
		}
		nR := 0
		for _, f := range p.Funcs {
			if f.Pkg == nil || ir.RelPkg(f.Pkg.Pkg) != "vm/evm" || f.Blocks == nil || !strings.HasPrefix(f.Name(), "op") {
				continue
			}
			reads := false
			ir.Instrs(f, func(in ssa.Instruction) {
				if fa, ok := in.(*ssa.FieldAddr); ok && ir.FieldVar(fa.X, fa.Field) == cgt {
					reads = true
				}
			})
			if reads {
				nR++
			}
		}
		r.Check("K5", "evm/forwarded-gas/sites", "-", nG >= 4 && nR == nG, fmt.Sprintf("%d gas functions compute a forwarded amount, %d opcodes forward evm.callGasTemp", nG, nR))
	}

	// ---- the code hash of a frame is the hash of ITS code -------------------------------------------------------------
	// The JUMPDEST analysis is cached by contract.CodeHash and shared by all frames: a frame whose hash
	// names other code than it runs validates jumps against the wrong bitmap (out of range, or a PUSH
	// operand taken for a JUMPDEST). Every SetCallCode takes hash and code from the same address.
	{
		n := 0
		for _, f := range p.Funcs {
			if f.Pkg == nil || ir.RelPkg(f.Pkg.Pkg) != "vm/evm" || f.Blocks == nil || strings.HasSuffix(p.Pos(f.Pos()), "_test.go") {
				continue
			}
			for _, call := range ir.Calls(f, "evm.Contract.SetCallCode") {
				h, cd := Arg(call, 2), Arg(call, 3)
				hm := regexp.MustCompile(`GetCodeHash\([^,]*,(.*)\)$`).FindStringSubmatch(h)
				cm := regexp.MustCompile(`GetCode\([^,]*,(.*)\)$`).FindStringSubmatch(cd)
				if hm == nil || cm == nil {
					continue // hash and code handed in by the caller (create: hash of the init code)
				}
				n++
				r.Check("K5", "evm/code-hash-of-own-code/"+ir.FuncName(f), p.InstrPos(call.(ssa.Instruction)), hm[1] == cm[1], "GetCodeHash and GetCode are asked for the same address: "+hm[1]+" / "+cm[1])
			}
		}
		r.Check("K5", "evm/code-hash-of-own-code/sites", "-", n >= 4, fmt.Sprintf("%d frames take hash and code from the state", n))
	}

	// ---- the state owns its balances ------------------------------------------------------------------------------------
	// The EVM hands stack integers to Add/Sub[Token]Balance and then recycles them through the interpreter's
	// integer pool. The state object therefore stores a NEW big.Int (the sum/difference), never the caller's
	// pointer: a stored alias is overwritten by the next PUSH, outside the journal.
	{
		n := 0
		for _, m := range []string{"AddBalance", "SubBalance", "AddTokenBalance", "SubTokenBalance"} {
			f := p.TryFunc("state", "stateObject."+m)
			if f == nil {
				continue
			}
			for _, call := range ir.CallsDeep(f, "state.stateObject.Set*Balance") {
				n++
				args := call.Common().Args
				v := args[len(args)-1]
				_, isParam := v.(*ssa.Parameter)
				s := ir.Render(v)
				r.Check("K4", "state.(*stateObject)."+m+"/stores-a-new-integer", p.InstrPos(call.(ssa.Instruction)), !isParam && (strings.HasPrefix(s, "big.Int.Add(&new:big.Int") || strings.HasPrefix(s, "big.Int.Sub(&new:big.Int")), "the balance stored is a freshly allocated sum/difference, never the caller's amount: "+short(s, 80))
			}
		}
		r.Check("K4", "state.(*stateObject)/balance-setters/sites", "-", n >= 4, fmt.Sprintf("%d Set*Balance calls in Add/Sub[Token]Balance", n))
	}

	// ---- a frame always has a value ------------------------------------------------------------------------
	// CALLVALUE copies contract.value into a pooled integer (big.Int.Set): a nil value panics inside the
	// interpreter. Every frame is created with a non-nil value, except the delegate frame, whose value
	// AsDelegate takes from the parent.
	{
		n := 0
		for _, f := range p.Funcs {
			if f.Pkg == nil || ir.RelPkg(f.Pkg.Pkg) != "vm/evm" || f.Blocks == nil || strings.HasSuffix(p.Pos(f.Pos()), "_test.go") {
				continue
			}
			for _, call := range ir.Calls(f, "evm.NewContract") {
				n++
				v := Arg(call, 2)
				okV := v != "nil"
				if !okV {
					// ... immediately turned into a delegate frame
					if cv, isV := call.(ssa.Value); isV && cv.Referrers() != nil {
						for _, u := range *cv.Referrers() {
							if uc, isC := u.(*ssa.Call); isC && ir.CalleeName(uc) == "evm.Contract.AsDelegate" {
								okV = true
							}
						}
					}
				}
				r.Check("K1", "evm/frame-value-non-nil/"+ir.FuncName(f), p.InstrPos(call.(ssa.Instruction)), okV, "NewContract gets a non-nil value (or the frame is a delegate frame): "+v)
			}
		}
		r.Check("K1", "evm/frame-value-non-nil/sites", "-", n >= 6, fmt.Sprintf("%d frames created", n))
	}

	// ---- one EVM serves every transaction of a block: Reset empties the per-transaction lists --------------------
	// fees / refundFees / otxs are read by the state transition after each transaction (refunds are added
	// back to the sender's gas). What survives Reset is refunded again to the next transaction.
	{
		rs := p.Func("vm/evm", "EVM.Reset")
		for _, fld := range []string{"fees", "refundFees", "otxs"} {
			okE := false
			for _, s := range p.Stores(p.Field("vm/evm", "EVM."+fld)) {
				if s.Fn != rs || s.Kind != "store" {
					continue
				}
				v := ir.Render(s.Val)
				okE = regexp.MustCompile(`^make('\d+)?\(\[\][\w.]+,0\)$`).MatchString(v) || strings.HasSuffix(v, "[:0]")
				r.Check("K2", "evm.(*EVM).Reset/emptied:"+fld, p.InstrPos(s.Instr), okE, "the list is replaced by an empty one (make(.., 0) or x[:0]): "+short(v, 60))
			}
			if !okE {
				r.Check("K2", "evm.(*EVM).Reset/emptied:"+fld+"/found", p.Pos(rs.Pos()), false, "Reset empties evm."+fld)
			}
		}
	}

	// ---- a zero-length memory region is never touched ----------------------------------------------------------
	// Memory is expanded for [offset, offset+size) only when size > 0 (calcMemSize returns 0 for a
	// zero-length region, whatever the offset). Memory.Set must therefore be a no-op exactly when SIZE is
	// zero — not when the value is empty: CALL with retSize = 0 and a huge retOffset hands Set the callee's
	// (non-empty) return data, and testing len(value) instead reaches the "store empty" panic.
	{
		ms := p.Func("vm/evm", "Memory.Set")
		n := 0
		ir.Instrs(ms, func(in ssa.Instruction) {
			touch := false
			switch x := in.(type) {
			case *ssa.Panic:
				touch = true
			case *ssa.Slice:
				touch = strings.Contains(ir.Render(x.X), "m.store")
			}
			if !touch {
				return
			}
			n++
			c.Guards("evm.(*Memory).Set", "touch store", in, G{"region-non-empty", "lt(0,size)"})
		})
		c.MustFind("K1", "evm.(*Memory).Set/touch store", ms, n, "store access")
	}

	// ---- what is pushed on the stack belongs to the stack ------------------------------------------------
	// Operations compute IN PLACE on stack words (x.Add(x, y)). A word that is a live object of the
	// state (the *big.Int a balance getter returns) or a shared constant (common.Big0) would be changed
	// by the next arithmetic opcode without a journal entry: a reverted frame leaves the balance changed.
	// Every pushed value is a pool/new integer, a word taken from the stack, or the receiver-returning
	// result of a big.Int method on such a value.
	{
		eff := ir.DefaultEffects(p)
		var owned func(v ssa.Value, d int) bool
		owned = func(v ssa.Value, d int) bool {
			if d > 8 {
				return false
			}
			switch x := v.(type) {
			case *ssa.Phi:
				for _, e := range x.Edges {
					if !owned(e, d+1) {
						return false
					}
				}
				return true
			case *ssa.Extract:
				return owned(x.Tuple, d+1)
			case *ssa.Call:
				n := ir.CalleeName(x)
				switch {
				case strings.HasSuffix(n, "evm.intPool.get"), strings.HasSuffix(n, "evm.intPool.getZero"), strings.HasSuffix(n, "big.NewInt"):
					return true
				case strings.HasSuffix(n, "evm.Stack.pop"), strings.HasSuffix(n, "evm.Stack.peek"), strings.HasSuffix(n, "evm.Stack.Back"):
					return true
				case strings.HasPrefix(n, "big.Int.") && len(x.Call.Args) > 0:
					return owned(x.Call.Args[0], d+1) // returns its receiver
				case strings.HasSuffix(n, "math.U256"), strings.HasSuffix(n, "math.S256"):
					return len(x.Call.Args) > 0 && owned(x.Call.Args[0], d+1)
				}
			}
			return eff.Fresh(v)
		}
		nPush := 0
		var bad []string
		for _, f := range p.Funcs {
			if f.Pkg == nil || ir.RelPkg(f.Pkg.Pkg) != "vm/evm" || f.Blocks == nil || strings.HasSuffix(p.Pos(f.Pos()), "_test.go") {
				continue
			}
			if f.Name() == "put" && strings.Contains(ir.FuncName(f), "intPool") {
				continue // the pool's own free list, not a machine stack
			}
			for _, call := range ir.Calls(f, "evm.Stack.push") {
				nPush++
				args := operandArgs(call)
				if len(args) < 2 || !owned(args[1], 0) {
					bad = append(bad, fmt.Sprintf("%s: %s pushes %s", p.InstrPos(call.(ssa.Instruction)), ir.FuncName(f), short(Arg(call, 1), 80)))
				}
			}
		}
		r.Check("K4", "evm/stack-owns-its-words", "-", len(bad) == 0, fmt.Sprintf("%d push sites inspected; pushes of values the stack does not own: %v", nPush, bad))
		r.Check("K4", "evm/stack-owns-its-words/sites", "-", nPush >= 50, fmt.Sprintf("%d push sites (confirmed: 58)", nPush))
	}

	// ---- determinism / crash-free in vm/evm ---------------------------------------------------
	{
		reach := ir.ReachableIn([]*ssa.Function{p.Func("vm/evm", "Interpreter.Run")}, func(f *ssa.Function) bool {
			return f.Pkg != nil && ir.RelPkg(f.Pkg.Pkg) == "vm/evm"
		})
		// the jump table is reached through stored function values: add every function referenced by an operation literal
		for _, fn := range p.Funcs {
			if fn.Pkg != nil && ir.RelPkg(fn.Pkg.Pkg) == "vm/evm" && (strings.HasPrefix(fn.Name(), "op") || strings.HasPrefix(fn.Name(), "gas") || strings.HasPrefix(fn.Name(), "memory") || strings.HasPrefix(fn.Name(), "make")) && fn.Parent() == nil {
				for f := range ir.ReachableIn([]*ssa.Function{fn}, func(f *ssa.Function) bool { return f.Pkg != nil && ir.RelPkg(f.Pkg.Pkg) == "vm/evm" }) {
					reach[f] = true
				}
			}
		}
		r.Stats["vm/evm functions reachable from Run + jump table"] = len(reach)
		if len(reach) < 150 {
			r.Undecided("K9", "evm/reachability", "-", fmt.Sprintf("reachable set collapsed to %d", len(reach)))
		}
		allowedPanic := map[string]string{}
		var fns []*ssa.Function
		for f := range reach {
			fns = append(fns, f)
		}
		sort.Slice(fns, func(i, j int) bool { return ir.FuncName(fns[i]) < ir.FuncName(fns[j]) })
		var panics, nondet []string
		for _, f := range fns {
			fname := ir.FuncName(f)
			isTracer := strings.Contains(fname, "Logger") || strings.Contains(fname, "Tracer") || strings.Contains(fname, "logger")
			ir.Instrs(f, func(in ssa.Instruction) {
				switch x := in.(type) {
				case *ssa.Panic:
					panics = append(panics, fname+": "+short(ir.Render(x.X), 60)+" @"+p.InstrPos(in))
				case *ssa.Range:
					if _, isMap := x.X.Type().Underlying().(*types.Map); isMap && !isTracer {
						nondet = append(nondet, fname+": range over map @"+p.InstrPos(in))
					}
				case *ssa.Go:
					nondet = append(nondet, fname+": go statement @"+p.InstrPos(in))
				case *ssa.Call:
					n := ir.CalleeName(x)
					if strings.HasPrefix(n, "rand.") {
						nondet = append(nondet, fname+": "+n+" @"+p.InstrPos(in))
					}
				}
			})
		}
		r.Extra["evm_panic_sites"] = panics
		r.Extra["evm_nondeterminism_sites"] = nondet
		// reviewed tables (site = function)
		reviewedPanic := map[string]string{
			"vm/evm.(*Memory).Set":      "guarded: the interpreter resizes memory to memorySize before execute (registry rule above); size mismatch is an interpreter bug, not program-controlled",
			"vm/evm.(*Memory).Set32":    "as Memory.Set",
			"vm/evm.(*intPool).put":     "only under the verifyPool build flag",
			"vm/evm.verifyIntegerPool":  "only under the verifyPool build flag",
			"vm/evm.opSuicide":          "",
			"vm/evm.(*Interpreter).Run": "",
			"vm/evm.(*EVM).create":      "",
			"vm/evm.makeDupStackFunc":   "",
			"vm/evm.makeSwapStackFunc":  "",
		}
		_ = allowedPanic
		for _, s := range panics {
			fn := strings.SplitN(s, ": ", 2)[0]
			why, ok := reviewedPanic[fn]
			r.Check("K9", "evm-panic/"+fn, s[strings.LastIndex(s, "@")+1:], ok && why != "", "explicit panic reachable from Run must be in the reviewed table with a reason that it is not program-controlled: "+s+" — "+why)
		}
		reviewedNondet := map[string]string{}
		for _, s := range nondet {
			fn := strings.SplitN(s, ": ", 2)[0]
			why, ok := reviewedNondet[fn]
			r.Check("K7", "evm-nondeterminism/"+fn, s[strings.LastIndex(s, "@")+1:], ok, "source of nondeterminism in EVM execution code must be reviewed: "+s+" — "+why)
		}
		r.Check("K7", "evm-nondeterminism/scan", "-", true, fmt.Sprintf("scanned %d functions: %d map ranges/go/rand sites outside the tracer", len(fns), len(nondet)))
	}
}

var _ = report.Discharged
