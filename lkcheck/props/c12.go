package props

import (
	"fmt"
	"go/types"
	"regexp"
	"sort"
	"strings"

	"golang.org/x/tools/go/ssa"

	"lkcheck/ir"
	"lkcheck/report"
)

func init() { Registry["C12"] = C12 }

// C12 Block identity commits to content; parts reassemble only the original.
func C12(p *ir.Program, r *report.R) {
	c := C{p, r}
	r.Floor = 45
	r.Explain = "Decided: (a) Header.Hash covers every exported Header field under its own name (exemption: Recover, see DESIGN) ; (b) block ids are compared whole (BlockID.Equals/PartSetHeader.Equals/BlockID.Key field coverage) ; (c) Block.ValidateBasic ties LastCommitHash/DataHash/EvidenceHash/NumTxs to the content and every mismatch returns an error; the list hashes cover every element in order (split coverage); (d) PartSet.AddPart admits a part only under 0 <= index < total, empty slot and a Merkle proof of part.Hash() at that index under the set's hash; SimpleProof.Verify / computeHashFromAunts reject out-of-range indices and compare with the root; Part.Hash hashes part.Bytes; (e) the proposal block is decoded only from a complete part set, read in index order; ProposalBlockParts is only created from a signature-checked proposal header or a +2/3 block id; fast sync builds the block id from block hash AND part-set header. ADDED after seeded-change testing: every calc*Key builder of the block store is an injective piece sequence (decimal fields separated by a constant non-digit, fixed-width fields free) and no family prefix is a prefix of another, so a stored part is found only under its own (height,index) Rounds 4-5: AddPart checks and inserts in one critical section; block and part set replaced together; BlockID key lossless. Round 6: a Merkle level is combined only while aunts are left and the leaf hash is returned as such only when none is left. Round 7: PartSet.HasHeader compares the whole header (Total and Hash). NOT decided: collision resistance of Keccak/merkle, equality of reassembled bytes as a value property."
	r.Trusted = []string{"crypto.Keccak256, merkle.SimpleHashFromTwoHashes (hash functions)", "libs/ser encoding (C11)"}

	// (a) header hash coverage
	{
		fn := p.Func("types", "Header.Hash")
		st := p.Struct("types", "Header")
		exempt := map[string]string{
			"Recover": "not in the header hash; committed through the part-set hash which every block-id comparison includes (checked below)",
			"bloom":   "unexported cache, never encoded",
		}
		covered := map[string]string{}
		ir.Instrs(fn, func(in ssa.Instruction) {
			mu, ok := in.(*ssa.MapUpdate)
			if !ok {
				return
			}
			covered[strings.Trim(ir.Render(mu.Key), `"`)] = ir.Render(mu.Value)
		})
		for i := 0; i < st.NumFields(); i++ {
			f := st.Field(i)
			if why, ok := exempt[f.Name()]; ok {
				_, inHash := covered[f.Name()]
				r.Check("K4", "types.(*Header).Hash/exempt:"+f.Name(), p.Pos(f.Pos()), true, fmt.Sprintf("exempted (%s); currently hashed: %v", why, inHash))
				continue
			}
			v, ok := covered[f.Name()]
			good := ok && ir.Match("*aminoHasher(h."+f.Name()+")", v)
			r.Check("K4", "types.(*Header).Hash/field:"+f.Name(), p.Pos(f.Pos()), good,
				fmt.Sprintf("header field must be hashed under its own name with its own value; map entry: %q", v))
		}
		// the map is what is hashed and returned
		ok := false
		for _, rt := range ir.Returns(fn) {
			if ir.Match("*BytesToHash(*SimpleHashFromMap(*))", ir.Render(rt.Results[0])) {
				ok = true
			}
		}
		r.Check("K4", "types.(*Header).Hash/result", p.Pos(fn.Pos()), ok, "result is BytesToHash(SimpleHashFromMap(fields))")
		// Block.Hash returns the header hash
		bh := p.Func("types", "Block.Hash")
		r.Check("K4", "types.(*Block).Hash/header-hash", p.Pos(bh.Pos()), len(ir.Calls(bh, "*Header.Hash")) == 1, "Block.Hash is computed by Header.Hash")
		ht := p.Func("types", "Block.HashesTo")
		okHT := false
		for _, rt := range ir.Returns(ht) {
			if ir.Match("bytes.Equal(*Hash.Bytes(*Block.Hash(b)),hash)", ir.Render(rt.Results[0])) {
				okHT = true
			}
		}
		r.Check("K1", "types.(*Block).HashesTo/compare", p.Pos(ht.Pos()), okHT, "HashesTo returns bytes.Equal(b.Hash().Bytes(), hash)")
	}

	// (b) whole-id comparison: every field of the struct is mentioned on both sides
	c12Mentions(c, "types", "BlockID.Equals", "BlockID", "blockID", "other")
	c12Mentions(c, "types", "PartSetHeader.Equals", "PartSetHeader", "psh", "other")
	c12Mentions(c, "types", "BlockID.Key", "BlockID", "blockID")
	{
		fn := p.Func("types", "BlockID.Equals")
		ok := false
		for _, rt := range ir.Returns(fn) {
			_ = rt
			ok = true
		}
		_ = ok
		// BlockID.Equals: true only if both comparisons hold — interpret over the two boolean leaves
		d := ir.Domain{Axes: []ir.Axis{
			ir.BoolAxis("hashEq", "bytes.Equal(common.Hash.Bytes(blockID.Hash),common.Hash.Bytes(other.Hash))"),
			ir.BoolAxis("partsEq", "types.PartSetHeader.Equals(blockID.PartsHeader,other.PartsHeader)"),
		}}
		rows := ir.Enumerate(fn, d, ir.InterpOpts{})
		c.Table("types.BlockID.Equals/conjunction", fn, rows, func(row ir.Row) string {
			if row.Has("hashEq") && row.Has("partsEq") {
				return "return(true)"
			}
			return "return(false)"
		}, func(row ir.Row) string { return normBoolRet(row) })
		fn2 := p.Func("types", "PartSetHeader.Equals")
		d2 := ir.Domain{Axes: []ir.Axis{
			ir.EqAxis("total", "psh.Total", "other.Total"),
			ir.BoolAxis("hashEq", "bytes.Equal(psh.Hash,other.Hash)"),
		}}
		rows2 := ir.Enumerate(fn2, d2, ir.InterpOpts{})
		c.Table("types.PartSetHeader.Equals/conjunction", fn2, rows2, func(row ir.Row) string {
			if row.Has("total=") && row.Has("hashEq") {
				return "return(true)"
			}
			return "return(false)"
		}, func(row ir.Row) string { return normBoolRet(row) })
	}

	// (c) derived hashes
	{
		fn := p.Func("types", "Block.ValidateBasic")
		name := "types.(*Block).ValidateBasic"
		n := 0
		for _, rt := range ir.Returns(fn) {
			if ir.AbstractResult(rt.Results[0]) != "nil" {
				continue
			}
			n++
			c.Guards(name, "return nil", rt.Instr,
				G{"block-non-nil", "!eq(b,nil)"},
				G{"NumTxs", ir.EqPat("b.Header.NumTxs", "len(b.Data.Txs)")},
				G{"LastCommitHash", "bytes.Equal(*Hash.Bytes(b.Header.LastCommitHash),*Hash.Bytes(*Commit.Hash(b.LastCommit)))"},
				G{"DataHash", "bytes.Equal(*Hash.Bytes(b.Header.DataHash),*Hash.Bytes(*Data.Hash(b.Data)))"},
				G{"EvidenceHash", "bytes.Equal(*Hash.Bytes(b.Header.EvidenceHash),*Hash.Bytes(*EvidenceData.Hash(&b.Evidence)))"},
			)
		}
		c.MustFind("K1", name+"/return nil", fn, n, "nil-error return")
		// commit validated for heights > 1
		for _, call := range ir.Calls(fn, "*Commit.ValidateBasic") {
			r.Check("K1", name+"/LastCommit.ValidateBasic", p.InstrPos(call), Arg(call, 0) == "b.LastCommit", "validates b.LastCommit")
		}
		// list hashes cover all elements
		c12Split(c, "types", "Txs.Hash", "txs")
		c12Split(c, "types", "EvidenceList.Hash", "evl")
		// Data.Hash uses Txs.Hash of its own Txs; EvidenceData.Hash its own list
		dh := p.Func("types", "Data.Hash")
		okD := false
		for _, call := range ir.Calls(dh, "*Txs.Hash") {
			if Arg(call, 0) == "data.Txs" {
				okD = true
			}
		}
		r.Check("K4", "types.(*Data).Hash/txs", p.Pos(dh.Pos()), okD, "Data.Hash hashes data.Txs")
		eh := p.Func("types", "EvidenceData.Hash")
		okE := false
		for _, call := range ir.Calls(eh, "*EvidenceList.Hash") {
			if Arg(call, 0) == "data.Evidence" {
				okE = true
			}
		}
		r.Check("K4", "types.(*EvidenceData).Hash/list", p.Pos(eh.Pos()), okE, "EvidenceData.Hash hashes data.Evidence")
		// Commit.Hash: one hasher per precommit, same index
		ch := p.Func("types", "Commit.Hash")
		okC := false
		ir.Instrs(ch, func(in ssa.Instruction) {
			if st, ok := in.(*ssa.Store); ok {
				a, v := ir.Render(st.Addr), ir.Render(st.Val)
				ma := regexp.MustCompile(`^&make\(.*\)\[(.+)\]$`).FindStringSubmatch(a)
				mv := regexp.MustCompile(`aminoHasher\(commit\.Precommits\[(.+)\]\)$`).FindStringSubmatch(v)
				if ma != nil && mv != nil && ma[1] == mv[1] {
					okC = true
				}
			}
		})
		r.Check("K4", "types.(*Commit).Hash/per-precommit", p.Pos(ch.Pos()), okC, "bs[i] = aminoHasher(commit.Precommits[i]) for the same i")
		okC2 := false
		for _, mk := range ir.Calls(ch, "*SimpleHashFromHashers") {
			_ = mk
			okC2 = true
		}
		r.Check("K4", "types.(*Commit).Hash/merkle", p.Pos(ch.Pos()), okC2, "commit hash is the merkle root of the per-precommit hashers")
		// application compares the data hash before executing (both CheckBlock variants)
		for _, fnn := range []string{"LinkApplication.CheckBlock", "LinkApplication.CheckBlockInCommit"} {
			f := p.TryFunc("app", fnn)
			if f == nil {
				continue
			}
			found := 0
			for _, rt := range ir.Returns(f) {
				if ir.AbstractResult(rt.Results[0]) != "true" {
					continue
				}
				found++
				c.Guards("app.(*"+strings.Replace(fnn, ".", ").", 1), "return true", rt.Instr,
					G{"data-hash", ir.EqPat("block.Header.DataHash", "*Data.Hash(block.Data)")})
			}
			c.MustFind("K1", "app."+fnn+"/return true", f, found, "return true")
		}
	}

	// (d) part admission
	c12AddPart(c, "C12")
	{
		ph := p.Func("types", "Part.Hash")
		ok := false
		for _, call := range ir.Calls(ph, "crypto.Keccak256") {
			if strings.Contains(ir.RenderCall(call), "part.Bytes") {
				ok = true
			}
		}
		r.Check("K4", "types.(*Part).Hash/bytes", p.Pos(ph.Pos()), ok, "the part hash is Keccak256 of part.Bytes")
		// writers of the cache field
		c.WhoMayWrite("types", "Part.hash", "types.(*Part).Hash")
		vf := p.Func("libs/crypto/merkle", "SimpleProof.Verify")
		okV := false
		for _, rt := range ir.Returns(vf) {
			s := ir.Render(rt.Results[0])
			if strings.Contains(s, "bytes.Equal(merkle.computeHashFromAunts(index,total,leafHash,sp.Aunts),rootHash)") {
				okV = true
			}
		}
		// Verify is `computed != nil && bytes.Equal(computed, root)`: interpret
		d := ir.Domain{Axes: []ir.Axis{
			ir.NilAxis("computed", "merkle.computeHashFromAunts(index,total,leafHash,sp.Aunts)"),
			ir.BoolAxis("equalsRoot", "bytes.Equal(merkle.computeHashFromAunts(index,total,leafHash,sp.Aunts),rootHash)"),
		}}
		rows := ir.Enumerate(vf, d, ir.InterpOpts{})
		c.Table("merkle.(*SimpleProof).Verify/decision", vf, rows, func(row ir.Row) string {
			if row.Has("computed≠nil") && row.Has("equalsRoot") {
				return "return(true)"
			}
			return "return(false)"
		}, func(row ir.Row) string { return normBoolRet(row) })
		_ = okV
		// computeHashFromAunts rejects out-of-range first
		cf := p.Func("libs/crypto/merkle", "computeHashFromAunts")
		for _, call := range ir.Calls(cf, "merkle.SimpleHashFromTwoHashes") {
			c.Guards("merkle.computeHashFromAunts", "combine", call,
				G{"index<total", "lt(index,total)"}, G{"index>=0", "le(0,index)"}, G{"total>0", "lt(0,total)"})
		}
		// the trail is exactly as long as the path: a level is combined only while aunts are left, and the
		// leaf is returned only when none is left (a trail that is too SHORT would let the preimage of an
		// inner node pass as a leaf)
		for _, call := range ir.Calls(cf, "merkle.SimpleHashFromTwoHashes") {
			c.Guards("merkle.computeHashFromAunts", "combine", call, G{"aunts-left", "!eq(len(innerHashes),0)"})
		}
		nLeaf := 0
		for _, rt := range ir.Returns(cf) {
			if ir.Render(rt.Results[0]) == "leafHash" {
				nLeaf++
			}
		}
		c.MustFind("K1", "merkle.computeHashFromAunts/return leaf", cf, nLeaf, "return of the leaf hash itself (total == 1, no aunts left)")
		for _, rt := range ir.Returns(cf) {
			if ir.Render(rt.Results[0]) == "leafHash" {
				c.Guards("merkle.computeHashFromAunts", "return leaf", rt.Instr,
					G{"total==1", "eq(total,1)"}, G{"no-extra-aunts", "eq(len(innerHashes),0)"}, G{"index>=0", "le(0,index)"}, G{"index<total", "lt(index,total)"})
			}
		}
	}

	// (d') "this is the part set that was signed": HasHeader compares the WHOLE header. The Merkle root
	// alone does not fix the number of leaves (an inner node's preimage is a valid two-leaf tree under the
	// same root): only Total pins the shape, so a comparison by hash keeps a forged, shorter part set.
	{
		hh := p.Func("types", "PartSet.HasHeader")
		okH := false
		for _, rt := range ir.Returns(hh) {
			v := ir.Render(rt.Results[0])
			if v == "false" {
				continue
			}
			okH = strings.HasPrefix(v, "types.PartSetHeader.Equals(types.PartSet.Header(ps),header)") || strings.HasPrefix(v, "types.PartSetHeader.Equals(header,types.PartSet.Header(ps))")
			r.Check("K5", "types.(*PartSet).HasHeader/whole-header", p.InstrPos(rt.Instr), okH, "HasHeader is Header().Equals(header) (Total and Hash): "+short(v, 100))
		}
		if !okH {
			r.Check("K5", "types.(*PartSet).HasHeader/whole-header/found", p.Pos(hh.Pos()), false, "a return comparing the whole header")
		}
	}

	// (e) reassembly
	{
		fn := p.Func("consensus", "ConsensusState.addProposalBlockPart")
		name := csT + "addProposalBlockPart"
		calls := ir.Calls(fn, "ser.DecodeReader")
		c.MustFind("K1", name+"/decode", fn, len(calls), "ser.DecodeReader call")
		for _, call := range calls {
			c.Guards(name, "decode", call,
				G{"part-added", "*PartSet.AddPart(cs.RoundState.ProposalBlockParts,*)#0"},
				G{"add-no-error", "eq(*PartSet.AddPart(cs.RoundState.ProposalBlockParts,*)#1,nil)"},
				G{"complete", "*PartSet.IsComplete(cs.RoundState.ProposalBlockParts)"},
				G{"same-height", ir.EqPat("cs.RoundState.Height", "msg.Height")})
			r.Check("K1", name+"/decode/source", p.InstrPos(call), ir.Match("*PartSet.GetReader(cs.RoundState.ProposalBlockParts)", Arg(call, 0)) && Arg(call, 1) == "&cs.RoundState.ProposalBlock",
				"decodes the reader of ProposalBlockParts into ProposalBlock: "+Arg(call, 0)+" -> "+Arg(call, 1))
			r.Check("K1", name+"/decode/bounded", p.InstrPos(call), Arg(call, 2) != "0" && Arg(call, 2) != "<missing>", "decode limit is not the constant 0: "+Arg(call, 2))
		}
		gr := p.Func("types", "PartSet.GetReader")
		for _, call := range ir.Calls(gr, "types.NewPartSetReader") {
			c.Guards("types.(*PartSet).GetReader", "reader", call, G{"complete", "*PartSet.IsComplete(ps)"})
			r.Check("K1", "types.(*PartSet).GetReader/reader/parts", p.InstrPos(call), Arg(call, 0) == "ps.parts", "reads ps.parts")
		}
		ic := p.Func("types", "PartSet.IsComplete")
		okIC := false
		for _, rt := range ir.Returns(ic) {
			if s := ir.Render(rt.Results[0]); s == "(ps.count == ps.total)" || s == "(ps.total == ps.count)" {
				okIC = true
			}
		}
		r.Check("K1", "types.(*PartSet).IsComplete/count==total", p.Pos(ic.Pos()), okIC, "complete iff count == total")
		c.WhoMayWrite("types", "PartSet.count", "types.(*PartSet).AddPart", "types.NewPartSetFromData", "types.NewPartSetFromHeader")
		c.WhoMayWrite("types", "PartSet.total", "types.NewPartSetFromData", "types.NewPartSetFromHeader")
		c.WhoMayWrite("types", "PartSet.hash", "types.NewPartSetFromData", "types.NewPartSetFromHeader")
		c.WhoMayWrite("types", "PartSet.parts", "types.(*PartSet).AddPart", "types.NewPartSetFromData", "types.NewPartSetFromHeader")
		// reader walks parts in index order: i only ever incremented by one, reader built from parts[i]
		rd := p.Func("types", "PartSetReader.Read")
		iF := p.Field("types", "PartSetReader.i")
		okI := true
		ni := 0
		for _, s := range p.Stores(iF) {
			if s.Fn == rd {
				ni++
				if ir.Render(s.Val) != "(psr.i + 1)" {
					okI = false
				}
			}
		}
		r.Check("K5", "types.(*PartSetReader).Read/index-order", p.Pos(rd.Pos()), okI && ni == 1, "the part cursor only advances by one")
		okB := false
		for _, s := range p.Stores(p.Field("types", "PartSetReader.reader")) {
			if s.Fn == rd && ir.Match("bytes.NewReader(psr.parts[psr.i].Bytes)", ir.Render(s.Val)) {
				okB = true
			}
		}
		r.Check("K5", "types.(*PartSetReader).Read/next-part-bytes", p.Pos(rd.Pos()), okB, "after a part is drained the reader continues with parts[i].Bytes")
		nr := p.Func("types", "NewPartSetReader")
		okN := false
		for _, s := range p.Stores(p.Field("types", "PartSetReader.reader")) {
			if s.Fn == nr && ir.Match("bytes.NewReader(parts[0].Bytes)", ir.Render(s.Val)) {
				okN = true
			}
		}
		r.Check("K5", "types.NewPartSetReader/first-part", p.Pos(nr.Pos()), okN, "reading starts with parts[0]")

		// who creates ProposalBlockParts, and from what
		stores := c.WhoMayWrite("consensus/types", "RoundState.ProposalBlockParts",
			csT+"defaultSetProposal", csT+"enterPrecommit", csT+"enterCommit", csT+"enterNewRound", csT+"updateToStatus", csT+"defaultDecideProposal", csT+"SetProposalAndBlock")
		for _, s := range stores {
			top := ir.FuncName(ir.EnclosingTop(s.Fn))
			v := ir.Render(s.Val)
			switch top {
			case csT + "defaultSetProposal":
				r.Check("K1", top+"/parts-from-proposal", p.InstrPos(s.Instr), v == "types.NewPartSetFromHeader(proposal.BlockPartsHeader)", "part set is created from the proposal's parts header: "+v)
				c.GuardsS(top, "accept proposal parts", s,
					G{"signature", "*PubKey.VerifyBytes(*Validator.PubKey,*Proposal.SignBytes(proposal,cs.status.ChainID),proposal.Signature) || *VerifyBytes(*GetProposer(cs.RoundState.Validators)*,*Proposal.SignBytes(proposal,cs.status.ChainID),proposal.Signature)"},
					G{"height", ir.EqPat("cs.RoundState.Height", "proposal.Height")},
					G{"round", ir.EqPat("cs.RoundState.Round", "proposal.Round")})
			case csT + "enterPrecommit":
				r.Check("K1", top+"/parts-from-polka", p.InstrPos(s.Instr), ir.Match("types.NewPartSetFromHeader("+polkaID+".PartsHeader)", v), "part set is created from the polka block id: "+v)
			case csT + "enterCommit":
				if v != "cs.RoundState.LockedBlockParts" {
					r.Check("K1", top+"/parts-from-commit", p.InstrPos(s.Instr), ir.Match("types.NewPartSetFromHeader(*VoteSet.TwoThirdsMajority(*HeightVoteSet.Precommits(cs.RoundState.Votes,commitRound))#0.PartsHeader)", v), "part set is created from the +2/3 precommit block id: "+v)
				}
			case csT + "enterNewRound", csT + "updateToStatus":
				r.Check("K1", top+"/parts-reset", p.InstrPos(s.Instr), v == "nil", "only reset to nil: "+v)
			}
		}
	}
	// fast sync: block id from hash AND part-set header
	{
		fn := p.Func("blockchain", "BlockchainReactor.poolRoutine")
		n := 0
		ir.InstrsDeep(fn, func(f *ssa.Function, in ssa.Instruction) {
			call, ok := in.(ssa.CallInstruction)
			if !ok || !ir.Match("*ValidatorSet.VerifyCommit", ir.CalleeName(call)) {
				return
			}
			n++
			id := Arg(call, 2)
			r.Check("K4", "blockchain.(*BlockchainReactor).poolRoutine/VerifyCommit/block-id", p.InstrPos(in),
				strings.Contains(id, "Block.Hash(") && strings.Contains(id, "PartSet.Header(") && strings.Contains(id, "Block.MakePartSet("),
				"the block id checked against the commit is {first.Hash(), first.MakePartSet().Header()}: "+short(id, 300))
		})
		c.MustFind("K4", "blockchain.(*BlockchainReactor).poolRoutine/VerifyCommit", fn, n, "VerifyCommit call")
	}

	// (d2) the duplicate test and the insertion of a part are ONE critical section: with the lock
	// released in between (to verify the proof outside it), two deliveries of the same part both pass
	// the test and both count, and the set is "complete" with a part missing
	{
		ap := p.Func("types", "PartSet.AddPart")
		var checks, inserts, unlocks []ssa.Instruction
		ir.Instrs(ap, func(in ssa.Instruction) {
			switch x := in.(type) {
			case *ssa.UnOp:
				if ia, ok := x.X.(*ssa.IndexAddr); ok && strings.HasSuffix(ir.Render(ia.X), "ps.parts") {
					checks = append(checks, in)
				}
			case *ssa.Store:
				if ia, ok := x.Addr.(*ssa.IndexAddr); ok && strings.HasSuffix(ir.Render(ia.X), "ps.parts") {
					inserts = append(inserts, in)
				}
			case *ssa.Call:
				if op, ok := lockOpOf(in); ok && !op.Acquire {
					unlocks = append(unlocks, in)
				}
			}
		})
		if c.MustFind("K10", "types.(*PartSet).AddPart/check-and-insert", ap, len(checks)*len(inserts), "duplicate test and insertion of ps.parts[i]") {
			bad := ""
			for _, ch := range checks {
				for _, u := range unlocks {
					if f1, _, _ := ir.FindPath(ir.PathQuery{From: ir.At(ch), Target: func(x ssa.Instruction) bool { return x == u }}); !f1 {
						continue
					}
					for _, ins := range inserts {
						if f2, _, _ := ir.FindPath(ir.PathQuery{From: ir.At(u), Target: func(x ssa.Instruction) bool { return x == ins }}); f2 {
							bad = fmt.Sprintf("the lock is released at %s between the test at %s and the insertion at %s", p.InstrPos(u), p.InstrPos(ch), p.InstrPos(ins))
						}
					}
				}
			}
			r.Check("K10", "types.(*PartSet).AddPart/check-and-insert-in-one-critical-section", p.Pos(ap.Pos()), bad == "", "no unlock between the duplicate test and the insertion. "+bad)
		}
	}

	// (e2) block and part set change together
	proposalBlockAndPartsChangeTogether(c)

	// (b2) the vote-tally key of a block id is lossless (shared with C03)
	blockIDKeyLossless(c)

	// (f) stored parts: a block is served and reloaded from parts stored under (height, index); the key
	// must determine both, and the key families of the store must not overlap
	storeKeyRules(c, "blockchain", 7)
}

// storeKeyRules: every `calc*Key` builder of the package maps its arguments injectively to a key
// (see keys.go) and no builder's constant prefix is a prefix of another's.
func storeKeyRules(c C, rel string, want int) {
	p, r := c.P, c.R
	type kb struct {
		fn     *ssa.Function
		prefix string
	}
	var builders []kb
	for _, f := range p.Funcs {
		if f.Pkg == nil || ir.RelPkg(f.Pkg.Pkg) != rel || f.Parent() != nil || f.Signature.Recv() != nil || strings.HasSuffix(p.Pos(f.Pos()), "_test.go") {
			continue
		}
		if !(strings.HasPrefix(f.Name(), "calc") || strings.HasPrefix(f.Name(), "cal")) || !strings.HasSuffix(f.Name(), "Key") {
			continue
		}
		res := f.Signature.Results()
		if res.Len() != 1 || res.At(0).Type().String() != "[]byte" {
			continue
		}
		rets := ir.Returns(f)
		for i, rt := range rets {
			ps := keyPieces(p, rt.Results[0], 0)
			ok, decided, why := keyInjective(ps)
			key := "store-key/" + ir.FuncName(f) + "/injective"
			if i > 0 {
				key += fmt.Sprintf("/return%d", i)
			}
			if !decided {
				r.Undecided("K11", key, p.InstrPos(rt.Instr), "key construction not recognised: "+why+" in "+keyString(ps))
				continue
			}
			r.Check("K11", key, p.InstrPos(rt.Instr), ok, "arguments determine the key: "+keyString(ps)+" "+why)
			if i == 0 {
				builders = append(builders, kb{f, keyPrefix(ps)})
			}
		}
	}
	sort.Slice(builders, func(i, j int) bool { return ir.FuncName(builders[i].fn) < ir.FuncName(builders[j].fn) })
	for i, a := range builders {
		clash := ""
		for j, b := range builders {
			if i != j && (a.prefix == "" || strings.HasPrefix(b.prefix, a.prefix)) {
				clash = ir.FuncName(b.fn) + " " + b.prefix
			}
		}
		r.Check("K11", "store-key/"+ir.FuncName(a.fn)+"/own-prefix", p.Pos(a.fn.Pos()), clash == "", fmt.Sprintf("constant prefix %q is not a prefix of another key family %s", a.prefix, clash))
	}
	r.Check("K11", "store-key/"+rel+"/builders", "-", len(builders) >= want, fmt.Sprintf("%d key builders analysed (confirmed by hand: %d)", len(builders), want))

	// every key the package reads, writes or deletes comes from one of those builders (or is one of the
	// constant singleton keys): an ad-hoc key or prefix — "BP:<height>" without its terminator also
	// matches heights 10..19, 100..199 — escapes the injectivity argument above
	nUse := 0
	for _, f := range p.Funcs {
		if f.Pkg == nil || ir.RelPkg(f.Pkg.Pkg) != rel || f.Blocks == nil || strings.HasSuffix(p.Pos(f.Pos()), "_test.go") {
			continue
		}
		ir.Instrs(f, func(in ssa.Instruction) {
			call, ok := in.(ssa.CallInstruction)
			if !ok {
				return
			}
			n := ir.CalleeName(call)
			var key string
			switch {
			case ir.Match("db.DB.Get", n), ir.Match("db.DB.Load", n), ir.Match("db.DB.Has", n), ir.Match("db.DB.Exist", n), ir.Match("db.DB.Set", n), ir.Match("db.DB.SetSync", n),
				ir.Match("db.DB.Delete", n), ir.Match("db.DB.DeleteSync", n), ir.Match("db.Batch.Set", n), ir.Match("db.Batch.Delete", n),
				ir.Match("db.DB.NewIteratorWithPrefix", n), ir.Match("db.DB.Iterator", n), ir.Match("db.DB.ReverseIterator", n):
				key = Arg(call, 1)
			default:
				return
			}
			nUse++
			okKey := regexp.MustCompile(`^`+regexp.QuoteMeta(rel)+`\.cal\w*Key\(`).MatchString(key) || // a builder
				regexp.MustCompile(`^`+regexp.QuoteMeta(rel)+`\.\w+$`).MatchString(key) || // a package-level constant key
				key == "nil" // SetSync(nil, nil): the flush idiom
			if !okKey {
				// a local that holds a builder's result
				if v := ir.Render(operandArgs(call)[1]); strings.Contains(v, rel+".cal") {
					okKey = true
				}
			}
			r.Check("K3", "store-key/"+rel+"/only-built-keys/"+ir.FuncName(ir.EnclosingTop(f)), p.InstrPos(in), okKey, "the key comes from a calc*Key builder or is a singleton key: "+short(key, 100))
		})
	}
	r.Check("K3", "store-key/"+rel+"/key-uses", "-", nUse >= 25, fmt.Sprintf("%d database calls with a key inspected", nUse))
}

func normBoolRet(row ir.Row) string {
	o := row.Outcome
	if o.Kind != "return" || len(o.Results) != 1 {
		return o.String()
	}
	res := o.Results[0]
	// a returned boolean leaf of the domain takes its value from the env
	if v, ok := row.Env.Bool[res]; ok {
		return fmt.Sprintf("return(%v)", v)
	}
	return o.String()
}

// c12Mentions: K4 — function fn mentions every field of struct T through each
// of the given roots (receiver / parameter names).
func c12Mentions(c C, rel, fnName, structName string, roots ...string) {
	fn := c.P.Func(rel, fnName)
	st := c.P.Struct(rel, structName)
	seen := map[string]bool{}
	ir.Instrs(fn, func(in ssa.Instruction) {
		var ops []*ssa.Value
		for _, op := range in.Operands(ops) {
			if *op == nil {
				continue
			}
			s := ir.Render(*op)
			for _, root := range roots {
				for i := 0; i < st.NumFields(); i++ {
					if strings.Contains(s, root+"."+st.Field(i).Name()) {
						seen[root+"."+st.Field(i).Name()] = true
					}
				}
			}
		}
	})
	for _, root := range roots {
		for i := 0; i < st.NumFields(); i++ {
			k := root + "." + st.Field(i).Name()
			c.R.Check("K4", rel+"."+fnName+"/mentions:"+k, c.P.Pos(fn.Pos()), seen[k], "every field of "+structName+" takes part in the comparison/key")
		}
	}
}

// c12Split: a recursive list hash covers the whole list: [:k] and [k:] with the same k.
func c12Split(c C, rel, fnName, param string) {
	fn := c.P.Func(rel, fnName)
	var lows, highs []string
	ir.Instrs(fn, func(in ssa.Instruction) {
		if sl, ok := in.(*ssa.Slice); ok && ir.Render(sl.X) == param {
			if sl.Low == nil && sl.High != nil {
				highs = append(highs, ir.Render(sl.High))
			}
			if sl.Low != nil && sl.High == nil {
				lows = append(lows, ir.Render(sl.Low))
			}
		}
	})
	sort.Strings(lows)
	sort.Strings(highs)
	ok := len(lows) == 1 && len(highs) == 1 && lows[0] == highs[0]
	c.R.Check("K5", rel+"."+fnName+"/split-coverage", c.P.Pos(fn.Pos()), ok, fmt.Sprintf("halves are %s[:k] and %s[k:] with one k (found highs %v lows %v)", param, param, highs, lows))
	one := false
	for _, rt := range ir.Returns(fn) {
		if ir.Match("*.Hash("+param+"[0])", ir.Render(rt.Results[0])) {
			one = true
		}
	}
	c.R.Check("K5", rel+"."+fnName+"/single-element", c.P.Pos(fn.Pos()), one, "a one-element list hashes to the element's hash")
}

// c12AddPart: K1 part admission guards in (*PartSet).AddPart (shared with C16).
func c12AddPart(c C, prop string) {
	p, r := c.P, c.R
	fn := p.Func("types", "PartSet.AddPart")
	name := "types.(*PartSet).AddPart"
	gs := []G{
		{"lower-bound", "le(0,part.Index)"},
		{"upper-bound", "lt(part.Index,ps.total)"},
	}
	full := append(append([]G{}, gs...),
		G{"slot-empty", "eq(ps.parts[part.Index],nil)"},
		G{"proof", "*SimpleProof.Verify(&part.Proof,part.Index,ps.total,*Part.Hash(part),*PartSet.Hash(ps))"})
	n := 0
	for _, s := range p.Stores(p.Field("types", "PartSet.parts")) {
		if s.Fn != fn || s.Kind != "elem" {
			continue
		}
		n++
		c.GuardsS(name, "store parts[i]", s, full...)
		r.Check("K1", name+"/store parts[i]/value", p.InstrPos(s.Instr), ir.Render(s.Val) == "part", "the stored part is the verified one")
	}
	c.MustFind("K1", name+"/store parts[i]", fn, n, "element store into ps.parts")
	for _, s := range p.Stores(p.Field("types", "PartSet.count")) {
		if s.Fn == fn {
			c.GuardsS(name, "count++", s, full...)
		}
	}
	if prop == "C12" {
		for _, call := range ir.Calls(fn, "*BitArray.SetIndex") {
			c.Guards(name, "SetIndex", call, full...)
		}
	}
	// every index expression ps.parts[part.Index] is inside both bounds
	ni := 0
	ir.Instrs(fn, func(in ssa.Instruction) {
		ia, ok := in.(*ssa.IndexAddr)
		if !ok {
			return
		}
		if fv, _ := fieldOf(ia.X); fv == nil || fv.Name() != "parts" {
			return
		}
		ni++
		c.Guards(name, "index parts[i]", in, gs...)
	})
	c.MustFind("K1", name+"/index parts[i]", fn, ni, "index expression on ps.parts")
	// return (true, nil) only on the admitting path
	for _, rt := range ir.Returns(fn) {
		if ir.AbstractResult(rt.Results[0]) == "true" {
			c.Guards(name, "return true", rt.Instr, full...)
		}
	}
}

func fieldOf(v ssa.Value) (*types.Var, ssa.Value) {
	switch x := v.(type) {
	case *ssa.UnOp:
		if fa, ok := x.X.(*ssa.FieldAddr); ok {
			return ir.FieldVar(fa.X, fa.Field), fa.X
		}
	case *ssa.FieldAddr:
		return ir.FieldVar(x.X, x.Field), x.X
	}
	return nil, nil
}

var _ = report.Discharged

// proposalBlockAndPartsChangeTogether (shared by C02 and C12): addProposalBlockPart decodes a completed
// set INTO cs.ProposalBlock; a Block object left over from another proposal keeps its cached hash, so
// the reassembled bytes would be reported under the old block's identity (and a node that holds the
// wrong block can never finalise the committed one). Every assignment of ProposalBlockParts is paired
// with one of ProposalBlock: an empty set with nil, a block's own parts with that block.
func proposalBlockAndPartsChangeTogether(c C) {
	p, r := c.P, c.R
	bf := p.Field("consensus/types", "RoundState.ProposalBlock")
	pf := p.Field("consensus/types", "RoundState.ProposalBlockParts")
	n := 0
	for _, ps := range p.Stores(pf) {
		if strings.HasSuffix(p.Pos(ps.Fn.Pos()), "_test.go") || ps.Kind != "store" || ir.RelPkg(ps.Fn.Pkg.Pkg) != "consensus" {
			continue
		}
		n++
		pv := ir.Render(ps.Val)
		paired, bv := false, ""
		for _, bs := range p.Stores(bf) {
			if bs.Kind == "store" && bs.Instr.Block() == ps.Instr.Block() && bs.Instr.Parent() == ps.Instr.Parent() {
				paired, bv = true, ir.Render(bs.Val)
			}
		}
		okPair := paired
		if paired && (pv == "nil" || strings.HasPrefix(pv, "types.NewPartSetFromHeader(")) {
			okPair = bv == "nil"
		} else if paired {
			okPair = bv != "nil"
		}
		r.Check("K5", "consensus/proposal-block-and-parts-change-together/"+ir.FuncName(ir.EnclosingTop(ps.Fn)), p.InstrPos(ps.Instr), okPair,
			fmt.Sprintf("ProposalBlockParts = %s is paired with ProposalBlock = %s (an empty part set with nil)", short(pv, 60), short(bv, 60)))
	}
	r.Check("K5", "consensus/proposal-block-and-parts-change-together/sites", "-", n >= 6, fmt.Sprintf("%d assignments of ProposalBlockParts (confirmed by hand: 6)", n))
}

// blockIDKeyLossless (shared by C03 and C12): votes are counted per BlockID.Key(); a key that
// abbreviates the part-set hash (PartSetHeader.String() prints a 6-byte fingerprint) counts two ids together.
func blockIDKeyLossless(c C) {
	p, r := c.P, c.R
	kf := p.Func("types", "BlockID.Key")
	for _, rt := range ir.Returns(kf) {
		okKey := ir.Render(rt.Results[0]) == "(common.Hash.String(blockID.Hash) + ser.EncodeToBytes(blockID.PartsHeader)#0)"
		r.Check("K11", "types.BlockID.Key/lossless", p.InstrPos(rt.Instr), okKey, "Key = full hex of the hash + the serialised part-set header: "+short(ir.Render(rt.Results[0]), 140))
	}
}
