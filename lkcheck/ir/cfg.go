package ir

import (
	"go/types"
	"strings"

	"golang.org/x/tools/go/ssa"
)

// Point is a position in a function: instruction idx of block.
type Point struct {
	B *ssa.BasicBlock
	I int
}

// At returns the point of an instruction.
func At(in ssa.Instruction) Point { return Point{in.Block(), InstrIndex(in)} }

// StaticCallee returns the statically resolved callee of a call, following
// closures bound at the call site.
func StaticCallee(c *ssa.CallCommon) *ssa.Function {
	if f := c.StaticCallee(); f != nil {
		return f
	}
	return nil
}

// CalleeObj is the types.Func called (static or interface method), or nil.
func CalleeObj(c *ssa.CallCommon) *types.Func {
	if c.IsInvoke() {
		return c.Method
	}
	if f := c.StaticCallee(); f != nil {
		if o, ok := f.Object().(*types.Func); ok {
			return o
		}
		if f.Origin() != nil {
			if o, ok := f.Origin().Object().(*types.Func); ok {
				return o
			}
		}
	}
	return nil
}

// Calls lists the call instructions (call, defer, go) of fn whose rendered
// callee name matches the glob (e.g. "ConsensusState.signAddVote",
// "AppManager.CheckBlock", "bytes.Equal").
func Calls(fn *ssa.Function, calleeGlob string) []ssa.CallInstruction {
	var out []ssa.CallInstruction
	for _, b := range fn.Blocks {
		for _, in := range b.Instrs {
			if c, ok := in.(ssa.CallInstruction); ok {
				if Match(calleeGlob, calleeName(c.Common())) {
					out = append(out, c)
				}
			}
		}
	}
	if len(newHelpers) > 0 {
		hs := helpersOf(fn)
		if fn.Parent() != nil {
			hs = helpersCalledFrom(fn) // a closure: the helpers split out of its own body
		}
		for _, h := range hs {
			for _, b := range h.Blocks {
				for _, in := range b.Instrs {
					if c, ok := in.(ssa.CallInstruction); ok && Match(calleeGlob, calleeName(c.Common())) {
						out = append(out, c)
					}
				}
			}
		}
	}
	return out
}

// CallsDeep is Calls over fn and its anonymous functions.
func CallsDeep(fn *ssa.Function, calleeGlob string) []ssa.CallInstruction {
	out := Calls(fn, calleeGlob)
	for _, a := range fn.AnonFuncs {
		out = append(out, CallsDeep(a, calleeGlob)...)
	}
	return out
}

// CalleeName is the rendered callee of a call instruction.
func CalleeName(c ssa.CallInstruction) string { return calleeName(c.Common()) }

// noReturn lists callee names that never return normally.
var noReturn = []string{
	"common.PanicSanity", "common.PanicCrisis", "common.PanicConsensus", "common.PanicQ",
	"common.Exit", "os.Exit", "log.Logger.Crit", "log.Crit", "log.Fatal", "log.Fatalf", "log.Panic", "log.Panicf",
	"testing.T.Fatal", "testing.T.Fatalf",
}

// IsNoReturnCall reports whether the instruction is a call to a function from
// the non-returning list.
func IsNoReturnCall(in ssa.Instruction) bool {
	c, ok := in.(*ssa.Call)
	if !ok {
		return false
	}
	// only statically named callees can be in the list; dynamic callees are
	// not rendered here (rendering may itself need the pruned CFG)
	if !c.Call.IsInvoke() {
		if _, isFn := c.Call.Value.(*ssa.Function); !isFn {
			return false
		}
	}
	n := calleeName(&c.Call)
	for _, x := range noReturn {
		if n == x {
			return true
		}
	}
	return false
}

// blockDies reports whether a block ends in panic or contains a non-returning
// call (and so never continues to its successors / returns normally).
func blockDies(b *ssa.BasicBlock) (int, bool) {
	for i, in := range b.Instrs {
		if _, ok := in.(*ssa.Panic); ok {
			return i, true
		}
		if IsNoReturnCall(in) {
			return i, true
		}
	}
	return -1, false
}

// PathQuery asks: is there a CFG path from `from` (exclusive) to some
// instruction satisfying target, that does not execute an instruction
// satisfying avoid? Panicking / non-returning instructions end a path.
// Returns the offending path (block indices) if one exists.
type PathQuery struct {
	From   Point // start after this instruction; use Entry(fn) for function entry
	Target func(ssa.Instruction) bool
	Avoid  func(ssa.Instruction) bool
	// AvoidEdge, if set, removes CFG edges from the search; it receives the
	// normalised atoms that the edge establishes (see Fact).
	AvoidEdge func(atoms []string) bool
	// internal: sub-queries inside a transparent helper
	noEscape     bool
	insideHelper bool
}

// Entry is the point before the first instruction of fn.
func Entry(fn *ssa.Function) Point { return Point{fn.Blocks[0], -1} }

// IsReturn matches normal returns.
func IsReturn(in ssa.Instruction) bool { _, ok := in.(*ssa.Return); return ok }

// FindPath runs the query; found=true means a path reaching target while
// avoiding `avoid` exists; hit is the target instruction reached.
func FindPath(q PathQuery) (found bool, hit ssa.Instruction, trace []int) {
	type st struct {
		b    *ssa.BasicBlock
		from int
	}
	seen := map[*ssa.BasicBlock]bool{}
	parent := map[*ssa.BasicBlock]*ssa.BasicBlock{}
	work := []st{{q.From.B, q.From.I + 1}}
	first := true
	for len(work) > 0 {
		s := work[0]
		work = work[1:]
		if !first {
			if seen[s.b] {
				continue
			}
			seen[s.b] = true
		}
		first = false
		blocked := false
		for i := s.from; i < len(s.b.Instrs); i++ {
			in := s.b.Instrs[i]
			if q.Avoid != nil && q.Avoid(in) {
				blocked = true
				break
			}
			if len(newHelpers) > 0 {
				// a return inside the transparent helper the search started in: continue after its call sites
				if _, isRet := in.(*ssa.Return); isRet && !q.noEscape {
					if hi := newHelpers[in.Parent()]; hi != nil {
						for _, site := range hi.sites {
							si := site.(ssa.Instruction)
							work = append(work, st{si.Block(), InstrIndex(si) + 1})
							if _, ok := parent[si.Block()]; !ok && si.Block() != s.b {
								parent[si.Block()] = s.b
							}
						}
						blocked = true
						break
					}
				}
				// a call of a transparent helper: walk its body as if inlined
				if h := helperCallee(in); h != nil && !q.Target(in) {
					if found, hit, _ := FindPath(PathQuery{From: Entry(h), Target: q.Target, Avoid: q.Avoid, noEscape: true, insideHelper: true}); found {
						var tr []int
						for b := s.b; b != nil; b = parent[b] {
							tr = append([]int{b.Index}, tr...)
							if b == q.From.B {
								break
							}
						}
						return true, hit, tr
					}
					if q.Avoid != nil {
						if through, _, _ := FindPath(PathQuery{From: Entry(h), Target: IsReturn, Avoid: q.Avoid, noEscape: true}); !through {
							blocked = true // every way through the helper executes an avoided instruction (or dies)
							break
						}
					}
					continue
				}
			}
			if q.insideHelper {
				// returns of the helper are not returns of the logical function
				if _, isRet := in.(*ssa.Return); isRet {
					blocked = true
					break
				}
			}
			if q.Target(in) {
				var tr []int
				for b := s.b; b != nil; b = parent[b] {
					tr = append([]int{b.Index}, tr...)
					if b == q.From.B {
						break
					}
				}
				return true, in, tr
			}
			if _, ok := in.(*ssa.Panic); ok {
				blocked = true
				break
			}
			if IsNoReturnCall(in) {
				blocked = true
				break
			}
		}
		if blocked {
			continue
		}
		for si, nx := range s.b.Succs {
			if q.AvoidEdge != nil && len(s.b.Succs) == 2 && s.b.Succs[0] != s.b.Succs[1] {
				if ifi, ok := s.b.Instrs[len(s.b.Instrs)-1].(*ssa.If); ok && q.AvoidEdge(CondAtoms(ifi.Cond, si == 0)) {
					continue
				}
			}
			if !seen[nx] {
				if _, ok := parent[nx]; !ok {
					parent[nx] = s.b
				}
				work = append(work, st{nx, 0})
			}
		}
	}
	return false, nil, nil
}

// CallMatcher returns a predicate matching call instructions (not go/defer
// unless includeDefer) whose callee name matches one of the globs.
func CallMatcher(globs ...string) func(ssa.Instruction) bool {
	return func(in ssa.Instruction) bool {
		c, ok := in.(ssa.CallInstruction)
		if !ok {
			return false
		}
		if _, isGo := in.(*ssa.Go); isGo {
			return false
		}
		n := calleeName(c.Common())
		for _, g := range globs {
			if Match(g, n) {
				return true
			}
		}
		return false
	}
}

// Store is one write to a struct field.
type Store struct {
	Fn    *ssa.Function
	Instr ssa.Instruction
	Field *types.Var
	Base  ssa.Value // the struct (pointer) whose field is written
	Val   ssa.Value // value stored (nil for map update / element writes through the field)
	Kind  string    // "store", "mapupdate", "elem", "complit"
	// Site: for a write inside a transparent helper that is attributed per call site, that call site
	Site ssa.CallInstruction
}

// Stores returns every write to field fv in the module: direct stores,
// map updates on the map held in the field, and element stores through a
// slice/array held in the field.
func (p *Program) Stores(fv *types.Var) []Store {
	if p.storeIdx == nil {
		p.buildStoreIdx()
	}
	return p.storeIdx[fv]
}

func (p *Program) buildStoreIdx() {
	p.storeIdx = map[*types.Var][]Store{}
	add := func(s Store) {
		if s.Fn.Parent() == nil && newHelpers[s.Fn] != nil {
			h := s.Fn
			s.Fn = LogicalOwner(h) // a transparent helper writes on behalf of its owner
			if sites := sitesNeedingContext(h); sites != nil {
				// one entry per call site (and per owner the site executes in), operands seen from that site
				for _, site := range sites {
					for _, o := range siteOwners(site) {
						c := s
						c.Fn = o
						c.Site = site
						if c.Base != nil {
							c.Base = &CtxValue{c.Base, site}
						}
						if c.Val != nil {
							c.Val = &CtxValue{c.Val, site}
						}
						p.storeIdx[c.Field] = append(p.storeIdx[c.Field], c)
					}
				}
				return
			}
		}
		p.storeIdx[s.Field] = append(p.storeIdx[s.Field], s)
	}
	for _, fn := range p.Funcs {
		for _, b := range fn.Blocks {
			for _, in := range b.Instrs {
				switch x := in.(type) {
				case *ssa.Store:
					switch a := x.Addr.(type) {
					case *ssa.FieldAddr:
						if fv := FieldVar(a.X, a.Field); fv != nil {
							kind := "store"
							if al, ok := a.X.(*ssa.Alloc); ok && (al.Comment == "complit" || strings.HasPrefix(al.Comment, "new")) {
								kind = "complit"
							}
							add(Store{fn, in, fv, a.X, x.Val, kind, nil})
						}
					case *ssa.IndexAddr:
						if fv, base := fieldOfLoad(a.X); fv != nil {
							add(Store{fn, in, fv, base, x.Val, "elem", nil})
						}
					}
				case *ssa.MapUpdate:
					if fv, base := fieldOfLoad(x.Map); fv != nil {
						add(Store{fn, in, fv, base, x.Value, "mapupdate", nil})
					}
				case *ssa.Call:
					// delete(m.f, k)
					if bi, ok := x.Call.Value.(*ssa.Builtin); ok && bi.Name() == "delete" && len(x.Call.Args) == 2 {
						if fv, base := fieldOfLoad(x.Call.Args[0]); fv != nil {
							add(Store{fn, in, fv, base, nil, "mapdelete", nil})
						}
					}
				}
			}
		}
	}
}

// fieldOfLoad: if v is a load of (or the address of) a struct field, return it.
func fieldOfLoad(v ssa.Value) (*types.Var, ssa.Value) {
	switch x := v.(type) {
	case *ssa.UnOp:
		if fa, ok := x.X.(*ssa.FieldAddr); ok {
			return FieldVar(fa.X, fa.Field), fa.X
		}
	case *ssa.FieldAddr:
		return FieldVar(x.X, x.Field), x.X
	case *ssa.Field:
		return FieldVar(x.X, x.Field), x.X
	}
	return nil, nil
}

// CallSite is one call of a function or interface method.
type CallSite struct {
	Fn    *ssa.Function
	Instr ssa.CallInstruction
}

// CallSites returns every call site in the module whose static callee or
// invoked interface method is obj. Method values and function values taken
// without a call (e.g. `f := x.M`) are reported with Instr == nil-call sites
// via FuncValueUses.
func (p *Program) CallSites(obj *types.Func) []CallSite {
	if p.callIdx == nil {
		p.callIdx = map[*types.Func][]CallSite{}
		for _, fn := range p.Funcs {
			for _, b := range fn.Blocks {
				for _, in := range b.Instrs {
					if c, ok := in.(ssa.CallInstruction); ok {
						if o := CalleeObj(c.Common()); o != nil {
							p.callIdx[o] = append(p.callIdx[o], CallSite{fn, c})
						}
					}
				}
			}
		}
	}
	return p.callIdx[obj]
}

// FuncValueUses lists instructions in the module that use function f as a
// value other than as the callee of a direct call (method values, passing as
// argument, storing in a field).
func (p *Program) FuncValueUses(f *ssa.Function) []ssa.Instruction {
	var out []ssa.Instruction
	for _, fn := range p.Funcs {
		for _, b := range fn.Blocks {
			for _, in := range b.Instrs {
				for _, op := range in.Operands(nil) {
					if *op == nil {
						continue
					}
					match := false
					switch v := (*op).(type) {
					case *ssa.Function:
						match = v == f
					case *ssa.MakeClosure:
						// bound method closure f$bound
						if bf, ok := v.Fn.(*ssa.Function); ok && bf.Synthetic != "" && strings.Contains(bf.Name(), f.Name()+"$bound") && bf.Object() == f.Object() {
							match = true
						}
					}
					if !match {
						continue
					}
					if c, ok := in.(ssa.CallInstruction); ok && c.Common().Value == *op {
						continue // direct call
					}
					out = append(out, in)
				}
			}
		}
	}
	return out
}

// EnclosingTop returns the outermost named function containing fn.
func EnclosingTop(fn *ssa.Function) *ssa.Function {
	for fn.Parent() != nil {
		fn = fn.Parent()
	}
	return LogicalOwner(fn)
}

// Instrs iterates all instructions of fn (not anonymous functions).
func Instrs(fn *ssa.Function, f func(ssa.Instruction)) {
	for _, b := range fn.Blocks {
		for _, in := range b.Instrs {
			f(in)
		}
	}
	// the instructions of transparent helpers belong to their owner (see helpers.go)
	if len(newHelpers) > 0 && fn.Parent() == nil && newHelpers[fn] == nil {
		for _, h := range helpersOf(fn) {
			// a helper shared by several functions is visited as part of THIS one: its parameters
			// render as the arguments of the call sites in fn
			InOwner(fn, func() {
				for _, b := range h.Blocks {
					for _, in := range b.Instrs {
						f(in)
					}
				}
			})
		}
	}
}

// InstrsDeep iterates fn and its anonymous functions.
func InstrsDeep(fn *ssa.Function, f func(*ssa.Function, ssa.Instruction)) {
	Instrs(fn, func(in ssa.Instruction) { f(fn, in) })
	for _, a := range fn.AnonFuncs {
		InstrsDeep(a, f)
	}
}

// Ret is a return instruction with results resolved through the spill slots
// go/ssa uses in functions that contain defer.
type Ret struct {
	Instr   *ssa.Return
	Results []ssa.Value
}

// Returns lists the normal returns of fn (the synthetic recover block is skipped).
func Returns(fn *ssa.Function) []Ret {
	out := returnsOwn(fn)
	if len(newHelpers) == 0 || fn.Parent() != nil {
		return out
	}
	return expandHelperReturns(out, 0)
}

// expandHelperReturns: a return that hands on the results of ONE transparent helper call
// (`return h(..)`, `x, err := h(..); return x, err`, `if err := h(..); err != nil { return err }`) is
// replaced by the helper's own returns, seen from that call site and filtered by what the caller
// already knows about the result's nil-ness. A function split into helpers keeps its returns.
func expandHelperReturns(rets []Ret, depth int) []Ret {
	if depth > 3 {
		return rets
	}
	var out []Ret
	for _, rt := range rets {
		var call *ssa.Call
		ok := false
		idx := make([]int, len(rt.Results)) // result i comes from helper result idx[i] (-1: own value)
		for i, v := range rt.Results {
			idx[i] = -1
			c, j := helperCallOf(v)
			if c == nil {
				if _, isConst := v.(*ssa.Const); !isConst {
					ok = false
					call = nil
					break
				}
				continue
			}
			if call != nil && c != call {
				ok = false
				call = nil
				break
			}
			call, ok = c, true
			idx[i] = j
		}
		if !ok || call == nil {
			out = append(out, rt)
			continue
		}
		h := call.Call.StaticCallee()
		fs := FactsAt(rt.Instr)
		// The expansion replaces the caller's return by the helper's returns and with it the caller's
		// facts by the helper's. It is meant for `return h(..)` and `if err := h(..); err != nil { return err }`:
		// when the caller decided anything else between the call and this return (a type test on the
		// result, a flag), the caller's own return is the informative one and stays.
		{
			atCall := map[string]bool{}
			for _, f := range FactsAt(call) {
				atCall[f.Atom] = true
			}
			nilness := map[string]bool{}
			for _, v := range rt.Results {
				if c, _ := helperCallOf(v); c != nil {
					nilness["eq("+Render(v)+",nil)"] = true
					nilness["!eq("+Render(v)+",nil)"] = true
				}
			}
			if rs := call.Referrers(); rs != nil {
				for _, u := range *rs {
					if ex, isEx := u.(*ssa.Extract); isEx {
						nilness["eq("+Render(ex)+",nil)"] = true
						nilness["!eq("+Render(ex)+",nil)"] = true
					}
				}
			}
			own := false
			for _, f := range fs {
				if !atCall[f.Atom] && !nilness[f.Atom] {
					own = true
				}
			}
			if own {
				out = append(out, rt)
				continue
			}
		}
		sub := expandHelperReturns(returnsOwn(h), depth+1)
		n := 0
		for _, hr := range sub {
			keep := true
			rs := make([]ssa.Value, len(rt.Results))
			for i := range rt.Results {
				if idx[i] < 0 {
					rs[i] = rt.Results[i]
					continue
				}
				if idx[i] >= len(hr.Results) {
					keep = false
					break
				}
				hv := hr.Results[idx[i]]
				// nil-ness the caller established for this result
				callRes := Render(rt.Results[i])
				if c, isConst := hv.(*ssa.Const); isConst && c.Value == nil && HasFact(fs, "!eq("+callRes+",nil)") {
					keep = false
				}
				if HasFact(fs, "eq("+callRes+",nil)") {
					if c, isConst := hv.(*ssa.Const); !(isConst && c.Value == nil) {
						// the helper returns something here that is not the nil constant: only kept when it may be nil
						if _, isMk := hv.(*ssa.MakeInterface); isMk {
							keep = false
						}
					}
				}
				rs[i] = &CtxValue{hv, call}
			}
			if keep {
				out = append(out, Ret{hr.Instr, rs})
				n++
			}
		}
		if n == 0 {
			out = append(out, rt)
		}
	}
	return out
}

func returnsOwn(fn *ssa.Function) []Ret {
	var out []Ret
	for _, b := range fn.Blocks {
		if b == fn.Recover {
			continue
		}
		if len(b.Instrs) == 0 {
			continue
		}
		r, ok := b.Instrs[len(b.Instrs)-1].(*ssa.Return)
		if !ok {
			continue
		}
		rs := make([]ssa.Value, len(r.Results))
		for i, v := range r.Results {
			rs[i] = v
			if u, ok := v.(*ssa.UnOp); ok {
				if al, ok := u.X.(*ssa.Alloc); ok {
					// last store to the slot before the return, walking back through
					// single-predecessor blocks
					if sv := lastStore(b, len(b.Instrs)-1, al); sv != nil {
						rs[i] = sv
					}
				}
			}
		}
		out = append(out, Ret{r, rs})
	}
	return out
}

func lastStore(b *ssa.BasicBlock, from int, al *ssa.Alloc) ssa.Value {
	for hops := 0; hops < 6 && b != nil; hops++ {
		for i := from - 1; i >= 0; i-- {
			if st, ok := b.Instrs[i].(*ssa.Store); ok && st.Addr == al {
				return st.Val
			}
		}
		if len(b.Preds) != 1 {
			return nil
		}
		b = b.Preds[0]
		from = len(b.Instrs)
	}
	return nil
}

// ReachableIn computes the functions reachable from the entry functions
// through static calls, closures and function values referenced in operands,
// restricted to functions for which keep returns true. Dynamic calls are not
// followed; a function whose value is taken in a reachable function counts as
// reachable (it may be called later through the stored value).
func ReachableIn(entries []*ssa.Function, keep func(*ssa.Function) bool) map[*ssa.Function]bool {
	seen := map[*ssa.Function]bool{}
	var visit func(f *ssa.Function)
	visit = func(f *ssa.Function) {
		if f == nil || seen[f] || !keep(f) {
			return
		}
		seen[f] = true
		for _, a := range f.AnonFuncs {
			visit(a)
		}
		for _, b := range f.Blocks {
			for _, in := range b.Instrs {
				var ops []*ssa.Value
				for _, op := range in.Operands(ops) {
					if *op == nil {
						continue
					}
					switch v := (*op).(type) {
					case *ssa.Function:
						visit(v)
					case *ssa.MakeClosure:
						if fn, ok := v.Fn.(*ssa.Function); ok {
							visit(fn)
						}
					}
				}
				if c, ok := in.(ssa.CallInstruction); ok {
					if callee := c.Common().StaticCallee(); callee != nil {
						visit(callee)
					}
				}
			}
		}
	}
	for _, e := range entries {
		visit(e)
	}
	return seen
}
