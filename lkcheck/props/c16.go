package props

import (
	"fmt"
	"go/token"
	"go/types"
	"sort"
	"strings"

	"golang.org/x/tools/go/ssa"

	"lkcheck/ir"
	"lkcheck/report"
)

func init() { Registry["C16"] = C16 }

var c16Pkgs = map[string]bool{"consensus": true, "consensus/types": true, "types": true, "libs/common": true, "libs/crypto/merkle": true}

// sinks reviewed and accepted, with the reason (key = function/kind:operand)
var c16Reviewed = map[string]string{
	"types.(*Block).Hash/assert:atomic.Value.Load(&b.hash)":             "the cache slot is written only by this function with a common.Hash",
	"types.(*Data).Hash/assert:atomic.Value.Load(&data.hash)":           "the cache slot is written only by this function with a common.Hash",
	"types.(*Transaction).Hash/assert:atomic.Value.Load(&tx.hash)":      "the cache slot is written only by this function with a common.Hash",
	"types.(*TokenTransaction).Hash/assert:atomic.Value.Load(&tx.hash)": "the cache slot is written only by this function with a common.Hash",
	"types.transactionHash/assert:atomic.Value.Load(hashcache)":         "the cache slot is written only by this function with a common.Hash",
	"libs/common.(*Hash).SetBytes/index:(32 - len(φ:b))":                "b is truncated to at most HashLength bytes by the preceding branch, so 32-len(b) is in [0,32]",
	"types.(EvidenceList).Hash/index:((len(evl) + 1) / 2)":              "midpoint of a slice; reached only in the default case of the switch on len (len >= 2)",
	"types.(Txs).Hash/index:((len(txs) + 1) / 2)":                       "midpoint of a slice; reached only in the default case of the switch on len (len >= 2)",
}

// C16 no message from a single peer can halt consensus.
func C16(p *ir.Program, r *report.R) {
	c := C{p, r}
	r.Floor = 40
	r.Explain = "Decided: no panic-capable operation on peer-controlled data is reachable, unguarded, in the consensus goroutine (which logs and EXITS on panic) and in the gossip goroutines (no recover). Taint sources are the message structs delivered to ConsensusState.handleMsg (proposal, block part, vote) and the proposal block decoded from peer parts; taint flows field-insensitively below a tainted root and through parameter binding with per-function summaries to a fixed point over packages consensus, consensus/types, types, libs/common, libs/crypto/merkle. Sinks: dereference of pointers/interfaces loaded from tainted data (every pointer inside a decoded message is optional), index/slice bounds and allocation sizes computed from tainted integers, unchecked type assertions, division. A sink is discharged by a dominating guard on the same operand or by a reviewed-table row. ADDED after seeded-change testing: WALEncoder.Encode returns only the writer's error (baseWAL.Write panics on any error and runs on every queued peer message) ; Lock regions: between a non-deferred Lock of the consensus mutex and its Unlock inside a reactor Receive only field reads and size getters occur (a recovered panic there would leave the mutex locked for ever). Rounds 4-5: recover is entered only after waiting since the height's start time; the deferred recover of receiveRoutine is kept (deferred-cleanup rule). Round 6: what Receive puts on peerMsgQueue had its payload pointer dereferenced in Receive first, on every path. NOT decided: resource exhaustion by volume, liveness under flooding, the blockchain/mempool/evidence channels, panics inside third-party code."
	r.Trusted = []string{"MConnection._recover turns a reactor-side panic into a dropped peer", "libs/ser decoding (C11)"}

	scope := func(f *ssa.Function) bool {
		if f.Pkg == nil {
			return false
		}
		if !c16Pkgs[ir.RelPkg(f.Pkg.Pkg)] {
			return false
		}
		n := f.Name()
		// presentation code is cut (String/StringIndented/MarshalJSON are only called for logging)
		return !strings.HasPrefix(n, "String") && !strings.HasPrefix(n, "MarshalJSON")
	}
	entries := map[*ssa.Function][]int{
		p.Func("consensus", "ConsensusState.defaultSetProposal"):   {1},
		p.Func("consensus", "ConsensusState.addProposalBlockPart"): {1},
		p.Func("consensus", "ConsensusState.tryAddVote"):           {1},
	}
	tf := map[*types.Var]bool{
		p.Field("consensus/types", "RoundState.ProposalBlock"): true,
		p.Field("consensus/types", "RoundState.Proposal"):      true,
		p.Field("consensus/types", "RoundState.LockedBlock"):   true,
		p.Field("consensus/types", "RoundState.ValidBlock"):    true,
	}
	// functions that use the decoded proposal block
	for _, n := range []string{"ConsensusState.defaultDoPrevote", "ConsensusState.enterPrecommit", "ConsensusState.finalizeCommit", "ConsensusState.checkBlockEvidence", "ConsensusState.isProposalComplete", "ConsensusState.enterCommit", "ConsensusState.tryFinalizeCommit"} {
		f := p.Func("consensus", n)
		if _, ok := entries[f]; !ok {
			entries[f] = nil
		}
	}
	// CHA over the scoped packages for interface calls on tainted values
	impls := func(m *types.Func, recvT types.Type) []*ssa.Function {
		var out []*ssa.Function
		iface, ok := recvT.Underlying().(*types.Interface)
		if !ok {
			return nil
		}
		for _, fn := range p.Funcs {
			if fn.Name() != m.Name() || fn.Signature.Recv() == nil || fn.Parent() != nil || !scope(fn) {
				continue
			}
			rt := fn.Signature.Recv().Type()
			if types.Implements(rt, iface) {
				out = append(out, fn)
			}
		}
		return out
	}
	nonNilF := map[*types.Var]bool{
		p.Field("types", "Block.Header"): true, p.Field("types", "Block.Data"): true, p.Field("types", "Block.LastCommit"): true,
	}
	callSites := func(f *ssa.Function) []ssa.CallInstruction {
		fo, ok := f.Object().(*types.Func)
		if !ok {
			return nil
		}
		var out []ssa.CallInstruction
		for _, cs := range p.CallSites(fo) {
			out = append(out, cs.Instr)
		}
		return out
	}
	sinks, fns := ir.AnalyzeTaint(p, ir.TaintConfig{Scope: scope, Entries: entries, TaintedFields: tf, Impls: impls, NonNilFields: nonNilF, CallSites: callSites,
		NonNilFacts: []string{"types.Block.HashesTo($,*)", "types.Block.WellFormed($)"},
		// txs[*] / evl[*]: elements of the lists of a block that passed Block.WellFormed (obligations wellformed/* below)
		NonNilOperands:   []string{"msg.Part", "msg.Proposal", "msg.Vote", "txs[*]", "evl[*]"},
		UntaintedResults: []string{"consensus.BlockChainApp.*", "consensus.EvidencePool.*", "log.Logger.*"}})
	// ---- obligations the analysis relies on ------------------------------------------------
	// (1) the reactor dereferences the top-level pointers of a message before it is queued: a nil
	//     pointer panics in the connection's receive routine (recovered: peer dropped), not in consensus
	{
		rc := p.Func("consensus", "ConsensusReactor.Receive")
		nSend := 0
		ir.Instrs(rc, func(in ssa.Instruction) {
			sd, ok := in.(*ssa.Send)
			if !ok {
				return
			}
			v := ir.Render(sd.X)
			var field string
			switch {
			case strings.Contains(v, ".(*consensus.ProposalMessage)"):
				field = "Proposal"
			case strings.Contains(v, ".(*consensus.BlockPartMessage)"):
				field = "Part"
			case strings.Contains(v, ".(*consensus.VoteMessage)"):
				field = "Vote"
			default:
				return
			}
			nSend++
			// an instruction that dereferences msg.<field> (or hands it to a callee that does) dominates the send
			ok2 := false
			ir.Instrs(rc, func(x ssa.Instruction) {
				if !ir.Precedes(x, in) {
					return
				}
				switch y := x.(type) {
				case *ssa.FieldAddr:
					if strings.HasSuffix(ir.Render(y.X), "#0."+field) {
						ok2 = true
					}
				case *ssa.Call:
					callee := y.Call.StaticCallee()
					if callee == nil || callee.Blocks == nil {
						return
					}
					for i, a := range y.Call.Args {
						if strings.HasSuffix(ir.Render(a), "#0."+field) && derefsParamUnguarded(callee, i) {
							ok2 = true
						}
					}
				}
			})
			r.Check("K1", "consensus.(*ConsensusReactor).Receive/enqueue:"+field+"/dereferenced-first", p.InstrPos(in), ok2,
				"msg."+field+" is dereferenced in the reactor (recovered per connection) before the message is queued for the consensus goroutine")
		})
		if nSend < 3 {
			r.Undecided("K1", "consensus.(*ConsensusReactor).Receive/enqueue", p.Pos(rc.Pos()), fmt.Sprintf("expected 3 queue sends, found %d", nSend))
		}
		// the connection recovers panics of Receive
		rr := p.Func("libs/p2p/conn", "MConnection.recvRoutine")
		okRec := false
		ir.Instrs(rr, func(in ssa.Instruction) {
			if d, ok := in.(*ssa.Defer); ok && strings.HasSuffix(ir.CalleeName(d), "MConnection._recover") {
				okRec = true
			}
		})
		r.Check("K2", "conn.(*MConnection).recvRoutine/recovers", p.Pos(rr.Pos()), okRec, "the connection's receive routine defers _recover, so a reactor-side panic drops the peer only")
	}
	// (2) field invariant: a block kept in cs.ProposalBlock after decoding has non-nil Header, Data, LastCommit
	{
		ap := p.Func("consensus", "ConsensusState.addProposalBlockPart")
		n := 0
		ir.Instrs(ap, func(in ssa.Instruction) {
			fa, ok := in.(*ssa.FieldAddr)
			if !ok {
				return
			}
			x := ir.Render(fa.X)
			if !ok || (x != "cs.RoundState.ProposalBlock.Header" && x != "cs.RoundState.ProposalBlock.Data" && x != "cs.RoundState.ProposalBlock.LastCommit") {
				return
			}
			if !ir.HasFact(ir.FactsAt(in), "eq(ser.DecodeReader(*)#1,nil)") {
				return // not after the decode
			}
			n++
			wf := " || types.Block.WellFormed(cs.RoundState.ProposalBlock)"
			c.Guards(csT+"addProposalBlockPart", "use decoded block", in,
				G{"block", "!eq(cs.RoundState.ProposalBlock,nil)" + wf}, G{"header", "!eq(cs.RoundState.ProposalBlock.Header,nil)" + wf},
				G{"data", "!eq(cs.RoundState.ProposalBlock.Data,nil)" + wf}, G{"last-commit", "!eq(cs.RoundState.ProposalBlock.LastCommit,nil)" + wf})
		})
		c.MustFind("K1", csT+"addProposalBlockPart/use decoded block", ap, n, "use of the decoded block")
		// Block.WellFormed is what establishes the invariant: true only for a non-nil block with header,
		// data and last commit, and false as soon as a transaction or evidence entry is nil
		if wfn := p.TryFunc("types", "Block.WellFormed"); wfn != nil {
			nT := 0
			var nilTx, nilEv bool
			for _, rt := range ir.Returns(wfn) {
				fs := ir.FactsAt(rt.Instr)
				switch ir.AbstractResult(rt.Results[0]) {
				case "true":
					nT++
					c.Guards("types.(*Block).WellFormed", "return true", rt.Instr,
						G{"block", "!eq(b,nil)"}, G{"header", "!eq(b.Header,nil)"}, G{"data", "!eq(b.Data,nil)"}, G{"last-commit", "!eq(b.LastCommit,nil)"})
					// both element loops ran to their end
					found, _, tr := ir.FindPath(ir.PathQuery{From: ir.Entry(wfn), Target: func(in ssa.Instruction) bool { return in == ssa.Instruction(rt.Instr) },
						AvoidEdge: func(atoms []string) bool {
							for _, a := range atoms {
								if ir.Match("le(len(b.Data.Txs),*)", a) || ir.Match("!lt(*,len(b.Data.Txs))", a) {
									return true
								}
							}
							return false
						}})
					r.Check("K1", "wellformed/types.(*Block).WellFormed/all-txs-visited", p.InstrPos(rt.Instr), !found, fmt.Sprintf("true is returned only after the transaction loop ran to the end: %v", tr))
					found, _, tr = ir.FindPath(ir.PathQuery{From: ir.Entry(wfn), Target: func(in ssa.Instruction) bool { return in == ssa.Instruction(rt.Instr) },
						AvoidEdge: func(atoms []string) bool {
							for _, a := range atoms {
								if ir.Match("le(len(b.Evidence.Evidence),*)", a) {
									return true
								}
							}
							return false
						}})
					r.Check("K1", "wellformed/types.(*Block).WellFormed/all-evidence-visited", p.InstrPos(rt.Instr), !found, fmt.Sprintf("true is returned only after the evidence loop ran to the end: %v", tr))
				case "false":
					if ir.HasFact(fs, "eq(b.Data.Txs[*],nil)") {
						nilTx = true
					}
					if ir.HasFact(fs, "eq(b.Evidence.Evidence[*],nil)") {
						nilEv = true
					}
				}
			}
			r.Check("K1", "wellformed/types.(*Block).WellFormed/nil-tx-rejected", p.Pos(wfn.Pos()), nilTx && nT == 1, "a nil transaction entry makes the block malformed")
			r.Check("K1", "wellformed/types.(*Block).WellFormed/nil-evidence-rejected", p.Pos(wfn.Pos()), nilEv, "a nil evidence entry makes the block malformed")
			// fast sync: a received block is used only after WellFormed
			rc := p.Func("blockchain", "BlockchainReactor.Receive")
			for _, call := range ir.Calls(rc, "blockchain.BlockPool.AddBlock") {
				c.Guards("blockchain.(*BlockchainReactor).Receive", "AddBlock", call.(ssa.Instruction), G{"well-formed", "types.Block.WellFormed(" + Arg(call, 2) + ")"})
			}
			c.MustFind("K1", "blockchain.(*BlockchainReactor).Receive/AddBlock", rc, len(ir.Calls(rc, "blockchain.BlockPool.AddBlock")), "pool.AddBlock call")
		} else {
			r.Undecided("K1", "wellformed/types.(*Block).WellFormed", "-", "Block.WellFormed not found: the element invariant assumed for txs[*]/evl[*] has no establishing check")
		}
		c.WhoMayWrite("consensus/types", "RoundState.ProposalBlock", csT+"addProposalBlockPart", csT+"enterCommit", csT+"enterNewRound", csT+"enterPrecommit", csT+"updateToStatus", csT+"defaultDecideProposal", csT+"defaultSetProposal", csT+"SetProposalAndBlock")
	}
	// (3) the part count of an accepted proposal is bounded before the part set is allocated
	{
		sp := p.Func("consensus", "ConsensusState.defaultSetProposal")
		for _, call := range ir.Calls(sp, "types.NewPartSetFromHeader") {
			c.Guards(csT+"defaultSetProposal", "allocate part set", call,
				G{"total-positive", "lt(0,proposal.BlockPartsHeader.Total)"}, G{"total-bounded", "le(proposal.BlockPartsHeader.Total,*)"},
				G{"signature", "crypto.PubKey.VerifyBytes(*)"})
		}
	}
	// (3b) nothing of the consensus state may change before the proposal's signature is verified
	{
		sp := p.Func("consensus", "ConsensusState.defaultSetProposal")
		n := 0
		ir.Instrs(sp, func(in ssa.Instruction) {
			var what string
			switch x := in.(type) {
			case *ssa.Store:
				a := ir.Render(x.Addr)
				if strings.HasPrefix(a, "&cs.") {
					what = "write " + strings.TrimPrefix(a, "&")
				}
			case *ssa.Call:
				cn := ir.CalleeName(x)
				if cn == "consensus.ConsensusState.enterNewRound" || strings.HasSuffix(cn, "Timer.Reset") {
					what = "call " + cn
				}
			}
			if what == "" {
				return
			}
			n++
			ok := ir.HasFact(ir.FactsAt(in), "crypto.PubKey.VerifyBytes(*,types.Proposal.SignBytes(proposal,cs.status.ChainID),proposal.Signature)")
			r.Check("K1", csT+"defaultSetProposal/state-change-after-signature/"+what, p.InstrPos(in), ok,
				"consensus state may be changed by a proposal only after its signature was verified")
		})
		c.MustFind("K1", csT+"defaultSetProposal/state-change-after-signature", sp, n, "state writes")
	}
	// (4) shared with C12: part admission
	c12AddPart(c, "C16")
	// (5) peer-supplied bit arrays: Bits and Elems are decoded independently, every BitArray
	//     operation trusts Bits <= 64*len(Elems)
	{
		baT := types.NewPointer(p.Obj("libs/common", "BitArray").Type())
		for _, fn := range p.Funcs {
			if fn.Pkg == nil || ir.RelPkg(fn.Pkg.Pkg) != "consensus" || fn.Signature.Recv() == nil || !strings.Contains(fn.Signature.Recv().Type().String(), "PeerState") {
				continue
			}
			seen := map[string]bool{}
			ir.Instrs(fn, func(in ssa.Instruction) {
				u, ok := in.(*ssa.UnOp)
				if !ok {
					return
				}
				fa, ok := u.X.(*ssa.FieldAddr)
				if !ok || !types.Identical(u.Type(), baT) {
					return
				}
				par, ok := fa.X.(*ssa.Parameter)
				if !ok || !strings.HasSuffix(par.Type().String(), "Message") {
					return
				}
				k := ir.FuncName(fn) + "/" + ir.Render(u)
				if seen[k] {
					return
				}
				seen[k] = true
				// the load that only feeds the validity test itself is not a use
				onlyValid := u.Referrers() != nil && len(*u.Referrers()) > 0
				if onlyValid {
					for _, ref := range *u.Referrers() {
						if cl, ok := ref.(*ssa.Call); !ok || ir.CalleeName(cl) != "common.BitArray.Valid" {
							if _, dbg := ref.(*ssa.DebugRef); !dbg {
								onlyValid = false
							}
						}
					}
				}
				if onlyValid {
					seen[k] = false
					return
				}
				validated := ir.HasFact(ir.FactsAt(in), "common.BitArray.Valid("+ir.Render(u)+")") || ir.HasFact(ir.FactsAt(in), "*ValidateBasic(*)*")
				r.Check("K1", "peer-bitarray/"+k, p.InstrPos(in), validated,
					"a BitArray decoded from a peer (independent Bits and Elems) is used/stored without checking Bits against len(Elems); Sub/Or/PickRandom/GetIndex on it index out of range in the gossip goroutines, which have no recover")
			})
		}
	}
	// the validity test itself: true for a non-nil array only with Bits > 0 and exactly (Bits+63)/64 words
	if vf := p.TryFunc("libs/common", "BitArray.Valid"); vf != nil {
		okV := false
		for _, rt := range ir.Returns(vf) {
			ph, ok := rt.Results[0].(*ssa.Phi)
			if !ok {
				continue
			}
			nFalse, nCmp := 0, 0
			for i, e := range ph.Edges {
				pred := ph.Block().Preds[i]
				if k, isC := e.(*ssa.Const); isC && k.Value != nil && k.Value.String() == "false" {
					nFalse++
					continue
				}
				for _, a := range ir.CondAtoms(e, true) {
					if (a == "eq(len(bA.Elems),((bA.Bits + 63) / 64))" || a == "eq(((bA.Bits + 63) / 64),len(bA.Elems))") && ir.HasFact(ir.FactsAtBlock(pred), "lt(0,bA.Bits)") {
						nCmp++
					}
				}
			}
			okV = nCmp == 1 && nFalse == len(ph.Edges)-1
		}
		r.Check("K11", "common.(*BitArray).Valid/invariant", p.Pos(vf.Pos()), okV, "Valid() is Bits > 0 && len(Elems) == (Bits+63)/64, the invariant NewBitArray establishes")
	}
	r.Stats["functions analysed (tainted parameter or field reached)"] = len(fns)
	r.Stats["sinks"] = len(sinks)
	r.Note("taint scope: %d functions", len(fns))
	byKey := map[string][]ir.Sink{}
	var keys []string
	for _, s := range sinks {
		k := s.Key()
		if _, ok := byKey[k]; !ok {
			keys = append(keys, k)
		}
		byKey[k] = append(byKey[k], s)
	}
	sort.Strings(keys)
	for _, k := range keys {
		ss := byKey[k]
		allGuarded := true
		var why []string
		for _, s := range ss {
			if !s.Guarded {
				allGuarded = false
				why = append(why, p.InstrPos(s.Instr)+": "+s.Why)
			}
		}
		pos := p.InstrPos(ss[0].Instr)
		if allGuarded {
			r.Check("K9", "sink/"+k, pos, true, ss[0].Why)
			continue
		}
		if reason, ok := c16Reviewed[k]; ok {
			r.Check("K9", "sink/"+k, pos, true, "reviewed: "+reason)
			continue
		}
		r.Check("K9", "sink/"+k, pos, false, "panic-capable operation on peer data without a dominating guard: "+strings.Join(why, "; "))
	}
	_ = c
	_ = fmt.Sprint

	// ---- the write-ahead log accepts every queued message ----------------------------------------
	// receiveRoutine logs every peer message before handling it and baseWAL.Write panics on any
	// encoder error (not recovered: consensus halts). The encoder may therefore fail only for I/O
	// reasons: every error it returns is nil or the result of the underlying writer.
	{
		fn := p.Func("consensus", "WALEncoder.Encode")
		n := 0
		for _, rt := range ir.Returns(fn) {
			n++
			v := ir.Render(rt.Results[len(rt.Results)-1])
			r.Check("K8", "consensus.(*WALEncoder).Encode/error-only-from-writer", p.InstrPos(rt.Instr),
				v == "nil" || ir.Match("io.Writer.Write(enc.wr,*)#1", v),
				"an error of Encode comes from the writer, never from the content of a (peer-supplied) message: "+short(v, 160))
		}
		c.MustFind("K8", "consensus.(*WALEncoder).Encode/returns", fn, n, "return")
		// and the only consumer that panics on it is the one the rule above protects
		w := p.Func("consensus", "baseWAL.Write")
		enc := 0
		for _, call := range ir.Calls(w, "*WALEncoder.Encode") {
			_ = call
			enc++
		}
		c.MustFind("K8", "consensus.(*baseWAL).Write/encodes", w, enc, "Encode call")
	}

	// ---- no peer-driven panic while the consensus mutex is held without defer ------------------------
	// Reactor Receive methods run in the connection's receive goroutine, whose panics are recovered
	// (the peer is dropped). A panic between a plain Lock() and its Unlock() would leave the mutex
	// locked for ever: handleMsg, handleTimeout and every other peer would block — one message
	// halts consensus silently. Inside such a region only reads and the listed size getters may occur.
	{
		allowed := []string{"types.ValidatorSet.Size", "types.VoteSet.Size", "sync.Mutex.Unlock", "sync.RWMutex.Unlock", "sync.RWMutex.RUnlock", "log.*"}
		nRegions := 0
		for _, fn := range p.Funcs {
			if fn.Pkg == nil || fn.Blocks == nil || fn.Name() != "Receive" || fn.Signature.Recv() == nil || strings.HasSuffix(p.Pos(fn.Pos()), "_test.go") {
				continue
			}
			rel := ir.RelPkg(fn.Pkg.Pkg)
			if rel != "consensus" && rel != "mempool" && rel != "blockchain" && rel != "evidence" {
				continue
			}
			deferred := map[string]bool{}
			ir.Instrs(fn, func(in ssa.Instruction) {
				if d, ok := in.(*ssa.Defer); ok {
					n := ir.CalleeName(d)
					if strings.HasSuffix(n, ".Unlock") || strings.HasSuffix(n, ".RUnlock") {
						deferred[Arg(d, 0)] = true
					}
				}
			})
			ir.Instrs(fn, func(in ssa.Instruction) {
				call, ok := in.(*ssa.Call)
				if !ok {
					return
				}
				n := ir.CalleeName(call)
				if !(n == "sync.Mutex.Lock" || n == "sync.RWMutex.Lock" || n == "sync.RWMutex.RLock") {
					return
				}
				mu := Arg(call, 0)
				if deferred[mu] {
					return
				}
				nRegions++
				isUnlock := func(x ssa.Instruction) bool {
					c2, ok := x.(*ssa.Call)
					if !ok {
						return false
					}
					n2 := ir.CalleeName(c2)
					return (strings.HasSuffix(n2, ".Unlock") || strings.HasSuffix(n2, ".RUnlock")) && Arg(c2, 0) == mu
				}
				// walk forward from the Lock until the Unlock on every path, collecting calls
				var bad []string
				seen := map[*ssa.BasicBlock]bool{}
				var walk func(b *ssa.BasicBlock, from int)
				walk = func(b *ssa.BasicBlock, from int) {
					for i := from; i < len(b.Instrs); i++ {
						x := b.Instrs[i]
						if isUnlock(x) {
							return
						}
						if ci, ok := x.(ssa.CallInstruction); ok {
							cn := ir.CalleeName(ci)
							if _, isBuiltin := ci.Common().Value.(*ssa.Builtin); isBuiltin {
								continue
							}
							okc := false
							for _, a := range allowed {
								if ir.Match(a, cn) {
									okc = true
								}
							}
							if !okc {
								bad = append(bad, cn+"@"+p.InstrPos(x))
							}
						}
						switch x.(type) {
						case *ssa.Index, *ssa.IndexAddr, *ssa.TypeAssert, *ssa.Slice:
							if ta, ok := x.(*ssa.TypeAssert); ok && ta.CommaOk {
								continue
							}
							bad = append(bad, fmt.Sprintf("%T@%s", x, p.InstrPos(x)))
						}
					}
					for _, sb := range ir.Info(fn).Succs[b] {
						if !seen[sb] {
							seen[sb] = true
							walk(sb, 0)
						}
					}
				}
				walk(in.Block(), ir.InstrIndex(in)+1)
				r.Check("K10", "lock-region/"+ir.FuncName(fn)+"/"+mu, p.InstrPos(in), len(bad) == 0,
					fmt.Sprintf("between %s.Lock() and its Unlock() (no defer) only field reads and size getters occur; found: %v", mu, bad))
			})
		}
		r.Check("K10", "lock-region/sites", "-", nRegions >= 3, fmt.Sprintf("%d non-deferred lock regions found in reactor Receive methods (confirmed by hand: 3 in consensus)", nRegions))
	}

	// a registered type that does not fit the field it is decoded into is rejected, not a reflect panic (shared with C11)
	typeChosenByInputFits(c)

	// ---- what is queued for the consensus routine has a payload ------------------------------------------------------
	// The decoder happily produces VoteMessage{Vote: nil}. The consensus routine dereferences the payload
	// without a test (addVote reads vote.Height) and a panic THERE ends consensus for good; a panic in the
	// reactor's Receive only drops the peer (the connection recovers). So every message Receive puts on
	// peerMsgQueue has had its payload pointer dereferenced in Receive first, on every path: directly
	// (msg.Part.Index) or by a callee that dereferences that parameter on all of its paths (SetHasVote,
	// SetHasProposal). A helper that returns early on a nil payload and lets the caller enqueue breaks it.
	{
		recv := p.Func("consensus", "ConsensusReactor.Receive")
		derefMemo := map[string]bool{}
		var derefsParam func(fn *ssa.Function, idx, depth int) bool
		derefsParam = func(fn *ssa.Function, idx, depth int) bool {
			if fn == nil || fn.Blocks == nil || idx >= len(fn.Params) || depth > 3 {
				return false
			}
			k := fmt.Sprintf("%s#%d", ir.FuncName(fn), idx)
			if v, ok := derefMemo[k]; ok {
				return v
			}
			derefMemo[k] = false
			q := fn.Params[idx]
			uses := func(in ssa.Instruction) bool {
				switch x := in.(type) {
				case *ssa.FieldAddr:
					return x.X == q
				case *ssa.Field:
					return x.X == q
				case *ssa.UnOp:
					return x.Op == token.MUL && x.X == q
				case *ssa.Call:
					if callee := x.Call.StaticCallee(); callee != nil {
						for i, a := range x.Call.Args {
							if a == q && derefsParam(callee, i, depth+1) {
								return true
							}
						}
					}
				}
				return false
			}
			found, _, _ := ir.FindPath(ir.PathQuery{From: ir.Entry(fn), Target: ir.IsReturn, Avoid: uses})
			derefMemo[k] = !found
			return !found
		}
		nQ := 0
		ir.Instrs(recv, func(in ssa.Instruction) {
			snd, ok := in.(*ssa.Send)
			if !ok || !strings.HasSuffix(ir.Render(snd.Chan), ".peerMsgQueue") {
				return
			}
			// the message stored into msgInfo.Msg
			var msg ssa.Value
			if ld, isLd := snd.X.(*ssa.UnOp); isLd {
				if al, isAl := ld.X.(*ssa.Alloc); isAl && al.Referrers() != nil {
					for _, u := range *al.Referrers() {
						if fa, isFA := u.(*ssa.FieldAddr); isFA && fa.Field == 0 && fa.Referrers() != nil {
							for _, uu := range *fa.Referrers() {
								if st, isSt := uu.(*ssa.Store); isSt {
									msg = st.Val
								}
							}
						}
					}
				}
			}
			for {
				if mi, isMI := msg.(*ssa.MakeInterface); isMI {
					msg = mi.X
					continue
				}
				if ci, isCI := msg.(*ssa.ChangeInterface); isCI {
					msg = ci.X
					continue
				}
				break
			}
			if msg == nil {
				r.Undecided("K9", "consensus.(*ConsensusReactor).Receive/enqueue/message", p.InstrPos(in), "message of a peerMsgQueue send not identified")
				return
			}
			pt, isPtr := msg.Type().(*types.Pointer)
			if !isPtr {
				return
			}
			stT, isSt := pt.Elem().Underlying().(*types.Struct)
			if !isSt {
				return
			}
			for i := 0; i < stT.NumFields(); i++ {
				fp, isP := stT.Field(i).Type().(*types.Pointer)
				if !isP {
					continue
				}
				if _, isS := fp.Elem().Underlying().(*types.Struct); !isS {
					continue
				}
				nQ++
				payload := ir.Render(msg) + "." + stT.Field(i).Name()
				deref := func(x ssa.Instruction) bool {
					switch y := x.(type) {
					case *ssa.FieldAddr:
						return ir.Render(y.X) == payload
					case *ssa.Field:
						return ir.Render(y.X) == payload
					case *ssa.Call:
						if callee := y.Call.StaticCallee(); callee != nil && !ir.IsTransparentHelper(callee) {
							for j, a := range y.Call.Args {
								if ir.Render(a) == payload && derefsParam(callee, j, 0) {
									return true
								}
							}
						}
					}
					return false
				}
				found, _, tr := ir.FindPath(ir.PathQuery{From: ir.Entry(recv), Target: func(x ssa.Instruction) bool { return x == in }, Avoid: deref})
				d := "enqueued only after " + short(payload, 80) + " was dereferenced in Receive (a nil payload panics here, where only the peer is dropped)"
				if found {
					d += fmt.Sprintf("; a path reaches the send without it: blocks %v", tr)
				}
				r.Check("K9", "consensus.(*ConsensusReactor).Receive/enqueue/"+typeShortT(pt.Elem())+"."+stT.Field(i).Name()+"/payload-dereferenced-first", p.InstrPos(in), !found, d)
			}
		})
		r.Check("K9", "consensus.(*ConsensusReactor).Receive/enqueue/sites", p.Pos(recv.Pos()), nQ >= 3, fmt.Sprintf("%d enqueued payload pointers (proposal, block part, vote)", nQ))
	}
	// a failed decode leaves an optional pointer as it was: addProposalBlockPart decodes straight into
	// cs.ProposalBlock and relies on the pointer staying nil when the bytes are not a block (a half-filled
	// block with nil parts would pass isProposalComplete and be dereferenced by the next step)
	{
		mk := p.Func("libs/ser", "makeOptionalPtrDecoder")
		n := 0
		for _, cl := range mk.AnonFuncs {
			for _, call := range ir.Calls(cl, "reflect.Value.Set") {
				if Arg(call, 0) != "val" || strings.HasPrefix(Arg(call, 1), "reflect.Zero(") {
					continue
				}
				n++
				c.Guards("ser.makeOptionalPtrDecoder", "set pointer", call.(ssa.Instruction), G{"only-after-successful-decode", "eq(dyn:etypeinfo.decoder(s,*),nil)"})
			}
		}
		c.MustFind("K1", "ser.makeOptionalPtrDecoder/set pointer", mk, n, "val.Set(newval)")
	}
	// methods that refuse a nil receiver with a sanity panic (VoteSet.AddVote, VoteSet.SetPeerMaj23) are
	// called on state fields only where the field is known to be set: cs.LastCommit is nil for the whole
	// first height, and a peer chooses when a "previous height" precommit arrives (fix ff38f2e)
	{
		n := 0
		for _, f := range p.Funcs {
			if f.Pkg == nil || ir.RelPkg(f.Pkg.Pkg) == "" || f.Blocks == nil || f.Signature.Recv() == nil || len(f.Params) == 0 || strings.HasSuffix(p.Pos(f.Pos()), "_test.go") {
				continue
			}
			// entry: if recv == nil { panic }
			b0 := f.Blocks[0]
			ifi, ok := b0.Instrs[len(b0.Instrs)-1].(*ssa.If)
			if !ok {
				continue
			}
			atoms := ir.CondAtoms(ifi.Cond, true)
			if len(atoms) != 1 || atoms[0] != "eq("+f.Params[0].Name()+",nil)" {
				continue
			}
			panics := false
			for _, in := range b0.Succs[0].Instrs {
				if call, ok := in.(*ssa.Call); ok && strings.Contains(ir.CalleeName(call), "Panic") {
					panics = true
				}
				if _, ok := in.(*ssa.Panic); ok {
					panics = true
				}
			}
			if !panics || f.Object() == nil {
				continue
			}
			for _, cs := range p.CallSites(f.Object().(*types.Func)) {
				if strings.HasSuffix(p.Pos(cs.Fn.Pos()), "_test.go") {
					continue
				}
				recv := Arg(cs.Instr, 0)
				if strings.Contains(recv, "(") || strings.Contains(recv, "φ") || !strings.Contains(recv, ".") {
					continue // locals and call results: covered by the nil-dereference sinks of the taint analysis
				}
				n++
				c.Guards(ir.FuncName(ir.EnclosingTop(cs.Fn)), "call "+f.Name()+" on "+recv, cs.Instr.(ssa.Instruction), G{"receiver-set", "!eq(" + recv + ",nil)"})
			}
		}
		r.Check("K1", "nil-refusing-methods/sites", "-", n >= 1, fmt.Sprintf("%d calls of nil-refusing methods on state fields found", n))
	}
	// the recover branch of defaultSetProposal (entered before any signature check: known finding) is at
	// least gated on the time the node has spent at this height: cs.StartTime, which is always set;
	// cs.CommitTime is the zero time on a freshly started node, a gate on it is open for any peer
	{
		sp := p.Func("consensus", "ConsensusState.defaultSetProposal")
		n := 0
		for _, s := range p.Stores(p.Field("consensus", "ConsensusState.stepRecover")) {
			if ir.EnclosingTop(s.Fn) != sp || ir.Render(s.Val) != "true" {
				continue
			}
			n++
			c.GuardsS("consensus.(*ConsensusState).defaultSetProposal", "enter recover", s, G{"waited-since-height-start", "!time.Time.After(time.Time.Add(cs.RoundState.StartTime,*),time.Now())"})
		}
		c.MustFind("K1", "consensus.(*ConsensusState).defaultSetProposal/enter recover", sp, n, "cs.stepRecover = true")
	}
}

var _ = report.Discharged

// derefsParamUnguarded: the callee dereferences parameter i on some path without a nil check.
func derefsParamUnguarded(f *ssa.Function, i int) bool {
	if i >= len(f.Params) {
		return false
	}
	par := f.Params[i]
	found := false
	ir.Instrs(f, func(in ssa.Instruction) {
		var base ssa.Value
		switch x := in.(type) {
		case *ssa.FieldAddr:
			base = x.X
		case *ssa.UnOp:
			base = x.X
		}
		if base == ssa.Value(par) && !ir.HasFact(ir.FactsAt(in), "!eq("+par.Name()+",nil)") {
			found = true
		}
	})
	return found
}
