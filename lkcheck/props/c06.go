package props

import (
	"fmt"
	"go/types"
	"regexp"
	"sort"
	"strconv"
	"strings"

	"golang.org/x/tools/go/ssa"

	"lkcheck/ir"
	"lkcheck/report"
)

func init() { Registry["C06"] = C06 }

// C06 no transaction or block creates or destroys value — acceptance-path clauses only.
func C06(p *ir.Program, r *report.R) {
	c := C{p, r}
	// the signature pre-check trusts the mempool cache only for transactions that passed their basic check
	c05Cache(c)
	journalDirtyCounts(c)
	// a confidential transaction of a NON-native token pays its fee from the signer's account (only for the
	// native coin is the fee inside the commitment equation): GenerateTransaction decides on IsLKC(token), and
	// on the not-LKC side the signer becomes the refund address on every path - buyGas reads an empty refund
	// address as "fee already paid in the hidden pool"
	{
		gt := p.Func("app", "GenerateTransaction")
		nL := 0
		ir.Instrs(gt, func(in ssa.Instruction) {
			ifi, ok := in.(*ssa.If)
			if !ok || !strings.HasPrefix(ir.Render(ifi.Cond), "common.IsLKC(types.UTXOTransaction.TokenAddress(") {
				return
			}
			nL++
			notLKC := ifi.Block().Succs[1]
			isSet := ir.CallMatcher("types.UTXOTransaction.From")
			found, _, tr := ir.FindPath(ir.PathQuery{From: ir.Point{B: notLKC, I: -1}, Target: ir.IsReturn, Avoid: isSet})
			r.Check("K2", "app.GenerateTransaction/utxo/token-fee-payer-set", p.InstrPos(in), !found, fmt.Sprintf("for a non-native token every path recovers the signer (from = tx.From(), which becomes RefundAddr); path without it: %v", tr))
		})
		r.Check("K2", "app.GenerateTransaction/utxo/token-fee-payer/decision", p.Pos(gt.Pos()), nL >= 1, fmt.Sprintf("%d decision(s) on IsLKC(token) in GenerateTransaction", nL))
	}
	// at most ONE account input: checkCommitEqual adds up the commitments of all account inputs, but the
	// executor debits a single one; an iteration of the input loop that accepts an account input is the
	// first to do so (the kind bit not yet set / the counter still zero)
	{
		sem := p.Func("types", "UTXOTransaction.checkTxSemantic")
		nA := 0
		for _, l := range ir.Loops(sem) {
			for _, latch := range l.Latches {
				fs := ir.FactsAtBlock(latch)
				if !ir.HasFact(fs, "tx.Inputs[*types.AccountInput)#1") {
					continue
				}
				nA++
				first := ir.HasFact(fs, "!eq((φ:kind & 2),2)") || ir.HasFact(fs, "eq(φ:accountInNum,0)") || ir.HasFact(fs, "lt(φ:accountInNum,1)") || ir.HasFact(fs, "le(φ:accountInNum,0)")
				r.Check("K1", "types.(*UTXOTransaction).checkTxSemantic/account-input/first-and-only", p.InstrPos(latch.Instrs[len(latch.Instrs)-1]), first, "an account input is accepted only when none was accepted before: "+short(strings.Join(ir.FactStrings(fs), " ; "), 300))
			}
		}
		r.Check("K1", "types.(*UTXOTransaction).checkTxSemantic/account-input/sites", p.Pos(sem.Pos()), nA >= 1, fmt.Sprintf("%d accepting iterations of the input loop", nA))
	}
	// a self-destructed account holds nothing: Suicide replaces the native balance AND the token map by
	// fresh empty values (the beneficiary was credited before; a contract that is called again in the same
	// block must not pay out a second time)
	{
		sf := p.Func("state", "StateDB.Suicide")
		ms := firstCall(sf, "state.stateObject.markSuicided")
		okB, okT := false, false
		for _, st := range p.Stores(p.Field("state", "Account.Balance")) {
			if st.Fn == sf && strings.HasPrefix(ir.Render(st.Val), "&new:big.Int") {
				okB = true
			}
		}
		for _, st := range p.Stores(p.Field("state", "Account.Tokens")) {
			if st.Fn == sf && strings.HasPrefix(ir.Render(st.Val), "make(map[") {
				okT = true
			}
		}
		r.Check("K4", "state.(*StateDB).Suicide/holdings-cleared", p.Pos(sf.Pos()), ms != nil && okB && okT, fmt.Sprintf("Suicide sets data.Balance to a new zero (%v) and data.Tokens to an empty map (%v)", okB, okT))
	}
	gasNeverSigned(c)
	r.Floor = 30
	r.Explain = "Decided (very narrow; the conservation equation itself is arithmetic over runtime values and a cgo curve library and is NOT decided): (B1) an unbalanced confidential transaction cannot be accepted unless the acceptance path skips the balance/range checks — every nil return of UTXOTransaction.CheckBasic is dominated by successful checkTxSemantic and checkCommitEqual, and, as all-paths properties, by checkRctSigData when confidential parts exist, by the range-proof check when there are confidential outputs and by the ring-signature check when there are confidential inputs; checkCommitEqual's nil return is dominated by equality of the input and output commitment sums (both non-empty) and every account-side input/output iteration passes the amount-commitment equality; block processing admits a confidential transaction only through a cache hit or a successful basic check, processBlock stops when verification fails, Process checks fee adequacy (CheckStoreState) before executing; (B2) a failed call moves nothing but fees — the snapshot is taken after preTransit and before transitInputs, refundGas reverts to that same snapshot on every vmerr path before any refund, all balance checks of transitInputs precede the first debit. ADDED after seeded-change testing: amount width — BigInt2Hash's byte loop runs while i < 8 and a value still positive afterwards is rejected with no companion test other than i == 8 / i >= 8 (no truncation modulo 2^64); CheckStoreState and checkState admit an account input only when the balance OF THE TRANSACTION'S TOKEN covers the amount and, for non-native tokens, the native balance covers the fee; checkRctSigData succeeds only with exactly one output commitment per confidential output and one ring signature per confidential input; payTransferGas reports 0 on its error path. VALUE LEDGER (added while deepening): every StateDB.{Add,Sub,Set}[Token]Balance call of app/types/vm (34 sites) is either half of a debit+credit pair with the same SSA token and amount and different accounts whose debit is covered by a balance check, or a reviewed table entry whose account, token, amount, state and guards still have the reviewed form (gas bought / refunded / collected at the par price, inputs debited / outputs credited with the same tx.Value(), credit-only primitives used at call depth 0 only and entered from the transaction layer only, issue with account==token and amount>0, self-destruct crediting the holdings of the account it then removes, mempool check-state debits); a new site is reported as unreviewed Rounds 4-5: no gas quantity converted to a signed integer without a bound; the mempool signature cache and the journal dirty counts are checked here too (shared rules). Round 6: 'no gas used' is declared only for contract upgrades; an account input is accepted only when none was accepted before. Round 7: a confidential transaction of a non-native token always recovers its fee payer (GenerateTransaction decides on IsLKC). NOT decided: fee arithmetic, EVM/WASM transfers, conservation sums, Bulletproof/commitment soundness."
	r.Trusted = []string{"ringct / xcrypto (cgo)", "CalNewAmountGas fee schedule"}

	// ---- B1: CheckBasic ---------------------------------------------------------
	{
		fn := p.Func("types", "UTXOTransaction.CheckBasic")
		name := "types.(*UTXOTransaction).CheckBasic"
		kind := "types.UTXOTransaction.UTXOKind(tx)"
		uinuout := fmt.Sprint(c.ConstInt("types", "UinUout"))
		uout := fmt.Sprint(c.ConstInt("types", "Uout"))
		uin := fmt.Sprint(c.ConstInt("types", "Uin"))
		ill := fmt.Sprint(c.ConstInt("types", "IllKind"))
		n := 0
		for _, rt := range ir.Returns(fn) {
			if ir.AbstractResult(rt.Results[0]) != "nil" {
				continue
			}
			n++
			c.Guards(name, "return nil", rt.Instr,
				G{"semantic", "eq(types.UTXOTransaction.checkTxSemantic(tx,censor),nil)"},
				G{"commitments-balance", "eq(types.UTXOTransaction.checkCommitEqual(tx),nil)"})
			c.GuardsAny(name, "return nil", "rct-data-if-confidential", rt.Instr,
				"eq(types.UTXOTransaction.checkRctSigData(tx),nil)", "eq(("+kind+" & "+uinuout+"),"+ill+")")
			c.GuardsAny(name, "return nil", "range-proof-if-confidential-outputs", rt.Instr,
				"eq(types.UTXOTransaction.VerifyProofSemantic(tx),nil)", "!eq(("+kind+" & "+uout+"),"+uout+")", "eq(("+kind+" & "+uinuout+"),"+ill+")")
			c.GuardsAny(name, "return nil", "ring-signatures-if-confidential-inputs", rt.Instr,
				"eq(types.UTXOTransaction.checkTxInputKeys(tx,censor),nil)", "!eq(("+kind+" & "+uin+"),"+uin+")", "eq(("+kind+" & "+uinuout+"),"+ill+")")
		}
		c.MustFind("K1", name+"/return nil", fn, n, "nil return")
		// the early exit for non-confidential transactions is exactly kind&UinUout == IllKind
		ce := p.Func("types", "UTXOTransaction.checkCommitEqual")
		cn := "types.(*UTXOTransaction).checkCommitEqual"
		k := 0
		for _, rt := range ir.Returns(ce) {
			if ir.AbstractResult(rt.Results[0]) != "nil" {
				continue
			}
			k++
			fs := ir.FactsAt(rt.Instr)
			okEq := false
			for _, a := range ir.FactStrings(fs) {
				if ir.Match("types.Key.IsEqual(*sumPseudoOuts*,*sumOutpks*)", a) || ir.Match("types.Key.IsEqual(*sumOutpks*,*sumPseudoOuts*)", a) {
					okEq = true
				}
			}
			r.Check("K1", cn+"/return nil/sums-equal", p.InstrPos(rt.Instr), okEq, "accepted only if the sum of input commitments equals the sum of output commitments (+fee): facts "+short(strings.Join(ir.FactStrings(fs), " ; "), 300))
			nonEmpty := 0
			for _, a := range ir.FactStrings(fs) {
				if strings.HasPrefix(a, "!types.Key.IsEqual(") && strings.Contains(a, "new:types.Key") {
					nonEmpty++
				}
			}
			r.Check("K1", cn+"/return nil/sums-non-empty", p.InstrPos(rt.Instr), nonEmpty >= 2, "neither sum is the empty key")
		}
		c.MustFind("K1", cn+"/return nil", ce, k, "nil return")
		// account-side amounts are bound to their commitments in every iteration
		nl := 0
		for _, l := range ir.Loops(ce) {
			hdr := ""
			for _, in := range l.Header.Instrs {
				if ifi, ok := in.(*ssa.If); ok {
					hdr = ir.Render(ifi.Cond)
				}
			}
			switch {
			case strings.Contains(hdr, "len(tx.Inputs)"):
				nl++
				ok, tr := ir.EveryPathFromHas(l.Header, l.Header, "types.Key.IsEqual(*,&*.(*types.AccountInput)#0.Commit)", "!*.(*types.AccountInput)#1", "*.(*types.UTXOInput)#1")
				r.Check("K2", cn+"/account-input-commitment", p.Pos(ce.Pos()), ok, fmt.Sprintf("every account input passes commit(Amount/rate, CF) == input.Commit; offending %v", tr))
			case strings.Contains(hdr, "len(tx.Outputs)"):
				nl++
				ok, tr := ir.EveryPathFromHas(l.Header, l.Header, "types.Key.IsEqual(*,&*.(*types.AccountOutput)#0.Commit)", "!*.(*types.AccountOutput)#1", "*.(*types.UTXOOutput)#1")
				r.Check("K2", cn+"/account-output-commitment", p.Pos(ce.Pos()), ok, fmt.Sprintf("every account output passes H*(Amount/rate) == output.Commit; offending %v", tr))
			}
		}
		r.Check("K2", cn+"/account-loops-found", p.Pos(ce.Pos()), nl == 2, fmt.Sprintf("loops over tx.Inputs and tx.Outputs found (%d)", nl))
		// the fee commitment is part of the output sum for the native coin
		okFee := false
		ir.Instrs(ce, func(in ssa.Instruction) {
			if call, ok := in.(*ssa.Call); ok && ir.CalleeName(call) == "types.BigInt2Hash" && strings.Contains(Arg(call, 0), "tx.Fee") {
				okFee = true
			}
		})
		r.Check("K4", cn+"/fee-commitment", p.Pos(ce.Pos()), okFee, "the fee enters the output side through its commitment")
	}
	// ---- B1: block processing -----------------------------------------------------------
	{
		vt := p.Func("app", "LinkApplication.verifyTxsOnProcess")
		var body *ssa.Function
		for _, a := range vt.AnonFuncs {
			body = a
		}
		if body == nil {
			r.Undecided("K2", "app.(*LinkApplication).verifyTxsOnProcess/body", p.Pos(vt.Pos()), "worker closure not found")
		} else {
			// for a *UTXOTransaction: proceed (no error recorded) only with cache hit or CheckTx(tx,true)==nil
			nStore := 0
			ir.Instrs(body, func(in ssa.Instruction) {
				call, ok := in.(*ssa.Call)
				if !ok || ir.CalleeName(call) != "types.UTXOTransaction.ToAddrs" {
					return
				}
				nStore++
				okP, tr := ir.EveryPathHas(in, "!eq(*Mempool.GetTxFromCache(*),nil)", "eq(app.LinkApplication.CheckTx(*,true),nil)", "!eq(app.LinkApplication.CheckTx(*,true),nil)")
				r.Check("K2", "app.(*LinkApplication).verifyTxsOnProcess/utxo/cache-hit-or-basic-check", p.InstrPos(in), okP, fmt.Sprintf("a confidential transaction is either a mempool cache hit or goes through CheckTx(tx, true); offending %v", tr))
			})
			c.MustFind("K2", "app.(*LinkApplication).verifyTxsOnProcess/utxo", body, nStore, "UTXO case")
			// an error of any case is recorded and stops the worker
			okErr := false
			ir.Instrs(body, func(in ssa.Instruction) {
				if st, ok := in.(*ssa.Store); ok && strings.Contains(ir.Render(st.Addr), "errRets[") {
					if ir.HasFact(ir.FactsAt(in), "!eq(*err*,nil)") || ir.HasFact(ir.FactsAt(in), "!eq(φ:err,nil)") {
						okErr = true
					}
				}
			})
			r.Check("K8", "app.(*LinkApplication).verifyTxsOnProcess/error-recorded", p.Pos(body.Pos()), okErr, "a failed check is recorded in errRets")
		}
		// the collected errors fail the verification
		okRet := false
		for _, rt := range ir.Returns(vt) {
			if strings.HasPrefix(ir.Render(rt.Results[0]), "*") && ir.HasFact(ir.FactsAt(rt.Instr), "!eq(*errRets*,nil)") {
				okRet = true
			}
		}
		r.Check("K8", "app.(*LinkApplication).verifyTxsOnProcess/error-returned", p.Pos(vt.Pos()), okRet, "any recorded error is returned after wg.Wait()")
		w, lp := firstCall(vt, "sync.WaitGroup.Wait"), 0
		for _, rt := range ir.Returns(vt) {
			if w != nil && ir.Precedes(w, rt.Instr) {
				lp++
			}
		}
		r.Check("K2", "app.(*LinkApplication).verifyTxsOnProcess/wait-before-result", p.Pos(vt.Pos()), w != nil && lp == len(ir.Returns(vt)), "results are read only after all workers finished")
		ct := p.Func("app", "LinkApplication.CheckTx")
		okCB := false
		for _, call := range ir.Calls(ct, "types.Tx.CheckBasic") {
			if ir.HasFact(ir.FactsAt(call), "checkBasic") {
				okCB = true
			}
		}
		r.Check("K1", "app.(*LinkApplication).CheckTx/basic", p.Pos(ct.Pos()), okCB, "CheckTx(tx, true) runs tx.CheckBasic")
		for _, rt := range ir.Returns(ct) {
			if ir.AbstractResult(rt.Results[0]) == "nil" {
				c.GuardsAny("app.(*LinkApplication).CheckTx", "return nil", "check-passed", rt.Instr, "eq(types.Tx.CheckBasic(tx,app),nil)", "eq(types.Tx.CheckState(tx,app),nil)")
			}
		}
		pb := p.Func("app", "LinkApplication.processBlock")
		for _, call := range ir.Calls(pb, "app.Processor.Process") {
			c.GuardsAny("app.(*LinkApplication).processBlock", "Process", "verified-unless-prerun", call, "eq(app.LinkApplication.verifyTxsOnProcess(app,*),nil)", "preRun")
		}
		c.MustFind("K2", "app.(*LinkApplication).processBlock/Process", pb, len(ir.Calls(pb, "app.Processor.Process")), "Process call")
		cv := p.Func("app", "processState.checkValid")
		okFee := false
		for _, call := range ir.Calls(cv, "types.UTXOTransaction.CheckStoreState") {
			_ = call
			okFee = true
		}
		r.Check("K1", "app.(*processState).checkValid/utxo-fee-and-state", p.Pos(cv.Pos()), okFee, "confidential transactions go through CheckStoreState (spent images, nonce, balance, fee adequacy) before execution")
		cs := p.Func("types", "UTXOTransaction.CheckStoreState")
		for _, rt := range ir.Returns(cs) {
			if ir.AbstractResult(rt.Results[0]) == "nil" {
				c.Guards("types.(*UTXOTransaction).CheckStoreState", "return nil", rt.Instr, G{"fee-covers-needed", "le(0,big.Int.Cmp(tx.Fee,*))"})
			}
		}
	}
	// ---- B2: failed call moves nothing but fees ------------------------------------------------
	{
		tr := p.Func("app", "processTransaction.Transit")
		tn := "app.(*processTransaction).Transit"
		snap := firstCall(tr, "*StateDB.Snapshot")
		pre := firstCall(tr, "app.processTransaction.preTransit")
		ti := firstCall(tr, "app.processTransaction.transitInputs")
		post := firstCall(tr, "app.processTransaction.postTransit")
		if snap == nil || pre == nil || ti == nil || post == nil {
			r.Undecided("K2", tn+"/shape", p.Pos(tr.Pos()), "Snapshot/preTransit/transitInputs/postTransit not all found")
		} else {
			r.Check("K2", tn+"/preTransit ≺ Snapshot ≺ transitInputs", p.InstrPos(snap), ir.Precedes(pre, snap) && ir.Precedes(snap, ti), "the snapshot is taken after fees were bought and before any value moves")
			r.Check("K2", tn+"/snapshot-passed-on", p.InstrPos(post), Arg(post, 3) == ir.RenderCall(snap), "postTransit receives that snapshot: "+Arg(post, 3))
			c.Guards(tn, "Snapshot", snap, G{"preTransit-ok", "eq(app.processTransaction.preTransit(tx),nil)"})
		}
		pt := p.Func("app", "processTransaction.postTransit")
		for _, call := range ir.Calls(pt, "app.processTransaction.refundGas") {
			r.Check("K2", "app.(*processTransaction).postTransit/refundGas-args", p.InstrPos(call), Arg(call, 2) == "snapshot" && Arg(call, 3) == "vmerr", "refundGas gets the snapshot and the vm error")
		}
		rg := p.Func("app", "processTransaction.refundGas")
		rn := "app.(*processTransaction).refundGas"
		rev := ir.Calls(rg, "*StateDB.RevertToSnapshot")
		if c.MustFind("K2", rn+"/revert", rg, len(rev), "RevertToSnapshot call") {
			r.Check("K2", rn+"/revert/same-snapshot", p.InstrPos(rev[0]), Arg(rev[0], 1) == "snapshot", "reverts to the snapshot taken in Transit: "+Arg(rev[0], 1))
			// every path on which vmerr != nil passes the revert before any credit
			credit := ir.CallMatcher("*StateDB.AddBalance", "*StateDB.AddTokenBalance", "*StateDB.SubBalance", "*StateDB.SubTokenBalance")
			found, hit, trc := ir.FindPath(ir.PathQuery{From: ir.Entry(rg), Target: credit, Avoid: func(in ssa.Instruction) bool { return in == rev[0] },
				AvoidEdge: func(atoms []string) bool {
					for _, a := range atoms {
						if a == "eq(vmerr,nil)" {
							return true
						}
					}
					return false
				}})
			d := "on every path with vmerr != nil the state is reverted before any balance is credited"
			if found {
				d += fmt.Sprintf("; offending: %s via blocks %v", p.InstrPos(hit), trc)
			}
			r.Check("K2", rn+"/revert-before-refund", p.InstrPos(rev[0]), !found, d)
			c.Guards(rn, "revert", rev[0], G{"only-on-failure", "!eq(vmerr,nil)"})
		}
		// "used no gas" (tx.Gas = tx.InitialGas: fee 0, nothing for the collector) is declared only for the
		// one transaction kind that bought none, the contract upgrade; every other kind pays for what it used
		{
			nReset := 0
			for _, st := range p.Stores(p.Field("app", "processTransaction.Gas")) {
				if st.Fn != rg || !strings.HasSuffix(ir.Render(st.Val), ".InitialGas") {
					continue
				}
				nReset++
				c.GuardsS(rn, "declare no gas used", st, G{"contract-upgrade-only", "eq(tx.Type," + strconv.Quote(c.ConstString("types", "TxContractUpgrade")) + ")"})
			}
			r.Check("K1", rn+"/declare no gas used/sites", p.Pos(rg.Pos()), nReset == 1, fmt.Sprintf("%d stores tx.Gas = tx.InitialGas in refundGas", nReset))
			var extra []string
			for _, f := range ir.FactStrings(ir.FactsAt(rev[0])) {
				if f != "!eq(vmerr,nil)" {
					extra = append(extra, f)
				}
			}
			r.Check("K2", rn+"/revert/unconditional-on-failure", p.InstrPos(rev[0]), len(extra) == 0, fmt.Sprintf("the revert depends on nothing but vmerr != nil; extra conditions %v", extra))
		}
		// transitInputs: all checks before the first debit
		tin := p.Func("app", "processTransaction.transitInputs")
		in2 := "app.(*processTransaction).transitInputs"
		subs := ir.Calls(tin, "*StateDB.SubTokenBalance")
		if c.MustFind("K5", in2+"/debit", tin, len(subs), "SubTokenBalance call") {
			loops := ir.Loops(tin)
			r.Check("K5", in2+"/two-loops", p.Pos(tin.Pos()), len(loops) == 2, fmt.Sprintf("a checking loop and a debiting loop (found %d loops)", len(loops)))
			if len(loops) == 2 {
				// the check loop is the one without the debit; its exit dominates the debit loop
				var chk *ir.Loop
				for i := range loops {
					hasSub := false
					for _, s := range subs {
						if ir.Info(tin).Dominates(loops[i].Header, s.Block()) && s.Block() != loops[i].Header {
							for _, la := range loops[i].Latches {
								if ir.Info(tin).Dominates(s.Block(), la) || s.Block() == la {
									hasSub = true
								}
							}
						}
					}
					if !hasSub {
						chk = &loops[i]
					}
				}
				okOrder := chk != nil
				if chk != nil {
					for _, s := range subs {
						if !ir.Info(tin).Dominates(chk.Header, s.Block()) {
							okOrder = false
						}
						fs := ir.FactsAt(s)
						if !ir.HasFact(fs, "le(len(tx.Inputs),*)") {
							okOrder = false
						}
					}
					ok, trc := ir.EveryPathFromHas(chk.Header, chk.Header, "le(0,big.Int.Cmp(*StateDB.GetTokenBalance(tx.State,tx.Inputs[*].From,tx.TokenAddress),tx.Inputs[*].Value))")
					r.Check("K5", in2+"/check-each-input", p.Pos(tin.Pos()), ok, fmt.Sprintf("every iteration of the checking loop passes balance >= value for that input; offending %v", trc))
				}
				r.Check("K5", in2+"/all-checks-before-first-debit", p.Pos(tin.Pos()), okOrder, "the debiting loop starts only after the checking loop ran over all inputs")
			}
			for _, s := range subs {
				r.Check("K5", in2+"/debit-what-was-checked", p.InstrPos(s), ir.Match("tx.Inputs[*].From", Arg(s, 1)) && Arg(s, 2) == "tx.TokenAddress" && ir.Match("tx.Inputs[*].Value", Arg(s, 3)), "debits the checked (account, token, value): "+short(ir.RenderCall(s), 160))
			}
		}
	}

	// ---- amount width: commitments encode amounts in 8 little-endian bytes ------------------
	// BigInt2Hash must reject what does not fit: the byte loop runs while i < 8 and the error
	// return after it is taken whenever value is still positive (with i == 8 or i >= 8 as the
	// only admissible companion test). Anything else truncates an over-sized amount modulo 2^64.
	{
		fn := p.Func("types", "BigInt2Hash")
		name := "types.BigInt2Hash"
		bound := ""
		for _, l := range ir.Loops(fn) {
			for b := range l.Body {
				for _, f := range ir.FactsAtBlock(b) {
					if ir.Match("lt(φ:i,*)", f.Atom) && l.Body[b] {
						bound = strings.TrimSuffix(strings.TrimPrefix(f.Atom, "lt(φ:i,"), ")")
					}
				}
			}
		}
		r.Check("K11", name+"/byte-loop-bound", p.Pos(fn.Pos()), bound == "8", "the byte loop runs while i < 8 (found bound "+bound+")")
		okRej := false
		var seen []string
		for _, rt := range ir.Returns(fn) {
			if len(rt.Results) != 2 || ir.Render(rt.Results[1]) != "types.ErrMoneyInvalid" {
				continue
			}
			fs := ir.FactStrings(ir.FactsAt(rt.Instr))
			hasPos, okI := false, true
			for _, a := range fs {
				switch {
				case ir.Match("lt(0,big.Int.Sign(big.Int.Set(big.NewInt(0),amount)))", a):
					hasPos = true
				case strings.Contains(a, "φ:i"):
					if a != "eq(φ:i,"+bound+")" && a != "le("+bound+",φ:i)" && a != "!lt(φ:i,"+bound+")" {
						okI = false
					}
				}
			}
			if hasPos {
				seen = append(seen, strings.Join(fs, " ; "))
				if okI {
					okRej = true
				} else {
					okRej = false
					break
				}
			}
		}
		r.Check("K11", name+"/overflow-rejected", p.Pos(fn.Pos()), okRej && len(seen) > 0,
			fmt.Sprintf("a value still positive after the byte loop is rejected; the only admissible companion test is i == %s / i >= %s: %v", bound, bound, seen))
		// the zero-remainder return is the only success return
		nOK := 0
		for _, rt := range ir.Returns(fn) {
			if len(rt.Results) == 2 && ir.Render(rt.Results[1]) == "nil" {
				nOK++
			}
		}
		r.Check("K11", name+"/single-success-return", p.Pos(fn.Pos()), nOK == 1, fmt.Sprintf("%d success returns", nOK))
	}

	// ---- the account side of a confidential transaction is covered by the right balance -----------
	// CheckStoreState (block path) and checkState (mempool path) admit an account input only when the
	// sender holds at least input.Amount OF THE TRANSACTION'S TOKEN, and — for a non-native token — the
	// native balance covers the fee. Sibling agreement: both functions, same operands.
	for _, fnn := range []string{"UTXOTransaction.CheckStoreState", "UTXOTransaction.checkState"} {
		fn := p.Func("types", fnn)
		name := "types.(*UTXOTransaction)." + strings.TrimPrefix(fnn, "UTXOTransaction.")
		n := 0
		for _, call := range ir.Calls(fn, "big.Int.Add") {
			if !ir.Match("*.(*types.AccountInput)#0.Amount", Arg(call, 2)) {
				continue
			}
			n++
			in := call.(ssa.Instruction)
			amt := Arg(call, 2)
			c.Guards(name, "admit account input", in,
				G{"token-balance-covers-amount", "le(0,big.Int.Cmp(types.State.GetTokenBalance(*,*,tx.TokenID)," + amt + "))"})
			c.GuardsAny(name, "admit account input", "native-balance-covers-fee-for-tokens", in,
				"common.IsLKC(tx.TokenID)", "le(0,big.Int.Cmp(types.State.GetBalance(*,*),tx.Fee))")
		}
		c.MustFind("K1", name+"/admit account input", fn, n, "aggregation of an account input amount")
	}

	// ---- hidden output bookkeeping has one entry per confidential output ---------------------------
	// checkCommitEqual sums every OutPk entry while the range proof and the stored outputs cover the
	// first utxoOutNum: the two counts must be EQUAL (an extra commitment to a negative amount would
	// balance an inflated output), likewise one MG signature per confidential input.
	{
		fn := p.Func("types", "UTXOTransaction.checkRctSigData")
		name := "types.(*UTXOTransaction).checkRctSigData"
		n := 0
		for _, rt := range ir.Returns(fn) {
			if ir.AbstractResult(rt.Results[0]) != "nil" {
				continue
			}
			n++
			c.Guards(name, "return nil", rt.Instr,
				G{"one-commitment-per-output", ir.EqPat("atomic.Value.Load(&tx.utxoOutNum).(int)", "len(tx.RCTSig.RctSigBase.OutPk)")},
				G{"one-ring-signature-per-input", ir.EqPat("atomic.Value.Load(&tx.utxoInNum).(int)", "len(tx.RCTSig.P.MGs)")},
				G{"outputs-within-proof-capacity", "le(atomic.Value.Load(&tx.utxoOutNum).(int),*)"})
		}
		c.MustFind("K1", name+"/return nil", fn, n, "nil return")
	}

	// ---- transfer gas that could not be charged is reported as zero -----------------------------------
	// postTransit refunds/credits with the transfer gas payTransferGas reports; on the error path
	// nothing was deducted, so the amount must be 0.
	{
		fn := p.Func("app", "processTransaction.payTransferGas")
		name := "app.(*processTransaction).payTransferGas"
		n := 0
		for _, rt := range ir.Returns(fn) {
			if len(rt.Results) != 2 || ir.AbstractResult(rt.Results[1]) == "nil" {
				continue
			}
			fs := ir.FactsAt(rt.Instr)
			if ir.HasFact(fs, "eq(app.processTransaction.useGas(*),nil)") {
				continue // success path returning the (nil) error variable
			}
			n++
			r.Check("K1", name+"/error-return/amount-zero", p.InstrPos(rt.Instr), ir.Render(rt.Results[0]) == "0", "on the error path the reported transfer gas is 0: "+ir.Render(rt.Results[0]))
		}
		c.MustFind("K1", name+"/error-return", fn, n, "error return")
	}

	// ---- value ledger ---------------------------------------------------------------------------------------
	c06Ledger(c)
	c06Flows(c)
	saveUtxoStoresImages(c)
}

// c06Flows: the flows that connect the reviewed ledger sites.
func c06Flows(c C) {
	p, r := c.P, c.R
	// (1) transfer primitives are reached through the VM context's function fields: every store to those
	// fields installs the package's own primitive, every call through .Transfer is covered by
	// .CanTransfer of the same state, sender, token and amount on every path (or happens at depth 0,
	// where the transaction layer has checked and debited the inputs), every call through
	// .UnsafeTransfer happens at depth 0 or in the depth-0 entry UnsafeCall
	for _, vmPkg := range []struct{ rel, typ string }{{"vm/evm", "evm"}, {"vm/wasm", "wasm"}} {
		for _, fld := range []string{"Transfer", "UnsafeTransfer", "CanTransfer"} {
			fv := p.Field(vmPkg.rel, "Context."+fld)
			n := 0
			for _, st := range p.Stores(fv) {
				if strings.HasSuffix(p.Pos(st.Fn.Pos()), "_test.go") {
					continue
				}
				n++
				v := ir.Render(st.Val)
				// vm/runtime builds an EVM context with the EVM primitives
				okv := v == "closure:"+vmPkg.typ+"."+fld || v == vmPkg.typ+"."+fld || strings.HasSuffix(v, "."+fld) && (strings.Contains(v, "evm.") || strings.Contains(v, "wasm."))
				r.Check("K3", "value-ledger/primitive/"+vmPkg.rel+".Context."+fld+"/"+ir.FuncName(st.Fn), p.InstrPos(st.Instr), okv, "the context field holds the package's own primitive: "+short(v, 80))
			}
			r.Check("K3", "value-ledger/primitive/"+vmPkg.rel+".Context."+fld+"/stores", "-", n >= 1, fmt.Sprintf("%d stores", n))
		}
		nT, nU := 0, 0
		// entries used by the transaction layer only (callers checked below): they run at depth 0 by construction
		depth0Entry := map[string]bool{"UTXOCall": true}
		if vmPkg.typ == "wasm" {
			depth0Entry["Create"] = true // no WASM API creates contracts from inside a contract
		}
		for _, f := range p.Funcs {
			if f.Pkg == nil || ir.RelPkg(f.Pkg.Pkg) != vmPkg.rel || f.Blocks == nil || strings.HasSuffix(p.Pos(f.Pos()), "_test.go") {
				continue
			}
			for _, b := range f.Blocks {
				for _, in := range b.Instrs {
					call, ok := in.(*ssa.Call)
					if !ok {
						continue
					}
					name := ir.CalleeName(call)
					switch {
					case strings.HasPrefix(name, "dyn:") && strings.HasSuffix(name, ".Context.Transfer"):
						nT++
						args := call.Call.Args
						if len(args) != 5 {
							r.Check("K1", "value-ledger/transfer-covered/"+ir.FuncName(f), p.InstrPos(in), false, "unexpected arity")
							continue
						}
						can := "dyn:" + vmPkg.typ + ".Context.CanTransfer(" + ir.Render(args[0]) + "," + ir.Render(args[1]) + "," + ir.Render(args[3]) + "," + ir.Render(args[4]) + ")"
						okc, tr := ir.EveryPathHas(in, can, "eq("+vmPkg.typ+".depth,0)")
						r.Check("K1", "value-ledger/transfer-covered/"+ir.FuncName(f), p.InstrPos(in), okc, fmt.Sprintf("every path to the transfer passed %s (or runs at depth 0, where the transaction layer debited the inputs); offending path %v", short(can, 160), tr))
					case strings.HasPrefix(name, "dyn:") && strings.HasSuffix(name, ".Context.UnsafeTransfer"):
						nU++
						fs := ir.FactsAt(in)
						okd := ir.HasFact(fs, "eq("+vmPkg.typ+".depth,0)") || depth0Entry[f.Name()]
						r.Check("K1", "value-ledger/credit-only-at-depth-0/"+ir.FuncName(f), p.InstrPos(in), okd, "the credit-only primitive is used at call depth 0 only (the transaction layer debited the inputs)")
					}
				}
			}
		}
		r.Check("K1", "value-ledger/"+vmPkg.rel+"/primitive-uses", "-", nT >= 1 && nU >= 2, fmt.Sprintf("%d Transfer and %d UnsafeTransfer uses (confirmed by hand: evm 2 and 2, wasm 1 and 2)", nT, nU))
		// the depth-0 entries are entered from the transaction layer only
		for name := range depth0Entry {
			uc := p.TryFunc(vmPkg.rel, strings.ToUpper(vmPkg.typ)+"."+name)
			if uc == nil {
				r.Check("K3", "value-ledger/depth-0-entry/"+vmPkg.rel+"."+name, "-", false, "entry not found")
				continue
			}
			n := 0
			for _, cs := range p.CallSites(uc.Object().(*types.Func)) {
				if strings.HasSuffix(p.Pos(cs.Fn.Pos()), "_test.go") {
					continue
				}
				n++
				pk := ir.RelPkg(cs.Fn.Pkg.Pkg)
				r.Check("K3", "value-ledger/depth-0-entry/"+vmPkg.rel+"."+name+"/caller:"+ir.FuncName(ir.EnclosingTop(cs.Fn)), p.InstrPos(cs.Instr.(ssa.Instruction)), pk == "app" || pk == "vm/runtime", "entered from the transaction layer only")
			}
			// calls through the vm.VmInterface from package app are the expected way in
			if m := p.TryObj("vm", "VmInterface."+name); m != nil {
				for _, cs := range p.CallSites(m.(*types.Func)) {
					if strings.HasSuffix(p.Pos(cs.Fn.Pos()), "_test.go") {
						continue
					}
					n++
					pk := ir.RelPkg(cs.Fn.Pkg.Pkg)
					r.Check("K3", "value-ledger/depth-0-entry/vm.VmInterface."+name+"/caller:"+ir.FuncName(ir.EnclosingTop(cs.Fn)), p.InstrPos(cs.Instr.(ssa.Instruction)), pk == "app" || pk == "vm/runtime", "entered from the transaction layer only")
				}
			}
		}
	}

	// (2) fees: what is collected is what was bought minus what was refunded
	{
		pt := p.Func("app", "processTransaction.postTransit")
		nFee, nGas := 0, 0
		for _, st := range p.Stores(p.Field("app", "TransitionResult.Fee")) {
			if strings.HasSuffix(p.Pos(st.Fn.Pos()), "_test.go") || st.Kind != "store" {
				continue
			}
			nFee++
			v := ir.Render(st.Val)
			r.Check("K11", "value-ledger/fee/used-gas-times-price/"+ir.FuncName(ir.EnclosingTop(st.Fn)), p.InstrPos(st.Instr),
				ir.Match("big.Int.Mul(*,big.Int.SetUint64(*,(tx.InitialGas - tx.Gas)),tx.GasPrice)", v), "res.Fee = (InitialGas - Gas) * GasPrice: "+short(v, 160))
		}
		for _, st := range p.Stores(p.Field("app", "TransitionResult.Gas")) {
			if strings.HasSuffix(p.Pos(st.Fn.Pos()), "_test.go") || st.Kind != "store" {
				continue
			}
			nGas++
			v := ir.Render(st.Val)
			r.Check("K11", "value-ledger/fee/used-gas/"+ir.FuncName(ir.EnclosingTop(st.Fn)), p.InstrPos(st.Instr), v == "(tx.InitialGas - tx.Gas)", "res.Gas = InitialGas - Gas: "+short(v, 120))
		}
		r.Check("K11", "value-ledger/fee/result-fields", p.Pos(pt.Pos()), nFee >= 1 && nGas >= 1, fmt.Sprintf("%d stores of res.Fee, %d of res.Gas", nFee, nGas))
		// the reported figures are taken after the refund changed tx.Gas for the last time
		c.Order("app.(*processTransaction).postTransit", pt, "app.processTransaction.refundGas", "app.processTransaction.genTransitTxRecord")
		// InitialGas is what buyGas charges: wherever a processTransaction gets its gas, InitialGas gets the same value
		nInit := 0
		gasStores := p.Stores(p.Field("app", "processTransaction.Gas"))
		for _, st := range p.Stores(p.Field("app", "processTransaction.InitialGas")) {
			if strings.HasSuffix(p.Pos(st.Fn.Pos()), "_test.go") {
				continue
			}
			nInit++
			v := ir.Render(st.Val)
			same := false
			for _, g := range gasStores {
				if g.Fn == st.Fn && g.Kind == st.Kind && ir.Render(g.Val) == v && ir.Render(g.Base) == ir.Render(st.Base) {
					same = true
				}
			}
			r.Check("K5", "value-ledger/fee/initial-gas-is-bought-gas/"+ir.FuncName(st.Fn), p.InstrPos(st.Instr), same, "InitialGas and Gas start from the same value: "+short(v, 80))
		}
		r.Check("K5", "value-ledger/fee/initial-gas-stores", "-", nInit >= 5, fmt.Sprintf("%d constructors set InitialGas (confirmed by hand: 6)", nInit))
		// the only admissible gas price is the par price the block fee is computed with
		for _, tn := range []string{"Transaction", "TokenTransaction"} {
			fn := p.Func("types", tn+".IllegalGasLimitOrGasPrice")
			n := 0
			for _, rt := range ir.Returns(fn) {
				if ir.AbstractResult(rt.Results[0]) == "true" {
					continue
				}
				n++
				c.Guards("types.(*"+tn+").IllegalGasLimitOrGasPrice", "accept", rt.Instr, G{"par-price", "eq(big.Int.Cmp(types." + tn + ".GasPrice(tx),big.NewInt(100000000000)),0)"})
			}
			c.MustFind("K1", "types.(*"+tn+").IllegalGasLimitOrGasPrice/accept", fn, n, "accepting return")
		}
		r.Check("K11", "value-ledger/fee/par-price-constant", "-", fmt.Sprint(c.ConstInt("types", "ParGasPrice")) == "100000000000", "ParGasPrice is the constant the rules above name")
	}

	// (2b) the token refund of a failed confidential->account transaction is the account outputs minus
	// the account inputs of that transaction
	{
		rg := p.Func("app", "processTransaction.refundGas")
		okAdd, okSub := false, false
		for _, call := range ir.Calls(rg, "big.Int.Add") {
			if ir.Match("tx.Outputs[*].Amount", Arg(call, 2)) && Arg(call, 0) == Arg(call, 1) && ir.HasFact(ir.FactsAt(call.(ssa.Instruction)), "!eq(tx.Outputs[*].Type,\"uout\")") {
				okAdd = true
			}
		}
		for _, call := range ir.Calls(rg, "big.Int.Sub") {
			if ir.Match("tx.Inputs[*].Value", Arg(call, 2)) && Arg(call, 0) == Arg(call, 1) && ir.HasFact(ir.FactsAt(call.(ssa.Instruction)), "!eq(tx.Inputs[*].Type,\"uin\")") {
				okSub = true
			}
		}
		r.Check("K5", "value-ledger/refund/adds-account-outputs", p.Pos(rg.Pos()), okAdd, "the refund accumulates the Amount of every non-confidential output")
		r.Check("K5", "value-ledger/refund/subtracts-account-inputs", p.Pos(rg.Pos()), okSub, "and subtracts the Value of every non-confidential input")
	}

	// (3) the transaction layer moves what the transaction says: for every account transaction kind the
	// single input's value and the single output's amount are the same tx.Value()
	{
		gt := p.Func("app", "GenerateTransaction")
		type ev struct {
			pos  int
			kind string
			val  string
			in   ssa.Instruction
		}
		var evs []ev
		for _, st := range p.Stores(p.Field("app", "txInput.Value")) {
			if ir.EnclosingTop(st.Fn) == gt {
				evs = append(evs, ev{int(st.Instr.Pos()), "in", ir.Render(st.Val), st.Instr})
			}
		}
		for _, st := range p.Stores(p.Field("app", "txOutput.Amount")) {
			if ir.EnclosingTop(st.Fn) == gt {
				evs = append(evs, ev{int(st.Instr.Pos()), "out", ir.Render(st.Val), st.Instr})
			}
		}
		sort.Slice(evs, func(i, j int) bool { return evs[i].pos < evs[j].pos })
		last, nOut := "", 0
		for _, e := range evs {
			if e.kind == "in" {
				last = e.val
				continue
			}
			if strings.Contains(e.val, "OutputData") {
				continue // confidential transaction: balanced by commitments (checkCommitEqual rules)
			}
			nOut++
			r.Check("K5", "value-ledger/generate/output-equals-input", p.InstrPos(e.in), e.val == last && regexp.MustCompile(`^types\.\w+\.Value\(`).MatchString(e.val), "the credited amount is the debited value: in "+short(last, 60)+" out "+short(e.val, 60))
		}
		r.Check("K5", "value-ledger/generate/outputs", p.Pos(gt.Pos()), nOut >= 3, fmt.Sprintf("%d account outputs built (confirmed by hand: 3)", nOut))
	}

	// (4) self-destruct: after crediting every holding the contract is removed, so nothing is counted twice
	for _, sd := range []struct{ rel, fn, suicide string }{{"vm/evm", "opSuicide", "*StateDB.Suicide"}, {"vm/wasm", "tcSelfDestruct", "*StateDB.Suicide"}} {
		fn := p.Func(sd.rel, sd.fn)
		adds := ir.Calls(fn, "*StateDB.AddTokenBalance")
		su := ir.Calls(fn, sd.suicide)
		if !c.MustFind("K2", "value-ledger/self-destruct/"+sd.fn+"/calls", fn, len(adds)*len(su), "AddTokenBalance and Suicide") {
			continue
		}
		addr := Arg(su[0], 1)
		okSrc := strings.Contains(Arg(adds[0], 2), "GetTokenBalances("+Arg(su[0], 0)+","+addr+")")
		r.Check("K5", "value-ledger/self-destruct/"+sd.fn+"/holdings-of-the-removed-account", p.InstrPos(adds[0]), okSrc, "what is credited are the holdings of the account that is removed: "+short(addr, 100))
		// every normal return passes Suicide
		for _, rt := range ir.Returns(fn) {
			if !ir.Precedes(adds[0].(ssa.Instruction), rt.Instr) && !reaches(adds[0].(ssa.Instruction), rt.Instr) {
				continue
			}
			found, _, tr := ir.FindPath(ir.PathQuery{From: ir.At(adds[0].(ssa.Instruction)), Target: func(x ssa.Instruction) bool { return x == rt.Instr },
				Avoid: func(x ssa.Instruction) bool { return x == su[0].(ssa.Instruction) }})
			r.Check("K2", "value-ledger/self-destruct/"+sd.fn+"/removed-after-credit", p.InstrPos(rt.Instr), !found, fmt.Sprintf("no return after a credit without Suicide(addr); offending path %v", tr))
		}
		// the loop credits every element
		okLoop := false
		for _, l := range ir.Loops(fn) {
			if l.Body[adds[0].(ssa.Instruction).Block()] {
				okLoop = true
			}
		}
		r.Check("K2", "value-ledger/self-destruct/"+sd.fn+"/credit-in-loop", p.InstrPos(adds[0]), okLoop, "the credit runs once per holding")
	}
}

func reaches(a, b ssa.Instruction) bool {
	found, _, _ := ir.FindPath(ir.PathQuery{From: ir.At(a), Target: func(x ssa.Instruction) bool { return x == b }})
	return found
}

func c06Ledger(c C) {
	p, r := c.P, c.R
	sites := ledgerSites(p, map[string]bool{"app": true, "types": true, "vm/evm": true, "vm/wasm": true, "vm": true, "mempool": true, "consensus": true, "blockchain": true, "utxo": true, "state": true})
	pairUp(sites)
	nPair, nTab := 0, 0
	seen := map[string]bool{}
	for _, s := range sites {
		in := s.call.(ssa.Instruction)
		fname := ir.FuncName(ir.EnclosingTop(s.fn))
		if strings.HasPrefix(fname, "state.") {
			continue // the StateDB's own wrappers around the state objects
		}
		tn := "native"
		if s.token {
			tn = "token"
		}
		key := fname + "/" + s.kind + "-" + tn
		switch s.cls {
		case "pair":
			nPair++
			r.Check("K5", "value-ledger/pair/"+key, p.InstrPos(in), true, "debit and credit of one transfer: same token, same amount, different accounts: "+s.String())
			if s.kind == "sub" {
				// the debit is covered: in the function, or at every caller of a transfer primitive (checked below)
				cover := "le(0,big.Int.Cmp(types.StateDB.Get*Balance(" + Arg(s.call, 0) + "," + s.acct + "*)," + s.amt + "))"
				_, isParam := operandArgs(s.call)[1].(*ssa.Parameter)
				r.Check("K1", "value-ledger/pair/"+key+"/covered", p.InstrPos(in), isParam || ir.HasFact(ir.FactsAt(in), cover), "the debited account holds the amount (or the primitive's callers check it): "+cover)
			}
		case "pair-mismatch":
			r.Check("K5", "value-ledger/pair/"+key, p.InstrPos(in), false, "a debit followed by a credit with a different token or amount: "+s.String())
		default:
			e, ok := ledgerTable[key]
			if !ok {
				r.Check("K3", "value-ledger/unreviewed/"+key, p.InstrPos(in), false, "a new balance-changing site outside the reviewed ledger: "+s.String())
				continue
			}
			nTab++
			seen[key] = true
			good := ir.Match(e.acct, s.acct) && ir.Match(e.amt, s.amt) && (e.tok == "" || ir.Match(e.tok, s.tok)) && ir.Match(e.db, Arg(s.call, 0)) && (!e.acctIsTok || s.acct == s.tok)
			r.Check("K3", "value-ledger/site/"+key, p.InstrPos(in), good, e.why+": "+s.String()+" on "+short(Arg(s.call, 0), 60))
			fs := ir.FactsAt(in)
			for _, g := range e.guards {
				g2 := strings.ReplaceAll(g, "AMT", s.amt)
				r.Check("K1", "value-ledger/site/"+key+"/guard:"+short(g, 40), p.InstrPos(in), ir.HasFact(fs, g2), "holds at the site: "+short(g2, 200))
			}
		}
	}
	for k := range ledgerTable {
		if !seen[k] {
			r.Check("K3", "value-ledger/site/"+k, "-", false, "reviewed ledger site not found (moved or renamed: review the ledger)")
		}
	}
	r.Check("K3", "value-ledger/sites", "-", nPair >= 16 && nTab >= 18, fmt.Sprintf("%d paired and %d reviewed balance-changing sites (confirmed by hand: 16 and 18)", nPair, nTab))
}

var _ = report.Discharged
