// lkcheck decides structural clauses of the linkchain properties C01..C20 from
// /repo's current source (type-checked program + SSA), without running it.
package main

import (
	"bufio"
	"encoding/json"
	"flag"
	"fmt"
	"os"
	"path/filepath"
	"runtime/debug"
	"sort"
	"strconv"
	"strings"

	"lkcheck/ir"
	"lkcheck/props"
	"lkcheck/report"
)

func main() {
	prop := flag.String("prop", "", "property id (C01..C20)")
	tier := flag.String("tier", "quick", "quick|thorough")
	repo := flag.String("repo", "/repo", "repository root")
	verif := flag.String("verif", "/verif", "verif root (evidence, known findings)")
	dump := flag.String("dump", "", "debug: dump facts/calls of function pkg:Name (e.g. consensus:ConsensusState.enterPrecommit)")
	overlay := flag.String("overlay", "", "self-test: file=replacement pairs (path=path,...)")
	noEvidence := flag.Bool("list", false, "print all obligations")
	variantFile := flag.String("variant-file", "", "self-test: JSON array of replacement variants")
	variantIdx := flag.Int("variant-index", -1, "self-test: which variant of -variant-file to run")
	variantName := flag.String("variant-name", "", "self-test: name of an overlay (patch) variant")
	expect := flag.String("expect", "", "self-test: obligation-key globs (|| separated) one of which must newly fail; empty = any new failure")
	selfOut := flag.String("selftest-out", "", "self-test: append the result of this variant (JSON line) to this file")
	selfIn := flag.String("selftest-in", "", "thorough: merge self-test results from this file into the evidence")
	genGuards := flag.Bool("gen-guards", false, "maintenance: write the guarded-by reference table (guards.json) from the current tree")
	genFields := flag.Bool("gen-fields", false, "maintenance: write the constructor/copy/reset field table (fields.json) from the current tree")
	genDefers := flag.Bool("gen-defers", false, "maintenance: write the deferred-cleanup table (defers.json) from the current tree")
	genErrors := flag.Bool("gen-errors", false, "maintenance: write the error-report reference table (errors.json) from the current tree")
	genNames := flag.Bool("gen-names", false, "maintenance: write the frozen parameter/local name table (names.json) from the current tree")
	flag.Parse()

	seed := 0
	if s := os.Getenv("VERIF_SEED"); s != "" {
		seed, _ = strconv.Atoi(s)
	}
	props.VerifDir = *verif
	cfg := ir.Config{Dir: *repo}
	if *overlay != "" {
		cfg.Overlay = map[string][]byte{}
		for _, kv := range filepath.SplitList(*overlay) {
			for i := 0; i < len(kv); i++ {
				if kv[i] == '=' {
					b, err := os.ReadFile(kv[i+1:])
					if err != nil {
						fmt.Fprintln(os.Stderr, err)
						os.Exit(2)
					}
					cfg.Overlay[kv[:i]] = b
					break
				}
			}
		}
	}
	// ---- self-test variant mode: never writes evidence, never fails the run ----
	if *variantFile != "" || *variantName != "" {
		res := report.SelftestResult{Variant: *variantName, Expected: *expect}
		if *variantFile != "" {
			type edit struct{ Old, New string }
			var vs []struct {
				Name, File, Old, New string
				Edits                []edit
				Expect               []string
			}
			b, err := os.ReadFile(*variantFile)
			if err == nil {
				err = json.Unmarshal(b, &vs)
			}
			if err != nil || *variantIdx < 0 || *variantIdx >= len(vs) {
				fmt.Fprintln(os.Stderr, "lkcheck: bad variant file/index:", err)
				os.Exit(2)
			}
			v := vs[*variantIdx]
			res.Variant, res.Expected = v.Name, strings.Join(v.Expect, " || ")
			src, err := os.ReadFile(filepath.Join(*repo, v.File))
			edits := v.Edits
			if v.Old != "" {
				edits = append(edits, edit{v.Old, v.New})
			}
			text := string(src)
			for _, e := range edits {
				if err != nil || strings.Count(text, e.Old) != 1 {
					res.Status = "stale"
					res.Note = fmt.Sprintf("the text this variant replaces occurs %d times in %s on this tree", strings.Count(text, e.Old), v.File)
					emitSelftest(res, *selfOut)
					return
				}
				text = strings.Replace(text, e.Old, e.New, 1)
			}
			cfg.Overlay = map[string][]byte{filepath.Join(*repo, v.File): []byte(text)}
		}
		p, err := ir.Load(cfg)
		if err == nil {
			_, err = p.ApplyFrozenNames(filepath.Join(*verif, "names.json"))
		}
		if err != nil {
			res.Status = "nocompile"
			res.Note = short(err.Error(), 300)
			emitSelftest(res, *selfOut)
			return
		}
		ir.SetPredicateEffects(ir.DefaultEffects(p))
		fn := props.Registry[*prop]
		if fn == nil {
			os.Exit(2)
		}
		r := report.New(*prop, "selftest", seed)
		func() {
			defer func() {
				if e := recover(); e != nil {
					// an anchor that no longer resolves under the variant counts as a detection by exit status 2
					r.Undecided("anchor", "unresolved", "-", fmt.Sprint(e))
				}
			}()
			_ = fn
			props.RunProperty(*prop, p, r)
		}()
		known, _ := report.LoadKnown(filepath.Join(*verif, "known_findings.json"))
		newKeys := r.NewFailures(known)
		res.Status = "missed"
		var globs []string
		if res.Expected != "" {
			globs = strings.Split(res.Expected, " || ")
		}
		for _, k := range newKeys {
			if len(globs) == 0 {
				res.Status = "detected"
			}
			for _, g := range globs {
				if ir.Match(g, k) {
					res.Status = "detected"
				}
			}
		}
		res.Detected = res.Status == "detected"
		sort.Strings(newKeys)
		if len(newKeys) > 6 {
			newKeys = append(newKeys[:6], fmt.Sprintf("… %d more", len(newKeys)-6))
		}
		res.Note = "new failures: " + strings.Join(newKeys, " ; ")
		emitSelftest(res, *selfOut)
		return
	}

	p, err := ir.Load(cfg)
	if err != nil {
		fmt.Fprintln(os.Stderr, "lkcheck: load failed:", err)
		os.Exit(2)
	}
	if *genGuards {
		n, err := props.GenGuardTable(p, *verif)
		if err != nil {
			fmt.Fprintln(os.Stderr, "lkcheck:", err)
			os.Exit(2)
		}
		fmt.Printf("guards.json written (%d guarded fields)\n", n)
		return
	}
	if *genFields {
		n, err := props.GenFieldTable(p, *verif)
		if err != nil {
			fmt.Fprintln(os.Stderr, "lkcheck:", err)
			os.Exit(2)
		}
		fmt.Printf("fields.json written (%d constructors/copies/resets)\n", n)
		return
	}
	if *genDefers {
		n, err := props.GenDeferTable(p, *verif)
		if err != nil {
			fmt.Fprintln(os.Stderr, "lkcheck:", err)
			os.Exit(2)
		}
		fmt.Printf("defers.json written (%d deferred callees)\n", n)
		return
	}
	if *genErrors {
		n, err := props.GenErrorTable(p, *verif)
		if err != nil {
			fmt.Fprintln(os.Stderr, "lkcheck:", err)
			os.Exit(2)
		}
		fmt.Printf("errors.json written (%d reported call sites)\n", n)
		return
	}
	if *genNames {
		if err := p.WriteNames(filepath.Join(*verif, "names.json")); err != nil {
			fmt.Fprintln(os.Stderr, "lkcheck:", err)
			os.Exit(2)
		}
		fmt.Println("names.json written")
		return
	}
	renamed, err := p.ApplyFrozenNames(filepath.Join(*verif, "names.json"))
	if err != nil {
		fmt.Fprintln(os.Stderr, "lkcheck: names.json:", err)
		os.Exit(2)
	}
	if len(p.Pkgs) < 85 {
		fmt.Fprintf(os.Stderr, "lkcheck: only %d module packages loaded (floor 85)\n", len(p.Pkgs))
		os.Exit(2)
	}
	if os.Getenv("LKCHECK_CENSUS") != "" {
		files := map[string]bool{}
		for _, f := range strings.Split(os.Getenv("LKCHECK_CENSUS"), ",") {
			files[f] = true
		}
		res := props.ErrorCensus(p, files)
		for cls, xs := range res {
			fmt.Printf("== %s: %d\n", cls, len(xs))
			if cls == "dropped" || cls == "swallowed" || cls == "unknown" {
				for _, x := range xs {
					fmt.Println("   ", x)
				}
			}
		}
		return
	}
	if *dump != "" {
		props.Dump(p, *dump)
		return
	}
	ir.SetPredicateEffects(ir.DefaultEffects(p))
	fn := props.Registry[*prop]
	if fn == nil {
		fmt.Fprintf(os.Stderr, "lkcheck: unknown property %q\n", *prop)
		os.Exit(2)
	}
	r := report.New(*prop, *tier, seed)
	r.Note("loaded %d module packages (%d with dependencies), %d functions with bodies, 0 type errors", len(p.Pkgs), p.NumAll, len(p.Funcs))
	r.Note("rename-robust rendering: %d functions currently use receiver/parameter/local names that differ from the frozen table (names.json); their frozen names are used in patterns", renamed)
	code := func() (code int) {
		defer func() {
			if e := recover(); e != nil {
				if u, ok := e.(ir.Unresolved); ok {
					fmt.Fprintln(os.Stderr, "lkcheck:", u.Error())
				} else {
					fmt.Fprintf(os.Stderr, "lkcheck: analysis panic: %v\n%s\n", e, debug.Stack())
				}
				code = 2
			}
		}()
		_ = fn
		props.RunProperty(*prop, p, r)
		return -1
	}()
	if code == 2 {
		os.Exit(2)
	}
	known, err := report.LoadKnown(filepath.Join(*verif, "known_findings.json"))
	if err != nil {
		fmt.Fprintln(os.Stderr, "lkcheck: known findings:", err)
		os.Exit(2)
	}
	if *selfIn != "" {
		if f, err := os.Open(*selfIn); err == nil {
			sc := bufio.NewScanner(f)
			sc.Buffer(make([]byte, 1<<20), 1<<20)
			for sc.Scan() {
				var sr report.SelftestResult
				if json.Unmarshal(sc.Bytes(), &sr) == nil && sr.Variant != "" {
					r.Selftest = append(r.Selftest, sr)
				}
			}
			f.Close()
			sort.Slice(r.Selftest, func(i, j int) bool { return r.Selftest[i].Variant < r.Selftest[j].Variant })
		}
	}
	if *noEvidence {
		for _, o := range r.Obls {
			fmt.Printf("%-11s %s  %s  %s\n", o.Status, o.Key, o.Pos, o.Detail)
		}
	}
	os.Exit(r.Finish(*verif, known))
}

func short(s string, n int) string {
	if len(s) > n {
		return s[:n] + "…"
	}
	return s
}

func emitSelftest(res report.SelftestResult, out string) {
	b, _ := json.Marshal(res)
	fmt.Printf("SELFTEST %s\n", b)
	if out != "" {
		if f, err := os.OpenFile(out, os.O_APPEND|os.O_CREATE|os.O_WRONLY, 0o644); err == nil {
			f.Write(append(b, '\n'))
			f.Close()
		}
	}
}
