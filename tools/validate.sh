#!/bin/bash
# validates MANIFEST.json and all evidence files against the schemas
cd "$(dirname "$0")/.."
python3-vt - <<'PY'
import json,jsonschema,glob
jsonschema.validate(json.load(open('MANIFEST.json')), json.load(open('/root/.vp/MANIFEST.schema.json')))
m=json.load(open('MANIFEST.json'))
es=json.load(open('/root/.vp/EVIDENCE.schema.json'))
for c in m['checks']:
    f=c['evidence_file']
    jsonschema.validate(json.load(open(f)), es)
print('manifest + %d evidence files valid'%len(m['checks']))
PY
