#!/bin/bash
# tools/benign.sh [id-k ...]  -- regression corpus of BEHAVIOUR-PRESERVING refactorings (benign/<id>-<k>/patch.diff,
# written by independent sub-agents). Each patch is applied to a scratch overlay of /repo's current sources and
# ALL 20 checks are run on it: none may report anything new. Not part of any verdict (not in MANIFEST): it is the
# false-alarm counterpart of the seeded changes. Prints one line per patch; exit 1 if any check alarms.
HERE="$(cd "$(dirname "$0")/.." && pwd)"; REPO="${REPO:-/repo}"; BIN="$HERE/bin/lkcheck"
export GOFLAGS=-mod=mod GOPROXY=off GOSUMDB=off GOTOOLCHAIN=local
[ -x "$BIN" ] || "$HERE/check" build >/dev/null || exit 2
T="$(mktemp -d)"; trap 'rm -rf "$T"' EXIT
# private copies: the run takes a while and must not see a checker rebuilt (or tables regenerated) half-way
cp "$BIN" "$T/lkcheck"; BIN="$T/lkcheck"; mkdir -p "$T/base"; cp "$HERE/known_findings.json" "$HERE/names.json" "$HERE/errors.json" "$HERE/guards.json" "$HERE/fields.json" "$HERE/defers.json" "$HERE/properties.jsonl" "$T/base/"; HERE_TABLES="$T/base"
bad=0
sel=("$@"); [ ${#sel[@]} -eq 0 ] && sel=($(ls "$HERE/benign"))
for n in "${sel[@]}"; do
  d="$HERE/benign/$n"; [ -f "$d/patch.diff" ] || continue
  w="$T/$n"; mkdir -p "$w"; ov=""
  for f in $(grep -E '^\+\+\+ b/' "$d/patch.diff" | sed 's#^+++ b/##'); do
    mkdir -p "$w/$(dirname "$f")"; [ -f "$REPO/$f" ] && cp "$REPO/$f" "$w/$f"; ov="$ov:$REPO/$f=$w/$f"
  done
  if ! (cd "$w" && patch -p1 -s -f --no-backup-if-mismatch < "$d/patch.diff" >/dev/null 2>&1); then echo "$n stale (does not apply)"; continue; fi
  alarms=""
  for i in 01 02 03 04 05 06 07 08 09 10 11 12 13 14 15 16 17 18 19 20; do echo C$i; done | \
    xargs -P 10 -I{} sh -c "mkdir -p $w/v{}; cp $HERE_TABLES/* $w/v{}/; $BIN -prop {} -repo $REPO -verif $w/v{} -overlay '${ov#:}' > $w/{}.out 2>&1; echo \$? > $w/{}.rc"
  for i in 01 02 03 04 05 06 07 08 09 10 11 12 13 14 15 16 17 18 19 20; do
    if [ "$(cat $w/C$i.rc)" != 0 ]; then alarms="$alarms C$i"; grep -B1 '^VIOLATION' "$w/C$i.out" | grep -v '^VIOLATION\|^--' | cut -c1-220 | head -3 | sed "s/^/    /" > "$w/C$i.msg"; fi
  done
  if [ -n "$alarms" ]; then bad=1; echo "$n ALARM:$alarms"; cat "$w"/C*.msg 2>/dev/null; else echo "$n silent"; fi
  rm -rf "$w"
done
exit $bad
