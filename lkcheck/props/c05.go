package props

import (
	"fmt"
	"go/types"
	"regexp"
	"sort"
	"strconv"
	"strings"

	"golang.org/x/tools/go/ssa"

	"lkcheck/ir"
	"lkcheck/report"
)

func init() { Registry["C05"] = C05 }

var c05Pkgs = []string{"app", "state", "types", "vm", "vm/evm", "vm/wasm", "vm/runtime", "libs/ser", "libs/trie", "libs/crypto/merkle", "libs/cryptonote/types", "libs/cryptonote/ringct", "libs/cryptonote/xcrypto", "libs/cryptonote/crypto", "config", "libs/common", "libs/crypto", "libs/math"}

func c05InScope(f *ssa.Function) bool {
	if f.Pkg == nil {
		return false
	}
	rel := ir.RelPkg(f.Pkg.Pkg)
	for _, p := range c05Pkgs {
		if rel == p {
			return true
		}
	}
	return false
}

// c05Reach computes the execution-path function set: static calls, function values and
// class-hierarchy resolution of interface calls, inside the scoped packages, cut at presentation code.
var c05Parent = map[*ssa.Function]*ssa.Function{}

func c05Chain(f *ssa.Function) string {
	var parts []string
	for i := 0; f != nil && i < 12; i++ {
		parts = append(parts, ir.FuncName(f))
		f = c05Parent[f]
	}
	return strings.Join(parts, " <- ")
}

func c05Reach(p *ir.Program, entries []*ssa.Function) map[*ssa.Function]bool {
	// methods by name for CHA
	byName := map[string][]*ssa.Function{}
	for _, f := range p.Funcs {
		if f.Signature.Recv() != nil && f.Parent() == nil && c05InScope(f) {
			byName[f.Name()] = append(byName[f.Name()], f)
		}
	}
	cut := func(f *ssa.Function) bool {
		n := f.Name()
		if strings.HasPrefix(n, "String") || strings.HasPrefix(n, "MarshalJSON") || strings.HasPrefix(n, "UnmarshalJSON") || n == "Format" || n == "GoString" {
			return true
		}
		fn := ir.FuncName(f)
		return strings.Contains(fn, "Logger") || strings.Contains(fn, "Tracer") || strings.Contains(fn, "logger") || strings.Contains(fn, "_test")
	}
	isEntry := map[*ssa.Function]bool{}
	for _, e := range entries {
		isEntry[e] = true
	}
	seen := map[*ssa.Function]bool{}
	var cur *ssa.Function
	var visit func(f *ssa.Function)
	visit = func(f *ssa.Function) {
		if f == nil || seen[f] || !c05InScope(f) || cut(f) || f.Blocks == nil {
			return
		}
		if (f.Name() == "init" || strings.HasPrefix(f.Name(), "init#")) && !isEntry[f] && !(cur != nil && cur.Pkg == f.Pkg && isEntry[cur]) {
			return // initialisers of imported packages are not execution-path code
		}
		seen[f] = true
		c05Parent[f] = cur
		saved := cur
		cur = f
		defer func() { cur = saved }()
		for _, a := range f.AnonFuncs {
			visit(a)
		}
		for _, b := range f.Blocks {
			for _, in := range b.Instrs {
				for _, op := range in.Operands(nil) {
					switch v := (*op).(type) {
					case *ssa.Function:
						visit(v)
					case *ssa.MakeClosure:
						if fn, ok := v.Fn.(*ssa.Function); ok {
							visit(fn)
						}
					}
				}
				if ci, ok := in.(ssa.CallInstruction); ok {
					// a value handed as an interface to code outside the module (VM engine
					// host-function tables, sort, container/heap): its methods are called from
					// code this analysis cannot see
					cc := ci.Common()
					external := false
					if sc := cc.StaticCallee(); sc != nil {
						external = sc.Pkg == nil || !strings.HasPrefix(sc.Pkg.Pkg.Path(), ir.Module)
						if sc.Pkg == nil && sc.Object() != nil && sc.Object().Pkg() != nil {
							external = !strings.HasPrefix(sc.Object().Pkg().Path(), ir.Module)
						}
					} else if cc.IsInvoke() && cc.Method.Pkg() != nil {
						external = !strings.HasPrefix(cc.Method.Pkg().Path(), ir.Module)
					}
					if external {
						for _, a := range cc.Args {
							if mi, ok := a.(*ssa.MakeInterface); ok {
								ms := p.SSA.MethodSets.MethodSet(mi.X.Type())
								for i := 0; i < ms.Len(); i++ {
									if m := p.SSA.MethodValue(ms.At(i)); m != nil {
										visit(m)
									}
								}
							}
						}
					}
				}
				c, ok := in.(ssa.CallInstruction)
				if !ok {
					continue
				}
				cc := c.Common()
				if callee := cc.StaticCallee(); callee != nil {
					visit(callee)
					continue
				}
				if cc.IsInvoke() {
					iface, ok := cc.Value.Type().Underlying().(*types.Interface)
					if !ok {
						continue
					}
					for _, m := range byName[cc.Method.Name()] {
						if types.Implements(m.Signature.Recv().Type(), iface) {
							visit(m)
						}
					}
				}
			}
		}
	}
	for _, e := range entries {
		visit(e)
	}
	return seen
}

// ---- map-order effect signature ----

// c05RangeLoop finds the natural loop driven by a map range instruction.
func c05RangeLoop(rg *ssa.Range) (*ir.Loop, *ssa.Next) {
	var next *ssa.Next
	for _, r := range *rg.Referrers() {
		if n, ok := r.(*ssa.Next); ok {
			next = n
		}
	}
	if next == nil {
		return nil, nil
	}
	for _, l := range ir.Loops(rg.Parent()) {
		if l.Header == next.Block() {
			l := l
			return &l, next
		}
	}
	return nil, next
}

func c05IsIterKey(v ssa.Value, next *ssa.Next) bool {
	if next == nil {
		return false
	}
	for i := 0; i < 6; i++ {
		switch x := v.(type) {
		case *ssa.Extract:
			return x.Tuple == next && x.Index == 1
		case *ssa.Convert:
			v = x.X
		case *ssa.ChangeType:
			v = x.X
		case *ssa.MakeInterface:
			v = x.X
		case *ssa.UnOp:
			// key spilled to an alloc written only from the iteration key
			if x.Op.String() == "*" {
				if al, ok := x.X.(*ssa.Alloc); ok {
					var st []*ssa.Store
					for _, r := range *al.Referrers() {
						if s, ok := r.(*ssa.Store); ok && s.Addr == al {
							st = append(st, s)
						}
					}
					if len(st) == 1 {
						v = st[0].Val
						continue
					}
				}
			}
			return false
		default:
			return false
		}
	}
	return false
}

// c05IsCounter: phi = phi + 1 on every back edge.
func c05IsCounter(ph *ssa.Phi) bool {
	n := 0
	for _, e := range ph.Edges {
		if bo, ok := e.(*ssa.BinOp); ok && bo.Op.String() == "+" && bo.X == ph {
			if c, ok := bo.Y.(*ssa.Const); ok && c.Value != nil && c.Value.String() == "1" {
				n++
			}
		}
	}
	return n > 0
}

var c05Commutative = map[string]bool{"+": true, "|": true, "^": true, "&": true, "*": true}

// c05Accumulates reports whether v is carried (+) stuff, i.e. the loop-carried value
// updated only by a commutative, associative integer operation.
func c05Accumulates(v ssa.Value, carried ssa.Value, chain map[ssa.Instruction]bool, depth int) bool {
	if v == carried {
		return true
	}
	if depth > 6 {
		return false
	}
	switch x := v.(type) {
	case *ssa.BinOp:
		if !c05Commutative[x.Op.String()] {
			return false
		}
		if b, ok := x.Type().Underlying().(*types.Basic); !ok || b.Info()&types.IsInteger == 0 {
			return false
		}
		chain[x] = true
		if c05Accumulates(x.X, carried, chain, depth+1) {
			return !c05DependsOn(x.Y, carried, 0)
		}
		if c05Accumulates(x.Y, carried, chain, depth+1) {
			return !c05DependsOn(x.X, carried, 0)
		}
		return false
	case *ssa.Phi:
		chain[x] = true
		for _, e := range x.Edges {
			if !c05Accumulates(e, carried, chain, depth+1) {
				return false
			}
		}
		return true
	}
	return false
}

func c05DependsOn(v, carried ssa.Value, depth int) bool {
	if v == carried {
		return true
	}
	if depth > 8 {
		return true
	}
	in, ok := v.(ssa.Instruction)
	if !ok {
		return false
	}
	for _, op := range in.Operands(nil) {
		if *op != nil && c05DependsOn(*op, carried, depth+1) {
			return true
		}
	}
	return false
}

// c05LoopEffects computes the order-relevant effects of one map-range loop:
// everything in the body that is not (a) a write keyed by the iteration key,
// (b) a commutative integer accumulation, (c) iteration-private memory or
// (d) a call that cannot write pre-existing memory.
func c05LoopEffects(p *ir.Program, eff *ir.Effects, rg *ssa.Range) ([]string, bool) {
	loop, next := c05RangeLoop(rg)
	if loop == nil {
		return nil, false
	}
	return c05BodyEffects(p, eff, loop, next), true
}

// c05BodyEffects: next == nil for loops that are not driven by a map iterator.
func c05BodyEffects(p *ir.Program, eff *ir.Effects, loop *ir.Loop, next *ssa.Next) []string {
	fi := ir.Info(loop.Header.Parent())
	set := map[string]bool{}
	inBody := func(v ssa.Value) bool {
		in, ok := v.(ssa.Instruction)
		return ok && in.Block() != nil && loop.Body[in.Block()]
	}
	// private: memory allocated in this iteration
	private := func(v ssa.Value) bool {
		return eff.Fresh(v) && inBody(ir.RootOf(v))
	}
	for b := range loop.Body {
		if b != loop.Header {
			for _, s := range fi.Succs[b] {
				if !loop.Body[s] {
					set["early-exit"] = true
				}
			}
		}
		for _, in := range b.Instrs {
			switch x := in.(type) {
			case *ssa.Phi:
				if b != loop.Header {
					continue
				}
				// loop-carried value
				chain := map[ssa.Instruction]bool{}
				ok := true
				if next == nil && c05IsCounter(x) {
					continue // induction variable of an index loop
				}
				for i, e := range x.Edges {
					pred := b.Preds[i]
					if !loop.Body[pred] {
						continue
					}
					if !c05Accumulates(e, x, chain, 0) {
						ok = false
					}
				}
				if ok {
					for _, r := range *x.Referrers() {
						if r.Block() != nil && loop.Body[r.Block()] && !chain[r] {
							if _, dbg := r.(*ssa.DebugRef); !dbg {
								ok = false
							}
						}
					}
				}
				if !ok {
					set["carried:"+types.TypeString(x.Type(), func(pk *types.Package) string { return pk.Name() })] = true
				}
			case *ssa.Store:
				if al, ok := x.Addr.(*ssa.Alloc); ok {
					if inBody(al) {
						continue // iteration-private
					}
					// spilled iteration variable: written only from the iterator, used only in the body
					if ex, ok := x.Val.(*ssa.Extract); ok && next != nil && ex.Tuple == next {
						private := true
						for _, r := range *al.Referrers() {
							if r.Block() != nil && !loop.Body[r.Block()] {
								private = false
							}
						}
						if private {
							continue
						}
					}
				}
				if private(x.Addr) {
					continue
				}
				// commutative accumulation into a fixed location
				if bo, ok := x.Val.(*ssa.BinOp); ok && c05Commutative[bo.Op.String()] {
					if ld, ok := bo.X.(*ssa.UnOp); ok && ld.Op.String() == "*" && ir.Render(ld.X) == ir.Render(x.Addr) {
						continue
					}
				}
				set["store:"+ir.Render(x.Addr)] = true
			case *ssa.MapUpdate:
				if c05IsIterKey(x.Key, next) || private(x.Map) {
					continue
				}
				set["mapupdate:"+ir.Render(x.Map)] = true
			case *ssa.Send:
				set["send"] = true
			case *ssa.Go:
				set["go"] = true
			case *ssa.Select:
				set["select"] = true
			case *ssa.Defer:
				set["defer:"+ir.CalleeName(x)] = true
			case *ssa.Call:
				if bi, ok := x.Call.Value.(*ssa.Builtin); ok {
					switch bi.Name() {
					case "delete":
						if !c05IsIterKey(x.Call.Args[1], next) && !private(x.Call.Args[0]) {
							set["delete:"+ir.Render(x.Call.Args[0])] = true
						}
					case "copy":
						if !private(x.Call.Args[0]) {
							set["copy:"+ir.Render(x.Call.Args[0])] = true
						}
					}
					continue
				}
				for _, w := range eff.Writes(x) {
					if w.Global != "" || !private(w.Target) {
						set["call:"+ir.CalleeName(x)] = true
					}
				}
			}
		}
	}
	var out []string
	for k := range set {
		out = append(out, k)
	}
	sort.Strings(out)
	return out
}

// ---- goroutine shape ----

// c05GoShape checks the fork/join shape that makes a parallel section
// schedule-independent: every goroutine writes shared memory only into the
// slot of a shared slice indexed by its own (distinct) argument, and the
// parent passes WaitGroup.Wait on every path from the go statement to a return.
// It returns the remaining effects of the goroutine body (calls that may write
// pre-existing memory) for comparison with the reviewed table.
func c05GoShape(p *ir.Program, eff *ir.Effects, g *ssa.Go) (effects []string, problems []string) {
	var cl *ssa.Function
	switch v := g.Call.Value.(type) {
	case *ssa.MakeClosure:
		cl, _ = v.Fn.(*ssa.Function)
	case *ssa.Function:
		cl = v
	}
	if cl == nil {
		return nil, []string{"goroutine body is not a function literal or named function"}
	}
	set := map[string]bool{}
	isOwnParam := func(v ssa.Value) (int, bool) {
		for i, q := range cl.Params {
			if q == v {
				return i, true
			}
		}
		return 0, false
	}
	slotParams := map[int]bool{}
	ir.InstrsDeep(cl, func(fn *ssa.Function, in ssa.Instruction) {
		if fn != cl {
			// nested literals (deferred closures) are analysed through their call
			return
		}
		switch x := in.(type) {
		case *ssa.Store:
			if eff.Fresh(x.Addr) {
				return
			}
			if ia, ok := x.Addr.(*ssa.IndexAddr); ok {
				if ld, ok := ia.X.(*ssa.UnOp); ok {
					if _, isFV := ld.X.(*ssa.FreeVar); isFV {
						if pi, ok := isOwnParam(ia.Index); ok {
							slotParams[pi] = true
							return
						}
					}
				}
				if _, isFV := ia.X.(*ssa.FreeVar); isFV {
					if pi, ok := isOwnParam(ia.Index); ok {
						slotParams[pi] = true
						return
					}
				}
			}
			problems = append(problems, "goroutine stores to shared "+ir.Render(x.Addr)+" at "+p.InstrPos(in)+" (not its own slot)")
		case *ssa.MapUpdate:
			if !eff.Fresh(x.Map) {
				problems = append(problems, "goroutine updates shared map "+ir.Render(x.Map)+" at "+p.InstrPos(in))
			}
		case *ssa.Send:
			problems = append(problems, "goroutine sends on a channel at "+p.InstrPos(in))
		case *ssa.Go:
			problems = append(problems, "nested go statement at "+p.InstrPos(in))
		case ssa.CallInstruction:
			n := ir.CalleeName(x)
			if ir.Match("sync.WaitGroup.*", n) {
				// the goroutine announces only its END: an Add inside it races with the spawner's Wait
				// (Wait can return before any worker has registered)
				if n == "sync.WaitGroup.Add" {
					problems = append(problems, "WaitGroup.Add inside the goroutine at "+p.InstrPos(in)+" (must precede the go statement in the spawner)")
				}
				return
			}
			for _, w := range eff.Writes(in) {
				if w.Global != "" || !eff.Fresh(w.Target) {
					set["call:"+n] = true
				}
			}
		}
	})
	// each goroutine gets a distinct slot: the argument is the induction variable of the spawning loop
	for pi := range slotParams {
		if pi >= len(g.Call.Args) {
			problems = append(problems, "slot index parameter has no argument")
			continue
		}
		arg := g.Call.Args[pi]
		ph, ok := arg.(*ssa.Phi)
		distinct := false
		if ok {
			for _, e := range ph.Edges {
				if bo, ok := e.(*ssa.BinOp); ok && bo.Op.String() == "+" && bo.X == ph {
					if c, ok := bo.Y.(*ssa.Const); ok && c.Value != nil && c.Value.String() == "1" {
						distinct = true
					}
				}
			}
		}
		if !distinct {
			problems = append(problems, "slot index argument "+ir.Render(arg)+" is not the spawning loop's counter (slots may collide)")
		}
	}
	if len(slotParams) == 0 {
		problems = append(problems, "no per-goroutine result slot found")
	}
	// fork: the spawner registered the goroutine before starting it
	{
		added := false
		for _, a := range ir.Calls(g.Parent(), "sync.WaitGroup.Add") {
			if ai, ok := a.(*ssa.Call); ok && ir.Precedes(ai, g) {
				added = true
			}
		}
		if !added {
			problems = append(problems, "no WaitGroup.Add before the go statement")
		}
	}
	// join: every path from the go statement to a return passes Wait
	wait := ir.CallMatcher("sync.WaitGroup.Wait")
	if found, hit, tr := ir.FindPath(ir.PathQuery{From: ir.At(g), Target: ir.IsReturn, Avoid: wait}); found {
		problems = append(problems, fmt.Sprintf("a path from the go statement reaches the return at %s without WaitGroup.Wait (blocks %v)", p.InstrPos(hit), tr))
	}
	for k := range set {
		effects = append(effects, k)
	}
	sort.Strings(effects)
	return effects, problems
}

// c05FlowsOnlyTo follows a value through phis, local spills, conversions and
// tuple extraction and reports the first use that is not accepted.
func c05FlowsOnlyTo(p *ir.Program, v ssa.Value, ok func(user ssa.Instruction, through ssa.Value) bool) (bad string) {
	seen := map[ssa.Value]bool{}
	var visit func(v ssa.Value)
	visit = func(v ssa.Value) {
		if seen[v] || bad != "" {
			return
		}
		seen[v] = true
		refs := v.Referrers()
		if refs == nil {
			return
		}
		for _, r := range *refs {
			switch x := r.(type) {
			case *ssa.DebugRef:
			case *ssa.Phi:
				visit(x)
			case *ssa.Extract:
				visit(x)
			case *ssa.ChangeType:
				visit(x)
			case *ssa.Convert:
				visit(x)
			case *ssa.MakeInterface:
				visit(x)
			case *ssa.Store:
				if al, isAl := x.Addr.(*ssa.Alloc); isAl && x.Val == v {
					// local spill: follow the loads
					for _, rr := range *al.Referrers() {
						if ld, isLd := rr.(*ssa.UnOp); isLd && ld.Op.String() == "*" {
							visit(ld)
						}
					}
					continue
				}
				if !ok(r, v) {
					bad = ir.RenderInstr(r) + " at " + p.InstrPos(r)
				}
			default:
				if !ok(r, v) {
					bad = ir.RenderInstr(r) + " at " + p.InstrPos(r)
				}
			}
		}
	}
	visit(v)
	return bad
}

// c05MapSite is one reviewed map-order loop: the order-relevant effects its
// body may have, and why they cannot reach a consensus result.
type c05MapSite struct {
	Fn, Over string
	Allowed  []string
	Why      string
}

var c05MapSites = []c05MapSite{
	{"libs/crypto/merkle.SimpleHashFromMap", "m", []string{"call:merkle.simpleMap.Set"},
		"pairs are appended, then sorted by (key,value) in simpleMap.Hash before hashing (K2 simpleMap/* obligations)"},
	{"libs/cryptonote/types.TlvEncodeFromMap", "smap", []string{"call:types.LenTo2Byte", "call:types.Serializable.TlvEncode", "call:types.TagTo2Byte", "carried:int", "early-exit"},
		"tag-addressed TLV bytes; the only consumers pass them to the C library, which reads fields by tag (K3 tlv-consumers); any error rejects"},
	{"libs/trie.(*SecureTrie).Commit", "t.secKeyCache", []string{"call:trie.Database.insertPreimage"},
		"preimage store keyed by hash; never hashed"},
	{"libs/trie.(*cachedNode).childs", "n.children", []string{"store:&children"},
		"node-cache bookkeeping (reference counts, flush order); node hashes come from node content (K3 childs-consumers)"},
	{"state.(*StateDB).Commit", "s.stateObjects", []string{"call:state.StateDB.deleteStateObject", "call:state.StateDB.updateStateObject", "call:state.TrieDB.InsertBlob", "call:state.stateObject.CommitTrie", "early-exit", "store:&rangeval(s.stateObjects).dirtyCode"},
		"every effect is keyed by the object's own address (account trie leaf, code blob by hash, own storage trie); the root depends on the set of leaves (trie) or on heap-sorted updates (K2 wrappedTrie/*)"},
	{"state.(*StateDB).Copy", "s.journal.dirties", []string{"call:state.stateObject.deepCopy"}, "copies one object into the slot of its own address"},
	{"state.(*StateDB).Copy", "s.stateObjectsDirty", []string{"call:state.stateObject.deepCopy"}, "copies one object into the slot of its own address"},
	{"state.(*StateDB).Copy", "s.logs", []string{"store:make([]*types.Log,len(rangeval(s.logs)))[*]"}, "fills a slice allocated in this iteration, stored under the iteration key"},
	{"state.(*StateDB).Finalise", "s.journal.dirties", []string{"call:state.StateDB.deleteStateObject", "call:state.StateDB.updateStateObject", "call:state.stateObject.updateRoot"},
		"every effect is keyed by the object's own address; the root depends on the set of leaves (trie) or on heap-sorted updates (K2 wrappedTrie/*)"},
	{"state.(*stateObject).TokenBalances", "c.data.Tokens", []string{"carried:types.TokenValues"},
		"ORDER-EXPOSING result; every consumer sorts before an order-relevant use (K5 token-order/* obligations)"},
	{"state.(*stateObject).updateTrie", "c.dirtyStorage", []string{"call:ser.EncodeToBytes", "call:state.Trie.TryDelete", "call:state.Trie.TryUpdate", "call:state.stateObject.setError"},
		"storage slots keyed by the iteration key; root depends on the set of leaves / heap-sorted updates; setError keeps the first error, any error fails the commit"},
	{"state.(*wrappedTrie).Commit", "kvTrie.updates", []string{"call:binary.bigEndian.PutUint32", "call:db.Batch.Delete", "call:db.Batch.Set", "call:db.DB.Load", "store:&kvTrie.walBz"},
		"local persistence only: batch entries keyed by the iteration key, undo-log bytes are node-local and never hashed; Commit returns a constant hash"},
}

// c05GoSites: effects allowed inside the goroutines of the reviewed parallel sections.
var c05GoSites = map[string]struct {
	Allowed []string
	Why     string
}{
	"app.(*LinkApplication).verifyTxsOnProcess": {[]string{"call:app.LinkApplication.CheckTx", "call:types.Mempool.GetTxFromCache", "call:types.Tx.Hash", "call:types.Tx.From", "call:types.Transaction.From", "call:types.Transaction.StoreFrom", "call:types.TokenTransaction.From", "call:types.TokenTransaction.StoreFrom", "call:types.UTXOTransaction.From", "call:types.UTXOTransaction.StoreFrom", "call:types.ContractUpgradeTx.From", "call:types.UTXOTransaction.ToAddrs", "call:types.Tx.TokenAddress", "call:types.Tx.To", "call:types.blacklist.IsBlackAddress", "call:types.UTXOTransaction.UTXOKind"},
		"per-transaction memoisation (hash, sender) on the transaction the goroutine owns (index ≡ slot mod stride); checks read shared state only"},
	"types.(*UTXOTransaction).checkRingctSignatures": {[]string{"call:xcrypto.CheckRingSignature"}, "cgo verification of one ring; reads only"},
}

// c05Consumers: order-relevant effects allowed in loops over an unsorted TokenBalances() result.
var c05Consumers = map[string]struct {
	Allowed []string
	Why     string
}{
	"vm/evm.opSuicide":                  {[]string{"call:types.StateDB.AddTokenBalance"}, "credits keyed by token address (disjoint per element); the balance records are produced after sort.Sort"},
	"vm/evm.gasSuicide":                 {[]string{"call:evm.gasFee", "call:math.SafeAdd", "carried:uint64", "carried:bool", "early-exit"}, "only the single native-coin entry contributes; sum and overflow are order-independent"},
	"vm/wasm.(*TCSelfDestruct).Gas":     {[]string{"call:wasm.gasFee", "call:math.SafeAdd", "call:vm.Engine.AddFee", "carried:uint64", "carried:bool", "early-exit"}, "only the single native-coin entry contributes"},
	"state.(*StateDB).Suicide":          {[]string{"escape:state.suicideChange"}, "kept in the journal; revert writes each element under its own token key"},
	"state.(*StateDB).GetTokenBalances": {[]string{"escape:return"}, "wrapper: its callers are consumers themselves"},
}

// C05 block execution is deterministic — every source of run-to-run or
// node-to-node variation reachable from block execution is found and classified.
func C05(p *ir.Program, r *report.R) {
	c := C{p, r}
	r.Floor = 90
	r.Explain = "Decided (necessary structural conditions, not the behaviour): over the call-graph closure of block execution (processBlock, PreRunBlock, CheckBlock, CommitBlock's candidate update, StateProcessor.Process, state transitions, StateDB root/commit, receipts/bloom, VM dispatch tables and host functions) " +
		"(map order) every loop over a map has no order-relevant effect — its writes are keyed by the iteration key, commutative integer accumulations, iteration-private memory, or calls that cannot write pre-existing memory — or is a reviewed site whose effect set is unchanged and whose compensating mechanism is checked (sort before hashing, heap-sorted state hash, consumers of TokenBalances sort before any order-relevant use, TLV bytes only cross to the C decoder); " +
		"(scheduling) every go statement has the fork/join shape (own result slot indexed by the spawning loop counter, WaitGroup.Wait on all paths, no other shared writes) and every select is a non-blocking single-case poll of a channel only the executing VM touches; " +
		"(environment) no wall-clock, random, environment, CPU-count or reflect-map-order value flows anywhere except the reviewed sinks (tracer callbacks, work partitioning, sorted map writer); " +
		"(paths) PreRunBlock and CheckBlock run the same processBlock on a state copy, the header fields PreRunBlock fills are exactly those CheckBlock compares, and the preRun flag controls nothing but the signature pre-check; " +
		"(cache) the mempool cache hands out a transaction only after its basic check succeeded, entries are inserted unchecked, and the pre-check uses the cache only under the block transaction's own hash; " +
		"(storage mode) wrappedTrie.Hash returns the hash of the heap-ordered update multiset in both modes and every update is pushed. " +
		"Round 6: every worker of the signature pre-check has its own start index and result slot and is joined; at least one worker on any machine; container/heap types are fed only through container/heap. Round 7: Finalise recomputes the storage root of every live dirty account, not only of those with pending storage writes. NOT decided: that callee effects keyed by an address really commute (trie set-semantics is trusted), arithmetic of the stride partition, determinism of the cgo library and of the third-party WASM engine, floating point (none found), data races on per-transaction caches."
	r.Trusted = []string{"Merkle-Patricia trie root depends only on the key/value set", "container/heap, sort", "libxcrypto (cgo) and tc-wasm engine are deterministic", "reviewed tables c05MapSites, c05GoSites, c05Consumers"}

	entries := []*ssa.Function{
		p.Func("app", "LinkApplication.processBlock"), p.Func("app", "LinkApplication.PreRunBlock"), p.Func("app", "LinkApplication.CheckBlock"),
		p.Func("app", "StateProcessor.Process"), p.Func("app", "processTransaction.Transit"),
		p.Func("app", "LinkApplication.updateCandidatesbyOrder"), p.Func("app", "LinkApplication.recoverCandidates"), p.Func("app", "LinkApplication.getValidators"),
		p.Func("app", "LinkApplication.processBlockEvidence"), p.Func("app", "SetPoceeds"), p.Func("app", "AllocAward"),
		p.Func("state", "StateDB.IntermediateRoot"), p.Func("state", "StateDB.Finalise"), p.Func("state", "StateDB.Commit"),
		p.Func("types", "CreateBloom"), p.Func("types", "Receipts.Hash"),
	}
	// jump tables and host-function tables are filled by package initialisers
	for _, rel := range []string{"vm/evm", "vm/wasm", "vm"} {
		if sp := p.SSAPkg[ir.Module+"/"+rel]; sp != nil {
			if f := sp.Func("init"); f != nil {
				entries = append(entries, f)
			}
		}
	}
	reach := c05Reach(p, entries)
	eff := ir.DefaultEffects(p)
	var fns []*ssa.Function
	for f := range reach {
		fns = append(fns, f)
	}
	sort.Slice(fns, func(i, j int) bool { return ir.FuncName(fns[i]) < ir.FuncName(fns[j]) })
	r.Stats["reach functions"] = len(fns)
	r.Note("execution closure: %d functions in %d packages from %d entry points", len(fns), len(c05Pkgs), len(entries))
	r.Check("K9", "closure-size", "-", len(fns) >= 1100, fmt.Sprintf("the execution closure has %d functions (confirmed by hand: ≥ 1100); a collapse means entry points or the call-graph construction no longer match", len(fns)))

	siteOf := func(fn, over string) *c05MapSite {
		for i := range c05MapSites {
			if c05MapSites[i].Fn == fn && ir.Match(c05MapSites[i].Over, over) {
				return &c05MapSites[i]
			}
		}
		return nil
	}
	allowed := func(al []string, e string) bool {
		for _, a := range al {
			if a == e || ir.Match(a, e) {
				return true
			}
		}
		return false
	}
	nMap, nGo, nSel, nSrc := 0, 0, 0, 0
	seenSite := map[*c05MapSite]bool{}
	for _, f := range fns {
		// a transparent helper's loops and goroutines belong to its owner (the reviewed tables name functions)
		fname := ir.FuncName(ir.EnclosingTop(f))
		if ir.IsTransparentHelper(f) && ir.EnclosingTop(f) != f {
			continue // visited through its owner (ir.Instrs includes the helper's instructions)
		}
		ir.Instrs(f, func(in ssa.Instruction) {
			switch x := in.(type) {
			case *ssa.Range:
				if _, isMap := x.X.Type().Underlying().(*types.Map); !isMap {
					return
				}
				nMap++
				over := ir.Render(x.X)
				key := "map-order/" + fname + "/" + short(over, 60)
				effs, ok := c05LoopEffects(p, eff, x)
				if !ok {
					r.Undecided("K7", key, p.InstrPos(in), "the loop of this map range could not be identified")
					return
				}
				site := siteOf(fname, over)
				if len(effs) == 0 {
					r.Check("K7", key, p.InstrPos(in), true, "body has no order-relevant effect (keyed writes, commutative accumulation, iteration-private memory, effect-free calls only)")
					return
				}
				if site == nil {
					r.Check("K7", key, p.InstrPos(in), false, fmt.Sprintf("map-order loop on the execution path with order-relevant effects %v and no reviewed justification; reached via %s", effs, c05Chain(f)))
					return
				}
				seenSite[site] = true
				var extra []string
				for _, e := range effs {
					if !allowed(site.Allowed, e) {
						extra = append(extra, e)
					}
				}
				r.Check("K7", key, p.InstrPos(in), len(extra) == 0, fmt.Sprintf("reviewed site (%s); effects %v; not covered by the review: %v", site.Why, effs, extra))
			case *ssa.Go:
				nGo++
				key := "go/" + fname
				effs, problems := c05GoShape(p, eff, x)
				site, reviewed := c05GoSites[fname]
				var extra []string
				for _, e := range effs {
					if !reviewed || !allowed(site.Allowed, e) {
						extra = append(extra, e)
					}
				}
				r.Check("K7", key+"/fork-join-shape", p.InstrPos(in), len(problems) == 0, fmt.Sprintf("own result slot + WaitGroup.Wait on all paths; problems: %v", problems))
				r.Check("K7", key+"/goroutine-effects", p.InstrPos(in), len(extra) == 0, fmt.Sprintf("effects of the goroutine body %v; not covered by the review: %v", effs, extra))
			case *ssa.Select:
				nSel++
				ok, why := c05SelectOK(p, x)
				r.Check("K7", "select/"+fname, p.InstrPos(in), ok, why)
			case *ssa.Call:
				n := ir.CalleeName(x)
				if !(n == "time.Now" || n == "time.Since" || strings.HasPrefix(n, "rand.") || n == "os.Getenv" || n == "os.Hostname" || n == "os.Getpid" || n == "reflect.Value.MapKeys" || n == "reflect.Value.MapRange" || n == "sync.Map.Range" || n == "runtime.NumCPU" || n == "runtime.GOMAXPROCS" || n == "runtime.NumGoroutine" || strings.HasPrefix(n, "common.Rand") || n == "time.Time.UnixNano" || n == "time.Time.Unix") {
					return
				}
				if n == "time.Time.UnixNano" || n == "time.Time.Unix" {
					// only interesting when applied to time.Now(), which is followed from there
					return
				}
				nSrc++
				key := "source/" + fname + "/" + n
				ok, why := c05SourceOK(p, f, x, n)
				r.Check("K7", key, p.InstrPos(in), ok, why+"; reached via "+short(c05Chain(f), 300))
			}
		})
	}
	r.Stats["map ranges"] = nMap
	r.Stats["go statements"] = nGo
	r.Stats["selects"] = nSel
	r.Stats["environment sources"] = nSrc
	for i := range c05MapSites {
		if !seenSite[&c05MapSites[i]] {
			r.Note("reviewed map site %s over %s not present on this tree", c05MapSites[i].Fn, c05MapSites[i].Over)
		}
	}
	c.MustFind("K7", "map-order/sites", p.Func("state", "StateDB.Finalise"), nMap, "map range loops on the execution path")

	heapDiscipline(c)
	c05SimpleMap(c)
	serCanonicalMaps(p, r)
	c05WrappedTrie(c)
	c05TokenOrder(c, eff)
	c05Tlv(c)
	c05Paths(c)
	c05Cache(c)
	c05Globals(c, fns)
}

// fieldRefs lists the functions that take the address of (or read) field fv.
func fieldRefs(p *ir.Program, fv *types.Var) map[*ssa.Function][]ssa.Instruction {
	out := map[*ssa.Function][]ssa.Instruction{}
	for _, f := range p.Funcs {
		if f.Blocks == nil {
			continue
		}
		for _, b := range f.Blocks {
			for _, in := range b.Instrs {
				switch x := in.(type) {
				case *ssa.FieldAddr:
					if ir.FieldVar(x.X, x.Field) == fv {
						out[f] = append(out[f], in)
					}
				case *ssa.Field:
					if ir.FieldVar(x.X, x.Field) == fv {
						out[f] = append(out[f], in)
					}
				}
			}
		}
	}
	return out
}

// c05SelectOK: a select on the execution path must be a non-blocking poll of
// one channel that only the executing VM ever touches (a flag, not a race).
func c05SelectOK(p *ir.Program, sel *ssa.Select) (bool, string) {
	if sel.Blocking || len(sel.States) != 1 {
		return false, fmt.Sprintf("select with %d cases (blocking=%v): the chosen case depends on scheduling", len(sel.States), sel.Blocking)
	}
	ch := sel.States[0].Chan
	ld, ok := ch.(*ssa.UnOp)
	if !ok {
		return false, "polled channel is not a struct field: " + ir.Render(ch)
	}
	fa, ok := ld.X.(*ssa.FieldAddr)
	if !ok {
		return false, "polled channel is not a struct field: " + ir.Render(ch)
	}
	fv := ir.FieldVar(fa.X, fa.Field)
	if fv == nil {
		return false, "unresolved field"
	}
	home := ir.RelPkg(fv.Pkg())
	// every reference to the field is inside the VM package that owns it or the sibling VM, never in a goroutine body
	var outside []string
	for f := range fieldRefs(p, fv) {
		rel := ""
		if f.Pkg != nil {
			rel = ir.RelPkg(f.Pkg.Pkg)
		}
		if strings.HasSuffix(p.Pos(f.Pos()), "_test.go") {
			continue
		}
		if rel != home {
			outside = append(outside, ir.FuncName(f))
		}
		for _, use := range p.FuncValueUses(ir.EnclosingTop(f)) {
			if _, isGo := use.(*ssa.Go); isGo {
				outside = append(outside, ir.FuncName(f)+" (started as goroutine)")
			}
		}
	}
	sort.Strings(outside)
	if len(outside) > 0 {
		return false, fmt.Sprintf("channel field %s.%s is referenced outside its VM package or from a goroutine: %v", home, fv.Name(), outside)
	}
	// the channel is always created with capacity 1
	for _, st := range p.Stores(fv) {
		mk, ok := st.Val.(*ssa.MakeChan)
		if !ok {
			if st.Kind == "complit" {
				if mk2, ok2 := st.Val.(*ssa.MakeChan); ok2 {
					mk = mk2
				}
			}
		}
		if mk == nil {
			return false, "channel field assigned something other than make(chan): " + ir.Render(st.Val) + " at " + p.InstrPos(st.Instr)
		}
		if k, ok := mk.Size.(*ssa.Const); !ok || k.Value == nil || k.Value.String() != "1" {
			return false, "channel not created with capacity 1 at " + p.InstrPos(st.Instr)
		}
	}
	return true, fmt.Sprintf("non-blocking single-case poll of %s.%s, a capacity-1 channel referenced only inside package %s and never from a goroutine body", home, fv.Name(), home)
}

// c05SourceOK decides one environment-dependent call on the execution path.
func c05SourceOK(p *ir.Program, f *ssa.Function, call *ssa.Call, n string) (bool, string) {
	switch n {
	case "time.Now", "time.Since":
		bad := c05FlowsOnlyTo(p, call, func(user ssa.Instruction, _ ssa.Value) bool {
			if ci, ok := user.(ssa.CallInstruction); ok {
				cn := ir.CalleeName(ci)
				return cn == "time.Since" || ir.Match("*Tracer.Capture*", cn) || ir.Match("log.*", cn) || ir.Match("time.Time.Sub", cn)
			}
			return false
		})
		if bad != "" {
			return false, "wall-clock value flows into " + bad + " (only tracer callbacks and logging may see it)"
		}
		return true, "wall-clock value flows only into tracer callbacks / logging"
	case "runtime.NumCPU":
		var visit func(v ssa.Value, depth int) string
		seen := map[ssa.Value]bool{}
		visit = func(v ssa.Value, depth int) string {
			if seen[v] || depth > 40 {
				return ""
			}
			seen[v] = true
			return c05FlowsOnlyTo(p, v, func(user ssa.Instruction, through ssa.Value) bool {
				switch u := user.(type) {
				case *ssa.BinOp:
					if bad := visit(u, depth+1); bad != "" {
						return false
					}
					return true
				case *ssa.If, *ssa.MakeSlice, *ssa.IndexAddr, *ssa.Index:
					return true
				case *ssa.MakeClosure:
					fn := u.Fn.(*ssa.Function)
					for i, b := range u.Bindings {
						if b == through && i < len(fn.FreeVars) {
							if bad := visit(fn.FreeVars[i], depth+1); bad != "" {
								return false
							}
						}
					}
					return true
				case *ssa.UnOp:
					return visit(u, depth+1) == ""
				case *ssa.Go, *ssa.Call:
					ci := user.(ssa.CallInstruction)
					// passed as the goroutine's own start index
					if _, isGo := user.(*ssa.Go); isGo {
						return true
					}
					return ir.Match("sync.WaitGroup.*", ir.CalleeName(ci))
				}
				return false
			})
		}
		if ir.FuncName(f) != "app.(*LinkApplication).verifyTxsOnProcess" {
			return false, "CPU count used on the execution path outside the reviewed work partition"
		}
		if bad := visit(call, 0); bad != "" {
			return false, "CPU-count-derived value escapes the work partition: " + bad
		}
		return true, "CPU count only sizes the result slots and strides the work partition (never returned, stored or passed on); any failing slot rejects the block"
	case "rand.NewSource":
		if bad := c05EnvDependent(p, call.Call.Args[0], 3, map[ssa.Value]bool{}); bad != "" {
			return false, "PRNG seed depends on the environment: " + bad
		}
		return true, "explicitly seeded PRNG; the seed derives only from parameters and block data (followed through callers to depth 3)"
	case "rand.New":
		if src, ok := call.Call.Args[0].(*ssa.Call); ok && ir.CalleeName(src) == "rand.NewSource" {
			return true, "generator built on an explicitly seeded source (see rand.NewSource obligation)"
		}
		return false, "generator source is not an explicit rand.NewSource(seed): " + ir.Render(call.Call.Args[0])
	case "reflect.Value.MapKeys":
		g := call.Parent() // (a helper split out of the writer closure counts as the closure)
		if strings.HasPrefix(ir.FuncName(f), "libs/ser.makeMapWriter$") || ir.IsTransparentHelper(g) && ir.FuncName(ir.EnclosingTop(g)) == "libs/ser.makeMapWriter" {
			return true, "keys are sorted before emission (K7 ser.makeMapWriter/sorted-before-emit)"
		}
	}
	if strings.HasPrefix(n, "rand.Rand.") {
		// a method on an explicit generator: the generator must come from rand.New in this function
		recv := call.Call.Args[0]
		if src, ok := recv.(*ssa.Call); ok && ir.CalleeName(src) == "rand.New" {
			return true, "method of a locally created, explicitly seeded generator"
		}
		if pa, ok := recv.(*ssa.Parameter); ok {
			if obj, _ := pa.Parent().Object().(*types.Func); obj != nil && len(p.CallSites(obj)) == 0 && len(p.FuncValueUses(pa.Parent())) == 0 {
				return true, "generator supplied by the caller, and the module never calls this function (testing/quick Generator hook)"
			}
		}
		return false, "generator " + ir.Render(recv) + " is not created by rand.New in this function"
	}
	return false, "environment-dependent call " + n + " on the execution path"
}

var c05EnvCalls = []string{"time.*", "os.*", "rand.Int*", "rand.Uint*", "rand.Float*", "rand.Read", "rand.Perm", "rand.Seed", "runtime.*", "common.Rand*", "syscall.*"}

// c05EnvDependent follows the operands of v (and parameters through their call
// sites, to the given depth) looking for an environment-dependent call.
func c05EnvDependent(p *ir.Program, v ssa.Value, depth int, seen map[ssa.Value]bool) string {
	if seen[v] {
		return ""
	}
	seen[v] = true
	switch x := v.(type) {
	case *ssa.Parameter:
		if depth == 0 {
			return ""
		}
		fn := x.Parent()
		idx := -1
		for i, q := range fn.Params {
			if q == x {
				idx = i
			}
		}
		obj, _ := fn.Object().(*types.Func)
		if obj == nil || idx < 0 {
			return ""
		}
		for _, cs := range p.CallSites(obj) {
			args := cs.Instr.Common().Args
			if cs.Instr.Common().IsInvoke() {
				if idx == 0 {
					continue
				}
				if idx-1 < len(args) {
					if bad := c05EnvDependent(p, args[idx-1], depth-1, seen); bad != "" {
						return bad
					}
				}
				continue
			}
			if idx < len(args) {
				if bad := c05EnvDependent(p, args[idx], depth-1, seen); bad != "" {
					return bad
				}
			}
		}
		return ""
	case *ssa.Call:
		n := ir.CalleeName(x)
		for _, g := range c05EnvCalls {
			if ir.Match(g, n) {
				return n + " at " + p.InstrPos(x)
			}
		}
	}
	in, ok := v.(ssa.Instruction)
	if !ok {
		return ""
	}
	for _, op := range in.Operands(nil) {
		if *op == nil {
			continue
		}
		if bad := c05EnvDependent(p, *op, depth, seen); bad != "" {
			return bad
		}
	}
	return ""
}

// c05LessStrict: a Less(i,j) built on bytes.Compare must return true exactly for -1 on the primary key.
func c05LessStrict(c C, rel, name, cmp string) {
	p := c.P
	fn := p.Func(rel, name)
	ok := true
	var why []string
	nTrue := 0
	for _, rt := range ir.Returns(fn) {
		fs := ir.FactsAt(rt.Instr)
		res := rt.Results[0]
		if k, isC := res.(*ssa.Const); isC {
			if k.Value.String() == "true" {
				nTrue++
				if !ir.HasFact(fs, "eq("+cmp+",-1)") {
					ok = false
					why = append(why, "returns true without "+cmp+" == -1 at "+p.InstrPos(rt.Instr))
				}
			} else if !ir.HasFact(fs, "!eq("+cmp+",-1)") {
				ok = false
				why = append(why, "returns false although "+cmp+" may be -1 at "+p.InstrPos(rt.Instr))
			}
			continue
		}
		// tie-break return: only under equality of the primary key
		if !ir.HasFact(fs, "eq("+cmp+",0)") {
			ok = false
			why = append(why, "non-constant result "+ir.Render(res)+" outside the equal-keys case at "+p.InstrPos(rt.Instr))
		}
	}
	if nTrue == 0 {
		ok = false
		why = append(why, "never returns true")
	}
	c.R.Check("K6", rel+"."+name+"/strict-byte-order", p.Pos(fn.Pos()), ok, fmt.Sprintf("Less is the strict byte order: true iff %s == -1 (ties decided only under == 0); %v", cmp, why))
}

// c05SimpleMap: merkle.simpleMap sorts before hashing.
func c05SimpleMap(c C) {
	p := c.P
	h := p.Func("libs/crypto/merkle", "simpleMap.Hash")
	hk := firstCall(h, "merkle.hashKVPairs")
	if c.MustFind("K2", "simpleMap.Hash/hashKVPairs", h, btoi(hk != nil), "call to hashKVPairs") {
		c.MustPass("merkle.simpleMap.Hash", "sort-before-hash", ir.Entry(h), func(in ssa.Instruction) bool { return in == hk.(ssa.Instruction) }, ir.CallMatcher("merkle.simpleMap.Sort"), hk.(ssa.Instruction), "every path to hashKVPairs passes simpleMap.Sort")
	}
	kv := p.Func("libs/crypto/merkle", "simpleMap.KVPairs")
	c.MustPass("merkle.simpleMap.KVPairs", "sort-before-copy", ir.Entry(kv), ir.IsReturn, ir.CallMatcher("merkle.simpleMap.Sort"), nil, "every path to the return passes simpleMap.Sort")
	st := p.Func("libs/crypto/merkle", "simpleMap.Sort")
	srt := ir.CallMatcher("common.KVPairs.Sort")
	okS := true
	var whyS []string
	for _, rt := range ir.Returns(st) {
		found, _, tr := ir.FindPath(ir.PathQuery{From: ir.Entry(st), Target: func(in ssa.Instruction) bool { return in == rt.Instr }, Avoid: srt})
		if found && !ir.HasFact(ir.FactsAt(rt.Instr), "sm.sorted") {
			okS = false
			whyS = append(whyS, fmt.Sprintf("return at %s reachable without sorting and without sm.sorted (blocks %v)", p.InstrPos(rt.Instr), tr))
		}
	}
	c.R.Check("K2", "merkle.simpleMap.Sort/sorts-unless-sorted", p.Pos(st.Pos()), okS, fmt.Sprintf("returns only after KVPairs.Sort or under the sorted flag; %v", whyS))
	// the flag is true only after sorting, false after every append
	for _, s := range p.Stores(p.Field("libs/crypto/merkle", "simpleMap.sorted")) {
		fn := ir.FuncName(ir.EnclosingTop(s.Fn))
		val := ir.Render(s.Val)
		switch {
		case val == "true":
			ok := false
			for _, call := range ir.Calls(s.Fn, "common.KVPairs.Sort") {
				if ir.Precedes(call.(ssa.Instruction), s.Instr) {
					ok = true
				}
			}
			c.R.Check("K2", "merkle.simpleMap.sorted/true-only-after-sort/"+fn, p.InstrPos(s.Instr), ok, "sorted=true is preceded by KVPairs.Sort")
		default:
			c.R.Check("K2", "merkle.simpleMap.sorted/reset/"+fn, p.InstrPos(s.Instr), val == "false", "other writes reset the flag: "+val)
		}
	}
	set := p.Func("libs/crypto/merkle", "simpleMap.Set")
	resets := false
	for _, s := range p.Stores(p.Field("libs/crypto/merkle", "simpleMap.sorted")) {
		if s.Fn == set && ir.Render(s.Val) == "false" {
			resets = true
		}
	}
	c.R.Check("K2", "merkle.simpleMap.Set/resets-sorted", p.Pos(set.Pos()), resets, "Set clears the sorted flag, so Hash sorts again")
	c.WhoMayWrite("libs/crypto/merkle", "simpleMap.kvs", "libs/crypto/merkle.(*simpleMap).Set", "libs/crypto/merkle.newSimpleMap")
	c05LessStrict(c, "libs/common", "KVPairs.Less", "bytes.Compare(kvs[i].Key,kvs[j].Key)")
	ks := p.Func("libs/common", "KVPairs.Sort")
	c.R.Check("K2", "common.KVPairs.Sort/sorts", p.Pos(ks.Pos()), len(ir.Calls(ks, "sort.Sort")) == 1, "KVPairs.Sort calls sort.Sort on the receiver")
}

func btoi(b bool) int {
	if b {
		return 1
	}
	return 0
}

// c05WrappedTrie: the state hash of the key/value store is the hash of the
// heap-ordered multiset of updates, in both storage modes.
// c05AccountRoot: the storage digest written into an account is recomputed from the storage on every
// finalisation. The root PERSISTED with an account differs between storage modes (flat state keeps the
// zero hash, trie mode the Merkle root), so reusing it — any path through updateRoot that leaves
// data.Root as loaded — makes the state hash depend on the mode and on which block last committed the
// account.
func c05AccountRoot(c C) {
	p, r := c.P, c.R
	ur := p.Func("state", "stateObject.updateRoot")
	fv := p.Field("state", "Account.Root")
	var st []ir.Store
	for _, s := range p.Stores(fv) {
		if ir.EnclosingTop(s.Fn) == ur && s.Kind == "store" {
			st = append(st, s)
		}
	}
	if !c.MustFind("K2", "state.(*stateObject).updateRoot/store", ur, len(st), "store to data.Root") {
		return
	}
	for _, s := range st {
		r.Check("K2", "state.(*stateObject).updateRoot/root-is-current-storage-hash", p.InstrPos(s.Instr), ir.Render(s.Val) == "state.Trie.Hash(c.trie)", "data.Root = c.trie.Hash(): "+short(ir.Render(s.Val), 80))
	}
	isStore := func(in ssa.Instruction) bool {
		for _, s := range st {
			if s.Instr == in {
				return true
			}
		}
		return false
	}
	c.MustPass("state.(*stateObject).updateRoot", "root-recomputed-on-every-path", ir.Entry(ur), ir.IsReturn, isStore, nil, "every path through updateRoot recomputes data.Root (no reuse of the persisted, mode-specific root)")
	// ... and Finalise calls it for EVERY live dirty account, whether or not the account has pending storage
	// writes: an account that only changed its balance still carries the root it was LOADED with, which is
	// the mode-dependent one
	fin := p.Func("state", "StateDB.Finalise")
	for _, call := range ir.Calls(fin, "state.stateObject.updateRoot") {
		fs := ir.FactsAt(call.(ssa.Instruction))
		var extra []string
		for _, a := range fs {
			if strings.Contains(a.Atom, "dirtyStorage") || strings.Contains(a.Atom, "originStorage") || strings.Contains(a.Atom, ".data.Root") {
				extra = append(extra, a.Atom)
			}
		}
		r.Check("K2", "state.(*StateDB).Finalise/root-recomputed-for-every-live-account", p.InstrPos(call.(ssa.Instruction)), len(extra) == 0, fmt.Sprintf("updateRoot is not conditioned on the account's storage: %v", extra))
	}
	c.MustFind("K2", "state.(*StateDB).Finalise/updateRoot", fin, len(ir.Calls(fin, "state.stateObject.updateRoot")), "updateRoot call in Finalise")
	c.MustPass("state.(*stateObject).updateRoot", "pending-writes-applied-first", ir.Entry(ur), isStore, ir.CallMatcher("state.stateObject.updateTrie"), nil, "the pending storage writes are applied to the trie before it is hashed")
}

// c05CarriedState: values a node keeps from one block to the next must come from the state that was
// just committed, so that a node that ran the block and a node that restarted after it agree:
// CommitBlock reads the fee/election coefficients from processResult.tmpState (the post-block state),
// not from app.storeState, which at that point still is the pre-block state.
func c05CarriedState(c C) {
	p, r := c.P, c.R
	cb := p.Func("app", "LinkApplication.CommitBlock")
	n := 0
	for _, call := range ir.Calls(cb, "app.GetCoefficient") {
		n++
		r.Check("K5", "app.(*LinkApplication).CommitBlock/coefficients-from-committed-state", p.InstrPos(call.(ssa.Instruction)), strings.HasSuffix(Arg(call, 0), ".tmpState"), "lastCoe is read from the post-block state (the process result of this block): "+short(Arg(call, 0), 60))
	}
	c.MustFind("K5", "app.(*LinkApplication).CommitBlock/GetCoefficient", cb, n, "GetCoefficient call")
	// a sync.Map is keyed by ONE type: Delete/Load with a key of another type (an Address instead of its
	// string) compiles, matches nothing, and leaves warm caches behind that a restarted node does not have
	type use struct {
		pos, op, typ string
	}
	byMap := map[string][]use{}
	for _, f := range p.Funcs {
		if f.Pkg == nil || f.Blocks == nil || strings.HasSuffix(p.Pos(f.Pos()), "_test.go") {
			continue
		}
		rel := ir.RelPkg(f.Pkg.Pkg)
		if !(rel == "vm" || strings.HasPrefix(rel, "vm/") || rel == "app" || rel == "state") {
			continue
		}
		ir.Instrs(f, func(in ssa.Instruction) {
			call, ok := in.(*ssa.Call)
			if !ok {
				return
			}
			n := ir.CalleeName(call)
			if !strings.HasPrefix(n, "sync.Map.") || len(call.Call.Args) < 2 {
				return
			}
			op := strings.TrimPrefix(n, "sync.Map.")
			if op != "Store" && op != "Load" && op != "Delete" && op != "LoadOrStore" {
				return
			}
			key := call.Call.Args[1]
			if mi, ok := key.(*ssa.MakeInterface); ok {
				key = mi.X
			}
			m := Arg(call, 0)
			if i := strings.LastIndex(m, "."); i >= 0 {
				m = m[i+1:] // the field name identifies the map across receivers (eng.AppCache, vm.AppCache)
			}
			byMap[m] = append(byMap[m], use{p.InstrPos(in), op, key.Type().String()})
		})
	}
	var names []string
	for m := range byMap {
		names = append(names, m)
	}
	sort.Strings(names)
	for _, m := range names {
		typs := map[string]bool{}
		for _, u := range byMap[m] {
			typs[u.typ] = true
		}
		r.Check("K5", "sync-map-one-key-type/"+m, byMap[m][0].pos, len(typs) == 1, fmt.Sprintf("all %d Store/Load/Delete calls on %s use one key type: %v", len(byMap[m]), m, byMap[m]))
	}
	r.Check("K5", "sync-map-one-key-type/maps", "-", len(names) >= 1, fmt.Sprintf("%d sync.Map fields used on the execution path", len(names)))
}

func c05WrappedTrie(c C) {
	p := c.P
	c05AccountRoot(c)
	c05CarriedState(c)
	c05LessStrict(c, "state", "kvHeap.Less", "bytes.Compare(kh[i],kh[j])")
	for _, name := range []string{"wrappedTrie.TryUpdate", "wrappedTrie.TryDelete"} {
		fn := p.Func("state", name)
		push := ir.CallMatcher("heap.Push")
		c.MustPass("state."+name, "push-on-every-path", ir.Entry(fn), ir.IsReturn, push, nil, "every path to a return pushes the update onto the ordering heap")
		for _, call := range ir.Calls(fn, "heap.Push") {
			a0, a1 := Arg(call, 0), Arg(call, 1)
			c.R.Check("K2", "state."+name+"/push-operands", p.InstrPos(call.(ssa.Instruction)), a0 == "kvTrie.serial" && strings.HasPrefix(a1, "append(state.keyHash(key)"),
				"pushes hash(key)||value onto kvTrie.serial: heap.Push("+a0+", "+short(a1, 80)+")")
		}
	}
	h := p.Func("state", "wrappedTrie.Hash")
	okRet := true
	var rets []string
	for _, rt := range ir.Returns(h) {
		s := ir.Render(rt.Results[0])
		rets = append(rets, s)
		if !ir.Match("common.BytesToHash(crypto.Keccak256(*kvTrie.buffer*))", s) {
			okRet = false
		}
	}
	c.R.Check("K5", "state.wrappedTrie.Hash/same-in-both-modes", p.Pos(h.Pos()), okRet && len(rets) > 0, fmt.Sprintf("every return is Keccak256(buffer) whatever the storage mode: %v", rets))
	// buffer is built only from heap.Pop inside Hash, after being truncated
	var bad []string
	for _, s := range p.Stores(p.Field("state", "wrappedTrie.buffer")) {
		if s.Kind == "complit" {
			continue
		}
		if s.Fn != h {
			bad = append(bad, ir.FuncName(s.Fn)+"@"+p.InstrPos(s.Instr))
			continue
		}
		v := ir.Render(s.Val)
		if !(strings.HasPrefix(v, "kvTrie.buffer[:0]") || (strings.HasPrefix(v, "append(kvTrie.buffer") && strings.Contains(v, "heap.Pop(kvTrie.serial)"))) {
			bad = append(bad, "unexpected value "+short(v, 80)+"@"+p.InstrPos(s.Instr))
		}
	}
	c.R.Check("K3", "state.wrappedTrie.buffer/only-heap-pop", p.Pos(h.Pos()), len(bad) == 0, fmt.Sprintf("the hashed buffer is reset and then extended only with heap.Pop results inside Hash: %v", bad))
	// the loop drains the heap: exit only when Len() == 0
	okDrain := false
	for _, rt := range ir.Returns(h) {
		if ir.HasFact(ir.FactsAt(rt.Instr), "le(state.kvHeap.Len(*kvTrie.serial),0)") {
			okDrain = true
		}
	}
	if !okDrain {
		// fall back to printing the facts for diagnosis
		for _, rt := range ir.Returns(h) {
			bad = append(bad, strings.Join(ir.FactStrings(ir.FactsAt(rt.Instr)), ";"))
		}
	}
	c.R.Check("K2", "state.wrappedTrie.Hash/drains-heap", p.Pos(h.Pos()), okDrain, fmt.Sprintf("the return is reached only when the heap is empty %v", bad))
	// nothing but container/heap calls the heap's Push/Pop, and only the wrappedTrie update paths push
	c.WhoMayCall("state", "kvHeap.Push")
	c.WhoMayCall("state", "kvHeap.Pop")
	var pushers []string
	for _, f := range p.Funcs {
		if f.Pkg == nil || ir.RelPkg(f.Pkg.Pkg) != "state" || strings.HasSuffix(p.Pos(f.Pos()), "_test.go") {
			continue
		}
		if ir.IsTransparentHelper(f) {
			continue // counted with its owner (ir.Calls looks through it)
		}
		if len(ir.Calls(f, "heap.Push"))+len(ir.Calls(f, "heap.Pop")) > 0 {
			pushers = append(pushers, ir.FuncName(f))
		}
	}
	sort.Strings(pushers)
	want := "state.(*wrappedTrie).Hash state.(*wrappedTrie).TryDelete state.(*wrappedTrie).TryUpdate"
	c.R.Check("K3", "state.kvHeap/users", p.Pos(h.Pos()), strings.Join(pushers, " ") == want, fmt.Sprintf("heap operations appear only in %s; found %v", want, pushers))
}

// c05TokenOrder: stateObject.TokenBalances() returns the token map in iteration
// order. Every consumer on the execution path must sort the slice before any
// order-relevant use; loops over the unsorted slice may only have the reviewed
// (order-independent) effects.
func c05TokenOrder(c C, eff *ir.Effects) {
	p := c.P
	isProducer := func(n string) bool {
		return n == "state.stateObject.TokenBalances" || n == "state.StateDB.GetTokenBalances" || n == "types.StateDB.GetTokenBalances" || ir.Match("*.GetTokenBalances", n)
	}
	allowed := func(al []string, e string) bool {
		for _, a := range al {
			if a == e || ir.Match(a, e) {
				return true
			}
		}
		return false
	}
	n := 0
	for _, f := range p.Funcs {
		if f.Blocks == nil || !c05InScope(f) || strings.HasSuffix(p.Pos(f.Pos()), "_test.go") {
			continue
		}
		fname := ir.FuncName(f)
		ir.Instrs(f, func(in ssa.Instruction) {
			call, ok := in.(*ssa.Call)
			if !ok || !isProducer(ir.CalleeName(call)) {
				return
			}
			n++
			// sort calls on this value
			var sorts []ssa.Instruction
			set := map[string]bool{}
			loops := ir.Loops(f)
			fi := ir.Info(f)
			var follow func(v ssa.Value, depth int)
			seen := map[ssa.Value]bool{}
			var indexed []ssa.Instruction
			follow = func(v ssa.Value, depth int) {
				if seen[v] || depth > 10 || v.Referrers() == nil {
					return
				}
				seen[v] = true
				for _, r := range *v.Referrers() {
					switch x := r.(type) {
					case *ssa.DebugRef:
					case *ssa.Phi:
						follow(x, depth+1)
					case *ssa.MakeInterface:
						follow(x, depth+1)
					case *ssa.ChangeType:
						follow(x, depth+1)
					case *ssa.Slice:
						follow(x, depth+1)
					case *ssa.IndexAddr, *ssa.Index:
						indexed = append(indexed, r)
					case *ssa.Range:
						indexed = append(indexed, r)
					case *ssa.Return:
						set["escape:return"] = true
					case *ssa.Store:
						if al, isAl := x.Addr.(*ssa.Alloc); isAl && x.Val == v {
							t := al.Type().(*types.Pointer).Elem()
							if _, isStruct := t.Underlying().(*types.Struct); isStruct {
								set["escape:"+types.TypeString(t, func(pk *types.Package) string { return pk.Name() })] = true
								continue
							}
							for _, rr := range *al.Referrers() {
								if ld, isLd := rr.(*ssa.UnOp); isLd {
									follow(ld, depth+1)
								}
							}
							continue
						}
						root := ir.RootOf(x.Addr)
						t := root.Type()
						if pt, ok := t.Underlying().(*types.Pointer); ok {
							t = pt.Elem()
						}
						set["escape:"+types.TypeString(t, func(pk *types.Package) string { return pk.Name() })] = true
					case ssa.CallInstruction:
						cn := ir.CalleeName(x)
						switch {
						case cn == "sort.Sort" || cn == "sort.Stable":
							sorts = append(sorts, r)
						case cn == "len" || cn == "cap" || ir.Match("log.*", cn):
						default:
							set["escape:"+cn] = true
						}
					default:
						set["escape:"+ir.RenderInstr(r)] = true
					}
				}
			}
			follow(call, 0)
			for _, ix := range indexed {
				inLoop := false
				for i := range loops {
					if loops[i].Body[ix.Block()] {
						inLoop = true
					}
				}
				if !inLoop {
					sorted := false
					for _, s := range sorts {
						if ir.Precedes(s, ix) {
							sorted = true
						}
					}
					if !sorted {
						set["positional-index"] = true
					}
				}
				for i := range loops {
					l := &loops[i]
					if !l.Body[ix.Block()] {
						continue
					}
					sorted := false
					for _, s := range sorts {
						if fi.Dominates(s.Block(), l.Header) && s.Block() != l.Header {
							sorted = true
						}
					}
					if sorted {
						continue
					}
					for _, e := range c05BodyEffects(p, eff, l, nil) {
						set[e] = true
					}
				}
			}
			site, reviewed := c05Consumers[fname]
			var effs, extra []string
			for e := range set {
				effs = append(effs, e)
				if !reviewed || !allowed(site.Allowed, e) {
					extra = append(extra, e)
				}
			}
			sort.Strings(effs)
			sort.Strings(extra)
			c.R.Check("K5", "token-order/"+fname, p.InstrPos(in), len(extra) == 0,
				fmt.Sprintf("uses of the map-ordered token list before sort.Sort: %v (sort calls: %d); not covered by the review: %v", effs, len(sorts), extra))
		})
	}
	c.MustFind("K5", "token-order/consumers", p.Func("state", "stateObject.TokenBalances"), n, "consumers of TokenBalances")
	// the order the consumers sort by is strict on the token address
	ls := p.Func("types", "TokenValues.Less")
	okL := false
	for _, rt := range ir.Returns(ls) {
		for _, a := range ir.CondAtoms(rt.Results[0], true) {
			if ir.Match("lt(common.Address.String(t[i].TokenAddr),common.Address.String(t[j].TokenAddr))", a) || ir.Match("lt(bytes.Compare(t[i].TokenAddr*,t[j].TokenAddr*),0)", a) {
				okL = true
			}
		}
	}
	c.R.Check("K6", "types.TokenValues.Less/strict-by-token", p.Pos(ls.Pos()), okL, "Less orders strictly by token address (distinct per element)")
}

// c05Tlv: TLV bytes are produced in map order; they may only be handed to the C library.
func c05Tlv(c C) {
	p := c.P
	enc := p.Obj("libs/cryptonote/types", "TlvEncodeFromMap").(*types.Func)
	var bad []string
	for _, cs := range p.CallSites(enc) {
		f := ir.EnclosingTop(cs.Fn)
		if f.Name() != "TlvEncode" || ir.RelPkg(f.Pkg.Pkg) != "libs/cryptonote/types" {
			bad = append(bad, ir.FuncName(f))
		}
	}
	c.R.Check("K3", "tlv-consumers/TlvEncodeFromMap", p.Pos(enc.Pos()), len(bad) == 0, fmt.Sprintf("TlvEncodeFromMap is called only by TlvEncode methods of the TLV types; others: %v", bad))
	bad = nil
	n := 0
	for _, f := range p.Funcs {
		if f.Blocks == nil || f.Pkg == nil || strings.HasSuffix(p.Pos(f.Pos()), "_test.go") {
			continue
		}
		rel := ir.RelPkg(f.Pkg.Pkg)
		ir.Instrs(f, func(in ssa.Instruction) {
			ci, ok := in.(ssa.CallInstruction)
			if !ok {
				return
			}
			cc := ci.Common()
			name := ""
			if cc.IsInvoke() {
				name = cc.Method.Name()
			} else if sc := cc.StaticCallee(); sc != nil && sc.Signature.Recv() != nil && sc.Pkg != nil && ir.RelPkg(sc.Pkg.Pkg) == "libs/cryptonote/types" {
				name = sc.Name()
			}
			if name != "TlvEncode" {
				return
			}
			n++
			if rel != "libs/cryptonote/types" && rel != "libs/cryptonote/xcrypto" {
				bad = append(bad, ir.FuncName(f)+"@"+p.InstrPos(in))
			}
		})
	}
	c.R.Stats["TlvEncode call sites"] = n
	c.R.Check("K3", "tlv-consumers/TlvEncode", "-", len(bad) == 0 && n > 0, fmt.Sprintf("%d TlvEncode call sites, all inside the TLV package or the cgo bridge libs/cryptonote/xcrypto (the C side reads fields by tag); others: %v", n, bad))
	// childs() consumers: trie node-cache bookkeeping only
	c.WhoMayCall("libs/trie", "cachedNode.childs", "libs/trie.(*Database).insert", "libs/trie.(*Database).dereference", "libs/trie.(*Database).commit", "libs/trie.(*Database).uncache", "libs/trie.(*Database).accumulate")
}

// c05Paths: proposer and validator run the same computation and agree on what is compared.
func c05Paths(c C) {
	p := c.P
	pre := p.Func("app", "LinkApplication.PreRunBlock")
	chk := p.Func("app", "LinkApplication.CheckBlock")
	pb := p.Func("app", "LinkApplication.processBlock")
	for _, f := range []*ssa.Function{pre, chk} {
		calls := ir.Calls(f, "app.LinkApplication.processBlock")
		c.R.Check("K5", "paths/"+ir.FuncName(f)+"/runs-processBlock", p.Pos(f.Pos()), len(calls) == 1, fmt.Sprintf("calls processBlock exactly once (%d)", len(calls)))
		for _, call := range calls {
			// the state handed over is a copy of the committed state
			okCopy := false
			ir.Instrs(f, func(in ssa.Instruction) {
				if st, ok := in.(*ssa.Store); ok {
					if fa, ok := st.Addr.(*ssa.FieldAddr); ok {
						if fv := ir.FieldVar(fa.X, fa.Field); fv != nil && fv.Name() == "tmpState" && strings.Contains(ir.Render(st.Val), "state.StateDB.Copy(app.storeState)") {
							okCopy = true
						}
					}
				}
			})
			if !okCopy {
				// struct literal form
				ir.Instrs(f, func(in ssa.Instruction) {
					if cl, ok := in.(*ssa.Call); ok && ir.CalleeName(cl) == "state.StateDB.Copy" && Arg(cl, 0) == "app.storeState" && ir.Precedes(in, call.(ssa.Instruction)) {
						okCopy = true
					}
				})
			}
			c.R.Check("K5", "paths/"+ir.FuncName(f)+"/state-is-copy-of-committed", p.InstrPos(call.(ssa.Instruction)), okCopy, "processBlock runs on app.storeState.Copy()")
		}
	}
	// fields filled by the proposer == fields compared by the validator
	filled := map[string]bool{}
	ir.Instrs(pre, func(in ssa.Instruction) {
		st, ok := in.(*ssa.Store)
		if !ok {
			return
		}
		a := ir.Render(st.Addr)
		if strings.HasPrefix(a, "&block.Header.") {
			fld := strings.TrimPrefix(a, "&block.Header.")
			v := ir.Render(st.Val)
			c.R.Check("K5", "paths/PreRunBlock/fills-from-result/"+fld, p.InstrPos(in), strings.HasSuffix(v, ".txsResult."+fld), "header field "+fld+" is filled from the same-named result field: "+v)
			filled[fld] = true
		}
	})
	compared := map[string]bool{}
	var retTrue ssa.Instruction
	for _, rt := range ir.Returns(chk) {
		if k, ok := rt.Results[0].(*ssa.Const); ok && k.Value.String() == "true" {
			retTrue = rt.Instr
		}
	}
	if retTrue == nil {
		c.R.Undecided("K5", "paths/CheckBlock/return-true", p.Pos(chk.Pos()), "no constant true return found")
	} else {
		for _, fld := range []string{"StateHash", "ReceiptHash", "GasUsed", "LogsBloom", "Coinbase", "Height", "NumTxs", "TotalTxs", "ValidatorsHash"} {
			if ir.HasFact(ir.FactsAt(retTrue), ir.EqPat("block.Header."+fld, "*.txsResult."+fld)) {
				compared[fld] = true
			}
		}
		var fl, cm []string
		for k := range filled {
			fl = append(fl, k)
		}
		for k := range compared {
			cm = append(cm, k)
		}
		sort.Strings(fl)
		sort.Strings(cm)
		c.R.Check("K5", "paths/filled==compared", p.InstrPos(retTrue), strings.Join(fl, ",") == strings.Join(cm, ",") && len(fl) >= 3,
			fmt.Sprintf("PreRunBlock fills %v from the result; CheckBlock returns true only under equality of %v", fl, cm))
		c.Guards("app.(*LinkApplication).CheckBlock", "return-true", retTrue, G{"process-ok", "*.isOk"})
	}
	// the result of a block starts from COPIES of the previous block's candidates: processBlockEvidence
	// mutates them (score, produce info); with shared objects the proposer (PreRunBlock then CheckBlock)
	// and a validator (CheckBlock once) would apply the evidence a different number of times
	{
		sc := p.Func("types", "TxsResult.SetCandidates")
		okMap, okList, nMap := true, false, 0
		ir.Instrs(sc, func(in ssa.Instruction) {
			switch x := in.(type) {
			case *ssa.MapUpdate:
				nMap++
				if !ir.Match("types.CandidateInOrder.Copy(candidates[*])", ir.Render(x.Value)) {
					okMap = false
				}
			case *ssa.Call:
				if bi, ok := x.Call.Value.(*ssa.Builtin); ok && bi.Name() == "append" && len(x.Call.Args) == 2 {
					if ir.Match("[types.CandidateInOrder.Copy(candidates[*])]", ir.Render(x.Call.Args[1])) {
						okList = true
					}
				}
			}
		})
		c.R.Check("K4", "paths/types.(*TxsResult).SetCandidates/copies", p.Pos(sc.Pos()), okMap && okList && nMap == 1, "list and map of the new result hold Copy() of each previous candidate, never the previous object itself")
		cp := p.Func("types", "CandidateInOrder.Copy")
		sum := ir.DefaultEffects(p).Summarize(cp)
		c.R.Check("K4", "paths/types.(*CandidateInOrder).Copy/fresh", p.Pos(cp.Pos()), sum.RetFresh && sum.Global == "" && len(sum.Params) == 0, fmt.Sprintf("Copy returns freshly allocated memory and writes nothing else (retFresh %v, global %q)", sum.RetFresh, sum.Global))
		for _, call := range ir.Calls(pb, "types.TxsResult.SetCandidates") {
			c.R.Check("K5", "paths/processBlock/candidates-from-last-result", p.InstrPos(call.(ssa.Instruction)), Arg(call, 1) == "app.lastTxsResult.Candidates", "the new result is seeded from the last committed result: "+Arg(call, 1))
		}
	}
	// the preRun flag controls only the signature pre-check
	var pr *ssa.Parameter
	for _, q := range pb.Params {
		if q.Name() == "preRun" {
			pr = q
		}
	}
	if pr == nil {
		c.R.Undecided("K5", "paths/processBlock/preRun", p.Pos(pb.Pos()), "parameter preRun not found")
		return
	}
	var badUse []string
	for _, b := range pb.Blocks {
		dep := false
		for _, f := range ir.FactsAtBlock(b) {
			if f.Atom == "preRun" || f.Atom == "!preRun" {
				dep = true
			}
		}
		if !dep {
			continue
		}
		for _, in := range b.Instrs {
			switch x := in.(type) {
			case *ssa.Store, *ssa.MapUpdate, *ssa.Send, *ssa.Go:
				if st, ok := in.(*ssa.Store); ok {
					if al, ok := ir.RootOf(st.Addr).(*ssa.Alloc); ok && !al.Heap {
						continue
					}
					if _, isSlice := ir.RootOf(st.Addr).(*ssa.Alloc); isSlice && strings.Contains(ir.Render(st.Addr), "[") {
						continue // varargs slice of a logging call
					}
				}
				badUse = append(badUse, ir.RenderInstr(in)+"@"+p.InstrPos(in))
			case *ssa.Call:
				n := ir.CalleeName(x)
				if n == "app.LinkApplication.verifyTxsOnProcess" || ir.Match("log.*", n) || n == "types.Block.Hash" || n == "error.Error" {
					continue
				}
				badUse = append(badUse, "call "+n+"@"+p.InstrPos(in))
			}
		}
	}
	// other uses of the flag: branch conditions and logging arguments only
	bad := c05FlowsOnlyTo(p, pr, func(user ssa.Instruction, _ ssa.Value) bool {
		switch u := user.(type) {
		case *ssa.If:
			return true
		case *ssa.UnOp:
			return u.Op.String() == "!"
		case *ssa.Store:
			// varargs slot of a logging call
			return strings.Contains(ir.Render(u.Addr), "[")
		}
		return false
	})
	if bad != "" {
		badUse = append(badUse, "flag flows into "+bad)
	}
	c.R.Check("K5", "paths/processBlock/preRun-controls-only-precheck", p.Pos(pb.Pos()), len(badUse) == 0,
		fmt.Sprintf("under a preRun-dependent branch only verifyTxsOnProcess, logging and return occur, and the flag is otherwise only logged: %v", badUse))
	n := len(ir.Calls(pb, "app.LinkApplication.verifyTxsOnProcess"))
	c.R.Check("K5", "paths/processBlock/precheck-present", p.Pos(pb.Pos()), n == 1, "processBlock runs the signature pre-check on the validator path")
}

// c05Cache: the mempool cache can influence the pre-check only through
// transactions that passed their basic check and carry the block transaction's hash.
func c05Cache(c C) {
	p := c.P
	stores := c.WhoMayWrite("mempool", "mempoolCachedTx.BasicChecked", "mempool.(*Mempool).AddTx")
	for _, s := range stores {
		v := ir.Render(s.Val)
		if v == "true" {
			c.GuardsS("mempool.(*Mempool).AddTx", "BasicChecked=true", s, G{"after-successful-basic-check", "eq(*CheckTx(*tx,mempool.BasicCheck*),nil) || eq(*CheckTx(*,false),nil) || eq(*CheckTx*,nil)"})
		} else {
			c.R.Check("K3", "cache/BasicChecked-initial/"+ir.FuncName(ir.EnclosingTop(s.Fn)), p.InstrPos(s.Instr), v == "false", "entries are created unchecked: "+v)
		}
	}
	cg := p.Func("mempool", "txHeap.CheckAndGet")
	for _, rt := range ir.Returns(cg) {
		res := ir.Render(rt.Results[0])
		fs := ir.FactsAt(rt.Instr)
		switch {
		case strings.Contains(res, ".Tx") && !strings.HasPrefix(res, "nil"):
			c.R.Check("K1", "cache/CheckAndGet/returns-inner-only-when-checked", p.InstrPos(rt.Instr), ir.HasFact(fs, "*.BasicChecked"), "the cached transaction is returned only under BasicChecked: "+res)
		case strings.HasPrefix(res, "nil"):
			c.R.Check("K1", "cache/CheckAndGet/nil", p.InstrPos(rt.Instr), true, "returns nil")
		default:
			// an entry that is not a mempoolCachedTx is passed through; Put only ever stores mempoolCachedTx
			c.R.Check("K1", "cache/CheckAndGet/passthrough-only-for-foreign-entries", p.InstrPos(rt.Instr), ir.HasFact(fs, "!ok(typeassert*mempoolCachedTx*) || !*mempoolCachedTx*"), "passthrough only when the entry is not a mempoolCachedTx: "+res+" facts "+short(strings.Join(ir.FactStrings(fs), ";"), 200))
		}
	}
	// the accessor the application uses goes through the checked getter (all implementations)
	ngt := 0
	for _, f := range p.Funcs {
		if f.Name() != "GetTxFromCache" || f.Blocks == nil || f.Signature.Recv() == nil || strings.HasSuffix(p.Pos(f.Pos()), "_test.go") {
			continue
		}
		if f.Pkg == nil || ir.RelPkg(f.Pkg.Pkg) != "mempool" {
			continue // mockery-generated and hand-written test doubles (app.Mempool, consensus.MockMempool) are not the node's mempool
		}
		ngt++
		okG := true
		var rets []string
		for _, rt := range ir.Returns(f) {
			v := ir.Render(rt.Results[0])
			rets = append(rets, v)
			if !(ir.Match("mempool.txCache.CheckAndGet(*.cache,hash)", v) || v == "nil") {
				okG = false
			}
		}
		c.R.Check("K1", "cache/"+ir.FuncName(f)+"/uses-checked-getter", p.Pos(f.Pos()), okG && len(rets) > 0, fmt.Sprintf("returns cache.CheckAndGet(hash) (never the unchecked Get): %v", rets))
	}
	c.MustFind("K1", "cache/GetTxFromCache", cg, ngt, "GetTxFromCache implementations")
	// every Put stores a wrapper
	nput := 0
	for _, f := range p.Funcs {
		if f.Pkg == nil || ir.RelPkg(f.Pkg.Pkg) != "mempool" || f.Blocks == nil || strings.HasSuffix(p.Pos(f.Pos()), "_test.go") {
			continue
		}
		for _, call := range ir.Calls(f, "mempool.txCache.Put") {
			if !strings.HasSuffix(Arg(call, 0), "mem.cache") && !strings.HasSuffix(Arg(call, 0), "Mempool.cache") {
				continue // the reactor's hash-announcement cache is a different object
			}
			nput++
			okT := false
			what := Arg(call, 1)
			if mi, ok := call.Common().Args[0].(*ssa.MakeInterface); ok {
				what = mi.X.Type().String()
				if pt, ok := mi.X.Type().(*types.Pointer); ok {
					if nt, ok := pt.Elem().(*types.Named); ok && nt.Obj().Name() == "mempoolCachedTx" {
						okT = true
					}
				}
			}
			c.R.Check("K3", "cache/Put-stores-wrapper/"+ir.FuncName(f), p.InstrPos(call.(ssa.Instruction)), okT, "the mempool cache only ever receives *mempoolCachedTx entries: "+what)
		}
	}
	c.MustFind("K3", "cache/Put", cg, nput, "cache.Put call sites")
	// verifyTxsOnProcess: the cache is asked under the block transaction's own hash, and its answer is used only for From()
	v := p.Func("app", "LinkApplication.verifyTxsOnProcess")
	ngc := 0
	ir.InstrsDeep(v, func(fn *ssa.Function, in ssa.Instruction) {
		call, ok := in.(*ssa.Call)
		if !ok || !ir.Match("*.GetTxFromCache", ir.CalleeName(call)) {
			return
		}
		ngc++
		a := Arg(call, 1)
		c.R.Check("K1", "cache/precheck/lookup-by-own-hash", p.InstrPos(in), ir.Match("types.Tx.Hash(*txs[*])*", a) || ir.Match("types.Tx.Hash(*)", a), "cache is asked for the hash of the block's own transaction: "+a)
		bad := c05FlowsOnlyTo(p, call, func(user ssa.Instruction, _ ssa.Value) bool {
			switch u := user.(type) {
			case *ssa.BinOp:
				return u.Op.String() == "!=" || u.Op.String() == "=="
			case ssa.CallInstruction:
				return ir.Match("types.Tx.From", ir.CalleeName(u))
			}
			return false
		})
		c.R.Check("K1", "cache/precheck/cached-tx-used-only-for-From", p.InstrPos(in), bad == "", "the cached transaction is only nil-tested and asked for its sender; other use: "+bad)
	})
	c.MustFind("K1", "cache/precheck/lookups", v, ngc, "GetTxFromCache calls in verifyTxsOnProcess")
	// the pre-check runs on at least one worker whatever the machine: the worker count derived from the
	// CPU count is a ceiling division (or bounded below by 1). With zero workers the loop body - the
	// blacklist test, the signature check of uncached transactions - never runs and the block passes on
	// small machines only.
	nW := 0
	ir.Instrs(v, func(in ssa.Instruction) {
		st, ok := in.(*ssa.Store)
		if !ok || !strings.Contains(ir.Render(st.Val), "runtime.NumCPU()") {
			return
		}
		nW++
		val := ir.Render(st.Val)
		okW := false
		if m := regexp.MustCompile(`^\(\(runtime\.NumCPU\(\) \+ (\d+)\) >> (\d+)\)$`).FindStringSubmatch(val); m != nil {
			k, _ := strconv.Atoi(m[1])
			sh, _ := strconv.Atoi(m[2])
			okW = sh < 31 && k >= (1<<uint(sh))-1
		} else if m := regexp.MustCompile(`^\(\(runtime\.NumCPU\(\) \+ (\d+)\) / (\d+)\)$`).FindStringSubmatch(val); m != nil {
			k, _ := strconv.Atoi(m[1])
			d, _ := strconv.Atoi(m[2])
			okW = d > 0 && k >= d-1
		} else if val == "runtime.NumCPU()" {
			okW = true
		}
		if !okW {
			// ... or bounded below explicitly before the workers are started
			ir.Instrs(v, func(x ssa.Instruction) {
				if _, isGo := x.(*ssa.Go); isGo {
					name := strings.TrimPrefix(ir.Render(st.Addr), "&")
					if ir.HasFact(ir.FactsAt(x), "lt(0,"+name+")") || ir.HasFact(ir.FactsAt(x), "le(1,"+name+")") {
						okW = true
					}
				}
			})
		}
		c.R.Check("K7", "precheck/at-least-one-worker", p.InstrPos(in), okW, "the worker count derived from the CPU count is never zero (ceiling division or explicit lower bound): "+val)
	})
	c.MustFind("K7", "precheck/at-least-one-worker", v, nW, "worker count derived from runtime.NumCPU()")
	// every worker of the pre-check has its OWN start index and result slot (passed as an argument: with
	// `go 1.12` semantics a closure that reads the loop variable sees the value of the last iteration and
	// whole residue classes of transactions are never verified) and is joined before the verdict is read
	effW := ir.DefaultEffects(p)
	nGo := 0
	ir.Instrs(v, func(in ssa.Instruction) {
		g, ok := in.(*ssa.Go)
		if !ok {
			return
		}
		nGo++
		_, problems := c05GoShape(p, effW, g)
		c.R.Check("K7", "precheck/worker-own-slot-and-joined", p.InstrPos(in), len(problems) == 0, fmt.Sprintf("own start index and result slot, WaitGroup.Wait on all paths; problems: %v", problems))
	})
	c.MustFind("K7", "precheck/workers", v, nGo, "go statement in verifyTxsOnProcess")
}

// c05Globals: package-level variables written on the execution path.
var c05GlobalWrites = map[string]string{
	"libs/ser.typeCache": "memoised per-type encoder/decoder table: content is a function of the type only",
}

func c05Globals(c C, fns []*ssa.Function) {
	p := c.P
	found := map[string][]string{}
	for _, f := range fns {
		if f.Name() == "init" || strings.HasPrefix(f.Name(), "init#") || (f.Parent() != nil && strings.HasPrefix(ir.EnclosingTop(f).Name(), "init")) {
			continue
		}
		ir.Instrs(f, func(in ssa.Instruction) {
			var target ssa.Value
			switch x := in.(type) {
			case *ssa.Store:
				target = x.Addr
			case *ssa.MapUpdate:
				target = x.Map
			default:
				return
			}
			root := ir.RootOf(target)
			if g, ok := root.(*ssa.Global); ok {
				name := ir.RelPkg(g.Pkg.Pkg) + "." + g.Name()
				found[name] = append(found[name], ir.FuncName(f)+"@"+p.InstrPos(in))
			}
		})
	}
	var names []string
	for k := range found {
		names = append(names, k)
	}
	sort.Strings(names)
	for _, nme := range names {
		why, ok := c05GlobalWrites[nme]
		c.R.Check("K3", "globals/"+nme, found[nme][0], ok, fmt.Sprintf("package-level state written on the execution path by %v; review: %s", found[nme], why))
	}
	c.R.Stats["globals written on path"] = len(names)
}
