package props

import (
	"fmt"
	"sort"
	"strings"

	"golang.org/x/tools/go/ssa"

	"lkcheck/ir"
)

// Value ledger (C06): every place on the execution path that changes a balance.
//
// A balance changes only through StateDB.{Add,Sub,Set}[Token]Balance. Conservation is a sum over
// all of them, which no static rule can compute; what IS in the shape of the code:
//
//	(pair)   a debit immediately followed by a credit of the same token and the same amount to
//	         another account moves value and conserves it whatever the amount is;
//	(table)  every other site is a reviewed entry: which account, which amount expression, what
//	         balances it elsewhere (fee bought / refunded / collected; inputs debited / outputs
//	         credited; the designed exceptions: issue and self-destruct; mempool check-state
//	         bookkeeping that never reaches the chain state).
//
// A new site, a pair whose two amounts or tokens differ, or a table entry whose account or amount
// no longer has the reviewed form is reported.

type valueSite struct {
	fn    *ssa.Function
	call  ssa.CallInstruction
	kind  string // add | sub | set
	token bool
	acct  string
	tok   string // "" for the native coin
	amt   string
	cls   string
}

func (s valueSite) String() string {
	t := s.tok
	if !s.token {
		t = "native"
	}
	return fmt.Sprintf("%s(%s, %s, %s)", s.kind, short(s.acct, 200), short(t, 200), short(s.amt, 300))
}

// ledgerSites lists the balance-changing calls of the given packages.
func ledgerSites(p *ir.Program, pkgs map[string]bool) []valueSite {
	var out []valueSite
	for _, f := range p.Funcs {
		if f.Pkg == nil || !pkgs[ir.RelPkg(f.Pkg.Pkg)] || f.Blocks == nil || strings.HasSuffix(p.Pos(f.Pos()), "_test.go") {
			continue
		}
		for _, b := range f.Blocks {
			for _, in := range b.Instrs {
				call, ok := in.(ssa.CallInstruction)
				if !ok {
					continue
				}
				n := ir.CalleeName(call)
				i := strings.LastIndex(n, ".")
				if i < 0 || !strings.Contains(n[:i], "State") {
					continue
				}
				var s valueSite
				switch n[i+1:] {
				case "AddBalance":
					s.kind = "add"
				case "SubBalance":
					s.kind = "sub"
				case "SetBalance":
					s.kind = "set"
				case "AddTokenBalance":
					s.kind, s.token = "add", true
				case "SubTokenBalance":
					s.kind, s.token = "sub", true
				case "SetTokenBalance":
					s.kind, s.token = "set", true
				default:
					continue
				}
				s.fn, s.call = f, call
				s.acct = Arg(call, 1)
				if s.token {
					s.tok, s.amt = Arg(call, 2), Arg(call, 3)
				} else {
					s.amt = Arg(call, 2)
				}
				out = append(out, s)
			}
		}
	}
	sort.SliceStable(out, func(i, j int) bool { return out[i].call.Pos() < out[j].call.Pos() })
	return out
}

// pairUp marks debit/credit pairs: same block, the credit follows the debit with no other balance
// change in between, same token, same amount, different account.
func pairUp(sites []valueSite) {
	for i := range sites {
		a := &sites[i]
		if a.kind != "sub" || a.cls != "" {
			continue
		}
		for j := range sites {
			b := &sites[j]
			if b.kind != "add" || b.cls != "" || b.fn != a.fn || b.token != a.token {
				continue
			}
			ia, ib := a.call.(ssa.Instruction), b.call.(ssa.Instruction)
			if ia.Block() != ib.Block() || ir.InstrIndex(ia) >= ir.InstrIndex(ib) {
				continue
			}
			between := false
			for k := range sites {
				if k == i || k == j {
					continue
				}
				ik := sites[k].call.(ssa.Instruction)
				if ik.Block() == ia.Block() && ir.InstrIndex(ik) > ir.InstrIndex(ia) && ir.InstrIndex(ik) < ir.InstrIndex(ib) {
					between = true
				}
			}
			if between || Arg(a.call, 0) != Arg(b.call, 0) {
				continue
			}
			if sameOperand(a.call, b.call, a.token) && a.acct != b.acct {
				a.cls, b.cls = "pair", "pair"
			} else {
				a.cls, b.cls = "pair-mismatch", "pair-mismatch"
			}
			break
		}
	}
}

// sameOperand: token and amount of the two calls are the same SSA values (the rendering does not
// tell two calls of the same function apart: three stack.pop() render alike), or render alike
// without containing a call.
func sameOperand(a, b ssa.CallInstruction, token bool) bool {
	same := func(x, y ssa.Value) bool {
		if x == y {
			return true
		}
		rx, ry := ir.Render(x), ir.Render(y)
		return rx == ry && !strings.Contains(rx, "(")
	}
	aa, ba := operandArgs(a), operandArgs(b)
	if token {
		return len(aa) >= 4 && len(ba) >= 4 && same(aa[2], ba[2]) && same(aa[3], ba[3])
	}
	return len(aa) >= 3 && len(ba) >= 3 && same(aa[2], ba[2])
}

// operandArgs: receiver first, also for interface calls.
func operandArgs(c ssa.CallInstruction) []ssa.Value {
	cc := c.Common()
	if cc.IsInvoke() {
		return append([]ssa.Value{cc.Value}, cc.Args...)
	}
	return cc.Args
}

// ledgerEntry is a reviewed non-pair site.
type ledgerEntry struct {
	acct, tok, amt string   // globs over the rendering ("" = not a token call)
	guards         []string // facts that must hold at the call ("AMT" stands for the amount rendering)
	db             string   // glob for the state the call works on
	acctIsTok      bool     // the credited account is the token itself (issue)
	why            string
}

var ledgerTable = map[string]ledgerEntry{
	// --- fees: bought up front, the unused part refunded to the same account at the same price, the used part collected once per block
	"app.(*processTransaction).buyGas/sub-native": {acct: "tx.RefundAddr", amt: "big.Int.Mul(*,big.Int.SetUint64(*,tx.Gas),tx.GasPrice)", db: "tx.State",
		guards: []string{"le(0,big.Int.Cmp(*StateDB.GetBalance(tx.State,tx.RefundAddr),AMT))"}, why: "gas bought: Gas*GasPrice from the fee payer, who can afford it"},
	"app.(*processTransaction).refundGas/add-native": {acct: "tx.RefundAddr", amt: "big.Int.Mul(*,big.Int.SetUint64(*,tx.Gas),tx.GasPrice)", db: "tx.State",
		why: "unused gas back to the fee payer at the price it was bought"},
	"app.(*LinkApplication).processBlock/add-native": {acct: "config.ContractFoundationAddr", amt: "big.Int.Mul(*,big.Int.SetUint64(*,app.Processor.Process(app.processor,block,processResult.tmpState,app.vmConfig)#2),big.Int.SetInt64(*,100000000000))", db: "processResult.tmpState",
		why: "used gas of the block at the (only admissible) par price to the fee collector"},
	// --- the transaction layer: inputs debited, account outputs credited (the VM credits contract outputs)
	"app.(*processTransaction).transitInputs/sub-token": {acct: "tx.Inputs[*].From", tok: "tx.TokenAddress", amt: "tx.Inputs[*].Value", db: "tx.State", why: "debit of a checked input (details: transitInputs rules)"},
	"app.(*processTransaction).transitOutputs/add-token": {acct: "tx.Outputs[*].To", tok: "tx.TokenAddress", amt: "tx.Outputs[*].Amount", db: "tx.State",
		guards: []string{"eq(tx.Outputs[*].Type,\"aout\")"}, why: "credit of a plain account output"},
	"app.(*processTransaction).refundGas/add-token": {acct: "tx.RefundAddr", tok: "tx.TokenAddress", amt: "*", db: "tx.State",
		guards: []string{"!eq(vmerr,nil)", "eq(tx.Type,*)"}, why: "failed confidential->account transaction: the account side that was reverted is returned to the refund address (amount: account outputs minus account inputs, checked by value-ledger/refund/*)"},
	// --- VM primitives
	"vm/evm.UnsafeTransfer/add-token":  {acct: "recipient", tok: "token", amt: "amount", db: "db", why: "credit-only primitive of the depth-0 entry (inputs already debited by the transaction layer); callers checked separately"},
	"vm/wasm.UnsafeTransfer/add-token": {acct: "recipient", tok: "token", amt: "amount", db: "db", why: "credit-only primitive of the depth-0 entry; callers checked separately"},
	// --- designed exceptions
	"vm/evm.opIssue/add-token": {acct: "*contract.CodeAddr", tok: "*contract.CodeAddr", amt: "evm.Stack.pop(stack)", db: "evm.StateDB",
		acctIsTok: true, guards: []string{"lt(0,big.Int.Sign(AMT))"}, why: "designed exception: a token contract issues ITS OWN token (account == token == code address), positive amounts only"},
	"vm/wasm.tcIssue/add-token": {acct: "common.BytesToAddress(types.Address.Bytes(*eng.Contract.CodeAddr))", tok: "common.BytesToAddress(types.Address.Bytes(*eng.Contract.CodeAddr))", amt: "big.Int.SetString(*)#0", db: "*",
		acctIsTok: true, guards: []string{"lt(0,big.Int.Sign(AMT))"}, why: "designed exception: a token contract issues its own token"},
	"vm/evm.opSuicide/add-token": {acct: "common.BigToAddress(evm.Stack.pop(stack))", tok: "types.StateDB.GetTokenBalances(evm.StateDB,evm.Contract.Address(contract))[*].TokenAddr", amt: "types.StateDB.GetTokenBalances(evm.StateDB,evm.Contract.Address(contract))[*].Value", db: "evm.StateDB",
		why: "self-destruct: every holding of the contract goes to the beneficiary, then the contract is removed (checked below)"},
	"vm/wasm.tcSelfDestruct/add-token": {acct: "common.HexToAddress(*)", tok: "types.StateDB.GetTokenBalances(*,common.BytesToAddress(types.Address.Bytes(vm.Contract.Address(eng.Contract))))[*].TokenAddr", amt: "types.StateDB.GetTokenBalances(*,common.BytesToAddress(types.Address.Bytes(vm.Contract.Address(eng.Contract))))[*].Value", db: "*",
		why: "self-destruct sibling"},
	// --- mempool check state: bookkeeping on the pool's scratch copy so that the next transaction of the sender is checked against what is left
	"types.(*Transaction).CheckState/sub-native": {acct: "types.Transaction.From(tx)#0", amt: "types.Transaction.Cost(tx)", db: "types.TxCensor.State(censor)",
		guards: []string{"le(0,big.Int.Cmp(types.State.GetBalance(types.TxCensor.State(censor),types.Transaction.From(tx)#0),AMT))"}, why: "check state only"},
	"types.(*TokenTransaction).CheckState/sub-native": {acct: "types.TokenTransaction.From(tx)#0", amt: "types.TokenTransaction.*Cost(tx)", db: "types.TxCensor.State(censor)", why: "check state only"},
	"types.(*TokenTransaction).CheckState/sub-token":  {acct: "types.TokenTransaction.From(tx)#0", tok: "types.TokenTransaction.TokenAddress(tx)", amt: "types.TokenTransaction.Value(tx)", db: "types.TxCensor.State(censor)", why: "check state only"},
	"types.(*UTXOTransaction).checkState/sub-token":   {acct: "*accFrom", tok: "tx.TokenID", amt: "*accInput.Amount", db: "types.TxCensor.State(censor)", why: "check state only"},
	"types.(*UTXOTransaction).checkState/sub-native":  {acct: "*accFrom", amt: "tx.Fee", db: "types.TxCensor.State(censor)", why: "check state only"},
}
