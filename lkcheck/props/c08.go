package props

import (
	"fmt"
	"go/types"
	"regexp"
	"sort"
	"strings"

	"golang.org/x/tools/go/ssa"

	"lkcheck/ir"
	"lkcheck/report"
)

func init() { Registry["C08"] = C08 }

// sliceElems returns the rendered elements of the []interface{} literal(s)
// built in fn (values stored into a local array that is sliced and returned
// or passed on).
func sliceElems(fn *ssa.Function) []string {
	var out []string
	ir.Instrs(fn, func(in ssa.Instruction) {
		st, ok := in.(*ssa.Store)
		if !ok {
			return
		}
		ia, ok := st.Addr.(*ssa.IndexAddr)
		if !ok {
			return
		}
		if al, ok := ia.X.(*ssa.Alloc); ok && (al.Comment == "slicelit" || al.Comment == "varargs" || strings.HasPrefix(al.Comment, "new")) {
			out = append(out, ir.Render(st.Val))
		}
	})
	return out
}

// coverage checks that every field of the struct (minus exemptions) appears,
// rooted at `root`, among the rendered elements.
func (c C) coverage(key string, fn *ssa.Function, st *types.Struct, root string, elems []string, exempt map[string]string) {
	joined := "\x00" + strings.Join(elems, "\x00") + "\x00"
	for i := 0; i < st.NumFields(); i++ {
		f := st.Field(i)
		if why, ok := exempt[f.Name()]; ok {
			c.R.Check("K4", key+"/exempt:"+f.Name(), c.P.Pos(f.Pos()), true, "exempt: "+why)
			continue
		}
		want := root + "." + f.Name()
		ok := strings.Contains(joined, "\x00"+want+"\x00") || strings.Contains(joined, "\x00"+root+"\x00")
		c.R.Check("K4", key+"/field:"+f.Name(), c.P.Pos(f.Pos()), ok, "every field of the signed structure is among the signed/hashed values (a field added to the struct must be added here): looking for "+want)
	}
}

// C08 signatures bind every transaction field.
func C08(p *ir.Program, r *report.R) {
	c := C{p, r}
	// the signature pre-check trusts the mempool cache only for transactions that passed their basic check
	c05Cache(c)
	r.Floor = 60
	r.Explain = "Decided: sign-field coverage per transaction kind, with the field list taken from the struct type (txdata, tokenData, ContractUpgradeMainInfo, MultiSignMainInfo, UTXOTransaction) so that a new field that is not signed is reported; the chain parameter is appended by both the signing and the verifying hash and the protected path of STDEIP155Signer.Sender is dominated by sign-param equality; recoverPlain reaches Ecrecover only after the V range and ValidateSignatureValues checks, with homestead rules from every reachable caller; the transaction hash (cache key, mempool identity) covers the signature for every kind and the cached sender is used only for an equal signer; the confidential spend authorisation message is the prefix hash that covers inputs, outputs, token, keys, fee, extra and the account signature, and the ring signatures are checked against the expanded signature built from it. ADDED after seeded-change testing: ValidateSignatureValues is interpreted exhaustively over the orderings of r and s against 1, N/2 and N, the homestead flag and v (1458 rows) against the specification, and secp256k1halfN is N/2; UTXOTransaction.CheckBasic returns nil only after checkTxInputKeys (ring signatures) whenever the transaction has a confidential input. every re-signing site that copies a payload resets the copy's sender cache; in verifyTxsOnProcess the error of every From/CheckTx call is assigned to the variable reported through the goroutine's result slot. Rounds 4-5: the ring-signature message is recomputed, never memoised across a re-sign; the mempool signature cache rule is shared. Round 6: the worker shape of the signature pre-check is checked here too. NOT decided: soundness of secp256k1/ed25519/RingCT (cgo), one-time address ownership (cryptographic, no structural clause)."
	r.Trusted = []string{"crypto.Ecrecover / ValidateSignatureValues (secp256k1)", "xcrypto RingCT (cgo)", "rlpHash = Keccak(ser encoding) (C11)"}

	sigEx := func(m map[string]string) map[string]string {
		for _, f := range []string{"V", "R", "S"} {
			m[f] = "the signature itself"
		}
		return m
	}
	// ---- (1) coverage ------------------------------------------------------------
	{
		fn := p.Func("types", "txdata.signFields")
		c.coverage("types.txdata.signFields", fn, p.Struct("types", "txdata"), "data", sliceElems(fn),
			sigEx(map[string]string{"fromValue": "sender cache, not encoded", "Hash": "JSON-only (rlp:\"-\")"}))
		fn2 := p.Func("types", "TokenTransaction.signFields")
		td := p.Struct("types", "tokenData")
		c.coverage("types.(*TokenTransaction).signFields", fn2, td, "tx.data", sliceElems(fn2), map[string]string{"Signdata": "the signature itself", "Hash": "JSON-only (rlp:\"-\")"})
		fn3 := p.Func("types", "ContractUpgradeTx.signFields")
		c.coverage("types.(*ContractUpgradeTx).signFields", fn3, p.Struct("types", "ContractUpgradeMainInfo"), "tx.ContractUpgradeMainInfo", sliceElems(fn3), map[string]string{})
		c.coverage("types.ContractUpgradeTx", fn3, p.Struct("types", "ContractUpgradeTx"), "tx", sliceElems(fn3), map[string]string{"Signatures": "the signatures themselves", "hash": "cache"})
		fn4 := p.Func("types", "UTXOTransaction.signFields")
		utxoEx := map[string]string{"Sigs": "the account signature itself", "RCTSig": "the ring signatures themselves", "kind": "cache", "hash": "cache", "size": "cache", "utxoInNum": "cache", "utxoOutNum": "cache", "nonce": "derived from the account input during checkTxSemantic"}
		c.coverage("types.UTXOTransaction.signFields", fn4, p.Struct("types", "UTXOTransaction"), "tx", sliceElems(fn4), utxoEx)
		// prefix hash (message of the ring signatures): same fields plus the account signature values
		ph := p.Func("types", "UTXOTransaction.PrefixHash")
		pe := sliceElems(ph)
		delete(utxoEx, "Sigs")
		utxoEx2 := map[string]string{}
		for k, v := range utxoEx {
			utxoEx2[k] = v
		}
		utxoEx2["Sigs"] = "covered through R,S,V below"
		c.coverage("types.UTXOTransaction.PrefixHash", ph, p.Struct("types", "UTXOTransaction"), "tx", pe, utxoEx2)
		for _, f := range []string{"R", "S", "V"} {
			ok := false
			for _, e := range pe {
				if e == "tx.Sigs."+f {
					ok = true
				}
			}
			r.Check("K4", "types.UTXOTransaction.PrefixHash/account-signature:"+f, p.Pos(ph.Pos()), ok, "the ring-signature message binds the account signature value "+f)
		}
		// multi-sign: the bytes signed are the encoding of the whole MultiSignMainInfo
		gm := p.Func("types", "GenMultiSignBytes")
		okG := false
		for _, call := range ir.Calls(gm, "ser.EncodeToBytes") {
			if Arg(call, 0) == "signInfo" {
				okG = true
			}
		}
		r.Check("K4", "types.GenMultiSignBytes/whole-main-info", p.Pos(gm.Pos()), okG, "the signed bytes are the encoding of the whole MultiSignMainInfo value")
		for _, fnn := range []string{"MultiSignAccountTx.Sign", "MultiSignAccountTx.VerifySign"} {
			f := p.TryFunc("types", fnn)
			if f == nil {
				continue
			}
			ok := false
			ir.InstrsDeep(f, func(_ *ssa.Function, in ssa.Instruction) {
				if call, ok2 := in.(ssa.CallInstruction); ok2 && (ir.CalleeName(call) == "types.GenMultiSignBytes" || ir.CalleeName(call) == "ser.EncodeToBytes") && Arg(call, 0) == "tx.MultiSignMainInfo" {
					ok = true
				}
			})
			r.Check("K4", "types.(*"+strings.Replace(fnn, ".", ").", 1)+"/signs-main-info", p.Pos(f.Pos()), ok, "signs/verifies GenMultiSignBytes(tx.MultiSignMainInfo)")
		}
		c.coverage("types.MultiSignAccountTx", gm, p.Struct("types", "MultiSignAccountTx"), "tx", []string{"tx.MultiSignMainInfo"}, map[string]string{"Signatures": "the signatures themselves", "hash": "cache"})
	}
	// ---- (2) chain parameter ---------------------------------------------------------
	{
		h := p.Func("types", "STDEIP155Signer.Hash")
		okH := false
		ir.Instrs(h, func(in ssa.Instruction) {
			if call, ok := in.(*ssa.Call); ok && ir.CalleeName(call) == "append" && strings.HasPrefix(Arg(call, 0), "types.signerData.signFields(data)") && strings.Contains(Arg(call, 1), "s.signParam") {
				okH = true
			}
		})
		r.Check("K5", "types.STDEIP155Signer.Hash/appends-chain-param", p.Pos(h.Pos()), okH, "the verifying hash is over signFields(data) ++ [s.signParam, 0, 0]")
		sg := p.Func("types", "sign")
		okS := false
		ir.Instrs(sg, func(in ssa.Instruction) {
			if call, ok := in.(*ssa.Call); ok && ir.CalleeName(call) == "append" && Arg(call, 0) == "data" && strings.Contains(Arg(call, 1), "types.STDSigner.SignParam(signer)") {
				okS = true
			}
		})
		r.Check("K5", "types.sign/appends-chain-param", p.Pos(sg.Pos()), okS, "the signing hash is over data ++ [signer.SignParam(), 0, 0]")
		sd := p.Func("types", "STDEIP155Signer.Sender")
		name := "types.STDEIP155Signer.Sender"
		for _, call := range ir.Calls(sd, "types.signerData.recover") {
			c.Guards(name, "recover", call,
				G{"protected", "types.signerData.Protected(data)"},
				G{"same-chain-param", "eq(big.Int.Cmp(types.signerData.SignParam(data),s.signParam),0)"})
			r.Check("K1", name+"/recover/hash", p.InstrPos(call), Arg(call, 1) == "types.STDEIP155Signer.Hash(s,data)" && Arg(call, 2) == "s.signParamMul" && Arg(call, 3) == "true", "recovers over the chain-bound hash with homestead rules: "+short(ir.RenderCall(call), 160))
		}
		// every way of returning a sender must be chain-bound
		for _, rt := range ir.Returns(sd) {
			res := ir.Render(rt.Results[0])
			if strings.HasPrefix(res, "common.EmptyAddress") || res == "zero:common.Address" {
				continue
			}
			if strings.HasPrefix(res, "types.signerData.recover(") {
				continue // judged above
			}
			r.Check("K1", name+"/unprotected-fallback", p.InstrPos(rt.Instr), false, "a sender is returned without binding to this signer's chain parameter: "+short(res, 120))
		}
		// the global signer is the EIP155 one
		ms := p.Func("types", "MakeSTDSigner")
		okM := true
		for _, rt := range ir.Returns(ms) {
			_ = rt
		}
		n155 := len(ir.Calls(ms, "types.NewSTDEIP155Signer"))
		r.Check("K3", "types.MakeSTDSigner/eip155", p.Pos(ms.Pos()), okM && n155 >= 1, "MakeSTDSigner builds STDEIP155Signer on every path")
	}
	// ---- (3) value validation before recover -----------------------------------------------
	{
		rp := p.Func("types", "recoverPlain")
		calls := ir.Calls(rp, "crypto.Ecrecover")
		c.MustFind("K1", "types.recoverPlain/Ecrecover", rp, len(calls), "Ecrecover call")
		for _, call := range calls {
			c.Guards("types.recoverPlain", "Ecrecover", call,
				G{"v-fits-byte", "le(big.Int.BitLen(Vb),8)"},
				G{"values-valid", "crypto.ValidateSignatureValues(*,R,S,homestead)"})
		}
		// the value check itself: exhaustive over the orderings of r and s against 1, N/2 and N,
		// the homestead flag and the recovery id
		{
			vf := p.Func("libs/crypto", "ValidateSignatureValues")
			cmp := func(a, b string) string { return "big.Int.Cmp(" + a + "," + b + ")" }
			tri := []int64{-1, 0, 1}
			d := ir.Domain{Axes: []ir.Axis{
				ir.EnumAxis("r?1", cmp("r", "common.Big1"), tri),
				ir.EnumAxis("s?1", cmp("s", "common.Big1"), tri),
				ir.BoolAxis("homestead", "homestead"),
				ir.EnumAxis("s?N/2", cmp("s", "crypto.secp256k1halfN"), tri),
				ir.EnumAxis("r?N", cmp("r", "crypto.secp256k1N"), tri),
				ir.EnumAxis("s?N", cmp("s", "crypto.secp256k1N"), tri),
				ir.EnumAxis("v", "v", []int64{0, 1, 2}),
			}}
			rows := ir.Enumerate(vf, d, ir.InterpOpts{})
			c.Table("libs/crypto.ValidateSignatureValues/decision-table", vf, rows, func(row ir.Row) string {
				ok := !row.Has("r?1=-1") && !row.Has("s?1=-1") && row.Has("r?N=-1") && row.Has("s?N=-1") && !row.Has("v=2")
				if row.Has("homestead") && row.Has("s?N/2=1") {
					ok = false
				}
				return fmt.Sprint(ok)
			}, func(row ir.Row) string {
				if row.Outcome.Kind == "return" && len(row.Outcome.Results) == 1 {
					return row.Outcome.Results[0]
				}
				return row.Outcome.String()
			})
			half := p.Obj("libs/crypto", "secp256k1halfN")
			okHalf := false
			for _, f := range p.Funcs {
				if f.Pkg == nil || ir.RelPkg(f.Pkg.Pkg) != "libs/crypto" || !strings.HasPrefix(f.Name(), "init") {
					continue
				}
				ir.Instrs(f, func(in ssa.Instruction) {
					if st, ok := in.(*ssa.Store); ok {
						if g, ok := st.Addr.(*ssa.Global); ok && g.Object() == half {
							v := ir.Render(st.Val)
							okHalf = strings.Contains(v, "big.Int.Div(") && strings.Contains(v, "secp256k1N") && strings.Contains(v, "big.NewInt(2)")
						}
					}
				})
			}
			r.Check("K11", "libs/crypto.secp256k1halfN/is-N-div-2", p.Pos(half.Pos()), okHalf, "the low-s bound is N/2 computed from the curve order")
		}
		// callers of recover with homestead == false
		rec := p.Obj("types", "signerData.recover").(*types.Func)
		for _, cs := range p.CallSites(rec) {
			hs := Arg(cs.Instr, 3)
			n := ir.FuncName(cs.Fn)
			if hs == "true" {
				r.Check("K3", "recover/homestead-rules/"+n, p.InstrPos(cs.Instr), true, "homestead (low-s) rules")
				continue
			}
			// only the Frontier signer, which must be unreachable
			r.Check("K3", "recover/homestead-rules/"+n, p.InstrPos(cs.Instr), n == "types.(STDFrontierSigner).Sender", "only the Frontier signer may use pre-homestead rules: "+hs)
		}
		fs := p.Func("types", "STDFrontierSigner.Sender")
		uses := len(p.CallSites(fs.Object().(*types.Func)))
		// is a Frontier signer ever converted to the STDSigner interface?
		nConv := 0
		for _, fn := range p.Funcs {
			ir.Instrs(fn, func(in ssa.Instruction) {
				if mi, ok := in.(*ssa.MakeInterface); ok && strings.HasSuffix(mi.X.Type().String(), "types.STDFrontierSigner") {
					nConv++
				}
			})
		}
		r.Check("K3", "types.STDFrontierSigner/unreachable", p.Pos(fs.Pos()), uses == 0 && nConv == 0, fmt.Sprintf("the malleable-signature (pre-homestead) signer has no caller (%d) and is never used as an STDSigner (%d conversions)", uses, nConv))
		for _, vs := range []string{"txdata.recover", "signdata.recover"} {
			f := p.Func("types", vs)
			n := 0
			for _, call := range ir.Calls(f, "types.recoverPlain") {
				n++
				r.Check("K1", "types."+vs+"/passes-homestead", p.InstrPos(call), Arg(call, 4) == "homestead" && Arg(call, 1) == "data.R" && Arg(call, 2) == "data.S", "passes R,S and the homestead flag through")
			}
			c.MustFind("K1", "types."+vs+"/recoverPlain", f, n, "recoverPlain call")
		}
	}
	// ---- (4) hash covers signature; sender cache ----------------------------------------------
	{
		th := p.Func("types", "Transaction.Hash")
		okT := false
		ir.Instrs(th, func(in ssa.Instruction) {
			if call, ok := in.(*ssa.Call); ok && ir.CalleeName(call) == "types.rlpHash" && Arg(call, 0) == "tx" {
				okT = true
			}
		})
		r.Check("K4", "types.(*Transaction).Hash/whole-tx", p.Pos(th.Pos()), okT, "hash = rlpHash(tx)")
		es := p.Func("types", "Transaction.EncodeSER")
		okE := false
		for _, call := range ir.Calls(es, "ser.Encode") {
			if Arg(call, 1) == "&tx.data" {
				okE = true
			}
		}
		r.Check("K4", "types.(*Transaction).EncodeSER/whole-data", p.Pos(es.Pos()), okE, "the encoding (and therefore the hash) is of the whole txdata including V,R,S")
		// txdata V,R,S are encoded: exported, no rlp:"-" tag
		td := p.Struct("types", "txdata")
		for i := 0; i < td.NumFields(); i++ {
			f := td.Field(i)
			if f.Name() == "V" || f.Name() == "R" || f.Name() == "S" {
				r.Check("K4", "types.txdata/encoded:"+f.Name(), p.Pos(f.Pos()), f.Exported() && !strings.Contains(td.Tag(i), `rlp:"-"`), "signature value is part of the encoding: `"+td.Tag(i)+"`")
			}
		}
		kh := p.Func("types", "TokenTransaction.Hash")
		okK := false
		ir.Instrs(kh, func(in ssa.Instruction) {
			if call, ok := in.(*ssa.Call); ok && ir.CalleeName(call) == "append" && Arg(call, 0) == "types.TokenTransaction.signFields(tx)" && strings.Contains(Arg(call, 1), "tx.data.Signdata") {
				okK = true
			}
		})
		r.Check("K4", "types.(*TokenTransaction).Hash/fields+signature", p.Pos(kh.Pos()), okK, "hash = rlpHash(signFields ++ [Signdata])")
		for _, k := range []string{"UTXOTransaction", "ContractUpgradeTx", "MultiSignAccountTx"} {
			f := p.Func("types", k+".Hash")
			ok := false
			for _, call := range ir.Calls(f, "types.transactionHash") {
				if Arg(call, 0) == "&tx.hash" && Arg(call, 1) == "tx" {
					ok = true
				}
			}
			r.Check("K4", "types.(*"+k+").Hash/whole-tx", p.Pos(f.Pos()), ok, "hash = rlpHash of the whole transaction (exported fields include the signatures)")
		}
		ut := p.Struct("types", "UTXOTransaction")
		for i := 0; i < ut.NumFields(); i++ {
			f := ut.Field(i)
			if f.Name() == "Sigs" || f.Name() == "RCTSig" {
				r.Check("K4", "types.UTXOTransaction/encoded:"+f.Name(), p.Pos(f.Pos()), f.Exported(), "signature field is exported, hence encoded and hashed")
			}
		}
		sn := p.Func("types", "sender")
		for _, rt := range ir.Returns(sn) {
			res := ir.Render(rt.Results[0])
			if strings.Contains(res, "stdSigCache") && strings.HasSuffix(res, ".from") {
				c.Guards("types.sender", "return cached", rt.Instr, G{"same-signer", "types.STDSigner.Equal(*.signer,signer)"})
			}
		}
		// StoreFrom (sender injected from the mempool cache) — who may call
		for _, k := range []string{"Transaction", "TokenTransaction", "UTXOTransaction"} {
			o := p.TryObj("types", k+".StoreFrom")
			if o == nil {
				continue
			}
			got := c.CallersOf(o)
			ok := true
			for n := range got {
				switch n {
				case "app.(*LinkApplication).verifyTxsOnProcess":
				case "mempool.(*mockApp).CheckTx": // mock application of the mempool package (test support in a non-test file)
				case "types.(*UTXOTransaction).checkTxSemantic": // stores the sender it has just recovered itself (checked below)
				default:
					ok = false
				}
			}
			r.Check("K3", "who-may-call/types."+k+".StoreFrom", p.Pos(o.Pos()), ok, fmt.Sprintf("a sender may be injected only by verifyTxsOnProcess (from a basic-checked cache hit of the same hash): %v", keys(got)))
		}
		cs := p.Func("types", "UTXOTransaction.checkTxSemantic")
		for _, call := range ir.Calls(cs, "types.UTXOTransaction.StoreFrom") {
			a := Arg(call, 1)
			okA := a == "types.UTXOTransaction.From(tx)#0" || a == "common.EmptyAddress"
			r.Check("K1", "types.(*UTXOTransaction).checkTxSemantic/StoreFrom/own-recovery", p.InstrPos(call), okA, "caches only the sender it recovered itself (or the empty address when no account signature is required): "+a)
			if a == "types.UTXOTransaction.From(tx)#0" {
				c.Guards("types.(*UTXOTransaction).checkTxSemantic", "StoreFrom", call, G{"recovered", "eq(types.UTXOTransaction.From(tx)#1,nil)"})
			}
		}
		vt := p.Func("app", "LinkApplication.verifyTxsOnProcess")
		n := 0
		ir.InstrsDeep(vt, func(f *ssa.Function, in ssa.Instruction) {
			call, ok := in.(ssa.CallInstruction)
			if !ok || !strings.HasSuffix(ir.CalleeName(call), ".StoreFrom") {
				return
			}
			n++
			fs := ir.FactsAt(in)
			okH := false
			for _, a := range ir.FactStrings(fs) {
				if regexp.MustCompile(`GetTxFromCache\(.*Hash\(`).MatchString(a) && !strings.HasPrefix(a, "eq(") {
					okH = true
				}
			}
			r.Check("K1", "app.(*LinkApplication).verifyTxsOnProcess/StoreFrom/cache-hit-same-hash", p.InstrPos(in), okH, "the injected sender comes from a mempool cache hit looked up by this transaction's own hash; facts: "+short(strings.Join(ir.FactStrings(fs), " ; "), 300))
		})
		r.Stats["StoreFrom sites in verifyTxsOnProcess"] = n
	}
	// ---- (5) confidential message -------------------------------------------------------------------
	{
		ex := p.Func("types", "UTXOTransaction.expandTransactionRctSig")
		okM := false
		ir.Instrs(ex, func(in ssa.Instruction) {
			if st, ok := in.(*ssa.Store); ok && strings.HasSuffix(ir.Render(st.Addr), "RCTSig.RctSigBase.Message") || false {
				_ = st
			}
			if st, ok := in.(*ssa.Store); ok && strings.Contains(ir.Render(st.Addr), "Message") && strings.Contains(ir.Render(st.Val), "types.UTXOTransaction.PrefixHash(") {
				okM = true
			}
		})
		r.Check("K4", "types.(*UTXOTransaction).expandTransactionRctSig/message", p.Pos(ex.Pos()), okM, "the ring-signature message is set from PrefixHash()")
		// ... from the CURRENT content, every time: the message is not on the wire, an object that was
		// checked once and then modified must not be checked against the hash of its old content
		ir.Instrs(ex, func(in ssa.Instruction) {
			if st, ok := in.(*ssa.Store); ok && strings.Contains(ir.Render(st.Addr), "Message") && strings.Contains(ir.Render(st.Val), "types.UTXOTransaction.PrefixHash(") {
				memo := false
				for _, f := range ir.FactsAt(in) {
					if strings.Contains(f.Atom, "RCTSig.Message") || strings.Contains(f.Atom, ".Message,") {
						memo = true
					}
				}
				r.Check("K4", "types.(*UTXOTransaction).expandTransactionRctSig/message-not-memoised", p.InstrPos(in), !memo, "the assignment does not depend on the message's previous value")
				// and it is on every path that goes on to fill the ring
				found, _, tr := ir.FindPath(ir.PathQuery{From: ir.Entry(ex), Target: func(x ssa.Instruction) bool {
					s2, ok := x.(*ssa.Store)
					return ok && strings.Contains(ir.Render(s2.Addr), "MixRing")
				}, Avoid: func(x ssa.Instruction) bool { return x == in }})
				r.Check("K2", "types.(*UTXOTransaction).expandTransactionRctSig/message-before-ring", p.InstrPos(in), !found, fmt.Sprintf("no path fills the ring without setting the message first; path %v", tr))
			}
		})
		ck := p.Func("types", "UTXOTransaction.checkTxInputKeys")
		e1, e2 := firstCall(ck, "types.UTXOTransaction.expandTransactionRctSig"), firstCall(ck, "types.UTXOTransaction.checkRingctSignatures")
		r.Check("K2", "types.(*UTXOTransaction).checkTxInputKeys/expand ≺ verify", p.Pos(ck.Pos()), e1 != nil && e2 != nil && ir.Precedes(e1, e2), "the signature is expanded (message set) before the ring signatures are verified")
		if e2 != nil {
			okR := false
			for _, rt := range ir.Returns(ck) {
				if strings.HasPrefix(ir.Render(rt.Results[0]), "types.UTXOTransaction.checkRingctSignatures(") {
					okR = true
				}
			}
			r.Check("K8", "types.(*UTXOTransaction).checkTxInputKeys/verify-result-returned", p.InstrPos(e2), okR, "the verification result is the function result")
		}
		// the per-input verifier of the short-ring branch gives EVERY confidential input a verdict: a
		// worker returns only after recording an error, after CheckRingSignature said yes, or because the
		// input is not a confidential one. (A missing signature that is skipped lets the input through.)
		cr := p.Func("types", "UTXOTransaction.checkRingctSignatures")
		nW := 0
		var workers []*ssa.Function
		for _, part := range ir.WithHelpers(cr) {
			workers = append(workers, part.AnonFuncs...)
		}
		for _, w := range workers {
			if len(ir.Calls(w, "xcrypto.CheckRingSignature")) == 0 {
				continue
			}
			nW++
			found, hit, tr := ir.FindPath(ir.PathQuery{From: ir.Entry(w), Target: ir.IsReturn,
				Avoid: func(in ssa.Instruction) bool {
					st, ok := in.(*ssa.Store)
					return ok && strings.HasPrefix(ir.Render(st.Addr), "errs[") || ok && strings.HasPrefix(ir.RenderInstr(in), "store errs[")
				},
				AvoidEdge: func(atoms []string) bool {
					for _, a := range atoms {
						if strings.HasPrefix(a, "xcrypto.CheckRingSignature(") || ir.MatchAtom("!*.(\\*types.UTXOInput)#1", a) || strings.HasPrefix(a, "!") && strings.HasSuffix(a, ".(*types.UTXOInput)#1") {
							return true
						}
					}
					return false
				}})
			d := "a worker returns only with an error recorded, a positive CheckRingSignature, or a non-confidential input"
			if found {
				d += fmt.Sprintf(" — but %s is reached otherwise, blocks %v", p.InstrPos(hit), tr)
			}
			r.Check("K2", "types.(*UTXOTransaction).checkRingctSignatures/worker/verdict-for-every-input", p.Pos(w.Pos()), !found, d)
		}
		c.MustFind("K2", "types.(*UTXOTransaction).checkRingctSignatures/worker", cr, nW, "worker closure calling CheckRingSignature")
		// the verdicts are all read before success is reported, and there is one slot per input
		for _, rt := range ir.Returns(cr) {
			if ir.Render(rt.Results[0]) != "nil" {
				continue
			}
			fs := ir.FactsAt(rt.Instr)
			if !ir.HasFact(fs, "eq(len(tx.RCTSig.RctSigBase.MixRing[0]),1)") {
				continue // the MLSAG branch (VerRctNonSemanticsSimple)
			}
			r.Check("K2", "types.(*UTXOTransaction).checkRingctSignatures/short-ring/all-verdicts-read", p.InstrPos(rt.Instr), ir.HasFact(fs, "le(len(errs),*)"), "success only after the loop over all verdict slots finished")
		}
		okSlots := false
		for _, part := range ir.WithHelpers(cr) {
			ir.Instrs(part, func(in ssa.Instruction) {
				if ms, ok := in.(*ssa.MakeSlice); ok && strings.Contains(ms.Type().String(), "error") {
					okSlots = ir.Render(ms.Len) == "len(tx.Inputs)"
				}
			})
		}
		r.Check("K2", "types.(*UTXOTransaction).checkRingctSignatures/short-ring/one-slot-per-input", p.Pos(cr.Pos()), okSlots, "errs has len(tx.Inputs) slots")
	}
	_ = sort.Strings

	// ---- a replaced signature does not inherit the cached sender -----------------------------------------
	// The sender cache (fromValue) lives inside the payload structs (txdata, signdata). Any function
	// that writes signature values R/S/V into a payload COPIED from an existing transaction must also
	// reset that copy's cache, or From() keeps answering with the previous signer.
	{
		nSites := 0
		for _, typ := range []string{"txdata", "signdata"} {
			rf := p.Field("types", typ+".R")
			fvF := p.Field("types", typ+".fromValue")
			byFn := map[*ssa.Function][]ir.Store{}
			for _, st := range p.Stores(rf) {
				if strings.HasSuffix(p.Pos(st.Fn.Pos()), "_test.go") {
					continue
				}
				byFn[st.Fn] = append(byFn[st.Fn], st)
			}
			for fn, sts := range byFn {
				for _, st := range sts {
					root := ir.RootOf(st.Base)
					al, ok := root.(*ssa.Alloc)
					if !ok {
						// signature values written into an EXISTING transaction object (receiver, parameter, field):
						// its hash and size caches were computed for the old signature and must be reset here too
						nHash := 0
						for _, cache := range []string{"hash", "size"} {
							for _, owner := range []string{"Transaction", "TokenTransaction", "UTXOTransaction"} {
								if cf := p.TryField("types", owner+"."+cache); cf != nil {
									for _, s3 := range p.Stores(cf) {
										if s3.Fn == fn && ir.RootOf(s3.Base) == root {
											nHash++
										}
									}
								}
							}
						}
						// ... and the sender cache inside the payload
						fromReset := false
						for _, s3 := range p.Stores(fvF) {
							if s3.Fn == fn && ir.RootOf(s3.Base) == root {
								fromReset = true
							}
						}
						if !fromReset {
							nHash = 0
						}
						// a helper that fills the object it is handed is fine when every caller hands it a fresh local
						// (decoders: `var dec txdata; dec.UnmarshalJSON(..)`, signToBytes(&signdata{}, ..))
						freshAtCallers := false
						if q, isParam := root.(*ssa.Parameter); isParam && fn.Object() != nil {
							idx := -1
							for i, x := range fn.Params {
								if x == q {
									idx = i
								}
							}
							sites := 0
							allFresh := true
							for _, cs := range p.CallSites(fn.Object().(*types.Func)) {
								if strings.HasSuffix(p.Pos(cs.Fn.Pos()), "_test.go") {
									continue
								}
								sites++
								args := operandArgs(cs.Instr)
								if idx < 0 || idx >= len(args) {
									allFresh = false
									continue
								}
								if _, isAlloc := ir.RootOf(args[idx]).(*ssa.Alloc); !isAlloc {
									allFresh = false
								}
							}
							freshAtCallers = sites > 0 && allFresh
						}
						r.Check("K4", "signature-caches/no-in-place-resign/"+ir.FuncName(fn), p.InstrPos(st.Instr), nHash >= 2 || freshAtCallers,
							"signature values are written into an object the function was handed: every caller hands it a fresh local, or the object's sender/hash/size caches are reset in the same function")
						continue
					}
					// is the allocation initialised from an existing payload (struct copy)?
					copied := false
					ir.Instrs(fn, func(in ssa.Instruction) {
						s2, ok := in.(*ssa.Store)
						if !ok || ir.RootOf(s2.Addr) != ssa.Value(al) {
							return
						}
						if _, isStruct := s2.Val.Type().Underlying().(*types.Struct); isStruct {
							if u, isLoad := s2.Val.(*ssa.UnOp); isLoad && u.Op.String() == "*" {
								copied = true
							}
						}
					})
					if !copied {
						continue
					}
					nSites++
					reset := false
					for _, s3 := range p.Stores(fvF) {
						if s3.Fn == fn && ir.RootOf(s3.Base) == ssa.Value(al) {
							reset = true
						}
					}
					r.Check("K4", "sender-cache/reset-on-new-signature/"+ir.FuncName(fn), p.InstrPos(st.Instr), reset,
						"signature values are written into a payload copied from an existing transaction; the copy's sender cache is reset in the same function")
				}
			}
		}
		r.Check("K4", "sender-cache/reset-on-new-signature/sites", "-", nSites >= 3, fmt.Sprintf("%d re-signing sites on copied payloads found (confirmed by hand: Transaction.Sign, Transaction.WithSignature, TokenTransaction.Sign)", nSites))
	}

	// ---- the block pre-check reports every verification failure ------------------------------------
	// In verifyTxsOnProcess each sender recovery (From) and each basic check (CheckTx) assigns the ONE
	// error variable whose address goes into the goroutine's result slot; an error assigned to any
	// other variable (a shadowing `err :=`) is silently dropped and the transaction is executed.
	{
		v := p.Func("app", "LinkApplication.verifyTxsOnProcess")
		var slotErr *ssa.Alloc
		ir.InstrsDeep(v, func(_ *ssa.Function, in ssa.Instruction) {
			if st, ok := in.(*ssa.Store); ok {
				if al, ok := st.Val.(*ssa.Alloc); ok && strings.HasPrefix(ir.Render(st.Addr), "&errRets[") && ir.LocalName(al.Parent(), al.Comment) == "err" {
					slotErr = al
				}
			}
		})
		if slotErr == nil {
			r.Undecided("K8", "precheck/error-slot", p.Pos(v.Pos()), "the error variable stored into errRets[...] was not found")
		} else {
			n := 0
			ir.InstrsDeep(v, func(_ *ssa.Function, in ssa.Instruction) {
				call, ok := in.(*ssa.Call)
				if !ok {
					return
				}
				cn := ir.CalleeName(call)
				if !(cn == "app.LinkApplication.CheckTx" || strings.HasSuffix(cn, ".From")) {
					return
				}
				n++
				// the error result: the call itself (single result) or Extract #last
				okStore := false
				check := func(val ssa.Value) {
					if val.Referrers() == nil {
						return
					}
					for _, ref := range *val.Referrers() {
						if st, ok := ref.(*ssa.Store); ok && st.Val == val && st.Addr == ssa.Value(slotErr) {
							okStore = true
						}
					}
				}
				if tup, isTuple := call.Type().(*types.Tuple); isTuple {
					for _, ref := range *call.Referrers() {
						if ex, ok := ref.(*ssa.Extract); ok && ex.Index == tup.Len()-1 {
							check(ex)
						}
					}
				} else {
					check(call)
				}
				r.Check("K8", "precheck/error-reaches-result-slot/"+cn, p.InstrPos(in), okStore, "the error of "+cn+" is assigned to the variable reported through errRets")
			})
			c.MustFind("K8", "precheck/error-reaches-result-slot", v, n, "From/CheckTx calls")
		}
	}

	// ---- confidential spend authorisation is checked whenever there is a confidential input ----
	{
		fn := p.Func("types", "UTXOTransaction.CheckBasic")
		name := "types.(*UTXOTransaction).CheckBasic"
		kind := "types.UTXOTransaction.UTXOKind(tx)"
		uin := fmt.Sprint(c.ConstInt("types", "Uin"))
		uinuout := fmt.Sprint(c.ConstInt("types", "UinUout"))
		ill := fmt.Sprint(c.ConstInt("types", "IllKind"))
		n := 0
		for _, rt := range ir.Returns(fn) {
			if ir.AbstractResult(rt.Results[0]) != "nil" {
				continue
			}
			n++
			c.GuardsAny(name, "return nil", "ring-signatures-if-confidential-inputs", rt.Instr,
				"eq(types.UTXOTransaction.checkTxInputKeys(tx,censor),nil)", "!eq(("+kind+" & "+uin+"),"+uin+")", "eq(("+kind+" & "+uinuout+"),"+ill+")")
		}
		c.MustFind("K1", name+"/return nil", fn, n, "nil return")
	}
}

// normEmbedded rewrites "tx.data.X" element renderings to the embedded-struct path form.
func normEmbedded(elems []string, prefix string) []string {
	var out []string
	for _, e := range elems {
		out = append(out, e)
	}
	return out
}

var _ = report.Discharged
