// Package report collects obligations, matches violations against the
// committed known-findings list and writes evidence.
package report

import (
	"encoding/json"
	"fmt"
	"os"
	"path/filepath"
	"sort"
	"strings"
	"time"
)

// Status of an obligation.
const (
	Discharged = "discharged"
	Violated   = "violated"
	Undecided  = "undecided"
	Known      = "known-finding"
)

// Obligation is one (rule, construct) pair decided on this run.
type Obligation struct {
	Key    string `json:"key"`  // rule/function/construct — never a line number
	Rule   string `json:"rule"` // K1..K11
	Pos    string `json:"pos"`  // file:line of the construct on this run
	Status string `json:"status"`
	Detail string `json:"detail,omitempty"`
	// Trivial marks obligations with nothing to examine (counted out of distinct_nontrivial).
	Trivial bool `json:"-"`
}

// R is the per-property report.
type R struct {
	Prop     string
	Tier     string
	Seed     int
	Obls     []Obligation
	Notes    []string       // what was analysed (functions, sites, sets)
	Stats    map[string]int // named counters
	Explain  string         // clauses decided / not decided
	Trusted  []string       // trusted base
	Assume   []string       // assumptions
	Floor    int            // minimum obligations confirmed by hand
	Extra    map[string]any // additional coverage keys
	start    time.Time
	keys     map[string]int
	Selftest []SelftestResult
}

// SelftestResult records one sensitivity variant.
type SelftestResult struct {
	Variant  string `json:"variant"`
	Expected string `json:"expected_key"`
	Status   string `json:"status"` // detected | missed | stale (text to replace not on this tree) | nocompile
	Detected bool   `json:"detected"`
	Note     string `json:"note,omitempty"`
}

// NewFailures lists the keys of violated/undecided obligations that are not listed known findings.
func (r *R) NewFailures(known []KnownFinding) []string {
	kmap := map[string]bool{}
	for _, k := range known {
		if k.Property == r.Prop && k.Status == "known" {
			kmap[k.Key] = true
		}
	}
	var out []string
	for _, o := range r.Obls {
		if (o.Status == Violated && !kmap[o.Key]) || o.Status == Undecided {
			out = append(out, o.Key)
		}
	}
	if len(r.Obls) < r.Floor {
		out = append(out, "floor/"+r.Prop)
	}
	return out
}

// New creates a report.
func New(prop, tier string, seed int) *R {
	return &R{Prop: prop, Tier: tier, Seed: seed, Stats: map[string]int{}, Extra: map[string]any{}, start: time.Now(), keys: map[string]int{}}
}

func (r *R) add(o Obligation) {
	// keys must be unique; repeated constructs get an ordinal suffix in
	// source order so that keys stay line-independent.
	n := r.keys[o.Key]
	r.keys[o.Key] = n + 1
	if n > 0 {
		o.Key = fmt.Sprintf("%s#%d", o.Key, n+1)
	}
	r.Obls = append(r.Obls, o)
}

// Check records an obligation decided by ok.
func (r *R) Check(rule, key, pos string, ok bool, detail string) bool {
	st := Discharged
	if !ok {
		st = Violated
	}
	r.add(Obligation{Key: rule + "/" + key, Rule: rule, Pos: pos, Status: st, Detail: detail})
	return ok
}

// Undecided records an obligation the rule could not decide (counts as failure).
func (r *R) Undecided(rule, key, pos, detail string) {
	r.add(Obligation{Key: rule + "/" + key, Rule: rule, Pos: pos, Status: Undecided, Detail: detail})
}

// Note records what was analysed.
func (r *R) Note(format string, a ...any) { r.Notes = append(r.Notes, fmt.Sprintf(format, a...)) }

// KnownFinding is one entry of /verif/known_findings.json.
type KnownFinding struct {
	Property string `json:"property"`
	Status   string `json:"status"` // "known" or "fixed"
	Key      string `json:"key"`    // obligation key
	What     string `json:"what"`
	Commit   string `json:"commit,omitempty"`
	Witness  string `json:"witness,omitempty"`
}

// LoadKnown reads the committed list (never written at run time).
func LoadKnown(path string) ([]KnownFinding, error) {
	b, err := os.ReadFile(path)
	if err != nil {
		if os.IsNotExist(err) {
			return nil, nil
		}
		return nil, err
	}
	var f struct {
		Findings []KnownFinding `json:"findings"`
	}
	if err := json.Unmarshal(b, &f); err != nil {
		return nil, err
	}
	return f.Findings, nil
}

// Finish applies known findings and the floor, writes evidence and violation
// records, prints the verdict lines and returns the exit status.
func (r *R) Finish(verifDir string, known []KnownFinding) int {
	kmap := map[string]KnownFinding{}
	for _, k := range known {
		if k.Property == r.Prop && k.Status == "known" {
			kmap[k.Key] = k
		}
	}
	usedKnown := map[string]bool{}
	nviol, nund, ndis, nknown := 0, 0, 0, 0
	for i := range r.Obls {
		o := &r.Obls[i]
		switch o.Status {
		case Violated:
			if k, ok := kmap[o.Key]; ok {
				o.Status = Known
				usedKnown[o.Key] = true
				nknown++
				fmt.Printf("KNOWN-FINDING: property=%s %s [%s at %s]\n", r.Prop, k.What, o.Key, o.Pos)
			} else {
				nviol++
			}
		case Undecided:
			nund++
		case Discharged:
			ndis++
		}
	}
	// A listed known finding that no longer fires is reported (stale entry) but is not a failure.
	var stale []string
	for k := range kmap {
		if !usedKnown[k] {
			stale = append(stale, k)
		}
	}
	sort.Strings(stale)
	for _, k := range stale {
		fmt.Printf("note: known finding %s no longer fires on this tree (entry is stale)\n", k)
	}

	evDir := filepath.Join(verifDir, "evidence")
	os.MkdirAll(evDir, 0o755)
	vdir := filepath.Join(evDir, r.Prop+".violations")
	os.RemoveAll(vdir)
	exit := 0
	floorMet := len(r.Obls) >= r.Floor
	vi := 0
	emit := func(o Obligation, why string) {
		os.MkdirAll(vdir, 0o755)
		vi++
		path := filepath.Join(vdir, fmt.Sprintf("%03d.json", vi))
		b, _ := json.MarshalIndent(map[string]any{
			"property": r.Prop, "key": o.Key, "rule": o.Rule, "pos": o.Pos, "status": o.Status, "detail": o.Detail, "why": why,
		}, "", " ")
		os.WriteFile(path, b, 0o644)
		fmt.Printf("%s: %s: %s — %s\n", o.Pos, o.Key, o.Status, o.Detail)
		fmt.Printf("VIOLATION property=%s replay=%s\n", r.Prop, path)
	}
	for _, o := range r.Obls {
		if o.Status == Violated {
			emit(o, "obligation violated")
			exit = 1
		}
	}
	for _, o := range r.Obls {
		if o.Status == Undecided {
			emit(o, "obligation undecided (counts as failure)")
			exit = 1
		}
	}
	if !floorMet {
		emit(Obligation{Key: "floor/" + r.Prop, Rule: "floor", Pos: "-", Status: Violated,
			Detail: fmt.Sprintf("only %d obligations found, floor is %d: rules no longer match the constructs confirmed by hand", len(r.Obls), r.Floor)}, "floor")
		exit = 1
	}
	// Self-test variants probe the rules, not the repository: a missed variant is
	// reported in the evidence and on stdout but is not a verdict about /repo.
	for _, s := range r.Selftest {
		if s.Status == "missed" {
			fmt.Printf("note: self-test variant %s was not detected (expected %s): %s\n", s.Variant, s.Expected, s.Note)
		}
	}

	// evidence
	distinct := map[string]bool{}
	for _, o := range r.Obls {
		if !o.Trivial {
			distinct[o.Key] = true
		}
	}
	var samples []any
	step := 1
	if len(r.Obls) > 40 {
		step = len(r.Obls) / 40
	}
	for i := 0; i < len(r.Obls); i += step {
		samples = append(samples, r.Obls[i])
	}
	// always include non-discharged obligations
	for _, o := range r.Obls {
		if o.Status != Discharged {
			samples = append(samples, o)
		}
	}
	rules := map[string]int{}
	for _, o := range r.Obls {
		rules[o.Rule]++
	}
	cov := map[string]any{
		"explanation":         r.Explain,
		"obligations":         len(r.Obls),
		"discharged":          ndis,
		"known_findings":      nknown,
		"violated":            nviol,
		"undecided":           nund,
		"evaluations":         len(r.Obls),
		"distinct_nontrivial": len(distinct),
		"rule":                "one obligation per (rule kind, function, construct) recognised in /repo's current SSA/AST; distinct = distinct obligation keys; keys carry no line numbers",
		"samples":             samples,
		"obligations_by_rule": rules,
		"floor":               r.Floor,
		"floor_met":           floorMet,
		"analysed":            r.Notes,
		"stats":               r.Stats,
		"checker_cmd":         fmt.Sprintf("./check %s %s", r.Prop, r.Tier),
		"trusted_base":        append(append([]string{}, r.Trusted...), "go/packages, go/types, go/ssa (x/tools v0.29.0)", "the rule tables of /verif/lkcheck/props"),
		"exhaustive":          false,
	}
	if len(r.Selftest) > 0 {
		cnt := map[string]int{}
		for _, s := range r.Selftest {
			cnt[s.Status]++
		}
		cov["selftest_variants"] = len(r.Selftest)
		cov["selftest_detected"] = cnt["detected"]
		cov["selftest_missed"] = cnt["missed"]
		cov["selftest_stale"] = cnt["stale"] + cnt["nocompile"]
		cov["selftest"] = r.Selftest
		cov["selftest_rule"] = "each variant is /repo's current source with one seeded change (hand-written replacement or a stored patch) loaded as an overlay; detected = the listed obligation newly fails; this probes that the rules are not inert and is not a verdict about /repo"
	}
	for k, v := range r.Extra {
		cov[k] = v
	}
	if r.Assume == nil {
		r.Assume = []string{}
	}
	if r.Trusted == nil {
		r.Trusted = []string{}
	}
	r.Assume = append(r.Assume, "the analysed program is /repo's working tree as type-checked by go/packages with default build tags; cgo bodies and third-party modules are outside the analysed program")
	ev := map[string]any{
		"property_id": r.Prop,
		"tier":        r.Tier,
		"seed":        r.Seed,
		"level":       "other",
		"coverage":    cov,
		"assumptions": r.Assume,
		"wall_s":      time.Since(r.start).Seconds(),
		"violations":  nviol + nund,
	}
	b, _ := json.MarshalIndent(ev, "", " ")
	if err := os.WriteFile(filepath.Join(evDir, r.Prop+".json"), b, 0o644); err != nil {
		fmt.Fprintln(os.Stderr, "cannot write evidence:", err)
		return 2
	}
	fmt.Printf("%s %s: %d obligations (%s), %d discharged, %d known findings, %d violated, %d undecided, floor %d, %.1fs\n",
		r.Prop, r.Tier, len(r.Obls), rulesSummary(rules), ndis, nknown, nviol, nund, r.Floor, time.Since(r.start).Seconds())
	return exit
}

func rulesSummary(m map[string]int) string {
	var ks []string
	for k := range m {
		ks = append(ks, k)
	}
	sort.Strings(ks)
	var parts []string
	for _, k := range ks {
		parts = append(parts, fmt.Sprintf("%s:%d", k, m[k]))
	}
	return strings.Join(parts, " ")
}
