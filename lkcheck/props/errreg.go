package props

import (
	"bufio"
	"encoding/json"
	"fmt"
	"os"
	"path/filepath"
	"sort"
	"strings"

	"golang.org/x/tools/go/ssa"

	"lkcheck/ir"
	"lkcheck/report"
)

// Error-report regression (K8, all properties).
//
// Every property's statement includes a rejection side ("... or is rejected", "... or reports
// corruption", "an invalid X never ..."), and in this code base rejection is an error value handed
// up the call chain. For the functions defined in a property's anchor files the committed table
// errors.json lists, per function, the callees whose error result the function REPORTS at every one
// of its call sites today (returns it, returns an error built under its failure branch, or
// panics) — 1078 call sites in 98 files. The rule: such an error is still reported. A call site of
// a listed (function, callee) pair that now drops the result (`_ =`, bare call) or continues /
// returns nil on the failure branch is a violation.
//
// This is a regression reference, not a judgement that today's handling is right everywhere:
// sites that drop or swallow an error today (328 in the same files; the storage ones are triaged
// under C07/C13/C19) are simply not in the table. It cannot raise an alarm on a refactoring that
// keeps reporting the error: a (function, callee) pair that no longer exists is ignored, uses the
// classifier does not understand (stored, sent on a channel) are ignored, calls moved into an
// extracted helper are attributed to the owner (helper transparency).

// VerifDir is where errors.json lives (set by main).
var VerifDir string

type errTable map[string]map[string][]string // property -> function -> callees

func topFuncs(p *ir.Program) map[string]*ssa.Function {
	m := map[string]*ssa.Function{}
	for _, f := range p.Funcs {
		if f.Parent() == nil && f.Blocks != nil {
			m[ir.FuncName(f)] = f
		}
	}
	return m
}

func fileOf(p *ir.Program, f *ssa.Function) string {
	pos := p.Pos(f.Pos())
	if i := strings.LastIndex(pos, ":"); i > 0 {
		return pos[:i]
	}
	return pos
}

// errSites classifies the error-returning calls of a top-level function (closures and transparent
// helpers included) per callee.
func errSites(fn *ssa.Function) map[string][]*ssa.Call {
	out := map[string][]*ssa.Call{}
	ir.InstrsDeep(fn, func(_ *ssa.Function, in ssa.Instruction) {
		call, ok := in.(*ssa.Call)
		if !ok || errorResultIndex(call.Call.Signature()) < 0 {
			return
		}
		out[ir.CalleeName(call)] = append(out[ir.CalleeName(call)], call)
	})
	return out
}

func reported(class string) bool { return class == "propagated" || class == "fatal" }

// GenErrorTable writes errors.json from the current tree (maintenance, like names.json).
func GenErrorTable(p *ir.Program, verifDir string) (int, error) {
	f, err := os.Open(filepath.Join(verifDir, "properties.jsonl"))
	if err != nil {
		return 0, err
	}
	defer f.Close()
	tab := errTable{}
	n := 0
	sc := bufio.NewScanner(f)
	sc.Buffer(make([]byte, 1<<20), 1<<24)
	for sc.Scan() {
		var pr struct {
			ID      string `json:"id"`
			Anchors struct {
				Files []string `json:"files"`
			} `json:"anchors"`
		}
		if json.Unmarshal(sc.Bytes(), &pr) != nil || pr.ID == "" {
			continue
		}
		files := map[string]bool{}
		for _, x := range pr.Anchors.Files {
			files[x] = true
		}
		tab[pr.ID] = map[string][]string{}
		for name, fn := range topFuncs(p) {
			if !files[fileOf(p, fn)] || strings.HasSuffix(fileOf(p, fn), "_test.go") {
				continue
			}
			var callees []string
			for callee, calls := range errSites(fn) {
				all := true
				for _, c := range calls {
					if !reported(classifyErrUse(c).Class) {
						all = false
					}
				}
				if all {
					callees = append(callees, callee)
					n += len(calls)
				}
			}
			if len(callees) > 0 {
				sort.Strings(callees)
				tab[pr.ID][name] = callees
			}
		}
	}
	b, err := json.MarshalIndent(tab, "", " ")
	if err != nil {
		return 0, err
	}
	return n, os.WriteFile(filepath.Join(verifDir, "errors.json"), b, 0o644)
}

// errorRegression adds one obligation per listed function of the property.
func errorRegression(p *ir.Program, r *report.R, prop string) {
	b, err := os.ReadFile(filepath.Join(VerifDir, "errors.json"))
	if err != nil {
		r.Undecided("K8", "error-regression/table", "-", "errors.json not readable: "+err.Error())
		return
	}
	var tab errTable
	if err := json.Unmarshal(b, &tab); err != nil {
		r.Undecided("K8", "error-regression/table", "-", "errors.json: "+err.Error())
		return
	}
	funcs := topFuncs(p)
	var names []string
	for name := range tab[prop] {
		names = append(names, name)
	}
	sort.Strings(names)
	nFn, nSites, gone := 0, 0, 0
	for _, name := range names {
		fn := funcs[name]
		if fn == nil {
			gone++
			continue // renamed or removed: nothing to compare
		}
		nFn++
		sites := errSites(fn)
		var bad []string
		pos := p.Pos(fn.Pos())
		for _, callee := range tab[prop][name] {
			for _, c := range sites[callee] {
				nSites++
				if u := classifyErrUse(c); u.Class == "dropped" || u.Class == "swallowed" {
					bad = append(bad, fmt.Sprintf("%s: error of %s is %s (%s)", p.InstrPos(c), callee, u.Class, u.Detail))
					pos = p.InstrPos(c)
				}
			}
		}
		r.Check("K8", "error-regression/"+name, pos, len(bad) == 0, "errors this function reported when the table was written are still reported (returned or fatal): "+strings.Join(bad, " ; "))
	}
	r.Check("K8", "error-regression/functions", "-", nFn*10 >= len(names)*8, fmt.Sprintf("%d of %d listed functions present (%d gone), %d call sites compared", nFn, len(names), gone, nSites))
}

// RunProperty runs the property's own rules and the shared regression rules.
func RunProperty(id string, p *ir.Program, r *report.R) bool {
	fn := Registry[id]
	if fn == nil {
		return false
	}
	fn(p, r)
	errorRegression(p, r, id)
	if files := anchorFiles(id); files != nil {
		errorIdentity(p, r, files)
		lockPairing(p, r, files)
		guardedBy(p, r, files)
		fieldCoverageRule(p, r, files)
		deferRegression(p, r, files)
	}
	return true
}

// anchorFiles reads the anchor file list of a property from properties.jsonl.
func anchorFiles(id string) map[string]bool {
	f, err := os.Open(filepath.Join(VerifDir, "properties.jsonl"))
	if err != nil {
		return nil
	}
	defer f.Close()
	sc := bufio.NewScanner(f)
	sc.Buffer(make([]byte, 1<<20), 1<<24)
	for sc.Scan() {
		var pr struct {
			ID      string `json:"id"`
			Anchors struct {
				Files []string `json:"files"`
			} `json:"anchors"`
		}
		if json.Unmarshal(sc.Bytes(), &pr) != nil || pr.ID != id {
			continue
		}
		m := map[string]bool{}
		for _, x := range pr.Anchors.Files {
			m[x] = true
		}
		return m
	}
	return nil
}
