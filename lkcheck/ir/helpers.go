package ir

import (
	"go/constant"
	"go/token"
	"go/types"
	"regexp"
	"sort"
	"strings"
	"unicode"

	"golang.org/x/tools/go/ssa"
)

// Helper transparency.
//
// The most common behaviour-preserving edit that moves a construct a rule is
// anchored on is "extract helper": a few statements of F become a new private
// function H called from F. Rules are written per function (guards in F, stores
// by F, calls in F, paths through F), so such a move would raise alarms although
// nothing changed. A function is therefore treated as PART OF ITS CALLER when
//
//   - it did not exist when the rules were written (its name is absent from the
//     committed table names.json) — so nothing changes on the tree the rules were
//     reviewed against, and a renamed or rewritten pre-existing function is never
//     made transparent;
//   - it is unexported, has a body, is not a closure, is never used as a value and
//     never called through an interface;
//   - every call site lies in one top-level function (its owner), directly or
//     through other such helpers; and it is not recursive.
//
// For such a helper: its parameters render as the arguments of its call site
// (when all call sites agree), facts that hold at its call site(s) hold inside it,
// the facts at its single return hold after the call, its instructions are listed
// with the owner's (Instrs, Calls, the store index attributes them to the owner),
// instruction order is decided through the call site, and path queries walk
// through its body as if it were inlined.

type helperInfo struct {
	owner  *ssa.Function   // the single owner; nil when several functions share the helper
	owners []*ssa.Function // every top-level function the helper executes on behalf of
	sites  []ssa.CallInstruction
}

var newHelpers = map[*ssa.Function]*helperInfo{}

// helpersOf lists the transparent helpers owned by fn, in a stable order.
func helpersOf(fn *ssa.Function) []*ssa.Function {
	var out []*ssa.Function
	for h, hi := range newHelpers {
		for _, o := range hi.owners {
			if o == fn {
				out = append(out, h)
				break
			}
		}
	}
	sort.Slice(out, func(i, j int) bool { return out[i].Pos() < out[j].Pos() })
	return out
}

// ctxOwner: while set, a helper shared by several functions is read as part of this one.
var ctxOwner *ssa.Function

// InOwner runs f with transparent helpers read as parts of owner: the parameters of a helper that
// several functions share render as the arguments at owner's call sites.
func InOwner(owner *ssa.Function, f func()) {
	old := ctxOwner
	ctxOwner = owner
	defer func() { ctxOwner = old }()
	f()
}

// ctxSite: while set, a helper called at this site is read as executing at this site only (its
// entry facts are the facts at the site, not what all its call sites have in common).
var ctxSite ssa.CallInstruction

// AtSite runs f with the helper invoked at site read in that site's context.
func AtSite(site ssa.CallInstruction, f func()) {
	if site == nil {
		f()
		return
	}
	old := ctxSite
	ctxSite = site
	defer func() { ctxSite = old }()
	f()
}

// helpersCalledFrom lists the transparent helpers called (transitively, by direct calls) from the
// body of fn itself, not from its closures.
func helpersCalledFrom(fn *ssa.Function) []*ssa.Function {
	var out []*ssa.Function
	seen := map[*ssa.Function]bool{}
	var visit func(f *ssa.Function)
	visit = func(f *ssa.Function) {
		for _, b := range f.Blocks {
			for _, in := range b.Instrs {
				if h := helperCallee(in); h != nil && !seen[h] {
					seen[h] = true
					out = append(out, h)
					visit(h)
				}
			}
		}
	}
	visit(fn)
	return out
}

// WithHelpers is fn followed by the transparent helpers that are part of it.
func WithHelpers(fn *ssa.Function) []*ssa.Function {
	return append([]*ssa.Function{fn}, helpersOf(fn)...)
}

// LogicalOwner maps a transparent helper to the function it is part of.
func LogicalOwner(fn *ssa.Function) *ssa.Function {
	if hi := newHelpers[fn]; hi != nil && hi.owner != nil {
		return hi.owner
	}
	return fn // also for a helper shared by several functions: it has no single owner
}

// HelperOwners lists the functions a transparent helper is part of (nil for other functions).
func HelperOwners(fn *ssa.Function) []*ssa.Function {
	if hi := newHelpers[fn]; hi != nil {
		return hi.owners
	}
	return nil
}

// siteOwners resolves the top-level function(s) a call site executes in, through helper chains.
func siteOwners(site ssa.CallInstruction) []*ssa.Function {
	top := site.Parent()
	for top.Parent() != nil {
		top = top.Parent()
	}
	if hi := newHelpers[top]; hi != nil {
		return hi.owners
	}
	return []*ssa.Function{top}
}

// IsTransparentHelper reports whether fn is treated as part of its caller.
func IsTransparentHelper(fn *ssa.Function) bool { return newHelpers[fn] != nil }

func unexported(name string) bool {
	for _, r := range name {
		return unicode.IsLower(r) || r == '_'
	}
	return false
}

// detectHelpers fills newHelpers; frozen is the committed name table.
func (p *Program) detectHelpers(frozen NameTable) {
	type cand struct {
		f     *ssa.Function
		sites []ssa.CallInstruction
	}
	cands := map[*ssa.Function]*cand{}
	for _, f := range p.Funcs {
		if f.Parent() != nil || f.Blocks == nil || f.Synthetic != "" || !unexported(f.Name()) || f.Name() == "init" || f.Name() == "main" {
			continue
		}
		if _, known := frozen[FuncName(f)]; known {
			continue
		}
		obj, ok := f.Object().(*types.Func)
		if !ok {
			continue
		}
		sites := p.CallSites(obj)
		if len(sites) == 0 || len(sites) > 8 {
			continue
		}
		okc := true
		c := &cand{f: f}
		for _, s := range sites {
			if s.Instr.Common().IsInvoke() {
				okc = false
			}
			if _, isGo := s.Instr.(*ssa.Go); isGo {
				okc = false
			}
			if _, isDefer := s.Instr.(*ssa.Defer); isDefer {
				okc = false
			}
			c.sites = append(c.sites, s.Instr)
		}
		if !okc || len(p.FuncValueUses(f)) > 0 {
			continue
		}
		cands[f] = c
	}
	// resolve owners through chains of candidates; a helper may be shared by a few functions
	// (the same two statements extracted from Add, Update and Remove)
	var ownersOf func(f *ssa.Function, depth int) map[*ssa.Function]bool
	ownersOf = func(f *ssa.Function, depth int) map[*ssa.Function]bool {
		c := cands[f]
		if c == nil || depth > 4 {
			return nil
		}
		owners := map[*ssa.Function]bool{}
		for _, s := range c.sites {
			top := s.Parent()
			for top.Parent() != nil {
				top = top.Parent()
			}
			if top == f {
				return nil // recursive
			}
			if cands[top] != nil {
				sub := ownersOf(top, depth+1)
				if sub == nil {
					return nil
				}
				for o := range sub {
					owners[o] = true
				}
				continue
			}
			owners[top] = true
		}
		if owners[f] || len(owners) == 0 || len(owners) > 8 {
			return nil
		}
		return owners
	}
	for f, c := range cands {
		if os := ownersOf(f, 0); os != nil {
			hi := &helperInfo{sites: c.sites}
			for o := range os {
				hi.owners = append(hi.owners, o)
			}
			sort.Slice(hi.owners, func(i, j int) bool { return FuncName(hi.owners[i]) < FuncName(hi.owners[j]) })
			if len(hi.owners) == 1 {
				hi.owner = hi.owners[0]
			}
			newHelpers[f] = hi
		}
	}
}

// helperArg returns the caller-side value a helper parameter stands for, when
// every call site passes a value with the same rendering.
var helperArgBusy = map[*ssa.Parameter]bool{}

func helperArg(q *ssa.Parameter) ssa.Value {
	hi := newHelpers[q.Parent()]
	if hi == nil || helperArgBusy[q] {
		return nil
	}
	idx := -1
	for i, x := range q.Parent().Params {
		if x == q {
			idx = i
		}
	}
	if idx < 0 {
		return nil
	}
	helperArgBusy[q] = true
	defer delete(helperArgBusy, q)
	var first ssa.Value
	var firstS string
	sites := hi.sites
	if ctxOwner != nil {
		// inside InOwner: only the call sites that execute as part of that function count
		var mine []ssa.CallInstruction
		for _, s := range hi.sites {
			for _, o := range siteOwners(s) {
				if o == ctxOwner {
					mine = append(mine, s)
					break
				}
			}
		}
		if len(mine) > 0 {
			sites = mine
		}
	}
	for _, s := range sites {
		args := s.Common().Args
		if idx >= len(args) {
			return nil
		}
		r := Render(args[idx])
		if first == nil {
			first, firstS = args[idx], r
		} else if r != firstS {
			return nil
		}
	}
	return first
}

// liftTo maps an instruction inside a transparent helper to the call sites in
// target through which it executes (nil when it is not inside such a helper of target).
func liftTo(in ssa.Instruction, target *ssa.Function, depth int) []ssa.Instruction {
	fn := in.Parent()
	for fn.Parent() != nil {
		fn = fn.Parent()
	}
	hi := newHelpers[fn]
	if hi == nil || depth > 4 {
		return nil
	}
	var out []ssa.Instruction
	for _, s := range hi.sites {
		si := s.(ssa.Instruction)
		if si.Parent() == target {
			out = append(out, si)
			continue
		}
		up := liftTo(si, target, depth+1)
		if up == nil {
			if hi.owner == nil {
				continue // a shared helper: this site belongs to another owner
			}
			return nil
		}
		out = append(out, up...)
	}
	return out
}

// helperCallee returns the transparent helper called by in, or nil.
func helperCallee(in ssa.Instruction) *ssa.Function {
	c, ok := in.(*ssa.Call)
	if !ok {
		return nil
	}
	f := c.Call.StaticCallee()
	if f == nil || newHelpers[f] == nil {
		return nil
	}
	return f
}

// exitFacts are the facts that hold when a transparent helper returns (facts at
// its single return), in the caller's terms.
func exitFacts(h *ssa.Function) []Fact {
	var ret *ssa.BasicBlock
	for _, b := range h.Blocks {
		if len(b.Instrs) == 0 {
			continue
		}
		if _, ok := b.Instrs[len(b.Instrs)-1].(*ssa.Return); ok {
			if ret != nil {
				return nil
			}
			ret = b
		}
	}
	if ret == nil {
		return nil
	}
	return factsAtBlockOwn(ret)
}

// CtxValue is a value inside a transparent helper seen from ONE of its call sites: it renders with
// the helper's parameters replaced by that site's arguments. The store index uses it to list the
// writes of a helper that is called several times with different arguments once per call site.
type CtxValue struct {
	ssa.Value
	Site ssa.CallInstruction
}

func renderCtx(v *CtxValue, d int) string {
	h := v.Site.Common().StaticCallee()
	if h == nil {
		return render(v.Value, d)
	}
	args := v.Site.Common().Args
	var set []*ssa.Parameter
	for i, q := range h.Params {
		if i < len(args) {
			if _, busy := paramSubst[q]; !busy {
				paramSubst[q] = args[i]
				set = append(set, q)
			}
		}
	}
	defer func() {
		for _, q := range set {
			delete(paramSubst, q)
		}
	}()
	return render(v.Value, d)
}

// sitesNeedingContext returns the call sites of a transparent helper when its parameters cannot be
// rendered uniformly (different arguments at different sites), else nil.
func sitesNeedingContext(h *ssa.Function) []ssa.CallInstruction {
	hi := newHelpers[h]
	if hi == nil {
		return nil
	}
	if hi.owner == nil {
		return hi.sites // shared by several functions: each site is attributed to its own owner
	}
	if len(hi.sites) < 2 {
		return nil
	}
	for _, q := range h.Params {
		if helperArg(q) == nil {
			return hi.sites
		}
	}
	return nil
}

// helperCallOf recognises `H(...)` or `H(...)#i` where H is a transparent helper.
func helperCallOf(v ssa.Value) (*ssa.Call, int) {
	switch x := v.(type) {
	case *ssa.Call:
		if helperCallee(x) != nil {
			return x, 0
		}
	case *ssa.Extract:
		if c, ok := x.Tuple.(*ssa.Call); ok && helperCallee(c) != nil {
			return c, x.Index
		}
	}
	return nil, 0
}

// nilReturnsOf lists the returns of h whose result idx may be nil.
func nilReturnsOf(h *ssa.Function, idx int) []*ssa.Return {
	var out []*ssa.Return
	for _, rt := range Returns(h) {
		if idx >= len(rt.Results) {
			continue
		}
		v := rt.Results[idx]
		if c, ok := v.(*ssa.Const); ok {
			if c.Value == nil {
				out = append(out, rt.Instr)
			}
			continue
		}
		if HasFact(factsAtBlockOwn(rt.Instr.Block()), "!eq("+Render(v)+",nil)") {
			continue
		}
		// `if err == io.EOF { return .., err }`: equal to a package-level error value, hence non-nil
		eqErr := false
		for _, f := range factsAtBlockOwn(rt.Instr.Block()) {
			rv := Render(v)
			for _, pre := range []string{"eq(" + rv + ",", "eq("} {
				if !strings.HasPrefix(f.Atom, pre) {
					continue
				}
				other := strings.TrimSuffix(strings.TrimPrefix(f.Atom, pre), ")")
				if pre == "eq(" {
					if !strings.HasSuffix(other, ","+rv) {
						continue
					}
					other = strings.TrimSuffix(other, ","+rv)
				}
				if packageErrorValue.MatchString(other) {
					eqErr = true
				}
			}
		}
		if eqErr {
			continue
		}
		if _, isMk := v.(*ssa.MakeInterface); isMk {
			continue // a concrete value converted to an interface is never nil
		}
		if c, isCall := v.(*ssa.Call); isCall {
			switch calleeName(&c.Call) {
			case "fmt.Errorf", "errors.New", "errors.Errorf", "errors.Wrap", "errors.Wrapf":
				continue // constructors of non-nil errors
			}
		}
		if u, isLoad := v.(*ssa.UnOp); isLoad && u.Op == token.MUL {
			if _, isGlobal := u.X.(*ssa.Global); isGlobal {
				continue // package-level error values (ErrXxx) are non-nil
			}
		}
		out = append(out, rt.Instr)
	}
	return out
}

// withCallArgs runs f with the helper's parameters rendered as the arguments of call.
func withCallArgs(call *ssa.Call, f func()) {
	h := call.Call.StaticCallee()
	var set []*ssa.Parameter
	if h != nil {
		for i, q := range h.Params {
			if i < len(call.Call.Args) {
				if _, busy := paramSubst[q]; !busy {
					paramSubst[q] = call.Call.Args[i]
					set = append(set, q)
				}
			}
		}
	}
	defer func() {
		for _, q := range set {
			delete(paramSubst, q)
		}
	}()
	f()
}

// RenderAt renders v, a value of the function that call invokes, with that function's parameters
// replaced by the arguments of the call: the value as the caller would have written it. Rules
// about a quantity that crosses one private call boundary (which of the two functions selects
// the field is an implementation detail) compare this rendering.
func RenderAt(call ssa.CallInstruction, v ssa.Value) string {
	c, ok := call.(*ssa.Call)
	if !ok || c.Call.StaticCallee() == nil {
		return Render(v)
	}
	out := ""
	withCallArgs(c, func() { out = Render(v) })
	return out
}

// nilResultFacts: the facts that hold whenever result idx of the helper call is nil
// (intersection over the returns that may produce nil).
func nilResultFacts(call *ssa.Call, idx int) []string {
	h := call.Call.StaticCallee()
	rets := nilReturnsOf(h, idx)
	if len(rets) == 0 {
		return nil
	}
	var common map[string]bool
	withCallArgs(call, func() {
		for _, rt := range rets {
			m := map[string]bool{}
			for _, f := range factsAtBlockOwn(rt.Block()) {
				m[f.Atom] = true
			}
			if common == nil {
				common = m
				continue
			}
			for a := range common {
				if !m[a] {
					delete(common, a)
				}
			}
		}
	})
	var out []string
	for a := range common {
		out = append(out, a)
	}
	sort.Strings(out)
	return out
}

// inlineHelperResult renders result idx of a transparent helper call as the expression the helper
// returns, in the caller's terms, when that expression is the same on every return that does not
// return the zero constant for it (`val, err := check(...)`: on success check returns
// valSet.GetByIndex(idx)#1, on every failure nil). A value computed in a helper and handed back then
// renders like the value computed in place.
var inlineBusy = map[*ssa.Call]bool{}

func inlineHelperResult(call *ssa.Call, idx, d int) (string, bool) {
	if len(newHelpers) == 0 || inlineBusy[call] || d > 12 {
		return "", false
	}
	h := helperCallee(call)
	if h == nil {
		return "", false
	}
	// only value results: an error result keeps its call form (nil-ness facts are phrased on it)
	res := h.Signature.Results()
	if idx >= res.Len() || types.Identical(res.At(idx).Type(), types.Universe.Lookup("error").Type()) {
		return "", false
	}
	inlineBusy[call] = true
	defer delete(inlineBusy, call)
	var vals []ssa.Value
	for _, rt := range returnsOwn(h) {
		if idx >= len(rt.Results) {
			return "", false
		}
		v := rt.Results[idx]
		if c, ok := v.(*ssa.Const); ok && (c.Value == nil || c.IsNil()) {
			continue // zero/nil on a failure path
		}
		if c, ok := v.(*ssa.Const); ok && isZeroConst(c) && failingReturn(h, rt) {
			continue // `return 0, nil, err`: the zero value that accompanies an error
		}
		vals = append(vals, v)
	}
	if len(vals) == 0 {
		return "", false
	}
	out := ""
	okAll := true
	withCallArgs(call, func() {
		for i, v := range vals {
			s := render(v, d+1)
			if i == 0 {
				out = s
			} else if s != out {
				okAll = false
			}
		}
	})
	if !okAll {
		return "", false
	}
	return out, true
}

// isZeroConst: the zero value of a basic type.
func isZeroConst(c *ssa.Const) bool {
	if c.Value == nil {
		return true
	}
	switch c.Value.Kind() {
	case constant.Int, constant.Float, constant.Complex:
		return constant.Sign(c.Value) == 0
	case constant.String:
		return constant.StringVal(c.Value) == ""
	case constant.Bool:
		return !constant.BoolVal(c.Value)
	}
	return false
}

// failingReturn: the function's last result is an error and this return does not return the nil
// constant for it.
func failingReturn(h *ssa.Function, rt Ret) bool {
	res := h.Signature.Results()
	if res.Len() == 0 || !types.Identical(res.At(res.Len()-1).Type(), types.Universe.Lookup("error").Type()) {
		return false
	}
	last := rt.Results[len(rt.Results)-1]
	if c, ok := last.(*ssa.Const); ok && c.IsNil() {
		return false
	}
	return true
}

var packageErrorValue = regexp.MustCompile(`^[\w/]+\.(EOF|Err\w*|err[A-Z]\w*)$`)
