package ir

import (
	"go/token"

	"golang.org/x/tools/go/ssa"
)

// NonNilPathWithout answers a path-sensitive question by a backward search over
// the pruned CFG with SSA value identity:
//
//	is there a path from instruction `from` to the return `ret` that executes no
//	instruction matching `avoid`, and on which the value returned at result
//	index `idx` is not known to be nil?
//
// The returned value is followed backwards along the path: a phi is replaced by
// the operand of the edge taken, a load of a local variable by the last value
// stored on the path. A path is dropped when the followed value is the nil
// constant or when the path takes a branch edge that establishes `value == nil`
// for the value being followed (same SSA value, or a load of the same local with
// no store in between). Everything else (call results, globals, conversions) is
// "possibly non-nil". The answer is conservative in the direction of reporting.
func NonNilPathWithout(from ssa.Instruction, ret *ssa.Return, v ssa.Value, avoid func(ssa.Instruction) bool) (found bool, trace []int) {
	fn := ret.Parent()
	fi := Info(fn)
	type key struct {
		b   *ssa.BasicBlock
		v   ssa.Value
		sig string // branch constraints collected so far (plain boolean/comparison SSA values)
	}
	seen := map[key]bool{}
	var path []int

	isNil := func(x ssa.Value) bool {
		c, ok := x.(*ssa.Const)
		return ok && c.Value == nil
	}
	// local variable a value is a load of (or nil)
	loadOf := func(x ssa.Value) *ssa.Alloc {
		if u, ok := x.(*ssa.UnOp); ok && u.Op == token.MUL {
			if al, ok := u.X.(*ssa.Alloc); ok {
				return al
			}
		}
		return nil
	}
	same := func(a, b ssa.Value) bool {
		if a == b {
			return true
		}
		// look through interface conversions of the same operand
		if ma, ok := a.(*ssa.MakeInterface); ok {
			if mb, ok := b.(*ssa.MakeInterface); ok {
				return ma.X == mb.X
			}
		}
		la, lb := loadOf(a), loadOf(b)
		return la != nil && la == lb
	}
	// does taking edge p->b establish v == nil ?
	impliesNil := func(p, b *ssa.BasicBlock, v ssa.Value) bool {
		if len(p.Instrs) == 0 {
			return false
		}
		ifi, ok := p.Instrs[len(p.Instrs)-1].(*ssa.If)
		if !ok || len(p.Succs) != 2 {
			return false
		}
		taken := p.Succs[0] == b
		if p.Succs[0] == p.Succs[1] {
			return false
		}
		cond := ifi.Cond
		neg := false
		for {
			if u, ok := cond.(*ssa.UnOp); ok && u.Op == token.NOT {
				cond = u.X
				neg = !neg
				continue
			}
			break
		}
		bo, ok := cond.(*ssa.BinOp)
		if !ok || (bo.Op != token.EQL && bo.Op != token.NEQ) {
			return false
		}
		var x ssa.Value
		switch {
		case isNil(bo.Y):
			x = bo.X
		case isNil(bo.X):
			x = bo.Y
		default:
			return false
		}
		if !same(x, v) {
			return false
		}
		eqHolds := taken
		if bo.Op == token.NEQ {
			eqHolds = !eqHolds
		}
		if neg {
			eqHolds = !eqHolds
		}
		return eqHolds
	}

	// branch constraints: the same SSA condition value cannot be true on one edge of the path and
	// false on another (it is computed once), e.g. `if big || err != nil {revert}; if big && err == nil {..}`
	type cons struct {
		v   ssa.Value
		val bool
	}
	var constraints []cons
	inLoop := map[*ssa.BasicBlock]bool{}
	for _, l := range Loops(fn) {
		for b := range l.Body {
			inLoop[b] = true
		}
	}
	stable := func(cv ssa.Value) bool {
		// a condition computed inside a loop may differ between iterations
		if _, isPhi := cv.(*ssa.Phi); isPhi {
			return false
		}
		if in, ok := cv.(ssa.Instruction); ok && in.Block() != nil && inLoop[in.Block()] {
			return false
		}
		return true
	}
	edgeCond := func(p, b *ssa.BasicBlock) (ssa.Value, bool, bool) {
		if len(p.Instrs) == 0 || len(p.Succs) != 2 || p.Succs[0] == p.Succs[1] {
			return nil, false, false
		}
		ifi, ok := p.Instrs[len(p.Instrs)-1].(*ssa.If)
		if !ok {
			return nil, false, false
		}
		cond, val := ifi.Cond, p.Succs[0] == b
		for {
			if u, ok := cond.(*ssa.UnOp); ok && u.Op == token.NOT {
				cond, val = u.X, !val
				continue
			}
			break
		}
		return cond, val, true
	}
	sigOf := func() string {
		s := ""
		for _, c := range constraints {
			if c.val {
				s += c.v.Name() + "+"
			} else {
				s += c.v.Name() + "-"
			}
		}
		return s
	}
	var scan func(b *ssa.BasicBlock, idx int, v ssa.Value) bool
	scan = func(b *ssa.BasicBlock, idx int, v ssa.Value) bool {
		path = append(path, b.Index)
		defer func() { path = path[:len(path)-1] }()
		for k := idx - 1; k >= 0; k-- {
			in := b.Instrs[k]
			if in == from {
				trace = append([]int{}, path...)
				return true
			}
			if avoid(in) {
				return false
			}
			// a transparent helper that executes an avoided instruction on every path on which the
			// followed value (passed as an argument) may be non-nil acts like that instruction
			if h := helperCallee(in); h != nil && len(newHelpers) > 0 {
				call := in.(*ssa.Call)
				var pv ssa.Value = call // stands for "some non-nil value" when v is not passed
				for i, a := range call.Call.Args {
					if i < len(h.Params) && same(a, v) {
						pv = h.Params[i]
					}
				}
				always := true
				for _, hr := range Returns(h) {
					if f, _ := NonNilPathWithout(nil, hr.Instr, pv, avoid); f {
						always = false
					}
				}
				if always && len(Returns(h)) > 0 {
					return false
				}
			}
			if al := loadOf(v); al != nil {
				if st, ok := in.(*ssa.Store); ok && st.Addr == al {
					v = st.Val
					if isNil(v) {
						return false
					}
				}
			}
		}
		if isNil(v) {
			return false
		}
		if from == nil && b == fn.Blocks[0] {
			trace = append([]int{}, path...)
			return true // reached the function entry
		}
		for _, p := range fi.Preds[b] {
			if !fi.Reach[p] {
				continue
			}
			v2 := v
			if ph, ok := v.(*ssa.Phi); ok && ph.Block() == b {
				for i, q := range b.Preds {
					if q == p {
						v2 = ph.Edges[i]
					}
				}
			}
			if isNil(v2) {
				continue
			}
			if impliesNil(p, b, v2) {
				continue
			}
			pushed := false
			if cv, val, ok := edgeCond(p, b); ok {
				conflict := false
				known := false
				for _, c := range constraints {
					if c.v == cv {
						known = true
						if c.val != val {
							conflict = true
						}
					}
				}
				if conflict {
					continue // infeasible: the same condition value would have to be both true and false
				}
				if !known {
					// a condition computed inside a loop may differ between iterations: only values
					// that are not redefined on a cycle are stable; phis and loop-variant values are skipped
					if stable(cv) && len(constraints) < 12 {
						constraints = append(constraints, cons{cv, val})
						pushed = true
					}
				}
			}
			k := key{p, v2, sigOf()}
			if seen[k] {
				if pushed {
					constraints = constraints[:len(constraints)-1]
				}
				continue
			}
			seen[k] = true
			res := scan(p, len(p.Instrs), v2)
			if pushed {
				constraints = constraints[:len(constraints)-1]
			}
			if res {
				return true
			}
		}
		return false
	}
	idx := InstrIndex(ret)
	if scan(ret.Block(), idx, v) {
		// trace was recorded innermost-first (return block first): reverse to entry-first
		for i, j := 0, len(trace)-1; i < j; i, j = i+1, j-1 {
			trace[i], trace[j] = trace[j], trace[i]
		}
		return true, trace
	}
	return false, nil
}
