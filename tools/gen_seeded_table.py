#!/usr/bin/env python3
# Regenerates the seeded-change table of DESIGN.md (between SEEDED-BEGIN/END) from seeded/*/meta.json.
import json, glob, re, os
rows = []
for d in sorted(glob.glob('/verif/seeded/C[0-9][0-9]-[0-9]*')):
    name = os.path.basename(d)
    if not os.path.exists(d + '/patch.diff'):
        continue
    m = json.load(open(d + '/meta.json'))
    files = ', '.join('`%s`' % f for f in (m.get('files') or [])[:2])
    summ = (m.get('summary') or '').replace('|', '/').replace('\n', ' ')[:150]
    fr = {'missed': 'missed at first', 'caught': 'caught', 'indirect': 'missed at first (caught by another check)'}.get(m.get('first_run'), '?')
    key = (m.get('caught_by') or ['-'])[0].replace('|', '\\|')
    rows.append('| %s | %s | %s | %s | %s | `%s` |' % (name, m.get('round', '?'), files, summ, fr, key))
tab = '| seeded | round | files | change | first run | caught by (first key) |\n|---|---|---|---|---|---|\n' + '\n'.join(rows) + '\n'
p = '/verif/DESIGN.md'
s = open(p).read()
b, e = '<!-- SEEDED-BEGIN -->\n', '<!-- SEEDED-END -->\n'
if b in s:
    i, j = s.index(b) + len(b), s.index(e)
    s = s[:i] + tab + s[j:]
else:
    i = s.index('| seeded | files | change | first run |')
    j = i
    lines = s[i:].split('\n')
    n = 0
    for ln in lines:
        if ln.startswith('|'):
            n += len(ln) + 1
        else:
            break
    s = s[:i] + b + tab + e + s[i + n:]
open(p, 'w').write(s)
print('seeded table: %d rows' % len(rows))
