package props

import (
	"fmt"
	"strings"

	"golang.org/x/tools/go/ssa"

	"lkcheck/ir"
	"lkcheck/report"
)

func init() { Registry["C01"] = C01 }

const csT = "consensus.(*ConsensusState)."

// Rendered sub-expressions used by several consensus rules.
const (
	polkaOK      = "*VoteSet.TwoThirdsMajority(*HeightVoteSet.Prevotes(cs.RoundState.Votes,round))#1"
	polkaID      = "*VoteSet.TwoThirdsMajority(*HeightVoteSet.Prevotes(cs.RoundState.Votes,round))#0"
	commitMajOK  = "*VoteSet.TwoThirdsMajority(*HeightVoteSet.Precommits(cs.RoundState.Votes,cs.RoundState.CommitRound))#1"
	commitMajID  = "*VoteSet.TwoThirdsMajority(*HeightVoteSet.Precommits(cs.RoundState.Votes,cs.RoundState.CommitRound))#0"
	signAddVoteG = "*ConsensusState.signAddVote"
)

// C01 per-validator voting discipline (clause B of the design).
func C01(p *ir.Program, r *report.R) {
	c := C{p, r}
	voteSetAdmission(c)
	r.Floor = 60
	r.Explain = "Decided: the per-validator voting discipline in consensus/state.go — (B1) one prevote / one precommit per round: who may call signAddVote/signVote/PrivValidator.SignVote and with which vote type, at most one sign call per path, the re-entry guard of every enter* function interpreted over all orderings of (height, round, step), each enter* function sets its own step; (B2) a non-nil precommit is dominated by a polka of this round for that block id; (B3) no prevote against the lock, lock writers and unlock guards; (B4) commit guarded by +2/3 precommits, matching part-set header and block hash; (B5) stale timeouts ignored. ADDED after seeded-change testing: Quorum-intersection premises: a block id becomes a vote set's +2/3 majority only when its tally crosses total*2/3+1, once, and HasTwoThirdsAny is the strict two-thirds form (shared with C03). Round 6: the vote-admission rule of VoteSet.addVote (slot validator, address, signature) is checked here too. NOT decided: agreement across nodes and schedules (needs exploration of interleavings of several state machines — a different technique family), liveness, gossip."
	r.Trusted = []string{"go/types + go/ssa (x/tools v0.29.0)", "VoteSet arithmetic (decided under C03)", "FilePV (decided under C04)"}
	r.Assume = []string{"facts are branch conditions whose successor dominates the effect; a store to a compared field between guard and effect is not tracked except where stated", "cmn.Panic*/cmn.Exit never return"}

	prevote := c.ConstInt("types", "VoteTypePrevote")
	precommit := c.ConstInt("types", "VoteTypePrecommit")

	doPrevote := p.Func("consensus", "ConsensusState.defaultDoPrevote")
	enterPrecommit := p.Func("consensus", "ConsensusState.enterPrecommit")

	// ---- B1: who may sign, with which type -------------------------------
	c.WhoMayCall("consensus", "ConsensusState.signAddVote", csT+"defaultDoPrevote", csT+"enterPrecommit")
	c.WhoMayCall("consensus", "ConsensusState.signVote", csT+"signAddVote")
	c.WhoMayCall("consensus", "ConsensusState.defaultDoPrevote", csT+"NewConsensusState", "consensus.NewConsensusState")
	// the interface method PrivValidator.SignVote: callers inside the node
	{
		sv := p.Obj("types", "PrivValidator").Type().Underlying()
		_ = sv
		obj := p.Obj("types", "PrivValidator.SignVote")
		got := c.CallersOf(obj)
		// types.signAddVote is the vote helper of types/test_util.go (MakeCommit for tests), not node code
		allowed := map[string]bool{csT + "signVote": true, "types.signAddVote": true}
		var extra []string
		for g := range got {
			if !allowed[g] {
				extra = append(extra, g)
			}
		}
		r.Check("K3", "who-may-call/types.PrivValidator.SignVote", "-", len(extra) == 0,
			fmt.Sprintf("allowed %v; found %v", keys(map[string]int{csT + "signVote": 1}), keys(got)))
		objW := p.Obj("types", "PrivValidator.SignVoteWithoutSave")
		gotW := c.CallersOf(objW)
		r.Check("K3", "who-may-call/types.PrivValidator.SignVoteWithoutSave", "-", len(gotW) == 0,
			fmt.Sprintf("the non-persisting signer must have no caller in the node; found %v", keys(gotW)))
	}
	// vote types per caller
	for _, spec := range []struct {
		fn   *ssa.Function
		name string
		typ  int64
	}{{doPrevote, "defaultDoPrevote", prevote}, {enterPrecommit, "enterPrecommit", precommit}} {
		calls := ir.Calls(spec.fn, signAddVoteG)
		c.MustFind("K3", csT+spec.name+"/signAddVote-type", spec.fn, len(calls), "signAddVote call")
		for _, call := range calls {
			r.Check("K3", csT+spec.name+"/signAddVote-type", p.InstrPos(call), Arg(call, 1) == fmt.Sprint(spec.typ),
				fmt.Sprintf("vote type argument must be the constant %d, is %s", spec.typ, Arg(call, 1)))
		}
		c.AtMostOnce(csT+spec.name, spec.fn, "signAddVote", ir.CallMatcher(signAddVoteG))
	}
	// signVote builds the vote for the current height/round and signs via SignVote
	{
		sv := p.Func("consensus", "ConsensusState.signVote")
		calls := ir.Calls(sv, "*PrivValidator.SignVote")
		if c.MustFind("K1", csT+"signVote/SignVote", sv, len(calls), "PrivValidator.SignVote call") {
			r.Check("K1", csT+"signVote/single-sign", p.InstrPos(calls[0]), len(calls) == 1, "exactly one SignVote call")
		}
		all := ir.Calls(sv, "*PrivValidator.Sign*")
		r.Check("K1", csT+"signVote/only-SignVote", p.Pos(sv.Pos()), len(all) == len(calls), "no other Sign* method of the private validator is used for votes")
		// Height/Round of the signed vote are the state's current ones
		hf := p.Field("types", "Vote.Height")
		rf := p.Field("types", "Vote.Round")
		tf := p.Field("types", "Vote.Type")
		okH, okR, okT := false, false, false
		for _, s := range p.Stores(hf) {
			if s.Fn == sv && ir.Render(s.Val) == "cs.RoundState.Height" {
				okH = true
			}
		}
		for _, s := range p.Stores(rf) {
			if s.Fn == sv && ir.Render(s.Val) == "cs.RoundState.Round" {
				okR = true
			}
		}
		for _, s := range p.Stores(tf) {
			if s.Fn == sv && ir.Render(s.Val) == "type_" {
				okT = true
			}
		}
		r.Check("K4", csT+"signVote/vote.Height", p.Pos(sv.Pos()), okH, "vote.Height is cs.Height")
		r.Check("K4", csT+"signVote/vote.Round", p.Pos(sv.Pos()), okR, "vote.Round is cs.Round")
		r.Check("K4", csT+"signVote/vote.Type", p.Pos(sv.Pos()), okT, "vote.Type is the type_ parameter")
	}

	// ---- B1: re-entry guards (K6) ---------------------------------------
	c01EntryGuards(c)

	// writers of Round / Step / Height
	c.WhoMayWrite("consensus/types", "RoundState.Round", csT+"updateRoundStep")
	c.WhoMayWrite("consensus/types", "RoundState.Step", csT+"updateRoundStep")
	c.WhoMayWrite("consensus/types", "RoundState.Height", csT+"updateHeight")
	c.WhoMayCall("consensus", "ConsensusState.updateHeight", csT+"updateToStatus")

	// ---- B2: precommit for a block only on a polka of this round ---------
	{
		name := csT + "enterPrecommit"
		nonNil := 0
		for _, call := range ir.Calls(enterPrecommit, signAddVoteG) {
			if Arg(call, 2) == "nil" {
				r.Check("K1", name+"/precommit-nil/header-zero", p.InstrPos(call), strings.HasPrefix(Arg(call, 3), "zero:"), "nil precommit carries the zero part-set header: "+Arg(call, 3))
				continue
			}
			nonNil++
			c.Guards(name, "precommit-block", call,
				G{"polka", polkaOK},
				G{"polka-not-nil", "!*BlockID.IsZero(" + polkaID + ")"},
			)
			fs := ir.FactsAt(call)
			have := ir.HasFact(fs, "*Block.HashesTo(cs.RoundState.LockedBlock,*Hash.Bytes("+polkaID+".Hash))") ||
				ir.HasFact(fs, "*Block.HashesTo(cs.RoundState.ProposalBlock,*Hash.Bytes("+polkaID+".Hash))")
			r.Check("K1", name+"/precommit-block/have-block", p.InstrPos(call), have, "precommit for a block requires LockedBlock or ProposalBlock to hash to the polka's block id")
			r.Check("K1", name+"/precommit-block/hash-arg", p.InstrPos(call), ir.Match("*Hash.Bytes("+polkaID+".Hash)", Arg(call, 2)), "hash argument must be the polka block id's hash, is "+Arg(call, 2))
			r.Check("K1", name+"/precommit-block/header-arg", p.InstrPos(call), ir.Match(polkaID+".PartsHeader", Arg(call, 3)), "header argument must be the polka block id's parts header, is "+Arg(call, 3))
		}
		c.MustFind("K1", name+"/precommit-block", enterPrecommit, nonNil, "non-nil precommit")
	}

	// ---- B3: no prevote against the lock ---------------------------------
	{
		name := csT + "defaultDoPrevote"
		for _, call := range ir.Calls(doPrevote, signAddVoteG) {
			isLock := ir.Match("*Hash.Bytes(*Block.Hash(cs.RoundState.LockedBlock))", Arg(call, 2)) &&
				ir.Match("*PartSet.Header(cs.RoundState.LockedBlockParts)", Arg(call, 3))
			if isLock {
				c.Guards(name, "prevote-locked", call, G{"locked", "!eq(cs.RoundState.LockedBlock,nil)"})
				continue
			}
			c.Guards(name, "prevote-other", call, G{"not-locked", "eq(cs.RoundState.LockedBlock,nil)"})
			if Arg(call, 2) != "nil" {
				r.Check("K1", name+"/prevote-proposal/hash-arg", p.InstrPos(call),
					ir.Match("*Hash.Bytes(*Block.Hash(cs.RoundState.ProposalBlock))", Arg(call, 2)) && ir.Match("*PartSet.Header(cs.RoundState.ProposalBlockParts)", Arg(call, 3)),
					"a non-nil prevote that is not for the locked block must be for ProposalBlock/ProposalBlockParts: "+Arg(call, 2))
				c.Guards(name, "prevote-proposal", call, G{"have-proposal", "!eq(cs.RoundState.ProposalBlock,nil)"})
			}
		}
	}
	// lock writers
	for _, f := range []string{"LockedRound", "LockedBlock", "LockedBlockParts"} {
		stores := c.WhoMayWrite("consensus/types", "RoundState."+f, csT+"updateToStatus", csT+"enterPrecommit", csT+"addVote")
		for _, s := range stores {
			top := ir.FuncName(ir.EnclosingTop(s.Fn))
			switch top {
			case csT + "enterPrecommit":
				c.GuardsS(top, "write "+f, s, G{"polka", polkaOK})
				if f == "LockedBlock" && ir.Render(s.Val) != "nil" {
					r.Check("K1", top+"/lock/value", p.InstrPos(s.Instr), ir.Render(s.Val) == "cs.RoundState.ProposalBlock", "the only block that may be locked is ProposalBlock: "+ir.Render(s.Val))
					c.GuardsS(top, "lock", s,
						G{"polka-not-nil", "!*BlockID.IsZero(" + polkaID + ")"},
						G{"proposal-is-polka-block", "*Block.HashesTo(cs.RoundState.ProposalBlock,*Hash.Bytes(" + polkaID + ".Hash))"})
				}
				if f == "LockedRound" && ir.Render(s.Val) != "0" {
					r.Check("K1", top+"/lock/round", p.InstrPos(s.Instr), ir.Render(s.Val) == "round", "LockedRound is set to the polka's round: "+ir.Render(s.Val))
				}
			case csT + "addVote":
				r.Check("K1", top+"/unlock/value "+f, p.InstrPos(s.Instr), ir.Render(s.Val) == "nil" || ir.Render(s.Val) == "0", "addVote may only clear the lock: "+ir.Render(s.Val))
				pv := "*VoteSet.TwoThirdsMajority(*HeightVoteSet.Prevotes(cs.RoundState.Votes,vote.Round))"
				c.GuardsS(top, "unlock "+f, s,
					G{"polka", pv + "#1"},
					G{"locked", "!eq(cs.RoundState.LockedBlock,nil)"},
					G{"later-round", "lt(cs.RoundState.LockedRound,vote.Round)"},
					G{"not-future", "le(vote.Round,cs.RoundState.Round)"},
					G{"different-block", "!*Block.HashesTo(cs.RoundState.LockedBlock,*Hash.Bytes(" + pv + "#0.Hash))"})
			}
		}
	}

	// ---- B4: commit guards ----------------------------------------------
	{
		fin := p.Func("consensus", "ConsensusState.finalizeCommit")
		name := csT + "finalizeCommit"
		n := 0
		for _, g := range []string{"*BlockChainApp.CommitBlock", "*BlockExecutor.ApplyBlock"} {
			for _, call := range ir.Calls(fin, g) {
				n++
				c.Guards(name, "call "+strings.TrimPrefix(g, "*"), call,
					G{"height", "eq(cs.RoundState.Height,height)"},
					G{"step-commit", "eq(cs.RoundState.Step," + fmt.Sprint(c.ConstInt("consensus/types", "RoundStepCommit")) + ")"},
					G{"+2/3-precommits", commitMajOK},
					G{"parts-header", "*PartSet.HasHeader(cs.RoundState.ProposalBlockParts," + commitMajID + ".PartsHeader)"},
					G{"block-hash", "*Block.HashesTo(cs.RoundState.ProposalBlock,*Hash.Bytes(" + commitMajID + ".Hash))"},
				)
				r.Check("K1", name+"/call "+strings.TrimPrefix(g, "*")+"/block-arg", p.InstrPos(call),
					strings.Contains(ir.RenderCall(call), "cs.RoundState.ProposalBlock"), "the block committed/applied is cs.ProposalBlock: "+short(ir.RenderCall(call), 200))
			}
		}
		c.MustFind("K1", name+"/commit-calls", fin, n, "CommitBlock/ApplyBlock calls")
		for _, call := range ir.Calls(fin, "*BlockChainApp.CommitBlock") {
			r.Check("K1", name+"/CommitBlock/seen-commit", p.InstrPos(call),
				ir.Match("*VoteSet.MakeCommit(*HeightVoteSet.Precommits(cs.RoundState.Votes,cs.RoundState.CommitRound))", Arg(call, 3)),
				"seen commit is built from the precommits of CommitRound: "+Arg(call, 3))
		}
		tf := p.Func("consensus", "ConsensusState.tryFinalizeCommit")
		for _, call := range ir.Calls(tf, "*ConsensusState.finalizeCommit") {
			c.Guards(csT+"tryFinalizeCommit", "call finalizeCommit", call,
				G{"+2/3-precommits", commitMajOK},
				G{"not-nil", "!*BlockID.IsZero(" + commitMajID + ")"},
				G{"block-hash", "*Block.HashesTo(cs.RoundState.ProposalBlock,*Hash.Bytes(" + commitMajID + ".Hash))"})
		}
		c.WhoMayCall("consensus", "ConsensusState.finalizeCommit", csT+"tryFinalizeCommit")
		c.WhoMayCall("consensus", "ConsensusState.enterCommit", csT+"addVote")
		av := p.Func("consensus", "ConsensusState.addVote")
		pc := "*VoteSet.TwoThirdsMajority(*HeightVoteSet.Precommits(cs.RoundState.Votes,vote.Round))"
		for _, call := range ir.Calls(av, "*ConsensusState.enterCommit") {
			c.Guards(csT+"addVote", "call enterCommit", call,
				G{"+2/3-precommits", pc + "#1"},
				G{"not-nil", ir.NePat(pc+"#0.Hash", "common.EmptyHash")},
				G{"vote-added", "*HeightVoteSet.AddVote(cs.RoundState.Votes,vote,peerID)#0"},
				G{"same-height", "eq(cs.RoundState.Height,vote.Height)"})
			r.Check("K1", csT+"addVote/call enterCommit/round", p.InstrPos(call), Arg(call, 2) == "vote.Round", "commit round is the round of the +2/3 precommits: "+Arg(call, 2))
		}
		// enterCommit panics without +2/3
		ec := p.Func("consensus", "ConsensusState.enterCommit")
		for _, s := range p.Stores(p.Field("consensus/types", "RoundState.ProposalBlock")) {
			if s.Fn == ec {
				c.GuardsS(csT+"enterCommit", "write ProposalBlock", s,
					G{"+2/3-precommits", "*VoteSet.TwoThirdsMajority(*HeightVoteSet.Precommits(cs.RoundState.Votes,commitRound))#1"})
			}
		}
		// CommitRound writers
		// the reactor resets CommitRound to -1 immediately before updateToStatus when consensus is (re)started
		for _, s := range c.WhoMayWrite("consensus/types", "RoundState.CommitRound", csT+"enterCommit", csT+"updateToStatus",
			"consensus.(*ConsensusReactor).SwitchToConsensus", "consensus.(*ConsensusReactor).StartTheWorld") {
			if strings.Contains(ir.FuncName(s.Fn), "ConsensusReactor") {
				r.Check("K3", "reset-only/"+ir.FuncName(s.Fn)+"/CommitRound", p.InstrPos(s.Instr), ir.Render(s.Val) == "-1", "the reactor may only reset CommitRound to -1: "+ir.Render(s.Val))
			}
		}
	}

	// ---- B5: stale timeouts ------------------------------------------------
	{
		ht := p.Func("consensus", "ConsensusState.handleTimeout")
		d := ir.Domain{Axes: []ir.Axis{
			ir.EqAxis("H", "ti.Height", "rs.Height"),
			ir.OrderAxis("R", "ti.Round", "rs.Round"),
			ir.OrderAxis("S", "ti.Step", "rs.Step"),
		}}
		rows := ir.Enumerate(ht, d, ir.InterpOpts{StopAtEffect: true})
		c.Table(csT+"handleTimeout/stale-guard", ht, rows, func(row ir.Row) string {
			if row.Has("H≠") || row.Has("R<") || (row.Has("R=") && row.Has("S<")) {
				return "return"
			}
			return "proceeds"
		}, func(row ir.Row) string { return row.Outcome.Kind })
		r.Extra["handleTimeout_table"] = rowsSample(rows, 18)
	}

	// ---- a precommit for a block carries the lock forward to this round ---------------------------------
	// Both block-precommit branches of enterPrecommit (re-lock on the locked block, lock on the proposal
	// block) set cs.LockedRound = round before signing: a lock that keeps an older round number is
	// released by a delayed polka of a round in between (LockedRound < vote.Round in addVote).
	{
		ep := p.Func("consensus", "ConsensusState.enterPrecommit")
		isLR := func(in ssa.Instruction) bool {
			st, ok := in.(*ssa.Store)
			return ok && ir.Render(st.Addr) == "&cs.RoundState.LockedRound" && ir.Render(st.Val) == "round"
		}
		n := 0
		for _, call := range ir.Calls(ep, signAddVoteG) {
			if Arg(call, 2) == "nil" {
				continue
			}
			n++
			in := call.(ssa.Instruction)
			found, _, tr := ir.FindPath(ir.PathQuery{From: ir.Entry(ep), Target: func(x ssa.Instruction) bool { return x == in }, Avoid: isLR})
			r.Check("K2", csT+"enterPrecommit/precommit block/lock-round-refreshed", p.InstrPos(in), !found, fmt.Sprintf("every path to a precommit for a block passes cs.LockedRound = round; path without it: %v", tr))
		}
		c.MustFind("K2", csT+"enterPrecommit/precommit block", ep, n, "precommit for a block")
	}

	// ---- quorum intersection premises (decided in detail under C03) ---------------------------
	quorumRules(c)
	// a commit decided elsewhere is adopted (fast sync, last commit of a block) only through VerifyCommit
	verifyCommitTally(c)
	// polka rule "in that round": no step of a later round before that round was entered (shared with C17)
	roundEnteredBeforeStep(c)
}

// c01EntryGuards interprets the first guard of each enter* function over
// {height =,≠} × {round <,=,>} × {Step in 1..9}.
func c01EntryGuards(c C) {
	p, r := c.P, c.R
	steps := []int64{}
	stepName := map[int64]string{}
	for _, n := range []string{"NewHeight", "NewRound", "Propose", "Prevote", "PrevoteWait", "Precommit", "PrecommitWait", "Commit", "Recover"} {
		v := c.ConstInt("consensus/types", "RoundStep"+n)
		steps = append(steps, v)
		stepName[v] = n
	}
	type spec struct {
		fn      string
		own     string // own step constant
		roundP  string // name of round parameter
		special string
	}
	specs := []spec{
		{"enterNewRound", "NewRound", "round", "newround"},
		{"enterPropose", "Propose", "round", ""},
		{"enterPrevote", "Prevote", "round", ""},
		{"enterPrevoteWait", "PrevoteWait", "round", ""},
		{"enterPrecommit", "Precommit", "round", ""},
		{"enterPrecommitWait", "PrecommitWait", "round", ""},
		{"enterCommit", "Commit", "commitRound", "commit"},
	}
	for _, s := range specs {
		fn := p.Func("consensus", "ConsensusState."+s.fn)
		own := c.ConstInt("consensus/types", "RoundStep"+s.own)
		d := ir.Domain{Axes: []ir.Axis{
			ir.EqAxis("H", "cs.RoundState.Height", "height"),
			ir.OrderAxis("R", s.roundP, "cs.RoundState.Round"),
			ir.EnumAxis("Step", "cs.RoundState.Step", steps),
		}}
		rows := ir.Enumerate(fn, d, ir.InterpOpts{StopAtEffect: true})
		c.Table(csT+s.fn+"/entry-guard", fn, rows, func(row ir.Row) string {
			var step int64
			for _, l := range row.Labels {
				if strings.HasPrefix(l, "Step=") {
					fmt.Sscanf(l, "Step=%d", &step)
				}
			}
			var proceed bool
			switch s.special {
			case "newround":
				proceed = row.Has("H=") && (row.Has("R>") || (row.Has("R=") && step == c.ConstInt("consensus/types", "RoundStepNewHeight")))
			case "commit":
				proceed = row.Has("H=") && step < own
			default:
				proceed = row.Has("H=") && (row.Has("R>") || (row.Has("R=") && step < own))
			}
			if proceed {
				return "proceeds"
			}
			return "return"
		}, func(row ir.Row) string { return row.Outcome.Kind })
		if s.fn == "enterPrecommit" {
			r.Extra["enterPrecommit_guard_table"] = rowsSample(rows, 18)
		}
		// own step is set on exit
		found := 0
		ir.InstrsDeep(fn, func(f *ssa.Function, in ssa.Instruction) {
			call, ok := in.(ssa.CallInstruction)
			if !ok || !ir.Match("*ConsensusState.updateRoundStep", ir.CalleeName(call)) {
				return
			}
			found++
			wantRound := s.roundP
			if s.special == "commit" {
				wantRound = "cs.RoundState.Round"
			}
			r.Check("K2", csT+s.fn+"/sets-own-step", p.InstrPos(in), Arg(call, 2) == fmt.Sprint(own) && Arg(call, 1) == wantRound,
				fmt.Sprintf("updateRoundStep(%s, %d=%s) expected, found updateRoundStep(%s, %s)", wantRound, own, s.own, Arg(call, 1), Arg(call, 2)))
			// it must run on every path that proceeds: either deferred before any effect, or executed directly
			if f != fn {
				// inside a closure: the closure must be deferred in fn and that defer must dominate every vote/transition call
				var def ssa.Instruction
				ir.Instrs(fn, func(x ssa.Instruction) {
					if dfr, ok := x.(*ssa.Defer); ok {
						if mc, ok := dfr.Call.Value.(*ssa.MakeClosure); ok && mc.Fn == f {
							def = x
						}
					}
				})
				if def == nil {
					r.Check("K2", csT+s.fn+"/step-update-deferred", p.InstrPos(in), false, "closure containing updateRoundStep is not deferred")
					return
				}
				okAll := true
				var bad string
				for _, call := range ir.Calls(fn, "*ConsensusState.*") {
					n := ir.CalleeName(call)
					if call == def || strings.HasSuffix(n, "isProposalComplete") || strings.HasSuffix(n, "RoundStateEvent") {
						continue
					}
					if !ir.Precedes(def, call) {
						okAll = false
						bad = n + "@" + p.InstrPos(call)
					}
				}
				r.Check("K2", csT+s.fn+"/step-update-deferred", p.InstrPos(def), okAll, "the deferred step update is installed before every state-machine call of the function; offending: "+bad)
			}
		})
		c.MustFind("K2", csT+s.fn+"/sets-own-step", fn, found, "updateRoundStep call")
	}
}

var _ = report.Discharged
