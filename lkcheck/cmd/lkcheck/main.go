// lkcheck decides structural clauses of the linkchain properties C01..C20 from
// /repo's current source (type-checked program + SSA), without running it.
package main

import (
	"flag"
	"fmt"
	"os"
	"path/filepath"
	"runtime/debug"
	"strconv"

	"lkcheck/ir"
	"lkcheck/props"
	"lkcheck/report"
)

func main() {
	prop := flag.String("prop", "", "property id (C01..C20)")
	tier := flag.String("tier", "quick", "quick|thorough")
	repo := flag.String("repo", "/repo", "repository root")
	verif := flag.String("verif", "/verif", "verif root (evidence, known findings)")
	dump := flag.String("dump", "", "debug: dump facts/calls of function pkg:Name (e.g. consensus:ConsensusState.enterPrecommit)")
	overlay := flag.String("overlay", "", "self-test: file=replacement pairs (path=path,...)")
	noEvidence := flag.Bool("list", false, "print all obligations")
	flag.Parse()

	seed := 0
	if s := os.Getenv("VERIF_SEED"); s != "" {
		seed, _ = strconv.Atoi(s)
	}
	cfg := ir.Config{Dir: *repo}
	if *overlay != "" {
		cfg.Overlay = map[string][]byte{}
		for _, kv := range filepath.SplitList(*overlay) {
			for i := 0; i < len(kv); i++ {
				if kv[i] == '=' {
					b, err := os.ReadFile(kv[i+1:])
					if err != nil {
						fmt.Fprintln(os.Stderr, err)
						os.Exit(2)
					}
					cfg.Overlay[kv[:i]] = b
					break
				}
			}
		}
	}
	p, err := ir.Load(cfg)
	if err != nil {
		fmt.Fprintln(os.Stderr, "lkcheck: load failed:", err)
		os.Exit(2)
	}
	if len(p.Pkgs) < 85 {
		fmt.Fprintf(os.Stderr, "lkcheck: only %d module packages loaded (floor 85)\n", len(p.Pkgs))
		os.Exit(2)
	}
	if *dump != "" {
		props.Dump(p, *dump)
		return
	}
	fn := props.Registry[*prop]
	if fn == nil {
		fmt.Fprintf(os.Stderr, "lkcheck: unknown property %q\n", *prop)
		os.Exit(2)
	}
	r := report.New(*prop, *tier, seed)
	r.Note("loaded %d module packages (%d with dependencies), %d functions with bodies, 0 type errors", len(p.Pkgs), p.NumAll, len(p.Funcs))
	code := func() (code int) {
		defer func() {
			if e := recover(); e != nil {
				if u, ok := e.(ir.Unresolved); ok {
					fmt.Fprintln(os.Stderr, "lkcheck:", u.Error())
				} else {
					fmt.Fprintf(os.Stderr, "lkcheck: analysis panic: %v\n%s\n", e, debug.Stack())
				}
				code = 2
			}
		}()
		fn(p, r)
		return -1
	}()
	if code == 2 {
		os.Exit(2)
	}
	known, err := report.LoadKnown(filepath.Join(*verif, "known_findings.json"))
	if err != nil {
		fmt.Fprintln(os.Stderr, "lkcheck: known findings:", err)
		os.Exit(2)
	}
	if *noEvidence {
		for _, o := range r.Obls {
			fmt.Printf("%-11s %s  %s  %s\n", o.Status, o.Key, o.Pos, o.Detail)
		}
	}
	os.Exit(r.Finish(*verif, known))
}
