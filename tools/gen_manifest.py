#!/usr/bin/env python3
"""Regenerates /verif/MANIFEST.json from the table below (keeps it schema-valid)."""
import json, os, sys
HERE = os.path.dirname(os.path.dirname(os.path.abspath(__file__)))

# id -> (claim text, level note, technique, design section)
CLAIMED = {}
NOT_APPLICABLE = {}

def claim(pid, text, note, technique):
    CLAIMED[pid] = (text, note, technique)

def na(pid, reason):
    NOT_APPLICABLE[pid] = reason

exec(open(os.path.join(HERE, "tools", "claims.py")).read())

checks = []
for pid in sorted(CLAIMED):
    text, note, tech = CLAIMED[pid]
    checks.append({
        "property_id": pid,
        "quick_cmd": f"./check {pid} quick",
        "thorough_cmd": f"./check {pid} thorough",
        "evidence_file": f"/verif/evidence/{pid}.json",
        "replay_cmd_template": f"./check {pid} --replay {{path}}",
        "engine": "lkcheck",
        "level_claimed": {"category": "other", "text": text, "design_ref": f"DESIGN.md section 4 ({pid}) and section 8.2/8.8 (as built, rules added after seeded-change testing)"},
        "level_note": note + " The exact list of clauses decided by the committed checker, including the rules added after seeded-change testing, is the coverage.explanation of the evidence file; the thorough tier additionally re-applies the self-test variants of selftest/" + pid + ".json and the stored seeded patches seeded/" + pid + "-*/patch.diff as overlays and requires the named obligations to fail.",
        "technique": tech + "; plus the regression rules run for every property over the functions and types of its anchor files, each against a committed reference table inferred from the reviewed tree: error-report regression and error identity (K8), lock pairing and guarded-by fields (K10), field coverage of constructors/copies/resets (K4), deferred cleanup (K2). No code of /repo is executed, concretely or symbolically.",
    })

props = [json.loads(l)["id"] for l in open(os.path.join(HERE, "properties.jsonl"))]
missing = [p for p in props if p not in CLAIMED and p not in NOT_APPLICABLE]
if missing:
    sys.exit(f"properties neither claimed nor not_applicable: {missing}")

m = {
    "version": 1,
    "setup_cmd": "./check build",
    "hooks": {
        "guard": "verif",
        "enable": "none needed: static analysis reads /repo's source as it is; no hook or instrumentation exists",
        "baseline_off_cmd": json.load(open("/root/.vp/BASELINE.json"))["cmd"],
        "source_commits": [],
        "add_only": True,
    },
    "engines": [{
        "name": "lkcheck",
        "path": "/verif/lkcheck",
        "serves_properties": sorted(CLAIMED),
        "kind_free_text": "repository-specific static analyser (go/packages + go/ssa, x/tools v0.29.0): guard dominance, must-pass-through paths, who-may-write/call indexes, field coverage, sibling agreement, comparison-only abstract interpretation, determinism lint, error discipline, panic-sink taint, lockset",
    }],
    "checks": checks,
    "notes": "quick = all obligations on the current tree; thorough = quick plus the rule self-test (overlay variants, never touches /repo, a missed variant is a note and not a verdict). Every check loads and type-checks /repo's current working tree on every run (no cached verdicts), decides structural necessary conditions of the property (level 'other'), prints KNOWN-FINDING lines for triaged genuine defects listed in /verif/known_findings.json and VIOLATION lines for anything else. Exit 2 = the checker itself could not run (load/type error, unresolved anchor).",
    "not_applicable": [{"property_id": p, "reason": NOT_APPLICABLE[p]} for p in sorted(NOT_APPLICABLE)],
}
json.dump(m, open(os.path.join(HERE, "MANIFEST.json"), "w"), indent=1)
print("MANIFEST.json:", len(checks), "checks,", len(NOT_APPLICABLE), "not applicable")
