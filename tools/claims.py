# Per-property claims. exec()'d by gen_manifest.py. claim(id, text, note, technique) / na(id, reason)
PENDING = "check not implemented yet in this round (see DESIGN.md section 4 for the planned structural clauses)"
TB = " Trusted base: go/packages+go/types+go/ssa of x/tools v0.29.0, the rule tables in /verif/lkcheck/props, cgo/third-party code outside the module."
STATIC = "static analysis of /repo's type-checked SSA: "

claim("C01",
  "Structural necessary conditions of the per-validator voting discipline, decided on every path of consensus/state.go: who may sign votes and with which type, at most one sign call per path, exhaustive interpretation of every enter* re-entry guard and of the stale-timeout guard over all orderings of (height, round, step), own-step update on exit, polka/lock/commit guards dominating every non-nil precommit, lock write and commit call with provenance of the block id. This is what a static tool can decide of C01; cross-node agreement over schedules is NOT decided.",
  "Agreement across nodes and message schedules, liveness and the gossip layer are outside what static analysis can bound; VoteSet arithmetic is decided under C03, cross-restart signing under C04." + TB,
  STATIC + "guard dominance (K1), must-pass/at-most-once CFG paths (K2), who-may-call/write indexes (K3), comparison-only abstract interpretation of guards (K6)")

claim("C12",
  "Structural necessary conditions: Header.Hash covers every exported header field under its own name (field list taken from the struct type, so a new field is noticed); block ids compared whole; Block.ValidateBasic binds the derived hashes to content on every nil-error path; list hashes cover every element; PartSet.AddPart admits a part only under 0<=index<total, empty slot and Merkle proof of the part's own hash at its own index under the set hash; the proposal block is decoded only from a complete set read in index order; part sets are created only from signature-checked or +2/3 block ids. Collision resistance and byte equality are not decided.",
  "Hash functions are trusted; Header.Recover is exempt from the header hash (committed through the part-set hash, compared by every block-id comparison)." + TB,
  STATIC + "field coverage from types.Struct (K4), guard dominance (K1), sibling/shape agreement (K5), who-may-write (K3), truth-table interpretation of Equals/Verify (K6)")

for _p in ["C%02d" % i for i in range(1, 21)]:
    if _p not in CLAIMED:
        na(_p, PENDING)
