package props

import (
	"fmt"
	"go/token"
	"regexp"
	"sort"
	"strings"

	"golang.org/x/tools/go/ssa"

	"lkcheck/ir"
	"lkcheck/report"
)

func init() { Registry["C03"] = C03 }

// accumulators finds the additions that feed the loop phi / field named name
// (`x += v` lowered to a BinOp ADD whose one operand is the phi).
func accumulators(fn *ssa.Function, name string) []*ssa.BinOp {
	var out []*ssa.BinOp
	ir.Instrs(fn, func(in ssa.Instruction) {
		b, ok := in.(*ssa.BinOp)
		if !ok || b.Op.String() != "+" {
			return
		}
		if ph, ok := b.X.(*ssa.Phi); ok && ir.LocalName(ph.Parent(), ph.Comment) == name {
			out = append(out, b)
		}
	})
	return out
}

// twoThirds reports whether the atom states "x is strictly more than two
// thirds of T" in one of the accepted normal forms (K11).
func twoThirds(atom, T, x string) bool {
	q := "((" + T + " * 2) / 3)"
	for _, f := range []string{
		"lt(" + q + "," + x + ")",
		"le((" + q + " + 1)," + x + ")",
		"lt((" + T + " * 2),(" + x + " * 3))",
		"lt((2 * " + T + "),(3 * " + x + "))",
	} {
		if atom == f {
			return true
		}
	}
	return false
}

func hasTwoThirds(fs []ir.Fact, T, x string) bool {
	for _, f := range fs {
		if twoThirds(f.Atom, T, x) {
			return true
		}
	}
	return false
}

// C03 only >2/3 correctly signed power for that exact block is a commit.
func C03(p *ir.Program, r *report.R) {
	c := C{p, r}
	r.Floor = 70
	r.Explain = "Decided: in ValidatorSet.VerifyCommit the tally increment is dominated by precommit!=nil, height/round/type equality, signature verification with the public key of the validator AT THE SAME SLOT over the sign-bytes of the same precommit and chain id, and block-id equality; the amount added is that validator's power; the nil-error return is dominated by the strict two-thirds normal form and the size/height tests. In VoteSet.addVote the admission call is dominated by index/address/size/height/round/type/lookup/signature guards; addVerifiedVote counts a validator once in the round total and once per block id and sets maj23 only at the first crossing; quorum expressions match the strict-two-thirds normal forms; sign-bytes cover chain id, height, round, type and the whole block id; every VerifyCommit call site uses the right set/height/id and propagates the error. ADDED after seeded-change testing: Fast sync: the block id handed to VerifyCommit is built from the first block itself (hash and part-set header), the height is the first block's, the commit is the second block's LastCommit, and CheckBlock/CommitBlock/ApplyBlock receive that same block, id and commit. Rounds 4-5: the block-id map key is lossless; votes are counted over the round's validators; the power added to the tallies, seen across the addVote/addVerifiedVote call, is the slot validator's. Round 6: an ErrVoteConflictingVotes wrapped in the function that creates it is a lost identity too. NOT decided: the signature scheme, int64 overflow beyond the quantifier's 2^62 bound, arrival-order behaviour beyond the single-count structure."
	r.Trusted = []string{"crypto.PubKey.VerifyBytes (signature scheme)", "ValidatorSet.TotalVotingPower / GetByIndex (C17 decides writers of the set)"}

	precommitT := fmt.Sprint(c.ConstInt("types", "VoteTypePrecommit"))

	// ---- VerifyCommit tally ------------------------------------------------
	verifyCommitTally(c)

	// ---- VoteSet.addVote admission ---------------------------------------
	voteSetAdmission(c)

	// ---- addVerifiedVote structure ----------------------------------------
	{
		fn := p.Func("types", "VoteSet.addVerifiedVote")
		name := "types.(*VoteSet).addVerifiedVote"
		sumStores := c.WhoMayWrite("types", "VoteSet.sum", name, "types.NewVoteSet")
		for _, s := range sumStores {
			if s.Fn != fn {
				continue
			}
			c.GuardsS(name, "sum+=", s, G{"first-vote-of-validator", "eq(voteSet.votes[vote.ValidatorIndex],nil)"})
			amt := "?"
			if bo, ok := s.Val.(*ssa.BinOp); ok && bo.Op == token.ADD && ir.Render(bo.X) == "voteSet.sum" {
				for _, call := range ir.Calls(p.Func("types", "VoteSet.addVote"), "types.VoteSet.addVerifiedVote") {
					amt = ir.RenderAt(call, bo.Y)
				}
			}
			r.Check("K1", name+"/sum+=/amount", p.InstrPos(s.Instr), amt == "types.ValidatorSet.GetByIndex(voteSet.valSet,vote.ValidatorIndex)#1.VotingPower", "round total grows by the voting power of the slot validator (seen from addVote): sum + "+amt)
		}
		c.MustFind("K1", name+"/sum+=", fn, len(sumStores), "store to voteSet.sum")
		for _, s := range c.WhoMayWrite("types", "VoteSet.maj23", name, "types.NewVoteSet") {
			if s.Fn != fn {
				r.Check("K3", "types.NewVoteSet/init "+s.Field.Name(), p.InstrPos(s.Instr), ir.Render(s.Val) == "nil", "constructor initialises maj23 to nil")
				continue
			}
			q := "((types.ValidatorSet.TotalVotingPower(voteSet.valSet) * 2) / 3) + 1)"
			c.GuardsS(name, "set maj23", s,
				G{"first-majority-only", "eq(voteSet.maj23,nil)"},
				G{"crossing:before<quorum", "lt(*.sum,(" + q + ")"},
				G{"crossing:quorum<=after", "le((" + q + ",*.sum)"},
			)
			r.Check("K1", name+"/set maj23/value", p.InstrPos(s.Instr), strings.Contains(ir.Render(s.Val), "vote.BlockID") || strings.Contains(ir.Render(s.Val), "maj23BlockID"), "maj23 is the block id of the vote that crossed: "+ir.Render(s.Val))
		}
		// per-block tally
		bv := p.Func("types", "blockVotes.addVerifiedVote")
		bs := c.WhoMayWrite("types", "blockVotes.sum", "types.(*blockVotes).addVerifiedVote", "types.newBlockVotes")
		for _, s := range bs {
			if s.Fn != bv {
				continue
			}
			c.GuardsS("types.(*blockVotes).addVerifiedVote", "sum+=", s, G{"first-vote-of-validator-for-block", "eq(vs.votes[vote.ValidatorIndex],nil)"})
			r.Check("K1", "types.(*blockVotes).addVerifiedVote/sum+=/amount", p.InstrPos(s.Instr), ir.Render(s.Val) == "(vs.sum + votingPower)", "block tally grows by the vote's power: "+ir.Render(s.Val))
		}
		// the slot is filled when counted
		okSlot := false
		for _, s := range p.Stores(p.Field("types", "blockVotes.votes")) {
			if s.Fn == bv && s.Kind == "elem" && ir.Render(s.Val) == "vote" {
				okSlot = true
			}
		}
		r.Check("K2", "types.(*blockVotes).addVerifiedVote/slot-filled", p.Pos(bv.Pos()), okSlot, "vs.votes[valIndex] = vote in the counting branch (makes the once-per-block guard effective)")
		okSlot2 := 0
		for _, s := range p.Stores(p.Field("types", "VoteSet.votes")) {
			if s.Fn == fn && s.Kind == "elem" {
				okSlot2++
			}
		}
		r.Check("K2", name+"/slot-filled", p.Pos(fn.Pos()), okSlot2 >= 2, "voteSet.votes[valIndex] is filled when the validator is first counted")
	}
	// ---- thresholds ------------------------------------------------------------
	{
		fn := p.Func("types", "VoteSet.HasTwoThirdsAny")
		T := "types.ValidatorSet.TotalVotingPower(voteSet.valSet)"
		ok := false
		for _, rt := range ir.Returns(fn) {
			for _, a := range condAtomsOf(rt.Results[0]) {
				if twoThirds(a, T, "voteSet.sum") {
					ok = true
				}
			}
		}
		r.Check("K11", "types.(*VoteSet).HasTwoThirdsAny/two-thirds", p.Pos(fn.Pos()), ok, "returns sum > total*2/3 (strict two-thirds normal form)")
		tm := p.Func("types", "VoteSet.TwoThirdsMajority")
		for _, rt := range ir.Returns(tm) {
			if ir.AbstractResult(rt.Results[1]) == "true" {
				c.Guards("types.(*VoteSet).TwoThirdsMajority", "return ok", rt.Instr, G{"maj23-set", "!eq(voteSet.maj23,nil)"})
				r.Check("K1", "types.(*VoteSet).TwoThirdsMajority/return ok/value", p.InstrPos(rt.Instr), ir.Render(rt.Results[0]) == "*voteSet.maj23", "returns *voteSet.maj23: "+ir.Render(rt.Results[0]))
			}
		}
		hm := p.Func("types", "VoteSet.HasTwoThirdsMajority")
		okH := false
		for _, rt := range ir.Returns(hm) {
			s := ir.Render(rt.Results[0])
			if s == "(voteSet.maj23 != nil)" {
				okH = true
			}
		}
		r.Check("K1", "types.(*VoteSet).HasTwoThirdsMajority/maj23", p.Pos(hm.Pos()), okH, "true iff maj23 != nil")
		mc := p.Func("types", "VoteSet.MakeCommit")
		for _, s := range p.Stores(p.Field("types", "Commit.BlockID")) {
			if s.Fn == mc {
				c.GuardsS("types.(*VoteSet).MakeCommit", "commit", s, G{"precommit-set", ir.EqPat("voteSet.type_", precommitT)}, G{"maj23", "!eq(voteSet.maj23,nil)"})
				r.Check("K1", "types.(*VoteSet).MakeCommit/commit/block-id", p.InstrPos(s.Instr), ir.Render(s.Val) == "*voteSet.maj23", "commit block id is maj23: "+ir.Render(s.Val))
			}
		}
	}
	// ---- sign bytes ------------------------------------------------------------
	{
		fn := p.Func("types", "CanonicalVote")
		st := p.Struct("types", "Vote")
		exempt := map[string]string{
			"ValidatorAddress": "binding is by the per-slot public key", "ValidatorIndex": "binding is by the per-slot public key",
			"ValidatorSize": "binding is by the per-slot public key", "Signature": "the signature itself",
			"Timestamp": "covered (canonical time) but not required by the property",
		}
		mention := map[string]bool{}
		ir.Instrs(fn, func(in ssa.Instruction) {
			if s, ok := in.(*ssa.Store); ok {
				v := ir.Render(s.Val)
				for i := 0; i < st.NumFields(); i++ {
					if strings.Contains(v, "vote."+st.Field(i).Name()) {
						mention[st.Field(i).Name()] = true
					}
				}
				if v == "chainID" {
					mention["<chainID>"] = true
				}
			}
		})
		for i := 0; i < st.NumFields(); i++ {
			f := st.Field(i).Name()
			if why, ok := exempt[f]; ok {
				r.Check("K4", "types.CanonicalVote/exempt:"+f, p.Pos(st.Field(i).Pos()), true, "exempt: "+why)
				continue
			}
			r.Check("K4", "types.CanonicalVote/field:"+f, p.Pos(st.Field(i).Pos()), mention[f], "vote field is part of the signed canonical form")
		}
		r.Check("K4", "types.CanonicalVote/chain-id", p.Pos(fn.Pos()), mention["<chainID>"], "the chain id parameter is part of the signed canonical form")
		c12Mentions(c, "types", "CanonicalBlockID", "BlockID", "blockID")
		c12Mentions(c, "types", "CanonicalPartSetHeader", "PartSetHeader", "psh")
		sb := p.Func("types", "Vote.SignBytes")
		okSB := false
		for _, call := range ir.Calls(sb, "types.CanonicalVote") {
			if Arg(call, 0) == "chainID" && Arg(call, 1) == "vote" {
				okSB = true
			}
		}
		r.Check("K4", "types.(*Vote).SignBytes/canonical", p.Pos(sb.Pos()), okSB, "SignBytes encodes CanonicalVote(chainID, vote)")
	}
	// ---- call sites ------------------------------------------------------------
	{
		vb := p.Func("consensus", "validateBlock")
		calls := ir.Calls(vb, "types.ValidatorSet.VerifyCommit")
		c.MustFind("K1", "consensus.validateBlock/VerifyCommit", vb, len(calls), "VerifyCommit call")
		for _, call := range calls {
			want := []string{"status.LastValidators", "status.ChainID", "status.LastBlockID", "(block.Header.Height - 1)", "block.LastCommit"}
			ok := true
			for i, w := range want {
				if Arg(call, i) != w {
					ok = false
				}
			}
			r.Check("K1", "consensus.validateBlock/VerifyCommit/args", p.InstrPos(call), ok, "VerifyCommit(LastValidators; ChainID, LastBlockID, Height-1, LastCommit): "+short(ir.RenderCall(call), 200))
		}
		for _, rt := range ir.Returns(vb) {
			if ir.AbstractResult(rt.Results[0]) != "nil" {
				continue
			}
			c.GuardsAny("consensus.validateBlock", "return nil", "commit-verified-or-first-block", rt.Instr,
				"eq(types.ValidatorSet.VerifyCommit(status.LastValidators,*),nil)", ir.EqPat("block.Header.Height", "types.BlockHeightOne"), "eq(block.Header.Height,1)")
			c.GuardsAny("consensus.validateBlock", "return nil", "commit-size-or-first-block", rt.Instr,
				ir.EqPat("len(block.LastCommit.Precommits)", "types.ValidatorSet.Size(status.LastValidators)"), "eq(len(block.LastCommit.Precommits),0)")
		}
		// fast sync
		pr := p.Func("blockchain", "BlockchainReactor.poolRoutine")
		vcall := "types.ValidatorSet.VerifyCommit(status.Validators,*)"
		n := 0
		ir.InstrsDeep(pr, func(f *ssa.Function, in ssa.Instruction) {
			call, ok := in.(ssa.CallInstruction)
			if !ok {
				return
			}
			cn := ir.CalleeName(call)
			if ir.Match("*BlockChainApp.CommitBlock", cn) || ir.Match("*BlockExecutor.ApplyBlock", cn) || ir.Match("*BlockChainApp.CheckBlock", cn) {
				n++
				c.Guards("blockchain.(*BlockchainReactor).poolRoutine", "call "+cn, call, G{"commit-verified", "eq(" + vcall + ",nil)"})
			}
		})
		c.MustFind("K1", "blockchain.(*BlockchainReactor).poolRoutine/apply", pr, n, "CheckBlock/CommitBlock/ApplyBlock calls")
		// the commit that is verified is the commit FOR the block that is applied: the block id is
		// computed from the first block itself (hash and part-set header), the height is the first
		// block's, the commit is the second block's LastCommit, and the same first block is what
		// CheckBlock/CommitBlock/ApplyBlock receive.
		for _, call := range ir.CallsDeep(pr, "types.ValidatorSet.VerifyCommit") {
			set, chain, id, h, cm := Arg(call, 0), Arg(call, 1), Arg(call, 2), Arg(call, 3), Arg(call, 4)
			first := strings.TrimSuffix(h, ".Header.Height")
			second := strings.TrimSuffix(cm, ".LastCommit")
			okID := first != h && strings.HasPrefix(id, "types.BlockID{Hash:types.Block.Hash("+first+"),PartsHeader:types.PartSet.Header(types.Block.MakePartSet("+first+",")
			ok := set == "status.Validators" && strings.HasSuffix(chain, ".ChainID") && okID && second != cm && second != first
			r.Check("K1", "blockchain.(*BlockchainReactor).poolRoutine/VerifyCommit/args", p.InstrPos(call.(ssa.Instruction)), ok,
				"VerifyCommit(status.Validators; ChainID, BlockID{Hash(first), MakePartSet(first).Header()}, first.Height, second.LastCommit): "+short(ir.RenderCall(call), 400))
			ir.InstrsDeep(pr, func(f *ssa.Function, in ssa.Instruction) {
				cl, isCall := in.(ssa.CallInstruction)
				if !isCall {
					return
				}
				cn := ir.CalleeName(cl)
				switch {
				case ir.Match("*BlockChainApp.CheckBlock", cn):
					r.Check("K1", "blockchain.(*BlockchainReactor).poolRoutine/same-block/CheckBlock", p.InstrPos(in), Arg(cl, 1) == first, "CheckBlock receives the verified block: "+short(Arg(cl, 1), 120))
				case ir.Match("*BlockChainApp.CommitBlock", cn):
					r.Check("K1", "blockchain.(*BlockchainReactor).poolRoutine/same-block/CommitBlock", p.InstrPos(in), Arg(cl, 1) == first && Arg(cl, 3) == cm, "CommitBlock receives the verified block and the verified commit: "+short(Arg(cl, 1), 120)+" / "+short(Arg(cl, 3), 120))
				case ir.Match("*BlockExecutor.ApplyBlock", cn):
					r.Check("K1", "blockchain.(*BlockchainReactor).poolRoutine/same-block/ApplyBlock", p.InstrPos(in), Arg(cl, 2) == id && Arg(cl, 3) == first, "ApplyBlock receives the verified block id and block")
				}
			})
		}
		// reconstructLastCommit
		rl := p.Func("consensus", "ConsensusState.reconstructLastCommit")
		for _, s := range p.Stores(p.Field("consensus/types", "RoundState.LastCommit")) {
			if s.Fn == rl {
				c.GuardsS(csT+"reconstructLastCommit", "store LastCommit", s, G{"+2/3", "types.VoteSet.HasTwoThirdsMajority(*)"})
			}
		}
		blockIDKeyLossless(c)
		// the votes of a height are tallied over the validator set the round state holds: every
		// cs.Votes = NewHeightVoteSet(.., V) is built over cs.Validators (or the value assigned to it in the
		// same function) — in recover mode that is the recover set just installed, not the status' regular set
		{
			nV := 0
			for _, s := range p.Stores(p.Field("consensus/types", "RoundState.Votes")) {
				if strings.HasSuffix(p.Pos(s.Fn.Pos()), "_test.go") || s.Kind != "store" || ir.RelPkg(s.Fn.Pkg.Pkg) != "consensus" {
					continue
				}
				call, ok := s.Val.(*ssa.Call)
				if !ok || ir.CalleeName(call) != "types.NewHeightVoteSet" {
					continue
				}
				nV++
				arg := Arg(call, 2)
				same := arg == "cs.RoundState.Validators"
				for _, vs := range p.Stores(p.Field("consensus/types", "RoundState.Validators")) {
					if vs.Fn == s.Fn && vs.Kind == "store" && ir.Render(vs.Val) == arg {
						same = true
					}
				}
				r.Check("K5", csT+ir.EnclosingTop(s.Fn).Name()+"/votes-over-round-validators", p.InstrPos(s.Instr), same, "the height vote set is built over the validator set of the round state: "+short(arg, 80))
			}
			r.Check("K5", "consensus/votes-over-round-validators/sites", "-", nV >= 3, fmt.Sprintf("%d constructions of cs.Votes (confirmed by hand: 3)", nV))
		}
		// updateToStatus moves the node to the next height. What it takes over from the finished height
		// (the precommits that become LastCommit, the recover validator set that becomes LastValidators,
		// the commit round) must be READ before the field is reset for the new height:
		// the commit of H is verified at H+1 against status.LastValidators.
		oldValueReadBeforeReset(c, p.Func("consensus", "ConsensusState.updateToStatus"), csT+"updateToStatus", "consensus/types", "RoundState",
			map[string]string{
				"Validators":  "recover mode stores the set that committed H as status.LastValidators",
				"Votes":       "the precommits of the commit round become LastCommit",
				"CommitRound": "selects those precommits",
			})
	}
}

// oldValueReadBeforeReset: in fn, no load of field T.f (f in fields) is reachable from a store to it.
func oldValueReadBeforeReset(c C, fn *ssa.Function, fnName, rel, typ string, fields map[string]string) {
	p, r := c.P, c.R
	var names []string
	for f := range fields {
		names = append(names, f)
	}
	sort.Strings(names)
	for _, f := range names {
		fv := p.Field(rel, typ+"."+f)
		var stores []ssa.Instruction
		for _, s := range p.Stores(fv) {
			if ir.EnclosingTop(s.Fn) == fn && s.Kind == "store" {
				stores = append(stores, s.Instr)
			}
		}
		var loads []ssa.Instruction
		ir.Instrs(fn, func(in ssa.Instruction) {
			u, ok := in.(*ssa.UnOp)
			if !ok || u.Op != token.MUL {
				return
			}
			if fa, ok := u.X.(*ssa.FieldAddr); ok && fieldVarOf(fa) == fv {
				loads = append(loads, in)
			}
		})
		if len(stores) == 0 || len(loads) == 0 {
			r.Check("K2", fnName+"/old-value-read-before-reset:"+f, p.Pos(fn.Pos()), len(stores) > 0 && len(loads) > 0, fmt.Sprintf("the field is read (%d loads) and reset (%d stores) here: %s", len(loads), len(stores), fields[f]))
			continue
		}
		bad := ""
		for _, st := range stores {
			for _, ld := range loads {
				if found, _, _ := ir.FindPath(ir.PathQuery{From: ir.At(st), Target: func(x ssa.Instruction) bool { return x == ld }}); found {
					bad = fmt.Sprintf("the load at %s can run after the reset at %s", p.InstrPos(ld), p.InstrPos(st))
				}
			}
		}
		r.Check("K2", fnName+"/old-value-read-before-reset:"+f, p.InstrPos(stores[0]), bad == "", fields[f]+": every read of the finished height's value happens before the field is reset. "+bad)
	}
}

// condAtomsOf renders a boolean value as normalised atoms.
func condAtomsOf(v ssa.Value) []string { return ir.CondAtoms(v, true) }

var _ = report.Discharged

// quorumRules: the premises of quorum intersection that C01's agreement argument rests on —
// a block id becomes the +2/3 majority of a vote set only when its tally crosses
// total*2/3+1 (strictly more than two thirds), once; "any +2/3" is sum > total*2/3.
// Shared by C01 (agreement needs intersecting quorums) and C03 (decided there in more detail).
func quorumRules(c C) {
	p, r := c.P, c.R
	fn := p.Func("types", "VoteSet.addVerifiedVote")
	name := "types.(*VoteSet).addVerifiedVote"
	n := 0
	for _, s := range p.Stores(p.Field("types", "VoteSet.maj23")) {
		if s.Fn != fn {
			continue
		}
		n++
		q := "((types.ValidatorSet.TotalVotingPower(voteSet.valSet) * 2) / 3) + 1)"
		c.GuardsS(name, "quorum/set maj23", s,
			G{"first-majority-only", "eq(voteSet.maj23,nil)"},
			G{"crossing:before<quorum", "lt(*.sum,(" + q + ")"},
			G{"crossing:quorum<=after", "le((" + q + ",*.sum)"},
		)
	}
	c.MustFind("K1", name+"/quorum/set maj23", fn, n, "store to VoteSet.maj23")
	any := p.Func("types", "VoteSet.HasTwoThirdsAny")
	T := "types.ValidatorSet.TotalVotingPower(voteSet.valSet)"
	ok := false
	for _, rt := range ir.Returns(any) {
		for _, a := range condAtomsOf(rt.Results[0]) {
			if twoThirds(a, T, "voteSet.sum") {
				ok = true
			}
		}
	}
	r.Check("K11", "types.(*VoteSet).HasTwoThirdsAny/quorum/two-thirds", p.Pos(any.Pos()), ok, "returns sum > total*2/3 (strict two-thirds normal form)")
	tm := p.Func("types", "VoteSet.TwoThirdsMajority")
	for _, rt := range ir.Returns(tm) {
		if ir.AbstractResult(rt.Results[1]) == "true" {
			c.Guards("types.(*VoteSet).TwoThirdsMajority", "quorum/return ok", rt.Instr, G{"maj23-set", "!eq(voteSet.maj23,nil)"})
		}
	}
}

// verifyCommitTally: the commit verification every consumer relies on (validateBlock for C02, fast
// sync and the agreement argument for C01, C03 itself): each slot's precommit is checked against the
// validator AT THAT SLOT and counted with that validator's power, under the height/round/type/
// signature/block-id guards, and success needs strictly more than two thirds.
func verifyCommitTally(c C) {
	p, r := c.P, c.R
	precommitT := fmt.Sprint(c.ConstInt("types", "VoteTypePrecommit"))
	_ = r
	fn := p.Func("types", "ValidatorSet.VerifyCommit")
	name := "types.(*ValidatorSet).VerifyCommit"
	accs := accumulators(fn, "talliedVotingPower")
	if c.MustFind("K1", name+"/tally", fn, len(accs), "talliedVotingPower += ...") {
		r.Check("K1", name+"/tally/single-site", p.InstrPos(accs[0]), len(accs) == 1, fmt.Sprintf("exactly one tally increment (found %d)", len(accs)))
	}
	for _, acc := range accs {
		amt := ir.Render(acc.Y)
		m := regexp.MustCompile(`^types\.ValidatorSet\.GetByIndex\(valSet,(.+)\)#1\.VotingPower$`).FindStringSubmatch(amt)
		if !r.Check("K1", name+"/tally/amount", p.InstrPos(acc), m != nil, "amount added is valSet.GetByIndex(idx).VotingPower: "+amt) {
			continue
		}
		idx := m[1]
		pc := "commit.Precommits[" + idx + "]"
		c.Guards(name, "tally", acc,
			G{"precommit-non-nil", "!eq(" + pc + ",nil)"},
			G{"height", ir.EqPat(pc+".Height", "height")},
			G{"round", ir.EqPat(pc+".Round", "types.Commit.Round(commit)")},
			G{"type", "eq(" + pc + ".Type," + precommitT + ")"},
			G{"signature-of-slot-validator", "crypto.PubKey.VerifyBytes(types.ValidatorSet.GetByIndex(valSet," + idx + ")#1.PubKey,types.Vote.SignBytes(" + pc + ",chainID)," + pc + ".Signature)"},
			G{"block-id", "types.BlockID.Equals(blockID," + pc + ".BlockID) || types.BlockID.Equals(" + pc + ".BlockID,blockID)"},
			G{"set-size", ir.EqPat("len(commit.Precommits)", "types.ValidatorSet.Size(valSet)")},
			G{"commit-height", ir.EqPat("height", "types.Commit.Height(commit)")},
		)
	}
	n := 0
	for _, rt := range ir.Returns(fn) {
		if ir.AbstractResult(rt.Results[0]) != "nil" {
			continue
		}
		n++
		fs := ir.FactsAt(rt.Instr)
		r.Check("K11", name+"/return nil/two-thirds", p.InstrPos(rt.Instr), hasTwoThirds(fs, "types.ValidatorSet.TotalVotingPower(valSet)", "φ:talliedVotingPower"),
			"nil error only if tallied > total*2/3 (strict two-thirds normal form); facts: "+short(strings.Join(ir.FactStrings(fs), " ; "), 400))
		c.Guards(name, "return nil", rt.Instr,
			G{"set-size", ir.EqPat("len(commit.Precommits)", "types.ValidatorSet.Size(valSet)")},
			G{"commit-height", ir.EqPat("height", "types.Commit.Height(commit)")},
			G{"loop-finished", "le(len(commit.Precommits),*)"})
	}
	c.MustFind("K1", name+"/return nil", fn, n, "nil return")
	// the only start value of the tally is 0
	for _, b := range fn.Blocks {
		for _, in := range b.Instrs {
			if ph, ok := in.(*ssa.Phi); ok && ir.LocalName(ph.Parent(), ph.Comment) == "talliedVotingPower" {
				for _, e := range ph.Edges {
					s := ir.Render(e)
					okE := s == "0" || strings.HasPrefix(s, "φ:talliedVotingPower") || strings.HasPrefix(s, "(φ:talliedVotingPower + ")
					r.Check("K1", name+"/tally/phi-edge", p.InstrPos(in), okE, "tally starts at 0 and changes only by the guarded increment: "+s)
				}
			}
		}
	}
	// VerifyCommitAny (no slot binding) must stay without callers
	if o := p.TryObj("types", "ValidatorSet.VerifyCommitAny"); o != nil {
		got := c.CallersOf(o)
		r.Check("K3", "who-may-call/types.ValidatorSet.VerifyCommitAny", p.Pos(o.Pos()), len(got) == 0,
			fmt.Sprintf("VerifyCommitAny looks validators up by the address inside the vote (a validator could be counted in several slots); it must have no caller: %v", keys(got)))
	}
}

// voteSetAdmission: a vote is admitted to a VoteSet only as the vote of the validator in ITS slot (index
// in range, address equal to the slot validator's, signature by that validator's key); shared by C03 and
// C01 (a vote counted under another validator's index makes +2/3 out of one signer).
func voteSetAdmission(c C) {
	p, r := c.P, c.R
	fn := p.Func("types", "VoteSet.addVote")
	name := "types.(*VoteSet).addVote"
	calls := ir.Calls(fn, "types.VoteSet.addVerifiedVote")
	c.MustFind("K1", name+"/admit", fn, len(calls), "addVerifiedVote call")
	val := "types.ValidatorSet.GetByIndex(voteSet.valSet,vote.ValidatorIndex)"
	for _, call := range calls {
		c.Guards(name, "admit", call,
			G{"vote-non-nil", "!eq(vote,nil)"},
			G{"index>=0", "le(0,vote.ValidatorIndex)"},
			G{"address-non-empty", "!eq(len(vote.ValidatorAddress),0)"},
			G{"set-size", ir.EqPat("vote.ValidatorSize", "types.ValidatorSet.Size(voteSet.valSet)")},
			G{"height", ir.EqPat("vote.Height", "voteSet.height")},
			G{"round", ir.EqPat("vote.Round", "voteSet.round")},
			G{"type", ir.EqPat("vote.Type", "voteSet.type_")},
			G{"validator-exists", "!eq(" + val + "#1,nil)"},
			G{"address-matches-slot", "bytes.Equal(vote.ValidatorAddress," + val + "#0) || bytes.Equal(" + val + "#0,vote.ValidatorAddress)"},
			G{"signature", "eq(types.Vote.Verify(vote,voteSet.chainID," + val + "#1.PubKey),nil)"},
		)
		// (the amount added to the tallies is checked below, across this call: whether the caller or the
		// callee selects .VotingPower is an implementation detail)
		r.Check("K1", name+"/admit/power", p.InstrPos(call), Arg(call, 3) == val+"#1.VotingPower" || Arg(call, 3) == val+"#1", "what is passed on for the power is the slot validator's: "+Arg(call, 3))
		r.Check("K1", name+"/admit/vote", p.InstrPos(call), Arg(call, 1) == "vote" && Arg(call, 2) == "types.BlockID.Key(vote.BlockID)", "the verified vote and its own block key are passed on: "+Arg(call, 1)+","+Arg(call, 2))
	}
	// conflicting votes surface as ErrVoteConflictingVotes
	for _, rt := range ir.Returns(fn) {
		fs := ir.FactsAt(rt.Instr)
		if ir.HasFact(fs, "!eq(types.VoteSet.addVerifiedVote(*)#1,nil)") {
			res := ir.Render(rt.Results[1])
			r.Check("K2", name+"/conflict-surfaces", p.InstrPos(rt.Instr), strings.Contains(res, "types.NewConflictingVoteError("), "a conflicting vote is returned as a conflicting-vote error: "+short(res, 160))
		}
	}
	// Vote.Verify
	vf := p.Func("types", "Vote.Verify")
	for _, rt := range ir.Returns(vf) {
		if ir.AbstractResult(rt.Results[0]) == "nil" {
			c.Guards("types.(*Vote).Verify", "return nil", rt.Instr,
				G{"address", "bytes.Equal(crypto.PubKey.Address(pubKey),vote.ValidatorAddress) || bytes.Equal(vote.ValidatorAddress,crypto.PubKey.Address(pubKey))"},
				G{"signature", "crypto.PubKey.VerifyBytes(pubKey,types.Vote.SignBytes(vote,chainID),vote.Signature)"})
		}
	}
	// AddVote (exported) only wraps addVote under the mutex
	c.WhoMayCall("types", "VoteSet.addVote", "types.(*VoteSet).AddVote")
	c.WhoMayCall("types", "VoteSet.addVerifiedVote", "types.(*VoteSet).addVote")
}
