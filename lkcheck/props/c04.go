package props

import (
	"fmt"
	"go/types"
	"reflect"
	"sort"
	"strings"

	"golang.org/x/tools/go/ssa"

	"lkcheck/ir"
	"lkcheck/report"
)

func init() { Registry["C04"] = C04 }

const pvT = "types.(*FilePV)."

// C04 a validator key never signs conflicting payloads, even across restarts.
func C04(p *ir.Program, r *report.R) {
	c := C{p, r}
	r.Floor = 55
	r.Explain = "Decided: (1) FilePV.checkHRS interpreted exhaustively over the 108 orderings of (LastHeight,height) x (LastRound,round) x (LastStep,step) x nil-ness of LastSignBytes/LastSignature against the double-sign specification table; (2) in signVote/signProposal the private key signs only after checkHRS returned (false,nil) for the payload's own height/round/step, and on the same-HRS path only the stored signature can be released, under byte equality or the timestamp-only helper; (3) persist-before-release: every path from PrivKey.Sign to the store into vote/proposal.Signature passes saveSigned, saveSigned writes all five Last* fields of the persisted record from its parameters and reaches WriteFileAtomic, whose error is fatal; WriteFileAtomic opens with O_SYNC and writes, closes, renames in that order; (4) who may call PrivKey.Sign on the validator key and who may write the Last* record; (5) the record's fields are exported with json tags and copied by Copy; the node signs votes/proposals only through SignVote/SignProposal. Rounds 4-5: checkHRS compared as a decision table by an interpreter that refuses sign-changing conversions; the saved record carries every field (who-may-write + field coverage). NOT decided: that the file system honours O_SYNC+rename; the JSON round trip inside the timestamp-only helpers."
	r.Trusted = []string{"os.OpenFile/Write/Rename durability semantics", "crypto.PrivKey.Sign", "libs/ser JSON"}

	// ---- (1) checkHRS decision table ----------------------------------------
	{
		fn := p.Func("types", "FilePV.checkHRS")
		d := ir.Domain{Axes: []ir.Axis{
			ir.OrderAxis("H", "pv.LastHeight", "height"),
			ir.OrderAxis("R", "pv.LastRound", "round"),
			ir.OrderAxis("S", "pv.LastStep", "step"),
			ir.NilAxis("bytes", "pv.LastSignBytes"),
			ir.NilAxis("sig", "pv.LastSignature"),
		}}
		rows := ir.Enumerate(fn, d, ir.InterpOpts{})
		c.Table(pvT+"checkHRS/decision-table", fn, rows, func(row ir.Row) string {
			switch {
			case row.Has("H>"):
				return "regression"
			case row.Has("H<"):
				return "fresh"
			case row.Has("R>"):
				return "regression"
			case row.Has("R<"):
				return "fresh"
			case row.Has("S>"):
				return "regression"
			case row.Has("S<"):
				return "fresh"
			case row.Has("bytes=nil"):
				return "refuse"
			case row.Has("sig=nil"):
				return "panic"
			}
			return "same"
		}, func(row ir.Row) string {
			o := row.Outcome
			if o.Kind == "panic" {
				return "panic"
			}
			if o.Kind != "return" || len(o.Results) != 2 {
				return o.String()
			}
			switch {
			case o.Results[0] == "false" && strings.HasPrefix(o.Results[1], "nonnil"):
				if row.Has("H=") && row.Has("R=") && row.Has("S=") {
					return "refuse"
				}
				return "regression"
			case o.Results[0] == "false" && o.Results[1] == "nil":
				return "fresh"
			case o.Results[0] == "true" && o.Results[1] == "nil":
				return "same"
			}
			return o.String()
		})
		r.Extra["checkHRS_table"] = rowsSample(rows, 27)
		r.Stats["checkHRS abstract inputs"] = len(rows)
	}

	// ---- (2)+(3) signVote / signProposal ---------------------------------------
	for _, sp := range []struct{ fn, obj, h, rd, step, sb, sigField, helper string }{
		{"signVote", "vote", "vote.Height", "vote.Round", "types.voteToStep(vote)", "types.Vote.SignBytes(vote,chainID)", "Vote.Signature", "types.checkVotesOnlyDifferByTimestamp"},
		{"signProposal", "proposal", "proposal.Height", "proposal.Round", "", "types.Proposal.SignBytes(proposal,chainID)", "Proposal.Signature", "types.checkProposalsOnlyDifferByTimestamp"},
	} {
		fn := p.Func("types", "FilePV."+sp.fn)
		name := pvT + sp.fn
		step := sp.step
		if step == "" {
			step = fmt.Sprint(c.ConstInt("types", "stepPropose"))
		}
		hrs := "types.FilePV.checkHRS(pv," + sp.h + "," + sp.rd + "," + step + ")"
		signs := ir.Calls(fn, "crypto.PrivKey.Sign")
		if !c.MustFind("K1", name+"/sign", fn, len(signs), "PrivKey.Sign call") {
			continue
		}
		r.Check("K1", name+"/sign/single", p.InstrPos(signs[0]), len(signs) == 1, "exactly one signing call")
		sign := signs[0]
		c.Guards(name, "sign", sign,
			G{"hrs-no-error", "eq(" + hrs + "#1,nil)"},
			G{"not-same-hrs", "!" + hrs + "#0"})
		r.Check("K1", name+"/sign/key", p.InstrPos(sign), Arg(sign, 0) == "pv.PrivKey", "signs with pv.PrivKey: "+Arg(sign, 0))
		r.Check("K1", name+"/sign/payload", p.InstrPos(sign), Arg(sign, 1) == sp.sb, "signs the canonical sign-bytes of this "+sp.obj+": "+Arg(sign, 1))
		signRes := "crypto.PrivKey.Sign(pv.PrivKey," + sp.sb + ")#0"
		// releases
		stores := p.Stores(p.Field("types", sp.sigField))
		nrel := 0
		for _, s := range stores {
			if s.Fn != fn {
				continue
			}
			nrel++
			v := ir.Render(s.Val)
			switch v {
			case "pv.LastSignature":
				c.GuardsS(name, "release stored signature", s,
					G{"same-hrs", hrs + "#0"}, G{"hrs-no-error", "eq(" + hrs + "#1,nil)"})
				c.GuardsAny(name, "release stored signature", "same-bytes-or-timestamp-only", s.Instr,
					"bytes.Equal("+sp.sb+",pv.LastSignBytes)", "bytes.Equal(pv.LastSignBytes,"+sp.sb+")",
					sp.helper+"(pv.LastSignBytes,"+sp.sb+")#1")
			case signRes:
				c.GuardsS(name, "release fresh signature", s, G{"sign-no-error", "eq(crypto.PrivKey.Sign(pv.PrivKey," + sp.sb + ")#1,nil)"})
				// persist-before-release, on the paths where persisting is requested
				isSave := ir.CallMatcher("types.FilePV.saveSigned")
				found, _, tr := ir.FindPath(ir.PathQuery{From: ir.At(sign), Target: func(in ssa.Instruction) bool { return in == s.Instr }, Avoid: isSave,
					AvoidEdge: func(atoms []string) bool {
						for _, a := range atoms {
							if a == "!save" {
								return true
							}
						}
						return false
					}})
				r.Check("K2", name+"/persist-before-release", p.InstrPos(s.Instr), !found,
					fmt.Sprintf("every path from PrivKey.Sign to the release of the signature passes saveSigned (paths through the save==false branch are judged separately); offending blocks %v", tr))
				// is there a parameter-controlled bypass at all?
				bypass, _, tr2 := ir.FindPath(ir.PathQuery{From: ir.At(sign), Target: func(in ssa.Instruction) bool { return in == s.Instr }, Avoid: isSave})
				r.Check("K2", name+"/persist-before-release/save==false", p.InstrPos(s.Instr), !bypass,
					fmt.Sprintf("the signature can be released without persisting the record when the caller passes save=false (FilePV.SignVoteWithoutSave): blocks %v", tr2))
			default:
				r.Check("K1", name+"/release/value", p.InstrPos(s.Instr), false, "only pv.LastSignature or the fresh signature may be released: "+v)
			}
		}
		c.MustFind("K1", name+"/release", fn, nrel, "store to "+sp.sigField)
		// saveSigned is called with the checked h/r/s, the signed bytes and the signature
		for _, call := range ir.Calls(fn, "types.FilePV.saveSigned") {
			want := []string{"pv", sp.h, sp.rd, step, sp.sb, signRes}
			ok := true
			for i, w := range want {
				if Arg(call, i) != w {
					ok = false
				}
			}
			r.Check("K1", name+"/saveSigned/args", p.InstrPos(call), ok, "saveSigned(h, r, s, signBytes, sig) of exactly what was checked and signed: "+short(ir.RenderCall(call), 300))
			// facts: nothing but the expected guards may condition persisting
			allowed := []string{"eq(" + hrs + "#1,nil)", "!" + hrs + "#0", "eq(crypto.PrivKey.Sign(pv.PrivKey," + sp.sb + ")#1,nil)", "save"}
			var extra []string
			for _, f := range ir.FactStrings(ir.FactsAt(call)) {
				okF := false
				for _, a := range allowed {
					if f == a {
						okF = true
					}
				}
				if !okF {
					extra = append(extra, f)
				}
			}
			r.Check("K1", name+"/saveSigned/unconditional", p.InstrPos(call), len(extra) == 0, fmt.Sprintf("persisting must not depend on anything but the HRS/sign results (and the save flag, judged above); extra conditions: %v", extra))
		}
	}

	// ---- saveSigned / save / WriteFileAtomic --------------------------------------
	{
		fn := p.Func("types", "FilePV.saveSigned")
		name := pvT + "saveSigned"
		want := map[string]string{"LastHeight": "height", "LastRound": "round", "LastStep": "step", "LastSignature": "sig", "LastSignBytes": "signBytes"}
		saves := ir.Calls(fn, "types.FilePV.save")
		c.MustFind("K2", name+"/save", fn, len(saves), "save call")
		for _, f := range sortedKeys(want) {
			var onSaved, onSelf bool
			for _, s := range p.Stores(p.Field("types", "FilePV."+f)) {
				if s.Fn != fn || ir.Render(s.Val) != want[f] {
					continue
				}
				base := ir.Render(s.Base)
				if base == "pv" {
					onSelf = true
				}
				for _, sv := range saves {
					if base == Arg(sv, 0) && ir.Precedes(s.Instr, sv) {
						onSaved = true
					}
				}
			}
			r.Check("K4", name+"/record:"+f, p.Pos(fn.Pos()), onSaved, "the object that is saved gets "+f+" = "+want[f]+" before save()")
			r.Check("K4", name+"/memory:"+f, p.Pos(fn.Pos()), onSelf, "the in-memory validator gets "+f+" = "+want[f])
		}
		sv := p.Func("types", "FilePV.save")
		wf := ir.Calls(sv, "common.WriteFileAtomic")
		if c.MustFind("K2", pvT+"save/WriteFileAtomic", sv, len(wf), "WriteFileAtomic call") {
			r.Check("K2", pvT+"save/path", p.InstrPos(wf[0]), Arg(wf[0], 0) == "pv.filePath", "writes pv.filePath: "+Arg(wf[0], 0))
			r.Check("K2", pvT+"save/content", p.InstrPos(wf[0]), strings.Contains(Arg(wf[0], 1), "ser.MarshalJSONIndent("), "writes the JSON of the receiver: "+short(Arg(wf[0], 1), 120))
			// error is fatal: no normal return on the err != nil edge
			found, _, tr := ir.FindPath(ir.PathQuery{From: ir.At(wf[0]), Target: ir.IsReturn, AvoidEdge: func(atoms []string) bool {
				for _, a := range atoms {
					if ir.Match("eq(common.WriteFileAtomic(*),nil)", a) {
						return true
					}
				}
				return false
			}})
			r.Check("K8", pvT+"save/write-error-fatal", p.InstrPos(wf[0]), !found, fmt.Sprintf("save returns normally only if WriteFileAtomic returned nil; offending blocks %v", tr))
		}
		// WriteFileAtomic shape
		w := p.Func("libs/common", "WriteFileAtomic")
		open := ir.Calls(w, "os.OpenFile")
		write := ir.Calls(w, "os.File.Write")
		ren := ir.Calls(w, "os.Rename")
		var closes []ssa.CallInstruction
		for _, cl := range ir.Calls(w, "os.File.Close") {
			if _, isDefer := cl.(*ssa.Defer); !isDefer {
				closes = append(closes, cl)
			}
		}
		wn := "common.WriteFileAtomic"
		if c.MustFind("K2", wn+"/shape", w, min4(len(open), len(write), len(ren), len(closes)), "OpenFile, Write, Close, Rename calls") {
			flagOK := false
			// O_SYNC must be part of the constant flag
			if cst, ok := open[0].Common().Args[1].(*ssa.Const); ok {
				osSync := c.ConstInt0("os", "O_SYNC")
				flagOK = cst.Int64()&osSync != 0
			}
			r.Check("K2", wn+"/O_SYNC", p.InstrPos(open[0]), flagOK, "the temporary file is opened with O_SYNC: "+Arg(open[0], 1))
			r.Check("K2", wn+"/order write<close<rename", p.InstrPos(ren[0]), ir.Precedes(write[0], closes[0]) && ir.Precedes(closes[0], ren[0]) && ir.Precedes(open[0], write[0]), "open, write, close, rename in that order")
			c.Guards(wn, "rename", ren[0], G{"write-no-error", "eq(os.File.Write(*)#1,nil)"}, G{"write-complete", "le(len(data),os.File.Write(*)#0)"}, G{"open-no-error", "eq(os.OpenFile(*)#1,nil)"})
			r.Check("K2", wn+"/rename-target", p.InstrPos(ren[0]), Arg(ren[0], 1) == "filename", "renames onto the target file: "+Arg(ren[0], 1))
			okRet := false
			for _, rt := range ir.Returns(w) {
				if strings.HasPrefix(ir.Render(rt.Results[0]), "os.Rename(") {
					okRet = true
				}
			}
			r.Check("K8", wn+"/rename-error-returned", p.InstrPos(ren[0]), okRet, "the rename error is the function result")
		}
	}

	// ---- (4) who may sign, who may write the record ------------------------------
	{
		// every call of the PrivKey.Sign interface method whose receiver is a FilePV's key
		signObj := p.ByPath[ir.Module+"/libs/crypto"].Types.Scope().Lookup("PrivKey").Type().Underlying().(*types.Interface)
		var signM *types.Func
		for i := 0; i < signObj.NumMethods(); i++ {
			if signObj.Method(i).Name() == "Sign" {
				signM = signObj.Method(i)
			}
		}
		allowed := map[string]string{
			pvT + "signVote":      "HRS-guarded (decided above)",
			pvT + "signProposal":  "HRS-guarded (decided above)",
			pvT + "SignHeartbeat": "heartbeat sign-bytes are typed (@type=heartbeat) and cannot collide with a vote or proposal",
		}
		got := map[string]bool{}
		for _, cs := range p.CallSites(signM) {
			if Arg(cs.Instr, 0) != "pv.PrivKey" || !strings.Contains(ir.FuncName(cs.Fn), "FilePV") {
				continue
			}
			n := ir.FuncName(ir.EnclosingTop(cs.Fn))
			got[n] = true
			_, ok := allowed[n]
			r.Check("K3", "who-may-sign/"+n, p.InstrPos(cs.Instr), ok, "a function that signs with the validator key must be HRS-guarded or sign a typed payload; allowed: "+fmt.Sprint(sortedKeys(allowed)))
		}
		r.Check("K3", "who-may-sign/found", "-", got[pvT+"signVote"] && got[pvT+"signProposal"], fmt.Sprintf("signing sites found: %v", reflect.ValueOf(got).MapKeys()))
		hb := p.Func("types", "CanonicalHeartbeat")
		okT := false
		ir.Instrs(hb, func(in ssa.Instruction) {
			if s, ok := in.(*ssa.Store); ok && ir.Render(s.Val) == `"heartbeat"` {
				okT = true
			}
		})
		r.Check("K4", "types.CanonicalHeartbeat/typed", p.Pos(hb.Pos()), okT, `heartbeat canonical form carries the constant type tag "heartbeat"`)
		for _, f := range []string{"LastHeight", "LastRound", "LastStep", "LastSignature", "LastSignBytes"} {
			c.WhoMayWrite("types", "FilePV."+f, pvT+"saveSigned", pvT+"Reset", pvT+"Copy", "types.GenFilePV", "types.LoadFilePV")
		}
		c.WhoMayCall("types", "FilePV.signVote", pvT+"SignVote", pvT+"SignVoteWithoutSave")
		c.WhoMayCall("types", "FilePV.signProposal", pvT+"SignProposal")
		c.WhoMayCall("types", "FilePV.saveSigned", pvT+"signVote", pvT+"signProposal")
		// SignVote passes save=true
		svf := p.Func("types", "FilePV.SignVote")
		for _, call := range ir.Calls(svf, "types.FilePV.signVote") {
			r.Check("K1", pvT+"SignVote/save=true", p.InstrPos(call), Arg(call, 3) == "true", "the interface method used by consensus persists: save="+Arg(call, 3))
		}
		// mutex held
		for _, m := range []string{"SignVote", "SignProposal", "SignVoteWithoutSave"} {
			f := p.Func("types", "FilePV."+m)
			var locks []ssa.Instruction
			nUnlock := 0
			ir.Instrs(f, func(in ssa.Instruction) {
				if in.Parent() != f {
					return
				}
				if op, isOp := lockOpOf(in); isOp && op.Kind == "w" && op.Mtx == "&pv.mtx" {
					if op.Acquire && !op.Deferred {
						locks = append(locks, in)
					} else if !op.Acquire {
						nUnlock++
					}
				}
			})
			inner := ir.Calls(f, "types.FilePV.sign*")
			ok := len(locks) == 1 && len(inner) == 1 && ir.Precedes(locks[0], inner[0].(ssa.Instruction)) && nUnlock == 1
			r.Check("K10", pvT+m+"/mutex", p.Pos(f.Pos()), ok, "check-sign-persist runs under pv.mtx (Lock before, deferred Unlock)")
		}
	}
	// ---- (5) reload ----------------------------------------------------------------
	{
		st := p.Struct("types", "FilePV")
		cp := p.Func("types", "FilePV.Copy")
		copied := map[string]string{}
		ir.Instrs(cp, func(in ssa.Instruction) {
			if s, ok := in.(*ssa.Store); ok {
				if fa, ok := s.Addr.(*ssa.FieldAddr); ok {
					if fv := ir.FieldVar(fa.X, fa.Field); fv != nil {
						copied[fv.Name()] = ir.Render(s.Val)
					}
				}
			}
		})
		for i := 0; i < st.NumFields(); i++ {
			f := st.Field(i)
			if !strings.HasPrefix(f.Name(), "Last") {
				continue
			}
			tag := reflect.StructTag(st.Tag(i)).Get("json")
			r.Check("K4", "types.FilePV/persisted:"+f.Name(), p.Pos(f.Pos()), f.Exported() && tag != "" && tag != "-", "record field is exported and carries a json tag (restored by LoadFilePV): `"+st.Tag(i)+"`")
			r.Check("K4", pvT+"Copy/field:"+f.Name(), p.Pos(cp.Pos()), copied[f.Name()] == "pv."+f.Name(), "Copy copies the field: "+copied[f.Name()])
		}
		lf := p.Func("types", "LoadFilePV")
		r.Check("K2", "types.LoadFilePV/unmarshal", p.Pos(lf.Pos()), len(ir.Calls(lf, "ser.UnmarshalJSON")) == 1, "LoadFilePV restores the record with ser.UnmarshalJSON")
	}
	// the node signs only through the persisting methods
	{
		got := c.CallersOf(p.Obj("types", "PrivValidator.SignVoteWithoutSave"))
		r.Check("K3", "who-may-call/types.PrivValidator.SignVoteWithoutSave", "-", len(got) == 0, fmt.Sprintf("no caller in the module: %v", keys(got)))
		gotD := c.CallersOf(p.Obj("types", "PrivValidator.SignData"))
		// SignData signs arbitrary bytes with the validator key, without HRS bookkeeping (known finding
		// at FilePV.SignData above); its use must not spread beyond the multi-signature transaction helper
		okD := true
		for n := range gotD {
			if n != "types.(*MultiSignAccountTx).Sign" {
				okD = false
			}
		}
		r.Check("K3", "who-may-call/types.PrivValidator.SignData", "-", okD, fmt.Sprintf("raw signing is used only by MultiSignAccountTx.Sign: %v", keys(gotD)))
		gp := c.CallersOf(p.Obj("types", "PrivValidator.SignProposal"))
		okP := true
		for n := range gp {
			if n != csT+"defaultDecideProposal" && n != "types.signAddVote" {
				okP = false
			}
		}
		r.Check("K3", "who-may-call/types.PrivValidator.SignProposal", "-", okP && len(gp) >= 1, fmt.Sprintf("proposals are signed only by defaultDecideProposal: %v", keys(gp)))
	}
}

func min4(a, b, c, d int) int {
	m := a
	for _, x := range []int{b, c, d} {
		if x < m {
			m = x
		}
	}
	return m
}

func sortedKeys(m map[string]string) []string {
	var ks []string
	for k := range m {
		ks = append(ks, k)
	}
	sort.Strings(ks)
	return ks
}

var _ = report.Discharged
