package props

import (
	"lkcheck/ir"
	"lkcheck/report"
)

func init() { Registry["C12"] = C12 }

// C12 Block identity commits to content; parts reassemble only the original.
func C12(p *ir.Program, r *report.R) {
	r.Floor = 1
	c12AddPart(p, r, "C12")
}

// c12AddPart: K1 part admission guards in (*PartSet).AddPart (shared with C16).
func c12AddPart(p *ir.Program, r *report.R, prop string) {
	fn := p.Func("types", "PartSet.AddPart")
	name := "types.(*PartSet).AddPart"
	partsF := p.Field("types", "PartSet.parts")
	n := 0
	for _, s := range p.Stores(partsF) {
		if s.Fn != fn || s.Kind != "elem" {
			continue
		}
		n++
		fs := ir.FactsAt(s.Instr)
		pos := p.InstrPos(s.Instr)
		r.Check("K1", name+"/store parts[i]/lower-bound", pos, ir.HasFact(fs, "le(0,part.Index)"), "store into ps.parts[part.Index] must be dominated by 0 <= part.Index")
		r.Check("K1", name+"/store parts[i]/upper-bound", pos, ir.HasFact(fs, "lt(part.Index,ps.total)"), "must be dominated by part.Index < ps.total")
		r.Check("K1", name+"/store parts[i]/slot-empty", pos, ir.HasFact(fs, "eq(nil,ps.parts[part.Index])"), "must be dominated by ps.parts[part.Index] == nil")
		r.Check("K1", name+"/store parts[i]/proof", pos, ir.HasFact(fs, "SimpleProof.Verify(&part.Proof,part.Index,ps.total,Part.Hash(part),PartSet.Hash(ps))"), "must be dominated by a successful Merkle proof of part.Hash() at part.Index under ps.Hash()")
	}
	if n == 0 {
		r.Undecided("K1", name+"/store parts[i]", p.Pos(fn.Pos()), "no element store into ps.parts found")
	}
}
