package props

import (
	"fmt"
	"go/constant"
	"go/types"
	"sort"
	"strings"

	"golang.org/x/tools/go/ssa"

	"lkcheck/ir"
	"lkcheck/report"
)

// C bundles program and report for the rule helpers.
type C struct {
	P *ir.Program
	R *report.R
}

// G is one required guard: a label (part of the obligation key) and a glob
// over normalised fact atoms.
type G struct{ Label, Pat string }

// Guards records one K1 obligation per required guard for instruction `in`.
func (c C) Guards(fnName, construct string, in ssa.Instruction, gs ...G) bool {
	fs := ir.FactsAt(in)
	all := true
	for _, g := range gs {
		ok := ir.HasFact(fs, g.Pat)
		detail := "must be dominated by " + g.Pat
		if !ok {
			detail += "; facts here: " + short(strings.Join(ir.FactStrings(fs), " ; "), 600)
			all = false
		}
		c.R.Check("K1", fnName+"/"+construct+"/"+g.Label, c.P.InstrPos(in), ok, detail)
	}
	return all
}

// GuardsS is Guards for a write taken from the store index: a write inside a helper that several
// sites share is judged at the call site it is attributed to.
func (c C) GuardsS(fnName, construct string, s ir.Store, gs ...G) bool {
	ok := false
	ir.AtSite(s.Site, func() { ok = c.Guards(fnName, construct, s.Instr, gs...) })
	return ok
}

func short(s string, n int) string {
	if len(s) > n {
		return s[:n] + "…"
	}
	return s
}

// ConstString returns the value of a string constant declared in package rel.
func (c C) ConstString(rel, name string) string {
	o := c.P.Obj(rel, name)
	k, ok := o.(*types.Const)
	if !ok || k.Val().Kind() != constant.String {
		panic(ir.Unresolved{What: "string const " + rel + "." + name})
	}
	return constant.StringVal(k.Val())
}

// ConstInt returns the value of an integer constant declared in package rel.
func (c C) ConstInt(rel, name string) int64 {
	o := c.P.Obj(rel, name)
	k, ok := o.(*types.Const)
	if !ok {
		panic(ir.Unresolved{What: "const " + rel + "." + name})
	}
	v, ok := constant.Int64Val(constant.ToInt(k.Val()))
	if !ok {
		panic(ir.Unresolved{What: "int const " + rel + "." + name})
	}
	return v
}

// Arg renders argument i of a call (receiver included at index 0 for
// methods, as in SSA).
func Arg(call ssa.CallInstruction, i int) string {
	cc := call.Common()
	args := cc.Args
	if cc.IsInvoke() {
		if i == 0 {
			return ir.Render(cc.Value)
		}
		i--
	}
	if i >= len(args) {
		return "<missing>"
	}
	return ir.Render(args[i])
}

// CallersOf lists the distinct named functions (anonymous functions are
// attributed to their enclosing declaration) that call obj, with counts.
func (c C) CallersOf(obj types.Object) map[string]int {
	fo, ok := obj.(*types.Func)
	if !ok {
		panic(ir.Unresolved{What: fmt.Sprint("not a func: ", obj)})
	}
	m := map[string]int{}
	for _, cs := range c.P.CallSites(fo) {
		m[ir.FuncName(ir.EnclosingTop(cs.Fn))]++
	}
	return m
}

// WhoMayCall checks that the callers of rel.name are exactly `allowed`
// (function names as printed by ir.FuncName). Extra callers are violations;
// a missing allowed caller is only noted (removal of a caller cannot break a
// who-may-call rule).
func (c C) WhoMayCall(rel, name string, allowed ...string) {
	obj := c.P.Obj(rel, name)
	got := c.CallersOf(obj)
	c.R.Stats["callsites:"+name] = len(c.P.CallSites(obj.(*types.Func)))
	al := map[string]bool{}
	for _, a := range allowed {
		al[a] = true
	}
	var extra []string
	for g := range got {
		if !al[g] && !strings.Contains(g, "_test") {
			extra = append(extra, g)
		}
	}
	sort.Strings(extra)
	pos := "-"
	if f := c.P.TryFunc(rel, name); f != nil {
		pos = c.P.Pos(f.Pos())
	}
	c.R.Check("K3", "who-may-call/"+rel+"."+name, pos, len(extra) == 0,
		fmt.Sprintf("allowed callers %v; found %v; not allowed: %v", allowed, keys(got), extra))
	// function used as a value elsewhere (method value, stored in a field)?
	if f := c.P.TryFunc(rel, name); f != nil {
		var uses []string
		for _, in := range c.P.FuncValueUses(f) {
			n := ir.FuncName(ir.EnclosingTop(in.Parent()))
			if !al[n] {
				uses = append(uses, n+"@"+c.P.InstrPos(in))
			}
		}
		c.R.Check("K3", "no-escape/"+rel+"."+name, pos, len(uses) == 0,
			fmt.Sprintf("function value taken outside the allowed callers: %v", uses))
	}
}

func keys(m map[string]int) []string {
	var ks []string
	for k := range m {
		ks = append(ks, k)
	}
	sort.Strings(ks)
	return ks
}

// WhoMayWrite checks that every store to field rel.T.f is in one of the
// allowed functions. Returns the stores for further guard checks.
func (c C) WhoMayWrite(rel, field string, allowed ...string) []ir.Store {
	fv := c.P.Field(rel, field)
	stores := c.P.Stores(fv)
	al := map[string]bool{}
	for _, a := range allowed {
		al[a] = true
	}
	got := map[string]int{}
	var extra []string
	for _, s := range stores {
		n := ir.FuncName(ir.EnclosingTop(s.Fn))
		got[n]++
		if !al[n] {
			extra = append(extra, n+"@"+c.P.InstrPos(s.Instr))
		}
	}
	sort.Strings(extra)
	c.R.Stats["stores:"+field] = len(stores)
	c.R.Check("K3", "who-may-write/"+rel+"."+field, c.P.Pos(fv.Pos()), len(extra) == 0,
		fmt.Sprintf("allowed writers %v; found %v; not allowed: %v", allowed, keys(got), extra))
	return stores
}

// MustFind fails the run (undecided) when a construct expected in fn is absent.
func (c C) MustFind(rule, key string, fn *ssa.Function, n int, what string) bool {
	if n == 0 {
		c.R.Undecided(rule, key, c.P.Pos(fn.Pos()), "expected construct not found: "+what)
		return false
	}
	return true
}

// NoPathBetween: K2 "at most once" — no CFG path from any instruction matching
// m to another (or the same) instruction matching m.
func (c C) AtMostOnce(fnName string, fn *ssa.Function, what string, m func(ssa.Instruction) bool) {
	n := 0
	ir.Instrs(fn, func(in ssa.Instruction) {
		if !m(in) {
			return
		}
		n++
		found, hit, tr := ir.FindPath(ir.PathQuery{From: ir.At(in), Target: m})
		d := "no path from this call to a second one"
		if found {
			d = fmt.Sprintf("a path leads from here to a second %s at %s (blocks %v)", what, c.P.InstrPos(hit), tr)
		}
		c.R.Check("K2", fnName+"/at-most-once:"+what, c.P.InstrPos(in), !found, d)
	})
	c.MustFind("K2", fnName+"/at-most-once:"+what, fn, n, what)
}

// MustPass: K2 — every path from `from` to an instruction matching target
// executes an instruction matching via first.
func (c C) MustPass(fnName, key string, from ir.Point, target, via func(ssa.Instruction) bool, posHint ssa.Instruction, what string) bool {
	found, hit, tr := ir.FindPath(ir.PathQuery{From: from, Target: target, Avoid: via})
	d := what
	pos := "-"
	if posHint != nil {
		pos = c.P.InstrPos(posHint)
	}
	if found {
		d = fmt.Sprintf("%s — but a path reaches %s (%s) without it, blocks %v", what, ir.RenderInstr(hit), c.P.InstrPos(hit), tr)
		pos = c.P.InstrPos(hit)
	}
	return c.R.Check("K2", fnName+"/"+key, pos, !found, d)
}

// rowsSample renders a few decision-table rows for evidence.
func rowsSample(rows []ir.Row, n int) []string {
	var out []string
	step := 1
	if len(rows) > n {
		step = len(rows) / n
	}
	for i := 0; i < len(rows); i += step {
		out = append(out, rows[i].Label()+" -> "+rows[i].Outcome.String())
	}
	return out
}

// Table records one K6 obligation for a decision function: every row of the
// enumerated abstract domain must have the outcome the specification gives.
func (c C) Table(key string, fn *ssa.Function, rows []ir.Row, want func(ir.Row) string, got func(ir.Row) string) {
	var bad []string
	for _, row := range rows {
		w, g := want(row), got(row)
		if w != g {
			bad = append(bad, fmt.Sprintf("[%s] spec=%s interpreted=%s (%s)", row.Label(), w, g, short(row.Outcome.Why, 100)))
		}
	}
	c.R.Stats["K6 rows:"+key] = len(rows)
	d := fmt.Sprintf("%d abstract inputs interpreted exhaustively, all match the specification table", len(rows))
	if len(bad) > 0 {
		d = fmt.Sprintf("%d of %d abstract inputs deviate from the specification: %s", len(bad), len(rows), short(strings.Join(bad, "; "), 1200))
	}
	c.R.Check("K6", key, c.P.Pos(fn.Pos()), len(bad) == 0, d)
}

// GuardsAny records one K1 obligation: on every path to `in` some branch edge
// establishes one of the patterns (disjunctive guard).
func (c C) GuardsAny(fnName, construct, label string, in ssa.Instruction, pats ...string) bool {
	ok, tr := ir.EveryPathHas(in, pats...)
	d := "every path must establish one of: " + strings.Join(pats, "  |  ")
	if !ok {
		d += fmt.Sprintf("; a path avoids all of them: blocks %v", tr)
	}
	return c.R.Check("K1", fnName+"/"+construct+"/"+label, c.P.InstrPos(in), ok, d)
}

// ConstInt0 returns an integer constant of a non-module package (e.g. os.O_SYNC).
func (c C) ConstInt0(pkgPath, name string) int64 {
	pk := c.P.ByPath[pkgPath]
	if pk == nil {
		panic(ir.Unresolved{What: "package " + pkgPath})
	}
	k, ok := pk.Types.Scope().Lookup(name).(*types.Const)
	if !ok {
		panic(ir.Unresolved{What: pkgPath + "." + name})
	}
	v, _ := constant.Int64Val(constant.ToInt(k.Val()))
	return v
}
