package props

import (
	"fmt"
	"go/types"
	"strings"

	"golang.org/x/tools/go/ssa"

	"lkcheck/ir"
	"lkcheck/report"
)

func init() { Registry["C10"] = C10 }

// C10 trie root canonical, proofs sound — three structural necessary conditions.
func C10(p *ir.Program, r *report.R) {
	c := C{p, r}
	r.Floor = 30
	r.Explain = "Decided (necessary conditions only): (B1) no stale cached hash after mutation — every shortNode/fullNode built in Trie.insert/delete takes its flags from t.newFlag() (dirty, no cached hash), every in-place child assignment is on a node obtained from copy() or built in the same function and that node's flags are reset, and nodeFlag.hash has no writer outside the hasher/decoder; (B2) every SecureTrie accessor passes the hashed key to the inner trie; (B3) VerifyProof decodes a proof node only after its bytes hashed to the hash the parent (initially the root) commits to, and the next expected hash is the hashNode child of the node just decoded. ADDED after seeded-change testing: (B4) nothing in libs/trie extends a slice owned by an existing shortNode/fullNode in place (append(n.Key, ...)) — handles share nodes; (B5) Prove's collection loop runs while len(key) > 0 && tn != nil, matching what VerifyProof consumes. Rounds 4-5: a pooled hasher is not used after it was returned to the pool. Rounds 5-6: Prove decides proof elements by running the hasher, never by a cached hash; hasher.store embeds exactly below 32 bytes and decodeRef refuses larger embedded nodes; appends onto node-owned slices are followed through helper parameters; only the 16 branch slots are hashed, the value slot is carried over. NOT decided: canonical form of insert/delete (root independent of operation order), last-write lookup, iteration order — these are invariants of a recursive data structure over operation histories, out of reach of a sound static rule here."
	r.Trusted = []string{"crypto.Keccak256", "decodeNode/hasher encodings agree (libs/ser, C11)"}

	// ---- B1 -------------------------------------------------------------------
	for _, fnn := range []string{"Trie.insert", "Trie.delete"} {
		fn := p.Func("libs/trie", fnn)
		name := "trie.(*Trie)." + strings.TrimPrefix(fnn, "Trie.")
		nLit := 0
		ir.Instrs(fn, func(in ssa.Instruction) {
			al, ok := in.(*ssa.Alloc)
			if !ok {
				return
			}
			pt, ok := al.Type().(*types.Pointer)
			if !ok {
				return
			}
			nt, ok := pt.Elem().(*types.Named)
			if !ok || (nt.Obj().Name() != "shortNode" && nt.Obj().Name() != "fullNode") {
				return
			}
			nLit++
			flagVal := ""
			for _, ref := range *al.Referrers() {
				if fa, ok := ref.(*ssa.FieldAddr); ok && ir.FieldVar(fa.X, fa.Field).Name() == "flags" {
					for _, rr := range *fa.Referrers() {
						if st, ok := rr.(*ssa.Store); ok && st.Addr == fa {
							flagVal = ir.Render(st.Val)
						}
					}
				}
			}
			r.Check("K4", name+"/new-node-flags:"+nt.Obj().Name(), p.InstrPos(in), flagVal == "trie.Trie.newFlag(t)", "a node built during mutation takes flags from t.newFlag(): "+flagVal)
		})
		c.MustFind("K4", name+"/new-node-flags", fn, nLit, "node literals")
		// in-place child writes
		nCh := 0
		for _, fld := range []string{"fullNode.Children", "shortNode.Val", "shortNode.Key"} {
			for _, s := range p.Stores(p.Field("libs/trie", fld)) {
				if s.Fn != fn || s.Kind == "complit" {
					continue
				}
				base := ir.Render(s.Base)
				if strings.HasPrefix(base, "&new:") {
					// node built in this function (literal): flags decided above
					nCh++
					r.Check("K2", name+"/in-place-write:"+fld, p.InstrPos(s.Instr), true, "write into a node built in this function")
					continue
				}
				nCh++
				isCopy := strings.HasPrefix(base, "trie.fullNode.copy(") || strings.HasPrefix(base, "trie.shortNode.copy(")
				r.Check("K2", name+"/in-place-write:"+fld+"/on-copy", p.InstrPos(s.Instr), isCopy, "a child may be assigned in place only on a node returned by copy(), never on a node that may be shared with a cached/hashed trie: base "+short(base, 100))
				reset := false
				for _, fs := range p.Stores(p.Field("libs/trie", strings.Split(fld, ".")[0]+".flags")) {
					if fs.Fn == fn && ir.Render(fs.Base) == base && ir.Render(fs.Val) == "trie.Trie.newFlag(t)" && (ir.Precedes(fs.Instr, s.Instr) || ir.Precedes(s.Instr, fs.Instr)) {
						reset = true
					}
				}
				r.Check("K2", name+"/in-place-write:"+fld+"/flags-reset", p.InstrPos(s.Instr), reset, "the modified copy gets flags = t.newFlag() on the same path (drops the cached hash)")
			}
		}
		c.MustFind("K2", name+"/in-place-write", fn, nCh, "child assignments")
	}
	{
		nf := p.Func("libs/trie", "Trie.newFlag")
		var fields []string
		ir.Instrs(nf, func(in ssa.Instruction) {
			if st, ok := in.(*ssa.Store); ok {
				if fa, ok := st.Addr.(*ssa.FieldAddr); ok {
					fields = append(fields, ir.FieldVar(fa.X, fa.Field).Name()+"="+ir.Render(st.Val))
				}
			}
		})
		s := strings.Join(fields, ",")
		r.Check("K4", "trie.(*Trie).newFlag/dirty-no-hash", p.Pos(nf.Pos()), strings.Contains(s, "dirty=true") && !strings.Contains(s, "hash="), "newFlag marks the node dirty and carries no cached hash: "+s)
		stores := c.WhoMayWrite("libs/trie", "nodeFlag.hash", "libs/trie.(*hasher).hash", "libs/trie.decodeShort", "libs/trie.decodeFull", "libs/trie.expandNode") // hasher computes it; decoders/expander set it to the key the node was loaded under
		_ = stores
		// the cached hash is honoured by hasher.hash only when present and the node is not dirty-for-db
		hh := p.Func("libs/trie", "hasher.hash")
		ok := false
		ir.Instrs(hh, func(in ssa.Instruction) {
			if call, ok2 := in.(*ssa.Call); ok2 && ir.CalleeName(call) == "trie.node.cache" {
				ok = true
			}
		})
		r.Check("K2", "trie.(*hasher).hash/uses-cache", p.Pos(hh.Pos()), ok, "hasher.hash consults node.cache() (this is why a stale flag would corrupt the root)")
	}

	// ---- B2 -------------------------------------------------------------------
	for _, m := range []string{"TryGet", "TryUpdate", "TryDelete", "Prove"} {
		fn := p.Func("libs/trie", "SecureTrie."+m)
		calls := ir.Calls(fn, "trie.Trie."+m)
		if !c.MustFind("K5", "trie.(*SecureTrie)."+m+"/inner", fn, len(calls), "inner trie call") {
			continue
		}
		for _, call := range calls {
			a := Arg(call, 1)
			okK := a == "trie.SecureTrie.hashKey(t,key)"
			if m == "Prove" {
				// Prove on the secure trie is documented to take the already hashed key (callers hash): siblings show which
				okK = okK || a == "key"
			}
			r.Check("K5", "trie.(*SecureTrie)."+m+"/hashed-key", p.InstrPos(call), okK, "the inner trie is addressed with hashKey(key): "+a)
		}
	}
	{
		hk := p.Func("libs/trie", "SecureTrie.hashKey")
		wr := ir.Calls(hk, "*.Write")
		ok := false
		for _, w := range wr {
			if strings.Contains(ir.RenderCall(w), "key") {
				ok = true
			}
		}
		r.Check("K5", "trie.(*SecureTrie).hashKey/hashes-key", p.Pos(hk.Pos()), ok, "hashKey feeds the key into the hasher")
	}

	// ---- B3 -------------------------------------------------------------------
	{
		fn := p.Func("libs/trie", "VerifyProof")
		name := "trie.VerifyProof"
		load := "trie.DatabaseReader.Load(proofDb,wantHash[:])#0"
		calls := ir.Calls(fn, "trie.decodeNode")
		c.MustFind("K1", name+"/decode", fn, len(calls), "decodeNode call")
		for _, call := range calls {
			r.Check("K1", name+"/decode/buffer", p.InstrPos(call), Arg(call, 1) == load, "the decoded bytes are the bytes loaded for wantHash: "+Arg(call, 1))
			c.Guards(name, "decode", call,
				G{"authenticated", "bytes.Equal(crypto.Keccak256([" + load + "]),wantHash[:]) || bytes.Equal(wantHash[:],crypto.Keccak256([" + load + "]))"},
				G{"present", "!eq(" + load + ",nil)"})
		}
		// wantHash: starts as rootHash, afterwards only copy(wantHash[:], hashNode child of the decoded node)
		var wal *ssa.Alloc
		ir.Instrs(fn, func(in ssa.Instruction) {
			if al, ok := in.(*ssa.Alloc); ok && ir.LocalName(al.Parent(), al.Comment) == "wantHash" {
				wal = al
			}
		})
		if wal == nil {
			r.Undecided("K1", name+"/wantHash", p.Pos(fn.Pos()), "local wantHash not found")
		} else {
			nStore, okInit := 0, false
			for _, ref := range *wal.Referrers() {
				if st, ok := ref.(*ssa.Store); ok && st.Addr == wal {
					nStore++
					okInit = ir.Render(st.Val) == "rootHash"
				}
			}
			r.Check("K1", name+"/wantHash/initial", p.Pos(fn.Pos()), nStore == 1 && okInit, "the first expected hash is the rootHash parameter")
			child := "trie.get(trie.decodeNode(wantHash[:]," + load + ",0)#0,φ:key)#1.(trie.hashNode)#0"
			nCopy := 0
			ir.Instrs(fn, func(in ssa.Instruction) {
				call, ok := in.(*ssa.Call)
				if !ok {
					return
				}
				if bi, ok := call.Call.Value.(*ssa.Builtin); ok && bi.Name() == "copy" && Arg(call, 0) == "wantHash[:]" {
					nCopy++
					r.Check("K1", name+"/wantHash/next", p.InstrPos(in), Arg(call, 1) == child, "the next expected hash is the hashNode child reached in the node just decoded: "+short(Arg(call, 1), 200))
				}
			})
			r.Check("K1", name+"/wantHash/next-found", p.Pos(fn.Pos()), nCopy == 1, fmt.Sprintf("exactly one update of wantHash (found %d)", nCopy))
		}
		// a value is returned only from an authenticated node
		for _, rt := range ir.Returns(fn) {
			if ir.AbstractResult(rt.Results[2]) == "nil" {
				c.Guards(name, "return success", rt.Instr, G{"authenticated", "bytes.Equal(crypto.Keccak256([" + load + "]),wantHash[:]) || bytes.Equal(wantHash[:],crypto.Keccak256([" + load + "]))"})
			}
		}
		// Prove stores each node under Keccak256(enc) / its hash
		pv := p.Func("libs/trie", "Trie.Prove")
		okPut := false
		for _, call := range ir.Calls(pv, "*Putter.Put") {
			if strings.Contains(Arg(call, 2), "ser.EncodeToBytes(") {
				okPut = true
			}
		}
		r.Check("K5", "trie.(*Trie).Prove/put-encoding", p.Pos(pv.Pos()), okPut, "Prove stores the node encoding in the proof db")
	}

	// ---- B4: nodes are immutable once built -------------------------------------------------
	// Handles share nodes (Trie/SecureTrie copies are value copies): nothing in the package may
	// extend a slice that belongs to an existing node in place. append(n.Key, ...) can write into
	// the backing array that other handles still read.
	{
		nApp := 0
		for _, f := range p.Funcs {
			if f.Pkg == nil || ir.RelPkg(f.Pkg.Pkg) != "libs/trie" || f.Blocks == nil || strings.HasSuffix(p.Pos(f.Pos()), "_test.go") {
				continue
			}
			ir.Instrs(f, func(in ssa.Instruction) {
				call, ok := in.(*ssa.Call)
				if !ok {
					return
				}
				bi, ok := call.Call.Value.(*ssa.Builtin)
				if !ok || bi.Name() != "append" {
					return
				}
				nApp++
				root := call.Call.Args[0]
				for i := 0; i < 8; i++ {
					if sl, ok := root.(*ssa.Slice); ok {
						root = sl.X
						continue
					}
					break
				}
				owner := ""
				// the destination is a parameter: what the callers hand in (a helper `merge(prefix, child)` that
				// appends onto prefix extends n.Key in place when one caller passes n.Key)
				if q, isP := root.(*ssa.Parameter); isP {
					idx := -1
					for i, x := range f.Params {
						if x == q {
							idx = i
						}
					}
					if fo, _ := f.Object().(*types.Func); fo != nil && idx >= 0 {
						for _, cs := range p.CallSites(fo) {
							a := cs.Instr.Common().Args
							if idx >= len(a) {
								continue
							}
							arg := a[idx]
							for i := 0; i < 8; i++ {
								if sl, ok := arg.(*ssa.Slice); ok {
									arg = sl.X
									continue
								}
								break
							}
							switch x := arg.(type) {
							case *ssa.UnOp:
								if fa, ok := x.X.(*ssa.FieldAddr); ok {
									if fv := ir.FieldVar(fa.X, fa.Field); fv != nil {
										if nt := c10NodeType(fa.X.Type()); nt != "" {
											owner = nt + "." + fv.Name() + " via " + ir.FuncName(cs.Fn)
										}
									}
								}
							case *ssa.Field:
								if fv := ir.FieldVar(x.X, x.Field); fv != nil {
									if nt := c10NodeType(x.X.Type()); nt != "" {
										owner = nt + "." + fv.Name() + " via " + ir.FuncName(cs.Fn)
									}
								}
							}
						}
					}
				}
				switch x := root.(type) {
				case *ssa.UnOp:
					if fa, ok := x.X.(*ssa.FieldAddr); ok {
						if fv := ir.FieldVar(fa.X, fa.Field); fv != nil {
							if nt := c10NodeType(fa.X.Type()); nt != "" {
								owner = nt + "." + fv.Name()
							}
						}
					}
				case *ssa.Field:
					if fv := ir.FieldVar(x.X, x.Field); fv != nil {
						if nt := c10NodeType(x.X.Type()); nt != "" {
							owner = nt + "." + fv.Name()
						}
					}
				}
				if owner != "" {
					r.Check("K4", "trie/node-immutable/"+ir.FuncName(f)+"/append("+owner+")", p.InstrPos(in), false, "append extends a slice owned by an existing trie node in place ("+ir.Render(call.Call.Args[0])+"); shared nodes must be copied (concat)")
				}
			})
		}
		r.Check("K4", "trie/node-immutable/appends-inspected", "-", nApp >= 10, fmt.Sprintf("%d append calls in libs/trie inspected; none extends a node-owned slice (violations are reported individually)", nApp))
	}

	// helpers that are handed a node-owned slice return fresh memory and do not write through it
	{
		eff := ir.DefaultEffects(p)
		nH := 0
		seenH := map[*ssa.Function]bool{}
		for _, f := range p.Funcs {
			if f.Pkg == nil || ir.RelPkg(f.Pkg.Pkg) != "libs/trie" || f.Blocks == nil || strings.HasSuffix(p.Pos(f.Pos()), "_test.go") {
				continue
			}
			ir.Instrs(f, func(in ssa.Instruction) {
				call, ok := in.(*ssa.Call)
				if !ok {
					return
				}
				callee := call.Call.StaticCallee()
				if callee == nil || callee.Blocks == nil || callee.Pkg == nil || ir.RelPkg(callee.Pkg.Pkg) != "libs/trie" {
					return
				}
				for i, a := range call.Call.Args {
					if _, isSlice := a.Type().Underlying().(*types.Slice); !isSlice {
						continue
					}
					root := a
					for k := 0; k < 8; k++ {
						if sl, ok := root.(*ssa.Slice); ok {
							root = sl.X
							continue
						}
						break
					}
					owned := false
					if u, ok := root.(*ssa.UnOp); ok {
						if fa, ok := u.X.(*ssa.FieldAddr); ok && c10NodeType(fa.X.Type()) != "" {
							owned = true
						}
					}
					if fl, ok := root.(*ssa.Field); ok && c10NodeType(fl.X.Type()) != "" {
						owned = true
					}
					if !owned || seenH[callee] {
						continue
					}
					// only helpers that return a byte slice built from the argument matter
					res := callee.Signature.Results()
					if res.Len() != 1 {
						continue
					}
					if _, isSl := res.At(0).Type().Underlying().(*types.Slice); !isSl {
						continue
					}
					seenH[callee] = true
					nH++
					sum := eff.Summarize(callee)
					pi := i
					if callee.Signature.Recv() != nil {
						pi = i // receiver is argument 0 in SSA already
					}
					r.Check("K4", "trie/node-immutable/helper-returns-fresh/"+ir.FuncName(callee), p.Pos(callee.Pos()), sum.RetFresh && !sum.Params[pi] && sum.Global == "",
						fmt.Sprintf("helper called with a node-owned slice returns fresh memory and does not write through it (retFresh %v, writes-param %v, global %q)", sum.RetFresh, sum.Params[pi], sum.Global))
				}
			})
		}
		r.Check("K4", "trie/node-immutable/helpers-inspected", "-", nH >= 1, fmt.Sprintf("%d slice-returning helpers receive node-owned slices (concat among them)", nH))
	}

	// ---- B6: reference counts of the node cache ------------------------------------------------------
	// A second reference of the same child by the same parent is ignored, EXCEPT for roots (parent ==
	// EmptyHash): a root committed at two heights must survive one Dereference. The early return of the
	// de-duplication is therefore taken only for a non-root parent.
	{
		rf := p.Func("libs/trie", "Database.reference")
		nEarly := 0
		okDedup := true
		for _, rt := range ir.Returns(rf) {
			fs := ir.FactsAt(rt.Instr)
			if !ir.HasFact(fs, "db.nodes[parent].children[child]#1") {
				continue
			}
			nEarly++
			if !ir.HasFact(fs, ir.NePat("common.EmptyHash", "parent")) {
				okDedup = false
			}
		}
		r.Check("K1", "trie.(*Database).reference/dedup-not-for-roots", p.Pos(rf.Pos()), okDedup && nEarly == 1, "the duplicate-reference shortcut is taken only when parent != EmptyHash (roots are counted every time)")
	}

	// ---- B6: what is a proof element is decided by hashing the node now --------------------------------------------
	// A node is a proof element iff its parent refers to it by hash, i.e. iff its encoding is not embedded.
	// Prove decides that by running the hasher on the node (hashChildren + store), like LeafProof — never by
	// asking the node for a CACHED hash: nodes written since the last Hash()/Commit() have none and would
	// be dropped from the proof of a key that is present.
	{
		pv := p.Func("libs/trie", "Trie.Prove")
		nPut := 0
		for _, put := range ir.Calls(pv, "db.Putter.Put") {
			nPut++
			sts := ir.Calls(pv, "trie.hasher.store")
			okS := len(sts) >= 1
			for _, st := range sts {
				if !(strings.HasPrefix(Arg(st, 1), "trie.hasher.hashChildren(") && Arg(st, 2) == "nil" && Arg(st, 3) == "false") {
					okS = false
				}
				if !ir.Precedes(st.(ssa.Instruction), put.(ssa.Instruction)) {
					okS = false
				}
			}
			// the element test is the type of store's result (or the root position)
			elem := false
			ir.Instrs(pv, func(in ssa.Instruction) {
				if ifi, ok := in.(*ssa.If); ok {
					for _, a := range ir.CondAtoms(ifi.Cond, true) {
						if strings.HasPrefix(a, "trie.hasher.store(") && strings.HasSuffix(a, "#0.(trie.hashNode)#1") {
							elem = true
						}
					}
				}
			})
			r.Check("K5", "trie.(*Trie).Prove/element-test-recomputes", p.InstrPos(put.(ssa.Instruction)), okS && elem, "proof elements are the nodes hasher.store(hashChildren(n), nil, false) turns into a hashNode (no cached hash consulted)")
		}
		noCache := len(ir.Calls(pv, "trie.node.cache")) == 0 && len(ir.Calls(pv, "trie.*.cache")) == 0
		r.Check("K5", "trie.(*Trie).Prove/no-cached-hash", p.Pos(pv.Pos()), noCache && nPut >= 1, "Prove does not read node.cache()")
	}

	// ---- B8: the value slot of a branch is never hashed ------------------------------------------------------------
	// A fullNode has 16 child slots and one VALUE slot (index 16). hashChildren hashes/collapses the 16
	// children only and carries the value over as it is: sent through hash/store, a value of 32 bytes or
	// more would be replaced by its hash in the encoded node, and a reader would get the hash for the value.
	{
		hc := p.Func("libs/trie", "hasher.hashChildren")
		nH := 0
		for _, call := range ir.Calls(hc, "trie.hasher.hash") {
			if !strings.Contains(Arg(call, 1), ".Children[") {
				continue
			}
			nH++
			idx := Arg(call, 1)
			idx = idx[strings.LastIndex(idx, "[")+1 : len(idx)-1]
			c.Guards("trie.(*hasher).hashChildren", "hash child", call.(ssa.Instruction), G{"branch-slots-only", "lt(" + idx + ",16) || le(" + idx + ",15)"})
		}
		okV := false
		ir.Instrs(hc, func(in ssa.Instruction) {
			if st, ok := in.(*ssa.Store); ok && strings.HasSuffix(ir.Render(st.Addr), ".Children[16]") && strings.HasSuffix(ir.Render(st.Val), ".Children[16]") {
				okV = true
			}
		})
		r.Check("K5", "trie.(*hasher).hashChildren/value-slot-carried-over", p.Pos(hc.Pos()), nH >= 1 && okV, fmt.Sprintf("%d child hash site(s) bounded to the 16 branch slots; cached.Children[16] = n.Children[16]: %v", nH, okV))
	}

	// ---- B7: writer and reader agree on what is embedded ---------------------------------------------------------
	// hasher.store leaves a node inside its parent iff its encoding is shorter than a hash (len < 32);
	// decodeRef accepts an embedded node of at most hashLen bytes. A writer that embeds 32- or 33-byte nodes
	// produces tries that cannot be reopened from disk and roots that differ from the canonical ones.
	{
		st := p.Func("libs/trie", "hasher.store")
		nE := 0
		for _, rt := range ir.Returns(st) {
			fs := ir.FactsAt(rt.Instr)
			if !ir.HasFact(fs, "!force") || ir.Render(rt.Results[0]) != "n" {
				continue
			}
			nE++
			var about []string
			for _, a := range fs {
				if strings.Contains(a.Atom, "len(") {
					about = append(about, a.Atom)
				}
			}
			okE := len(about) == 1 && (ir.MatchAtom("lt(len(*),32)", about[0]) || ir.MatchAtom("le(len(*),31)", about[0]))
			r.Check("K5", "trie.(*hasher).store/embeds-only-below-hash-length", p.InstrPos(rt.Instr), okE, fmt.Sprintf("the node stays embedded exactly under len(encoding) < 32: %v", about))
		}
		r.Check("K5", "trie.(*hasher).store/embed-return", p.Pos(st.Pos()), nE == 1, fmt.Sprintf("%d embed return", nE))
		dr := p.Func("libs/trie", "decodeRef")
		okD := false
		for _, rt := range ir.Returns(dr) {
			if strings.HasPrefix(ir.AbstractResult(rt.Results[2]), "nonnil:") || strings.Contains(ir.Render(rt.Results[2]), "oversized") {
				if ir.HasFact(ir.FactsAt(rt.Instr), "lt(32,*)") {
					okD = true
				}
			}
		}
		r.Check("K5", "trie.decodeRef/rejects-embedded-above-hash-length", p.Pos(dr.Pos()), okD, "an embedded node larger than 32 bytes is refused")
	}

	// ---- B5: Prove walks the whole key -------------------------------------------------------
	// VerifyProof consumes nodes until the key is exhausted; Prove must therefore collect nodes
	// until the key is exhausted (or the path ends): the loop condition is len(key) > 0 && tn != nil.
	{
		pr := p.Func("libs/trie", "Trie.Prove")
		okLoop := false
		for _, l := range ir.Loops(pr) {
			for b := range l.Body {
				fs := ir.FactsAtBlock(b)
				if ir.HasFact(fs, "lt(0,len(φ:key))") && ir.HasFact(fs, "!eq(φ:tn,nil)") {
					okLoop = true
				}
			}
			// no other exit from the collection loop than the header test and the panic for unknown node types
			for b := range l.Body {
				if b == l.Header {
					continue
				}
				for _, sblk := range ir.Info(pr).Succs[b] {
					if !l.Body[sblk] && len(l.Latches) > 0 {
						// exits out of the body other than through the loop test
						if _, isIf := b.Instrs[len(b.Instrs)-1].(*ssa.If); isIf && b != l.Header {
							// the `len(key) > 0 && tn != nil` test spans two blocks (header + cond.true)
							continue
						}
						okLoop = false
					}
				}
			}
		}
		r.Check("K2", "trie.(*Trie).Prove/walks-until-key-exhausted", p.Pos(pr.Pos()), okLoop, "the node collection loop runs while len(key) > 0 && tn != nil")
	}

	// ---- B8: a pooled hasher is not touched after it went back to the pool --------------------------------
	// SecureTrie.hashKey (and the node hasher) borrow a hasher from a sync.Pool; after
	// returnHasherToPool(h) another goroutine may own it: reading h.sha.Sum afterwards returns that
	// goroutine's digest and the value lands under the wrong path.
	{
		n := 0
		for _, f := range p.Funcs {
			if f.Pkg == nil || ir.RelPkg(f.Pkg.Pkg) != "libs/trie" || f.Blocks == nil || strings.HasSuffix(p.Pos(f.Pos()), "_test.go") {
				continue
			}
			for _, rel := range ir.Calls(f, "trie.returnHasherToPool") {
				call, ok := rel.(*ssa.Call)
				if !ok {
					continue // deferred: runs after everything else
				}
				n++
				h := call.Call.Args[0]
				uses := func(x ssa.Instruction) bool {
					if x == ssa.Instruction(call) {
						return false
					}
					for _, op := range x.Operands(nil) {
						if *op == h {
							return true
						}
					}
					return false
				}
				found, hit, _ := ir.FindPath(ir.PathQuery{From: ir.At(call), Target: uses})
				d := "no use of the hasher after returnHasherToPool"
				if found {
					d += " — but it is used at " + p.InstrPos(hit)
				}
				r.Check("K2", "trie/"+f.Name()+"/no-use-after-return-to-pool", p.InstrPos(call), !found, d)
			}
		}
		r.Check("K2", "trie/no-use-after-return-to-pool/sites", "-", n >= 1, fmt.Sprintf("%d explicit returns to the pool", n))
	}

	// ---- B7: a node reaches the disk after its children -------------------------------------------
	// Database.commit flushes the batch whenever it is full, so a large commit is written in several
	// steps. Children first: whatever prefix of the steps reached the disk, every node on it is
	// complete, and a root that can be opened can be read ("reloads from the database" of the statement).
	// Root first would leave an openable root with missing subtrees after an interrupted commit.
	{
		cm := p.Func("libs/trie", "Database.commit")
		sets := ir.Calls(cm, "db.Batch.Set")
		var rec []ssa.Instruction
		for _, call := range ir.Calls(cm, "trie.Database.commit") {
			rec = append(rec, call.(ssa.Instruction))
		}
		if c.MustFind("K2", "trie.(*Database).commit/shape", cm, len(sets)*len(rec), "batch.Set and the recursion into the children") {
			bad := ""
			for _, st := range sets {
				for _, rc := range rec {
					if found, _, tr := ir.FindPath(ir.PathQuery{From: ir.At(st.(ssa.Instruction)), Target: func(x ssa.Instruction) bool { return x == rc }}); found {
						bad = fmt.Sprintf("the recursion at %s can run after the node was written at %s (blocks %v)", p.InstrPos(rc), p.InstrPos(st.(ssa.Instruction)), tr)
					}
				}
			}
			r.Check("K2", "trie.(*Database).commit/children-before-node", p.InstrPos(sets[0].(ssa.Instruction)), bad == "", "every child is committed before the node that references it is written. "+bad)
			r.Check("K2", "trie.(*Database).commit/writes-this-node", p.InstrPos(sets[0].(ssa.Instruction)), Arg(sets[0], 1) == "hash[:]" && strings.HasPrefix(Arg(sets[0], 2), "trie.cachedNode.ser("), "the node is stored under its own hash: "+short(Arg(sets[0], 1), 40)+" = "+short(Arg(sets[0], 2), 60))
		}
	}

}

var _ = report.Discharged

// c10NodeType names the trie node struct a value (or pointer) denotes, or "".
func c10NodeType(t types.Type) string {
	if pt, ok := t.Underlying().(*types.Pointer); ok {
		t = pt.Elem()
	}
	if nt, ok := t.(*types.Named); ok {
		switch nt.Obj().Name() {
		case "shortNode", "fullNode":
			return nt.Obj().Name()
		}
	}
	return ""
}
