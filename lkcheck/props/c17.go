package props

import (
	"fmt"
	"go/types"
	"sort"
	"strings"

	"golang.org/x/tools/go/ssa"

	"lkcheck/ir"
	"lkcheck/report"
)

func init() { Registry["C17"] = C17 }

// mapRanges lists the range-over-map sites of fn (incl. closures).
func mapRanges(fn *ssa.Function) []ssa.Instruction {
	var out []ssa.Instruction
	ir.InstrsDeep(fn, func(_ *ssa.Function, in ssa.Instruction) {
		if rg, ok := in.(*ssa.Range); ok {
			if _, isMap := rg.X.Type().Underlying().(*types.Map); isMap {
				out = append(out, in)
			}
		}
	})
	return out
}

// C17 proposer schedule and validator-set updates are deterministic, path-independent.
func C17(p *ir.Program, r *report.R) {
	c := C{p, r}
	r.Floor = 50
	r.Explain = "Decided: Validator.CompareAccum interpreted exhaustively over {nil?} x {Accum <,=,>} x {address order <,=,>} (greater accum wins, tie -> lower address, identical -> panic: total and antisymmetric, so the heap's choice does not depend on insertion order); accumComparable.Less and ValidatorsByAddress.Less derived from it / strict; NewValidatorSet sorts copies before use; Add/Update/Remove reset the cached proposer and total on every successful path; ValidatorSet.Hash walks the slice in index order and Validator.Hash covers Address, PubKey, CoinBase, VotingPower but not Accum; every store to Validator.Accum and ValidatorSet.totalVotingPower comes from the saturating helpers (or a constant / copy); the three places that recompute the expected proposer of the last block agree; rotation call sites rotate a copy by round-cs.Round under cs.Round<round, and by the constant 1 iff the set did not change; no map iteration, time or randomness in the validator-set code and the candidate -> validator functions (seeded RandomSort takes its seed from the block's LastCommit hash); compositionality of IncrementAccum(n) (n single steps) by shape. ADDED after seeded-change testing: The operands of the saturating helpers contain no raw integer arithmetic; ValidatorSet.Copy assigns every field, Proposer from the source's Proposer. NOT decided: proportional fairness over time, correctness of the clipping arithmetic itself."
	r.Trusted = []string{"container/heap", "sort.Sort/sort.Search"}

	// ---- CompareAccum ------------------------------------------------------------
	{
		fn := p.Func("types", "Validator.CompareAccum")
		d := ir.Domain{Axes: []ir.Axis{
			ir.NilAxis("v", "v"),
			ir.OrderAxis("A", "v.Accum", "other.Accum"),
			ir.EnumAxis("cmp", "bytes.Compare(v.Address,other.Address)", []int64{-1, 0, 1}),
		}}
		rows := ir.Enumerate(fn, d, ir.InterpOpts{})
		c.Table("types.(*Validator).CompareAccum/decision-table", fn, rows, func(row ir.Row) string {
			switch {
			case row.Has("v=nil"):
				return "other"
			case row.Has("A>"):
				return "v"
			case row.Has("A<"):
				return "other"
			case row.Has("cmp=-1"):
				return "v"
			case row.Has("cmp=1"):
				return "other"
			}
			return "panic"
		}, func(row ir.Row) string {
			o := row.Outcome
			if o.Kind == "panic" {
				return "panic"
			}
			if o.Kind == "return" && len(o.Results) == 1 {
				return o.Results[0]
			}
			return o.String()
		})
		r.Extra["CompareAccum_table"] = rowsSample(rows, 18)
		ls := p.Func("types", "accumComparable.Less")
		okL := false
		for _, rt := range ir.Returns(ls) {
			if ir.Render(rt.Results[0]) == "bytes.Equal(types.Validator.CompareAccum(ac.Validator,o.(types.accumComparable)#0.Validator).Address,ac.Validator.Address)" ||
				ir.Match("bytes.Equal(types.Validator.CompareAccum(ac.Validator,o.(types.accumComparable)*.Validator).Address,ac.Validator.Address)", ir.Render(rt.Results[0])) {
				okL = true
			}
		}
		r.Check("K6", "types.accumComparable.Less/winner-is-receiver", p.Pos(ls.Pos()), okL, "Less(o) is true iff CompareAccum(receiver, o) returns the receiver")
		vb := p.Func("types", "ValidatorsByAddress.Less")
		okV := false
		for _, rt := range ir.Returns(vb) {
			for _, a := range ir.CondAtoms(rt.Results[0], true) {
				if a == "eq(bytes.Compare(vs[i].Address,vs[j].Address),-1)" || a == "lt(bytes.Compare(vs[i].Address,vs[j].Address),0)" {
					okV = true
				}
			}
		}
		r.Check("K6", "types.ValidatorsByAddress.Less/strict-byte-order", p.Pos(vb.Pos()), okV, "validators are ordered by strict byte order of the address")
		pq := p.Func("libs/common", "priorityQueue.Less")
		okP := false
		for _, rt := range ir.Returns(pq) {
			if ir.Render(rt.Results[0]) == "common.Comparable.Less(pq[i].priority,pq[j].priority)" {
				okP = true
			}
		}
		r.Check("K6", "common.priorityQueue.Less/delegates", p.Pos(pq.Pos()), okP, "the heap orders items by their Comparable priority")
	}
	// ---- set construction and mutation ---------------------------------------------
	{
		nv := p.Func("types", "NewValidatorSet")
		srt := firstCall(nv, "sort.Sort")
		inc := firstCall(nv, "types.ValidatorSet.IncrementAccum")
		r.Check("K2", "types.NewValidatorSet/sort-before-use", p.Pos(nv.Pos()), srt != nil && inc != nil && ir.Precedes(srt, inc) && strings.Contains(Arg(srt, 0), "make"), "the copies are sorted by address before the first rotation")
		okCopy := false
		ir.Instrs(nv, func(in ssa.Instruction) {
			if st, ok := in.(*ssa.Store); ok && strings.HasPrefix(ir.Render(st.Val), "types.Validator.Copy(vals[") {
				okCopy = true
			}
		})
		r.Check("K2", "types.NewValidatorSet/copies", p.Pos(nv.Pos()), okCopy, "the set holds copies of the given validators")
		if inc != nil {
			r.Check("K5", "types.NewValidatorSet/initial-rotation", p.InstrPos(inc), Arg(inc, 1) == "1", "a new set is rotated exactly once")
		}
		for _, m := range []string{"Add", "Update", "Remove"} {
			fn := p.Func("types", "ValidatorSet."+m)
			n := 0
			for _, rt := range ir.Returns(fn) {
				res := ir.AbstractResult(rt.Results[len(rt.Results)-1])
				if res != "true" {
					continue
				}
				n++
				// both resets dominate the successful return
				okP, okT := false, false
				for _, s := range p.Stores(p.Field("types", "ValidatorSet.Proposer")) {
					if s.Fn == fn && ir.Render(s.Val) == "nil" && ir.Precedes(s.Instr, rt.Instr) {
						okP = true
					}
				}
				for _, s := range p.Stores(p.Field("types", "ValidatorSet.totalVotingPower")) {
					if s.Fn == fn && ir.Render(s.Val) == "0" && ir.Precedes(s.Instr, rt.Instr) {
						okT = true
					}
				}
				r.Check("K2", "types.(*ValidatorSet)."+m+"/resets-proposer", p.InstrPos(rt.Instr), okP, "a successful change of the set clears the cached proposer")
				r.Check("K2", "types.(*ValidatorSet)."+m+"/resets-total", p.InstrPos(rt.Instr), okT, "a successful change of the set clears the cached total power")
			}
			c.MustFind("K2", "types.(*ValidatorSet)."+m+"/return true", fn, n, "successful return")
		}
		// Hash: index order, Validator.Hash fields
		hf := p.Func("types", "ValidatorSet.Hash")
		okH := false
		ir.Instrs(hf, func(in ssa.Instruction) {
			if st, ok := in.(*ssa.Store); ok {
				a, v := ir.Render(st.Addr), ir.Render(st.Val)
				if strings.HasPrefix(a, "&make([]merkle.Hasher") && strings.HasPrefix(v, "valSet.Validators[") && a[strings.LastIndex(a, "["):] == v[strings.LastIndex(v, "["):] {
					okH = true
				}
			}
		})
		r.Check("K4", "types.(*ValidatorSet).Hash/index-order", p.Pos(hf.Pos()), okH, "hashers[i] = Validators[i] for the same i")
		vh := p.Func("types", "Validator.Hash")
		want := map[string]bool{"Address": false, "PubKey": false, "CoinBase": false, "VotingPower": false}
		accum := false
		ir.Instrs(vh, func(in ssa.Instruction) {
			if st, ok := in.(*ssa.Store); ok {
				v := ir.Render(st.Val)
				for k := range want {
					if v == "v."+k {
						want[k] = true
					}
				}
				if v == "v.Accum" {
					accum = true
				}
			}
		})
		for k, ok := range want {
			r.Check("K4", "types.(*Validator).Hash/covers:"+k, p.Pos(vh.Pos()), ok, "validator identity covers "+k)
		}
		r.Check("K4", "types.(*Validator).Hash/excludes:Accum", p.Pos(vh.Pos()), !accum, "validator-set identity is independent of proposer bookkeeping")
		st := p.Struct("types", "Validator")
		for i := 0; i < st.NumFields(); i++ {
			n := st.Field(i).Name()
			_, known := want[n]
			r.Check("K4", "types.Validator/field-classified:"+n, p.Pos(st.Field(i).Pos()), known || n == "Accum", "every field of Validator is either part of the identity hash or the rotation accumulator")
		}
	}
	// ---- saturating arithmetic ---------------------------------------------------------
	{
		safe := func(v string) bool {
			return strings.HasPrefix(v, "types.safeAddClip(") || strings.HasPrefix(v, "types.safeSubClip(") || strings.HasPrefix(v, "types.safeMulClip(") || v == "0"
		}
		// the operands of a saturating helper must themselves be free of raw int64 arithmetic:
		// safeAddClip(a, p*n) wraps in the product before the sum is clipped
		var rawArith func(v ssa.Value, depth int) string
		rawArith = func(v ssa.Value, depth int) string {
			if depth > 8 {
				return ""
			}
			switch x := v.(type) {
			case *ssa.BinOp:
				switch x.Op.String() {
				case "*", "+", "-", "<<":
					if b, ok := x.Type().Underlying().(*types.Basic); ok && b.Info()&types.IsInteger != 0 {
						return ir.Render(x)
					}
				}
			case *ssa.Call:
				n := ir.CalleeName(x)
				if n == "types.safeAddClip" || n == "types.safeSubClip" || n == "types.safeMulClip" {
					for _, a := range x.Call.Args {
						if bad := rawArith(a, depth+1); bad != "" {
							return bad
						}
					}
				}
			case *ssa.Convert:
				return rawArith(x.X, depth+1)
			case *ssa.ChangeType:
				return rawArith(x.X, depth+1)
			}
			return ""
		}
		for _, s := range p.Stores(p.Field("types", "Validator.Accum")) {
			if s.Kind == "complit" || ir.IsLocalAddr(s.Base) {
				continue
			}
			n := ir.FuncName(s.Fn)
			if strings.Contains(p.InstrPos(s.Instr), "_test") {
				continue
			}
			raw := rawArith(s.Val, 0)
			r.Check("K11", "saturating/Validator.Accum/"+n, p.InstrPos(s.Instr), safe(ir.Render(s.Val)) && raw == "", "Accum is assigned only from the saturating helpers, whose operands contain no raw arithmetic: "+short(ir.Render(s.Val), 120)+" raw: "+raw)
		}
		for _, s := range p.Stores(p.Field("types", "ValidatorSet.totalVotingPower")) {
			if s.Kind == "complit" {
				v := ir.Render(s.Val)
				r.Check("K11", "saturating/ValidatorSet.totalVotingPower/"+ir.FuncName(s.Fn), p.InstrPos(s.Instr), v == "valSet.totalVotingPower" || v == "0", "copied or zero in a literal: "+v)
				continue
			}
			r.Check("K11", "saturating/ValidatorSet.totalVotingPower/"+ir.FuncName(s.Fn), p.InstrPos(s.Instr), safe(ir.Render(s.Val)), "total power is accumulated with the saturating helper: "+short(ir.Render(s.Val), 120))
		}
		for _, h := range []string{"safeAddClip", "safeSubClip", "safeMulClip"} {
			f := p.Func("types", h)
			ok := false
			for _, rt := range ir.Returns(f) {
				v := ir.Render(rt.Results[0])
				if v == "9223372036854775807" || v == "-9223372036854775808" {
					ok = true
				}
			}
			r.Check("K11", "types."+h+"/clips", p.Pos(f.Pos()), ok, "the helper returns MaxInt64/MinInt64 on overflow instead of wrapping")
		}
	}
	// ---- the overflow tests of the saturating helpers are exact ---------------------------------------------------
	// The clipping helpers saturate only when safeMul/safeAdd/safeSub report overflow. Their tests are the
	// exact ones: the product is divided back (a sign comparison misses every wrap that lands on the
	// expected sign), sums are compared against MaxInt64-b / MinInt64-b before adding.
	{
		max, min := "9223372036854775807", "-9223372036854775808"
		sm := p.Func("types", "safeMul")
		okM := false
		for _, rt := range ir.Returns(sm) {
			if ir.Render(rt.Results[0]) != "(a * b)" {
				continue
			}
			v := ir.Render(rt.Results[1])
			fs := ir.FactsAt(rt.Instr)
			divisorNonZero := v == "(((a * b) / b) != a)" && ir.HasFact(fs, "!eq(b,0)") || v == "(((a * b) / a) != b)" && ir.HasFact(fs, "!eq(a,0)")
			okM = divisorNonZero && ir.HasFact(fs, "!eq(a,"+min+")") && ir.HasFact(fs, "!eq(b,"+min+")")
			r.Check("K11", "types.safeMul/overflow-test-exact", p.InstrPos(rt.Instr), okM, "overflow of a*b is decided by dividing the product back (divisor non-zero, MinInt64 handled before): "+v)
		}
		if !okM {
			r.Check("K11", "types.safeMul/overflow-test-exact/found", p.Pos(sm.Pos()), false, "the return of the raw product with its division test")
		}
		for _, h := range []struct {
			fn, sum  string
			up, down []string
		}{
			{"safeAdd", "(a + b)", []string{"lt((" + max + " - b),a)", "lt(0,b)"}, []string{"lt(a,(" + min + " - b))", "lt(b,0)"}},
			{"safeSub", "(a - b)", []string{"lt((" + max + " + b),a)", "lt(b,0)"}, []string{"lt(0,b)", "lt(a,(" + min + " + b))"}},
		} {
			f := p.Func("types", h.fn)
			seen := map[string]bool{}
			okSum := false
			for _, rt := range ir.Returns(f) {
				fl := ir.Render(rt.Results[1])
				if fl == "true" {
					seen[strings.Join(ir.FactStrings(ir.FactsAt(rt.Instr)), " ")] = true
				} else if fl == "false" && ir.Render(rt.Results[0]) == h.sum {
					okSum = true
				}
			}
			var got []string
			for k := range seen {
				got = append(got, k)
			}
			sort.Strings(got)
			sort.Strings(h.up)
			sort.Strings(h.down)
			want := []string{strings.Join(h.up, " "), strings.Join(h.down, " ")}
			sort.Strings(want)
			r.Check("K11", "types."+h.fn+"/overflow-tests-exact", p.Pos(f.Pos()), okSum && strings.Join(got, " | ") == strings.Join(want, " | "), fmt.Sprintf("overflow is reported exactly under %v (found %v) and the plain result otherwise", want, got))
		}
	}

	// ---- sibling recomputation of the expected proposer -----------------------------------
	for _, sp := range []struct{ rel, fn, name, lv, round string }{
		{"consensus", "ConsensusState.getLastFaultValsInfo", csT + "getLastFaultValsInfo", "cs.RoundState.LastValidators", "types.Commit.FirstPrecommit(lastCommit).Round"},
		{"consensus", "ConsensusState.checkFaultValEvidence", csT + "checkFaultValEvidence", "cs.RoundState.LastValidators", "types.Commit.FirstPrecommit(lastCommit).Round"},
		{"consensus", "VerifyFaultValEvidence", "consensus.VerifyFaultValEvidence", "status.LastValidators", "types.Commit.FirstPrecommit(lastCommit).Round"},
	} {
		fn := p.Func(sp.rel, sp.fn)
		cp := "types.ValidatorSet.Copy(" + sp.lv + ")"
		var direct, copyInc, copyGet bool
		ir.Instrs(fn, func(in ssa.Instruction) {
			call, ok := in.(*ssa.Call)
			if !ok {
				return
			}
			s := ir.RenderCall(call)
			if s == "types.ValidatorSet.GetProposer("+sp.lv+")" {
				direct = true
			}
			if s == "types.ValidatorSet.IncrementAccum("+cp+","+sp.round+")" {
				copyInc = true
				c.Guards(sp.name, "rotate", in, G{"round-not-zero", "!eq(" + sp.round + ",0)"})
			}
			if s == "types.ValidatorSet.GetProposer("+cp+")" {
				copyGet = true
			}
		})
		r.Check("K5", "expected-proposer/"+sp.name+"/round0", p.Pos(fn.Pos()), direct, "round 0: LastValidators.GetProposer()")
		r.Check("K5", "expected-proposer/"+sp.name+"/rotate-copy-by-round", p.Pos(fn.Pos()), copyInc, "later rounds: a copy of LastValidators rotated by the commit round")
		r.Check("K5", "expected-proposer/"+sp.name+"/proposer-of-copy", p.Pos(fn.Pos()), copyGet, "the expected proposer is taken from the rotated copy")
	}
	// ---- rotation call sites ----------------------------------------------------------------
	{
		inc := p.Obj("types", "ValidatorSet.IncrementAccum").(*types.Func)
		allowed := map[string]string{
			"types.NewValidatorSet":            "1",
			"consensus.updateStatus":           "1",
			csT + "enterNewRound":              "(round - cs.RoundState.Round)",
			csT + "getLastFaultValsInfo":       "*",
			csT + "checkFaultValEvidence":      "*",
			"consensus.VerifyFaultValEvidence": "*",
		}
		for _, cs := range p.CallSites(inc) {
			n := ir.FuncName(ir.EnclosingTop(cs.Fn))
			if strings.Contains(p.InstrPos(cs.Instr), "test_util") {
				continue
			}
			want, ok := allowed[n]
			a := Arg(cs.Instr, 1)
			r.Check("K3", "rotation-site/"+n, p.InstrPos(cs.Instr), ok && (want == "*" || want == a), "who rotates a validator set, and by how much: "+a)
		}
		en := p.Func("consensus", "ConsensusState.enterNewRound")
		for _, call := range ir.Calls(en, "types.ValidatorSet.IncrementAccum") {
			c.Guards(csT+"enterNewRound", "rotate", call, G{"round-advances", "lt(cs.RoundState.Round,round)"})
			r.Check("K1", csT+"enterNewRound/rotate/on-copy", p.InstrPos(call), Arg(call, 0) == "types.ValidatorSet.Copy(cs.RoundState.Validators)", "the round rotation is applied to a copy of cs.Validators: "+Arg(call, 0))
		}
		us := p.Func("consensus", "updateStatus")
		for _, call := range ir.Calls(us, "types.ValidatorSet.IncrementAccum") {
			r.Check("K1", "consensus.updateStatus/rotate/iff-unchanged", p.InstrPos(call), ir.HasFact(ir.FactsAt(call), "!φ:valsChanged") || ir.HasFact(ir.FactsAt(call), "!*valsChanged*"), "the per-block rotation happens iff the validator set did not change")
		}
	}
	// ---- compositionality of IncrementAccum(n) --------------------------------------------
	{
		fn := p.Func("types", "ValidatorSet.IncrementAccum")
		name := "types.(*ValidatorSet).IncrementAccum"
		n := 0
		for _, s := range p.Stores(p.Field("types", "Validator.Accum")) {
			if s.Fn != fn {
				continue
			}
			v := ir.Render(s.Val)
			if !strings.HasPrefix(v, "types.safeAddClip(") {
				continue
			}
			n++
			single := ir.Match("types.safeAddClip(*.Accum,*.VotingPower)", v)
			r.Check("K5", "compose/"+name+"/add-outside-loop", p.InstrPos(s.Instr), single,
				"IncrementAccum(n) must equal n single steps: each step adds VotingPower once to everyone, then decrements the maximum; adding VotingPower*times up front and popping the maximum `times` times is a different function: "+short(v, 140))
		}
		c.MustFind("K5", "compose/"+name, fn, n, "Accum += ... store")
	}
	// ---- no raw arithmetic on priorities or powers ---------------------------------------------------------
	// Outside the saturating helpers no int64 sum, difference or product is computed from Accum or
	// VotingPower (e.g. comparing by the sign of a.Accum - b.Accum wraps for extreme powers).
	{
		nOps := 0
		var bad []string
		for _, f := range p.Funcs {
			if f.Pkg == nil || f.Blocks == nil || strings.HasSuffix(p.Pos(f.Pos()), "_test.go") {
				continue
			}
			rel := ir.RelPkg(f.Pkg.Pkg)
			if rel != "types" && rel != "consensus" {
				continue
			}
			switch f.Name() {
			case "safeAddClip", "safeSubClip", "safeMulClip", "safeAdd", "safeSub", "safeMul":
				continue
			}
			ir.Instrs(f, func(in ssa.Instruction) {
				bo, ok := in.(*ssa.BinOp)
				if !ok {
					return
				}
				switch bo.Op.String() {
				case "+", "-", "*":
				default:
					return
				}
				if b, ok := bo.Type().Underlying().(*types.Basic); !ok || b.Kind() != types.Int64 {
					return
				}
				x, y := ir.Render(bo.X), ir.Render(bo.Y)
				// priorities: any raw +,-,*; powers: products only (tallies of distinct validators' powers are
				// bounded by the total, which is accumulated with the saturating helper)
				accum := strings.HasSuffix(x, ".Accum") || strings.HasSuffix(y, ".Accum")
				powerProduct := bo.Op.String() == "*" && (strings.HasSuffix(x, ".VotingPower") || strings.HasSuffix(y, ".VotingPower"))
				if !accum && !powerProduct {
					return
				}
				nOps++
				bad = append(bad, ir.FuncName(f)+": "+ir.Render(bo)+" at "+p.InstrPos(in))
			})
		}
		sort.Strings(bad)
		r.Check("K11", "saturating/no-raw-arithmetic-on-accum-or-power", "-", len(bad) == 0, fmt.Sprintf("raw int64 +,-,* with an Accum operand, or product with a VotingPower operand, outside the saturating helpers: %v", bad))
	}
	// ---- fault-validator evidence is judged against the commit inside the block -------------------------
	// Both checkers (consensus pre-vote check and validateBlock) take the LastCommit of the block being
	// checked, never a locally reconstructed commit (whose round depends on what this node saw).
	{
		cbe := p.Func("consensus", "ConsensusState.checkBlockEvidence")
		for _, call := range ir.Calls(cbe, "consensus.ConsensusState.checkFaultValEvidence") {
			r.Check("K5", csT+"checkBlockEvidence/commit-of-the-block", p.InstrPos(call.(ssa.Instruction)), Arg(call, 2) == "block.LastCommit", "checkFaultValEvidence receives block.LastCommit: "+Arg(call, 2))
		}
		vb := p.Func("consensus", "validateBlock")
		for _, call := range ir.Calls(vb, "consensus.VerifyFaultValEvidence") {
			r.Check("K5", "consensus.validateBlock/fault-evidence/commit-of-the-block", p.InstrPos(call.(ssa.Instruction)), Arg(call, 1) == "block.LastCommit", "VerifyFaultValEvidence receives block.LastCommit: "+Arg(call, 1))
		}
	}

	// ---- a node never acts in a round it has not entered (and rotated for) ---------------------------------
	roundEnteredBeforeStep(c)

	// ---- a copy carries the designated proposer ----------------------------------------------------
	// GetProposer() of a copy must be the validator IncrementAccum designated, not a recomputation
	// from the (already decremented) accumulators: Copy assigns every field of ValidatorSet.
	{
		cp := p.Func("types", "ValidatorSet.Copy")
		st := p.Struct("types", "ValidatorSet")
		got := map[string]string{}
		// `c := *valSet` copies every field from the field of the same name; later stores override
		ir.Instrs(cp, func(in ssa.Instruction) {
			if s, ok := in.(*ssa.Store); ok {
				if al, isAl := s.Addr.(*ssa.Alloc); isAl && strings.Contains(al.Type().String(), "ValidatorSet") && ir.Render(s.Val) == "*valSet" {
					for i := 0; i < st.NumFields(); i++ {
						if _, set := got[st.Field(i).Name()]; !set {
							got[st.Field(i).Name()] = "valSet." + st.Field(i).Name()
						}
					}
				}
			}
		})
		ir.Instrs(cp, func(in ssa.Instruction) {
			if s, ok := in.(*ssa.Store); ok {
				if fa, ok := s.Addr.(*ssa.FieldAddr); ok {
					if fv := ir.FieldVar(fa.X, fa.Field); fv != nil {
						if al, ok := fa.X.(*ssa.Alloc); ok && strings.Contains(al.Type().String(), "ValidatorSet") {
							got[fv.Name()] = ir.Render(s.Val)
						}
					}
				}
			}
		})
		for i := 0; i < st.NumFields(); i++ {
			n := st.Field(i).Name()
			v, ok := got[n]
			okV := ok
			if n == "Proposer" {
				okV = ok && (v == "valSet.Proposer" || strings.HasPrefix(v, "types.Validator.Copy(valSet.Proposer"))
			}
			r.Check("K4", "types.(*ValidatorSet).Copy/field:"+n, p.Pos(cp.Pos()), okV, "the copy assigns field "+n+": "+v)
		}
	}
	// ---- determinism sources ------------------------------------------------------------------
	{
		scope := []struct{ rel, fn string }{
			{"types", "ValidatorSet.IncrementAccum"}, {"types", "NewValidatorSet"}, {"types", "ValidatorSet.findProposer"}, {"types", "ValidatorSet.GetProposer"},
			{"types", "ValidatorSet.Hash"}, {"types", "ValidatorSet.Add"}, {"types", "ValidatorSet.Update"}, {"types", "ValidatorSet.Remove"}, {"types", "ValidatorSet.Copy"},
			{"types", "ValidatorSet.TotalVotingPower"}, {"consensus", "updateStatus"}, {"consensus", "updateValidators"},
			{"app", "LinkApplication.getValidators"}, {"app", "LinkApplication.updateCandidatesbyOrder"}, {"app", "LinkApplication.calculateCandidates"}, {"app", "LinkApplication.recoverCandidates"},
			{"libs/common", "Heap.PushComparable"}, {"libs/common", "Heap.Update"}, {"libs/common", "Heap.Peek"},
		}
		nScope := 0
		for _, s := range scope {
			fn := p.TryFunc(s.rel, s.fn)
			if fn == nil {
				// gone under this name: if its body moved into a helper of a listed function, it is inspected there
				r.Note("determinism scope: %s.%s not present on this tree", s.rel, s.fn)
				continue
			}
			nScope++
			name := ir.FuncName(fn)
			mr := mapRanges(fn)
			okM := len(mr) == 0
			d := "no map iteration"
			if !okM {
				d = "map iteration at " + p.InstrPos(mr[0])
				// recoverCandidates builds a membership set from a slice; a map range there would be order-insensitive only if it just inserts
			}
			r.Check("K7", "determinism/"+name+"/no-map-range", p.Pos(fn.Pos()), okM, d)
			var bad []string
			ir.InstrsDeep(fn, func(_ *ssa.Function, in ssa.Instruction) {
				if call, ok := in.(ssa.CallInstruction); ok {
					n := ir.CalleeName(call)
					if n == "time.Now" || strings.HasPrefix(n, "rand.") || strings.HasPrefix(n, "common.Rand") {
						bad = append(bad, n+"@"+p.InstrPos(in))
					}
				}
				if _, ok := in.(*ssa.Go); ok {
					bad = append(bad, "go@"+p.InstrPos(in))
				}
			})
			r.Check("K7", "determinism/"+name+"/no-time-rand-go", p.Pos(fn.Pos()), len(bad) == 0, fmt.Sprintf("no wall clock, randomness or goroutine: %v", bad))
		}
		r.Check("K7", "determinism/scope", "-", nScope >= len(scope)-2, fmt.Sprintf("%d of %d listed functions present", nScope, len(scope)))
		// the seed of the candidate shuffle comes from the block
		cc := p.Func("app", "LinkApplication.calculateCandidates")
		for _, call := range ir.Calls(cc, "types.CandidateInOrderList.RandomSort") {
			r.Check("K7", "determinism/app.calculateCandidates/seed-from-block", p.InstrPos(call), strings.Contains(Arg(call, 1), "hash["), "RandomSort is seeded from the hash parameter: "+short(Arg(call, 1), 100))
		}
		cb := p.Func("app", "LinkApplication.CommitBlock")
		for _, call := range ir.Calls(cb, "app.LinkApplication.updateCandidatesbyOrder") {
			r.Check("K7", "determinism/app.CommitBlock/seed-is-last-commit-hash", p.InstrPos(call), Arg(call, 2) == "types.Commit.Hash(block.LastCommit)", "the seed is the hash of the block's LastCommit: "+Arg(call, 2))
		}
	}
}

var _ = report.Discharged

// roundEnteredBeforeStep (shared by C01 and C17): addVote may learn of a later round through +2/3
// votes; before it prevotes/precommits/commits in vote.Round it enters that round. Entering the round
// is where the proposal of the previous round is cleared and cs.Round/cs.Validators move on: a step
// taken without it signs a vote of the OLD round for what the new round's votes decided (C01: a
// precommit without +2/3 prevotes in that round) and leaves the proposer schedule behind (C17).
func roundEnteredBeforeStep(c C) {
	p, r := c.P, c.R
	csT := "consensus.(*ConsensusState)."
	av := p.Func("consensus", "ConsensusState.addVote")
	nS := 0
	isEnter := func(in ssa.Instruction) bool {
		call, ok := in.(*ssa.Call)
		return ok && ir.CalleeName(call) == "consensus.ConsensusState.enterNewRound" && Arg(call, 2) == "vote.Round"
	}
	ir.Instrs(av, func(in ssa.Instruction) {
		call, ok := in.(*ssa.Call)
		if !ok {
			return
		}
		n := ir.CalleeName(call)
		if !(n == "consensus.ConsensusState.enterPrevote" || n == "consensus.ConsensusState.enterPrevoteWait" || n == "consensus.ConsensusState.enterPrecommit" || n == "consensus.ConsensusState.enterPrecommitWait" || n == "consensus.ConsensusState.enterCommit") {
			return
		}
		if Arg(call, 2) != "vote.Round" {
			return
		}
		nS++
		found, _, tr := ir.FindPath(ir.PathQuery{From: ir.Entry(av), Target: func(x ssa.Instruction) bool { return x == in }, Avoid: isEnter,
			AvoidEdge: func(atoms []string) bool {
				for _, a := range atoms {
					if a == "eq(cs.RoundState.Round,vote.Round)" || a == "eq(vote.Round,cs.RoundState.Round)" {
						return true
					}
				}
				return false
			}})
		r.Check("K2", csT+"addVote/round-entered-before-step/"+strings.TrimPrefix(n, "consensus.ConsensusState."), p.InstrPos(in), !found,
			fmt.Sprintf("a step of vote.Round is taken only after enterNewRound(height, vote.Round) (or when vote.Round is the current round); path without it: %v", tr))
	})
	r.Check("K2", csT+"addVote/round-entered-before-step/sites", p.Pos(av.Pos()), nS >= 4, fmt.Sprintf("%d step calls for vote.Round found in addVote", nS))
}
