package props

import (
	"fmt"
	"regexp"
	"sort"
	"strings"

	"golang.org/x/tools/go/ssa"

	"lkcheck/ir"
	"lkcheck/report"
)

func init() { Registry["C14"] = C14 }

// C14 the consensus WAL replays what was written or reports corruption.
func C14(p *ir.Program, r *report.R) {
	c := C{p, r}
	r.Floor = 35
	r.Explain = "Decided: in WALDecoder.Decode the payload is decoded only after its CRC32C matched the stored checksum and its length passed the size bound; every error result is classified — a read that hit io.EOF is passed through as end-of-log, everything that depends on the bytes read (checksum mismatch, impossible length, undecodable payload) is a DataCorruptionError, a plain error only for a non-EOF I/O failure; writer and reader agree on the frame (same CRC table object, big endian, crc at [0:4], length at [4:8], payload after, length = len(payload)); SearchForEndHeight reports found only for an EndHeightMessage with the requested height, visits files newest to oldest and skips only classified corruption; catchupReplay starts only after the marker of the previous height was found and none for the current one; finalizeCommit writes the marker with WriteSync (Write then Flush, both fatal on error) after CommitBlock. ADDED after seeded-change testing: SearchForEndHeight gives up before the oldest file only after a marker with 0 < h < height was seen; in catchupReplay a failed non-EOF Decode never leads back to the next Decode; a decoder using io.ReadFull must return ErrUnexpectedEOF as end-of-log. Rounds 4-5: the group's buffered writer is flushed before it is reset or replaced; SearchForEndHeight leaves the scan of one reader only after io.EOF. NOT decided: behaviour at every cut offset / byte flip as a value property, CRC collisions, rotation timing; that GroupReader.Read fills the buffer or returns an error (bufio semantics, trusted)."
	r.Trusted = []string{"hash/crc32", "autofile.GroupReader.Read returns a full buffer or an error", "libs/ser (C11)"}

	dec := p.Func("consensus", "WALDecoder.Decode")
	name := "consensus.(*WALDecoder).Decode"
	reads := ir.Calls(dec, "io.Reader.Read")
	// A record field read with io.ReadFull reports a field cut short as io.ErrUnexpectedEOF:
	// the torn tail of a log must still be the end of the log, so such a decoder has to
	// classify ErrUnexpectedEOF like io.EOF.
	if full := ir.Calls(dec, "io.ReadFull"); len(full) > 0 {
		okShort := true
		for _, rd := range full {
			e := ir.RenderCall(rd) + "#1"
			ok := false
			for _, rt := range ir.Returns(dec) {
				if ir.HasFact(ir.FactsAt(rt.Instr), ir.EqPat(e, "io.ErrUnexpectedEOF")) && (ir.Render(rt.Results[1]) == "io.EOF" || ir.AbstractResult(rt.Results[1]) == "nonnil:ErrEOF") {
					ok = true
				}
			}
			if !ok {
				okShort = false
			}
		}
		r.Check("K8", name+"/short-read-is-end-of-log", p.InstrPos(full[0].(ssa.Instruction)), okShort, "a field cut short (io.ErrUnexpectedEOF from io.ReadFull) is returned as io.EOF, not as a plain error")
		if !okShort {
			return
		}
	}
	if !c.MustFind("K1", name+"/reads", dec, len(reads), "dec.rd.Read calls") {
		return
	}
	r.Check("K5", name+"/three-reads", p.InstrPos(reads[0]), len(reads) == 3, fmt.Sprintf("checksum, length and payload are read separately (found %d reads)", len(reads)))
	if len(reads) != 3 {
		return
	}
	crcBuf, lenBuf, dataBuf := Arg(reads[0], 1), Arg(reads[1], 1), Arg(reads[2], 1)
	crcV := "binary.bigEndian.Uint32(binary.BigEndian," + crcBuf + ")"
	lenV := "binary.bigEndian.Uint32(binary.BigEndian," + lenBuf + ")"
	r.Check("K5", name+"/distinct-buffers", p.InstrPos(reads[1]), crcBuf != lenBuf && strings.Contains(crcBuf, "[:4]") && strings.Contains(lenBuf, "[:4]"), "checksum and length are 4-byte reads into distinct buffers: "+crcBuf+" / "+lenBuf)
	r.Check("K1", name+"/payload-size", p.InstrPos(reads[2]), ir.Match("make*([]byte,"+lenV+")", dataBuf), "the payload buffer has exactly the stored length: "+dataBuf)
	maxB := fmt.Sprint(c.ConstInt("consensus", "maxMsgSizeBytes"))
	// allocation bounded
	ir.Instrs(dec, func(in ssa.Instruction) {
		if ms, ok := in.(*ssa.MakeSlice); ok && ir.Render(ms.Len) == lenV {
			c.Guards(name, "alloc payload", in, G{"bounded", "le(" + lenV + "," + maxB + ")"})
		}
	})
	// decode after checksum
	dcalls := ir.Calls(dec, "ser.DecodeBytes")
	c.MustFind("K1", name+"/decode", dec, len(dcalls), "ser.DecodeBytes call")
	crcOK := ir.EqPat(crcV, "crc32.Checksum("+dataBuf+",consensus.crc32c)")
	for _, call := range dcalls {
		r.Check("K1", name+"/decode/payload", p.InstrPos(call), Arg(call, 0) == dataBuf, "decodes the bytes that were checksummed: "+Arg(call, 0))
		c.Guards(name, "decode", call,
			G{"checksum-matches", crcOK},
			G{"payload-read-ok", "eq(io.Reader.Read(dec.rd," + dataBuf + ")#1,nil)"},
			G{"length-read-ok", "eq(io.Reader.Read(dec.rd," + lenBuf + ")#1,nil)"})
	}
	// error classes
	for _, rt := range ir.Returns(dec) {
		res := rt.Results[1]
		abs := ir.AbstractResult(res)
		fs := ir.FactsAt(rt.Instr)
		switch {
		case abs == "nil":
			continue
		case strings.HasPrefix(abs, "nonnil:consensus.DataCorruptionError"):
			r.Check("K8", name+"/error-class/corruption", p.InstrPos(rt.Instr), true, "classified as DataCorruptionError")
		case regexp.MustCompile(`^io\.Reader\.Read\(.*\)#1$`).MatchString(abs):
			r.Check("K8", name+"/error-class/eof-passthrough", p.InstrPos(rt.Instr), ir.HasFact(fs, ir.EqPat(abs, "io.EOF")), "a read error is passed through only when it is io.EOF (end of log)")
		case abs == "nonnil:error":
			// plain error: only for a non-EOF read failure
			ok := false
			for _, rd := range reads {
				e := "io.Reader.Read(dec.rd," + Arg(rd, 1) + ")#1"
				if ir.HasFact(fs, ir.NePat(e, "io.EOF")) && ir.HasFact(fs, "!eq("+e+",nil)") {
					ok = true
				}
			}
			r.Check("K8", name+"/error-class/plain", p.InstrPos(rt.Instr), ok, "a plain (unclassified) error is allowed only for a non-EOF I/O failure of a read; anything derived from the bytes must be DataCorruptionError; facts: "+short(strings.Join(ir.FactStrings(fs), " ; "), 300))
		case strings.HasPrefix(abs, "ser.DecodeBytes("):
			// final `return res, err` with err == nil on this path
			r.Check("K8", name+"/error-class/final", p.InstrPos(rt.Instr), ir.HasFact(fs, "eq("+abs+",nil)"), "the success return carries the nil decode error")
		default:
			// the error of a same-package helper all of whose failures are DataCorruptionError
			if callee := errorHelperOf(res); callee != nil && callee.Pkg == dec.Pkg {
				all, n := true, 0
				for _, hr := range ir.Returns(callee) {
					a := ir.AbstractResult(hr.Results[len(hr.Results)-1])
					if a == "nil" {
						continue
					}
					n++
					if !strings.HasPrefix(a, "nonnil:consensus.DataCorruptionError") {
						all = false
					}
				}
				r.Check("K8", name+"/error-class/corruption", p.InstrPos(rt.Instr), all && n > 0, "classified as DataCorruptionError by every failing return of helper "+callee.Name())
				continue
			}
			r.Check("K8", name+"/error-class/unknown", p.InstrPos(rt.Instr), false, "unclassified error result: "+short(abs, 200))
		}
	}
	// each read's EOF is tested before its generic error test
	for i, rd := range reads {
		e := "io.Reader.Read(dec.rd," + Arg(rd, 1) + ")#1"
		okEOF := false
		for _, rt := range ir.Returns(dec) {
			if ir.Render(rt.Results[1]) == e && ir.HasFact(ir.FactsAt(rt.Instr), ir.EqPat(e, "io.EOF")) {
				okEOF = true
			}
		}
		r.Check("K8", fmt.Sprintf("%s/read%d/eof-is-end-of-log", name, i+1), p.InstrPos(rd), okEOF, "io.EOF from this read is returned as io.EOF (a log cut inside a record ends the log)")
	}

	// ---- framing agreement -----------------------------------------------------
	{
		enc := p.Func("consensus", "WALEncoder.Encode")
		en := "consensus.(*WALEncoder).Encode"
		data := "ser.MustEncodeToBytes(v)"
		puts := ir.Calls(enc, "binary.bigEndian.PutUint32")
		okCrc, okLen := false, false
		for _, pc := range puts {
			a1, a2 := Arg(pc, 1), Arg(pc, 2)
			if strings.HasSuffix(a1, "[0:4]") && a2 == "crc32.Checksum("+data+",consensus.crc32c)" {
				okCrc = true
			}
			if strings.HasSuffix(a1, "[4:8]") && a2 == "len("+data+")" {
				okLen = true
			}
		}
		r.Check("K5", en+"/crc-at-0:4", p.Pos(enc.Pos()), okCrc, "writer puts CRC32C(payload) big-endian at [0:4]")
		r.Check("K5", en+"/len-at-4:8", p.Pos(enc.Pos()), okLen, "writer puts len(payload) big-endian at [4:8]")
		okCopy := false
		ir.Instrs(enc, func(in ssa.Instruction) {
			if call, ok := in.(*ssa.Call); ok && ir.CalleeName(call) == "copy" && strings.HasSuffix(Arg(call, 0), "[8:]") && Arg(call, 1) == data {
				okCopy = true
			}
		})
		r.Check("K5", en+"/payload-at-8", p.Pos(enc.Pos()), okCopy, "writer copies the payload after the 8-byte header")
		wr := ir.Calls(enc, "io.Writer.Write")
		r.Check("K5", en+"/single-write", p.Pos(enc.Pos()), len(wr) == 1, "the record is handed to the writer in one Write")
		okRet := false
		for _, rt := range ir.Returns(enc) {
			if strings.HasPrefix(ir.Render(rt.Results[0]), "io.Writer.Write(") {
				okRet = true
			}
		}
		r.Check("K8", en+"/write-error-returned", p.Pos(enc.Pos()), okRet, "the write error is the result")
		// reader side uses the same table and byte order, in the same field order
		r.Check("K5", name+"/same-crc-table", p.Pos(dec.Pos()), len(ir.Calls(dec, "crc32.Checksum")) == 1 && strings.HasSuffix(Arg(ir.Calls(dec, "crc32.Checksum")[0], 1), "consensus.crc32c"), "reader uses the crc32c table object of the writer")
		r.Check("K5", name+"/field-order", p.Pos(dec.Pos()), ir.Precedes(reads[0], reads[1]) && ir.Precedes(reads[1], reads[2]), "reader reads checksum, then length, then payload")
		bw := len(ir.Calls(dec, "binary.bigEndian.Uint32"))
		lw := len(ir.Calls(dec, "binary.littleEndian.*"))
		r.Check("K5", name+"/byte-order", p.Pos(dec.Pos()), bw == 2 && lw == 0, "reader decodes both header words big-endian")
	}

	// ---- marker search ------------------------------------------------------------
	{
		fn := p.Func("consensus", "baseWAL.SearchForEndHeight")
		sn := "consensus.(*baseWAL).SearchForEndHeight"
		msg := "consensus.WALDecoder.Decode(consensus.NewWALDecoder(autofile.Group.NewReader(wal.group,φ:index)#0))"
		n := 0
		for _, rt := range ir.Returns(fn) {
			if ir.AbstractResult(rt.Results[1]) != "true" {
				continue
			}
			n++
			c.Guards(sn, "return found", rt.Instr,
				G{"is-end-height-message", msg + "#0.Msg.(consensus.EndHeightMessage)#1"},
				G{"height-matches", ir.EqPat(msg+"#0.Msg.(consensus.EndHeightMessage)#0.Height", "height")},
				G{"decoded-without-error", "eq(" + msg + "#1,nil)"})
			r.Check("K1", sn+"/return found/reader", p.InstrPos(rt.Instr), ir.Render(rt.Results[0]) == "autofile.Group.NewReader(wal.group,φ:index)#0", "returns the reader positioned after the marker")
		}
		c.MustFind("K1", sn+"/return found", fn, n, "return ..., true, nil")
		// files newest -> oldest
		okPhi, okCond := false, false
		for _, b := range fn.Blocks {
			for _, in := range b.Instrs {
				if ph, ok := in.(*ssa.Phi); ok && ir.LocalName(ph.Parent(), ph.Comment) == "index" {
					var es []string
					for _, e := range ph.Edges {
						es = append(es, ir.Render(e))
					}
					sort.Strings(es)
					okPhi = len(es) == 2 && es[0] == "(φ:index - 1)" && es[1] == "autofile.Group.MaxIndex(wal.group)"
				}
				if ifi, ok := in.(*ssa.If); ok {
					for _, a := range ir.CondAtoms(ifi.Cond, true) {
						if a == "le(autofile.Group.MinIndex(wal.group),φ:index)" {
							okCond = true
						}
					}
				}
			}
		}
		r.Check("K2", sn+"/newest-to-oldest", p.Pos(fn.Pos()), okPhi && okCond, "files are visited from MaxIndex down to MinIndex")
		// a decode error is skipped only if classified as corruption and the caller asked for it
		for _, l := range ir.Loops(fn) {
			for _, latch := range l.Latches {
				fs := ir.FactsAtBlock(latch)
				if ir.HasFact(fs, "!eq("+msg+"#1,nil)") || ir.HasFact(fs, "consensus.IsDataCorruptionError(*)") {
					r.Check("K8", sn+"/skip-only-classified-corruption", p.InstrPos(latch.Instrs[len(latch.Instrs)-1]),
						ir.HasFact(fs, "consensus.IsDataCorruptionError("+msg+"#1)") && ir.HasFact(fs, "options.IgnoreDataCorruptionErrors"),
						"the search continues past a failed record only for a DataCorruptionError and only when IgnoreDataCorruptionErrors is set")
				}
			}
		}
		// one reader is scanned to its END: a record that straddles a rotation boundary is decoded aligned
		// only by the scan that started in the older file, so the scan moves on to the next (older) start
		// file only when Decode reported io.EOF — not when the reader crossed into a newer file
		{
			var outer *ir.Loop
			loops := ir.Loops(fn)
			for i := range loops {
				if outer == nil || len(loops[i].Body) > len(outer.Body) {
					outer = &loops[i]
				}
			}
			decs := ir.Calls(fn, "consensus.WALDecoder.Decode")
			okScan := outer != nil && len(decs) == 1 && len(loops) >= 2
			where := p.Pos(fn.Pos())
			if okScan {
				dec := decs[0].(ssa.Instruction)
				isLatch := map[*ssa.BasicBlock]bool{}
				for _, l := range outer.Latches {
					isLatch[l] = true
				}
				eofA, eofB := "eq("+msg+"#1,io.EOF)", "eq(io.EOF,"+msg+"#1)"
				found, hit, _ := ir.FindPath(ir.PathQuery{From: ir.At(dec),
					Target: func(in ssa.Instruction) bool { return isLatch[in.Block()] },
					Avoid:  func(in ssa.Instruction) bool { return in == dec },
					AvoidEdge: func(atoms []string) bool {
						for _, a := range atoms {
							if a == eofA || a == eofB {
								return true
							}
						}
						return false
					}})
				if found {
					okScan = false
					where = p.InstrPos(hit)
				}
			}
			r.Check("K2", sn+"/next-file-only-at-eof", where, okScan, "the scan of one reader is left for the next start file only after Decode returned io.EOF")
		}
		// the "older files cannot contain it" shortcut: only after a marker below the requested
		// height was actually seen (a head file without any marker says nothing about older files)
		nStop := 0
		for _, rt := range ir.Returns(fn) {
			if ir.AbstractResult(rt.Results[1]) != "false" || ir.AbstractResult(rt.Results[2]) != "nil" {
				continue
			}
			fs := ir.FactsAt(rt.Instr)
			if !ir.HasFact(fs, ir.EqPat(msg+"#1", "io.EOF")) {
				continue // the final "not found" after all files
			}
			nStop++
			r.Check("K1", sn+"/early-stop/marker-below-seen", p.InstrPos(rt.Instr), ir.HasFact(fs, "lt(0,φ:lastHeightFound)") && ir.HasFact(fs, "lt(φ:lastHeightFound,height)"),
				"the search gives up before the oldest file only when an end-height marker with 0 < h < height was seen: "+short(strings.Join(ir.FactStrings(fs), " ; "), 300))
		}
		r.Stats["early-stop returns"] = nStop
		// catchupReplay
		cr := p.Func("consensus", "ConsensusState.catchupReplay")
		rn := csT + "catchupReplay"
		// a record of the unfinished height that fails to decode ends the replay (panic or error):
		// skipping it would replay a sequence that is not a prefix of what was written
		for _, call := range ir.Calls(cr, "consensus.WALDecoder.Decode") {
			e := ir.RenderCall(call) + "#1"
			bad := ""
			for _, b := range cr.Blocks {
				fs := ir.FactsAtBlock(b)
				if !(ir.HasFact(fs, "!eq("+e+",nil)") || ir.HasFact(fs, "consensus.IsDataCorruptionError("+e+")")) || ir.HasFact(fs, ir.EqPat(e, "io.EOF")) {
					continue
				}
				if len(b.Instrs) == 0 {
					continue
				}
				if found, _, tr := ir.FindPath(ir.PathQuery{From: ir.Point{B: b, I: -1}, Target: func(in ssa.Instruction) bool { return in == call.(ssa.Instruction) }}); found {
					bad = fmt.Sprintf("block %d (facts %s) leads back to the next Decode, blocks %v", b.Index, short(strings.Join(ir.FactStrings(fs), ";"), 160), tr)
				}
			}
			r.Check("K8", rn+"/decode-failure-ends-replay", p.InstrPos(call.(ssa.Instruction)), bad == "", "after a failed (non-EOF) Decode the replay loop is never continued: "+bad)
		}
		for _, call := range ir.Calls(cr, "consensus.ConsensusState.readReplayMessage") {
			c.Guards(rn, "replay", call,
				G{"previous-marker-found", "consensus.WAL.SearchForEndHeight(cs.wal,(csHeight - 1),*)#1"},
				G{"no-marker-for-this-height", "!consensus.WAL.SearchForEndHeight(cs.wal,csHeight,*)#1"},
				G{"decoded-without-error", "eq(consensus.WALDecoder.Decode(*)#1,nil)"})
		}
		c.MustFind("K1", rn+"/replay", cr, len(ir.Calls(cr, "consensus.ConsensusState.readReplayMessage")), "readReplayMessage call")
		idc := p.Func("consensus", "IsDataCorruptionError")
		okI := false
		for _, rt := range ir.Returns(idc) {
			if ir.Render(rt.Results[0]) == "err.(consensus.DataCorruptionError)#1" {
				okI = true
			}
		}
		r.Check("K5", "consensus.IsDataCorruptionError/type-test", p.Pos(idc.Pos()), okI, "classification is a type test for DataCorruptionError")
	}

	// ---- marker write -------------------------------------------------------------
	{
		fin := p.Func("consensus", "ConsensusState.finalizeCommit")
		ws := ir.Calls(fin, "consensus.WAL.WriteSync")
		cb := ir.Calls(fin, "*BlockChainApp.CommitBlock")
		ab := ir.Calls(fin, "*BlockExecutor.ApplyBlock")
		if c.MustFind("K2", csT+"finalizeCommit/marker", fin, min4(len(ws), len(cb), len(ab), 1), "WriteSync, CommitBlock, ApplyBlock") {
			r.Check("K2", csT+"finalizeCommit/marker/value", p.InstrPos(ws[0]), Arg(ws[0], 1) == "consensus.EndHeightMessage{Height:height}", "the marker written is EndHeightMessage{height}: "+Arg(ws[0], 1))
			found, _, tr := ir.FindPath(ir.PathQuery{From: ir.At(cb[0]), Target: func(in ssa.Instruction) bool { return in == ab[0] }, Avoid: func(in ssa.Instruction) bool { return in == ws[0] }})
			r.Check("K2", csT+"finalizeCommit/marker/between-commit-and-apply", p.InstrPos(ws[0]), !found, fmt.Sprintf("every path from CommitBlock to ApplyBlock writes the marker; offending blocks %v", tr))
			r.Check("K2", csT+"finalizeCommit/marker/after-commit", p.InstrPos(ws[0]), !ir.Precedes(ws[0], cb[0]), "the marker is not written before the block is persisted")
		}
		wsf := p.Func("consensus", "baseWAL.WriteSync")
		w := ir.Calls(wsf, "consensus.baseWAL.Write")
		fl := ir.Calls(wsf, "autofile.Group.Flush")
		if c.MustFind("K2", "consensus.(*baseWAL).WriteSync/shape", wsf, min4(len(w), len(fl), 1, 1), "Write and Flush") {
			r.Check("K2", "consensus.(*baseWAL).WriteSync/write-then-flush", p.InstrPos(fl[0]), ir.Precedes(w[0], fl[0]), "Write precedes Flush")
			found, _, _ := ir.FindPath(ir.PathQuery{From: ir.At(fl[0]), Target: ir.IsReturn, AvoidEdge: func(atoms []string) bool {
				for _, a := range atoms {
					if a == "eq(autofile.Group.Flush(wal.group),nil)" {
						return true
					}
				}
				return false
			}})
			r.Check("K8", "consensus.(*baseWAL).WriteSync/flush-error-fatal", p.InstrPos(fl[0]), !found, "WriteSync returns normally only if Flush returned nil")
		}
		wf := p.Func("consensus", "baseWAL.Write")
		e := ir.Calls(wf, "consensus.WALEncoder.Encode")
		if c.MustFind("K2", "consensus.(*baseWAL).Write/encode", wf, len(e), "Encode call") {
			found, _, _ := ir.FindPath(ir.PathQuery{From: ir.At(e[0]), Target: ir.IsReturn, AvoidEdge: func(atoms []string) bool {
				for _, a := range atoms {
					if ir.Match("eq(consensus.WALEncoder.Encode(*),nil)", a) {
						return true
					}
				}
				return false
			}})
			r.Check("K8", "consensus.(*baseWAL).Write/encode-error-fatal", p.InstrPos(e[0]), !found, "Write returns normally only if Encode returned nil")
		}
	}

	// ---- rolled files: the name the writer produces is a name the reader recognises ---------------------
	// filePathForIndex writes "<head>.%03d" (at least three digits, more beyond 999); readGroupInfo must
	// accept every such name ({3,}), else a long-lived log loses its tail after a restart.
	{
		fp := p.Func("libs/autofile", "filePathForIndex")
		rg := p.Func("libs/autofile", "Group.readGroupInfo")
		format, pattern := "", ""
		for _, call := range ir.Calls(fp, "fmt.Sprintf") {
			format = Arg(call, 0)
		}
		consts := func(fn *ssa.Function) {
			ir.Instrs(fn, func(in ssa.Instruction) {
				if call, ok := in.(*ssa.Call); ok && ir.CalleeName(call) == "regexp.MustCompile" {
					pattern = Arg(call, 0)
				}
			})
		}
		consts(rg)
		if pattern == "" {
			// hoisted to a package-level variable: look in the package initialiser
			if sp := p.SSAPkg[ir.Module+"/libs/autofile"]; sp != nil {
				if f := sp.Func("init"); f != nil {
					consts(f)
				}
			}
		}
		okFmt := strings.Contains(format, ".%03d")
		okPat := strings.Contains(pattern, "[0-9]{3,}") || strings.Contains(pattern, "\\d{3,}") || strings.Contains(pattern, "[0-9]+") || strings.Contains(pattern, "\\d+")
		r.Check("K5", "autofile/rolled-file-name/writer~reader", p.Pos(rg.Pos()), okFmt && okPat, "writer format "+format+" (>= 3 digits) and reader pattern "+pattern+" (must accept 3 OR MORE digits)")
	}
	// what was written and not yet flushed is never thrown away: the head's buffered writer is Reset (or
	// replaced) only after a Flush of the same writer in the same function (rotation happens on a timer
	// while Write() leaves records in the buffer)
	{
		n := 0
		for _, f := range p.Funcs {
			if f.Pkg == nil || ir.RelPkg(f.Pkg.Pkg) != "libs/autofile" || f.Blocks == nil || strings.HasSuffix(p.Pos(f.Pos()), "_test.go") {
				continue
			}
			var drops []ssa.Instruction
			for _, call := range ir.Calls(f, "bufio.Writer.Reset") {
				if strings.HasSuffix(Arg(call, 0), ".headBuf") {
					drops = append(drops, call.(ssa.Instruction))
				}
			}
			for _, s := range p.Stores(p.Field("libs/autofile", "Group.headBuf")) {
				if s.Fn == f && s.Kind == "store" && !strings.HasPrefix(f.Name(), "OpenGroup") {
					drops = append(drops, s.Instr)
				}
			}
			for _, d := range drops {
				n++
				flushed := false
				for _, fl := range ir.Calls(f, "bufio.Writer.Flush") {
					if strings.HasSuffix(Arg(fl, 0), ".headBuf") && ir.Precedes(fl.(ssa.Instruction), d) {
						flushed = true
					}
				}
				r.Check("K2", "autofile.(*Group)."+f.Name()+"/buffer-flushed-before-discard", p.InstrPos(d), flushed, "the head buffer is flushed before it is reset or replaced")
			}
		}
		r.Note("autofile: %d places that reset or replace the head buffer outside OpenGroup", n)
	}
}

var _ = report.Discharged

// errorHelperOf: the statically resolved callee whose (last) result v is, looking through a
// single-store local.
func errorHelperOf(v ssa.Value) *ssa.Function {
	switch x := v.(type) {
	case *ssa.Call:
		return x.Call.StaticCallee()
	case *ssa.Extract:
		if c, ok := x.Tuple.(*ssa.Call); ok {
			return c.Call.StaticCallee()
		}
	}
	return nil
}
