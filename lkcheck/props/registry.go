// Package props holds the repository-specific rule instances, one file per
// property.
package props

import (
	"fmt"
	"sort"
	"strings"

	"golang.org/x/tools/go/ssa"

	"lkcheck/ir"
	"lkcheck/report"
)

// Registry maps property ids to their checks.
var Registry = map[string]func(*ir.Program, *report.R){}

// Dump prints blocks, rendered instructions and facts of a function.
func Dump(p *ir.Program, spec string) {
	i := strings.Index(spec, ":")
	fn := p.Func(spec[:i], spec[i+1:])
	var dump func(fn *ssa.Function)
	dump = func(fn *ssa.Function) {
		fmt.Printf("== %s\n", ir.FuncName(fn))
		for _, b := range fn.Blocks {
			fs := ir.FactStrings(ir.FactsAtBlock(b))
			var succ []int
			for _, s := range b.Succs {
				succ = append(succ, s.Index)
			}
			fmt.Printf(" b%d (%s) -> %v  facts=%v\n", b.Index, b.Comment, succ, fs)
			for _, in := range b.Instrs {
				switch in.(type) {
				case *ssa.Store, *ssa.MapUpdate, ssa.CallInstruction, *ssa.Return, *ssa.If, *ssa.Panic, *ssa.MakeSlice, *ssa.MakeMap:
					fmt.Printf("    %-22s %s\n", p.InstrPos(in), ir.RenderInstr(in))
				}
			}
		}
		for _, a := range fn.AnonFuncs {
			dump(a)
		}
	}
	dump(fn)
	eff := ir.DefaultEffects(p)
	sm := eff.Summarize(fn)
	fmt.Printf("== effects: params=%v global=%q retFresh=%v\n", sm.Params, sm.Global, sm.RetFresh)
}

// helper: names of functions
func fnNames(fs []*ssa.Function) []string {
	var out []string
	for _, f := range fs {
		out = append(out, ir.FuncName(f))
	}
	sort.Strings(out)
	return out
}
