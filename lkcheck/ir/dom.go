package ir

import (
	"sync"

	"golang.org/x/tools/go/ssa"
)

// FnInfo is the pruned CFG of a function: out-edges of blocks that end in
// panic or contain a call to a non-returning function (cmn.PanicSanity, ...)
// are removed, and dominators are recomputed on what remains. go/ssa does not
// know the repository's non-returning helpers, so without pruning the
// idiomatic `if !ok { cmn.PanicSanity(..) }` would not establish `ok` for the
// code that follows.
type FnInfo struct {
	Fn    *ssa.Function
	Dies  map[*ssa.BasicBlock]bool
	Preds map[*ssa.BasicBlock][]*ssa.BasicBlock
	Succs map[*ssa.BasicBlock][]*ssa.BasicBlock
	Reach map[*ssa.BasicBlock]bool
	idom  map[*ssa.BasicBlock]*ssa.BasicBlock
	order []*ssa.BasicBlock // reverse postorder
	rpo   map[*ssa.BasicBlock]int
}

var (
	fnInfoMu sync.Mutex
	fnInfos  = map[*ssa.Function]*FnInfo{}
)

// Info returns the cached pruned CFG of fn.
func Info(fn *ssa.Function) *FnInfo {
	if fi := fnInfos[fn]; fi != nil {
		return fi
	}
	fi := &FnInfo{Fn: fn, Dies: map[*ssa.BasicBlock]bool{}, Preds: map[*ssa.BasicBlock][]*ssa.BasicBlock{},
		Succs: map[*ssa.BasicBlock][]*ssa.BasicBlock{}, Reach: map[*ssa.BasicBlock]bool{},
		idom: map[*ssa.BasicBlock]*ssa.BasicBlock{}, rpo: map[*ssa.BasicBlock]int{}}
	fnInfos[fn] = fi
	if len(fn.Blocks) == 0 {
		return fi
	}
	for _, b := range fn.Blocks {
		if _, d := blockDies(b); d {
			fi.Dies[b] = true
		}
	}
	// DFS from entry over pruned edges
	var post []*ssa.BasicBlock
	var dfs func(b *ssa.BasicBlock)
	dfs = func(b *ssa.BasicBlock) {
		fi.Reach[b] = true
		if !fi.Dies[b] {
			for _, s := range b.Succs {
				fi.Succs[b] = append(fi.Succs[b], s)
				fi.Preds[s] = append(fi.Preds[s], b)
				if !fi.Reach[s] {
					dfs(s)
				}
			}
		}
		post = append(post, b)
	}
	dfs(fn.Blocks[0])
	for i := len(post) - 1; i >= 0; i-- {
		fi.rpo[post[i]] = len(fi.order)
		fi.order = append(fi.order, post[i])
	}
	// Cooper-Harvey-Kennedy
	entry := fn.Blocks[0]
	fi.idom[entry] = entry
	changed := true
	for changed {
		changed = false
		for _, b := range fi.order[1:] {
			var nd *ssa.BasicBlock
			for _, p := range fi.Preds[b] {
				if fi.idom[p] == nil {
					continue
				}
				if nd == nil {
					nd = p
				} else {
					nd = fi.intersect(p, nd)
				}
			}
			if nd != nil && fi.idom[b] != nd {
				fi.idom[b] = nd
				changed = true
			}
		}
	}
	fi.idom[entry] = nil
	return fi
}

func (fi *FnInfo) intersect(a, b *ssa.BasicBlock) *ssa.BasicBlock {
	for a != b {
		for fi.rpo[a] > fi.rpo[b] {
			a = fi.idom[a]
		}
		for fi.rpo[b] > fi.rpo[a] {
			b = fi.idom[b]
		}
	}
	return a
}

// Idom is the immediate dominator in the pruned CFG (nil for entry).
func (fi *FnInfo) Idom(b *ssa.BasicBlock) *ssa.BasicBlock { return fi.idom[b] }

// Dominates reports whether a dominates b (reflexive) in the pruned CFG.
func (fi *FnInfo) Dominates(a, b *ssa.BasicBlock) bool {
	if !fi.Reach[b] {
		return true // vacuous: b is unreachable
	}
	for c := b; c != nil; c = fi.idom[c] {
		if c == a {
			return true
		}
	}
	return false
}
