package props

import (
	"fmt"
	"regexp"
	"sort"
	"strings"

	"golang.org/x/tools/go/ssa"

	"lkcheck/ir"
	"lkcheck/report"
)

func init() { Registry["C02"] = C02 }

// the three validations a block must pass before a vote for it
var c02Validated = []G{
	{"evidence", "consensus.ConsensusState.checkBlockEvidence(cs,cs.RoundState.ProposalBlock)"},
	{"application", "consensus.BlockChainApp.CheckBlock(cs.appmgr,cs.RoundState.ProposalBlock)"},
	{"full-validation", "eq(consensus.BlockExecutor.ValidateBlock(cs.blockExec,consensus.NewStatus.Copy(cs.status),cs.RoundState.ProposalBlock),nil) || eq(consensus.BlockExecutor.ValidateBlock(cs.blockExec,cs.status,cs.RoundState.ProposalBlock),nil)"},
}

// C02 honest validators vote only for fully valid blocks.
func C02(p *ir.Program, r *report.R) {
	c := C{p, r}
	r.Floor = 25
	r.Explain = "Decided: every prevote for the proposal block (defaultDoPrevote) and every lock of the proposal block (enterPrecommit) is dominated by successful evidence check, application check AND full validation (BlockExecutor.ValidateBlock -> validateBlock) of cs.ProposalBlock against the current status; a precommit for a block is only for the locked block or the block locked on this path; validateBlock's nil-error return is dominated by every comparison the property lists (ValidateBasic, chain id, height, last block id, total txs, consensus hash, validators hash unless recover, last-commit size and VerifyCommit unless height 1) and every evidence item is verified before the loop continues; ApplyBlock validates before it updates or saves status. ADDED after seeded-change testing: Recover gate: the completed proposal block is used (valid-block update, enterPrevote/enterPrecommit/tryFinalizeCommit) only when its header's recover counter equals the node's own, the condition under which validateBlock may skip the validators-hash comparison. Rounds 4-5: the proposal block and its part set are replaced together at every site; the status built by updateStatus does not inherit LastRecover. NOT decided: that CheckBlock's execution result is right (C05), signature arithmetic (C03)."
	r.Trusted = []string{"VerifyCommit (C03)", "LinkApplication.CheckBlock (C05)"}

	// ---- votes are preceded by validation ------------------------------------
	dp := p.Func("consensus", "ConsensusState.defaultDoPrevote")
	n := 0
	for _, call := range ir.Calls(dp, signAddVoteG) {
		if Arg(call, 2) == "nil" || strings.Contains(Arg(call, 2), "LockedBlock") {
			continue
		}
		n++
		c.Guards(csT+"defaultDoPrevote", "prevote proposal block", call, c02Validated...)
	}
	c.MustFind("K1", csT+"defaultDoPrevote/prevote proposal block", dp, n, "prevote for the proposal block")

	// ---- recover gate ----------------------------------------------------------------------
	// validateBlock skips the validators-hash comparison for a block whose header says Recover >= 1;
	// such a block may only become the proposal block when its recover counter is the node's own.
	{
		ap := p.Func("consensus", "ConsensusState.addProposalBlockPart")
		gate := G{"recover-counter-equal", ir.EqPat("cs.RoundState.ProposalBlock.Header.Recover", "cs.recover")}
		ng := 0
		ir.Instrs(ap, func(in ssa.Instruction) {
			switch x := in.(type) {
			case *ssa.Call:
				cn := ir.CalleeName(x)
				if cn == "consensus.ConsensusState.enterPrevote" || cn == "consensus.ConsensusState.enterPrecommit" || cn == "consensus.ConsensusState.tryFinalizeCommit" {
					ng++
					c.Guards(csT+"addProposalBlockPart", "call "+cn, in, gate)
				}
			case *ssa.Store:
				if fa, ok := x.Addr.(*ssa.FieldAddr); ok {
					if fv := ir.FieldVar(fa.X, fa.Field); fv != nil && fv.Name() == "ValidBlock" {
						ng++
						c.Guards(csT+"addProposalBlockPart", "store ValidBlock", in, gate)
					}
				}
			}
		})
		c.MustFind("K1", csT+"addProposalBlockPart/recover-gate", ap, ng, "uses of the completed proposal block")
		// a block that fails a gate is not kept: on every path from a failed gate to the return,
		// cs.ProposalBlock is reset to nil (else the "rejected" block is prevoted at the propose timeout)
		isClear := func(in ssa.Instruction) bool {
			st, ok := in.(*ssa.Store)
			return ok && ir.Render(st.Addr) == "&cs.RoundState.ProposalBlock" && ir.Render(st.Val) == "nil"
		}
		nGate := 0
		for _, gatePat := range []struct{ label, pat string }{
			{"recover-mismatch", ir.NePat("cs.RoundState.ProposalBlock.Header.Recover", "cs.recover")},
			{"malformed", "!types.Block.WellFormed(cs.RoundState.ProposalBlock)"},
		} {
			for _, b := range ap.Blocks {
				fs := ir.FactsAtBlock(b)
				if !ir.HasFact(fs, gatePat.pat) || len(b.Instrs) == 0 {
					continue
				}
				// only the block where the fact is first established (its immediate dominator lacks it)
				if id := ir.Info(ap).Idom(b); id != nil && ir.HasFact(ir.FactsAtBlock(id), gatePat.pat) {
					continue
				}
				nGate++
				found, hit, tr := ir.FindPath(ir.PathQuery{From: ir.Point{B: b, I: -1}, Target: ir.IsReturn, Avoid: isClear})
				d := "the rejected block is dropped before returning"
				if found {
					d += fmt.Sprintf(" — but the return at %s is reached with the block still installed, blocks %v", p.InstrPos(hit), tr)
				}
				r.Check("K2", csT+"addProposalBlockPart/gate-failed/"+gatePat.label+"/block-dropped", p.InstrPos(b.Instrs[0]), !found, d)
			}
		}
		r.Check("K2", csT+"addProposalBlockPart/gate-failed/sites", p.Pos(ap.Pos()), nGate >= 2, fmt.Sprintf("%d failed-gate branches found (recover mismatch, malformed block)", nGate))
	}

	ep := p.Func("consensus", "ConsensusState.enterPrecommit")
	n = 0
	for _, s := range p.Stores(p.Field("consensus/types", "RoundState.LockedBlock")) {
		if s.Fn != ep || ir.Render(s.Val) == "nil" {
			continue
		}
		n++
		c.GuardsS(csT+"enterPrecommit", "lock proposal block", s, c02Validated...)
	}
	c.MustFind("K1", csT+"enterPrecommit/lock proposal block", ep, n, "LockedBlock = ProposalBlock")
	// every non-nil precommit is for the locked block (validated when it was locked)
	// or follows the validated lock on the same path
	for _, call := range ir.Calls(ep, signAddVoteG) {
		if Arg(call, 2) == "nil" {
			continue
		}
		fs := ir.FactsAt(call)
		relock := ir.HasFact(fs, "types.Block.HashesTo(cs.RoundState.LockedBlock,*)")
		if relock {
			r.Check("K1", csT+"enterPrecommit/precommit block/locked-or-validated", p.InstrPos(call), true, "precommit for the block this node is already locked on (validated when locked)")
			continue
		}
		ok := true
		for _, g := range c02Validated {
			if !ir.HasFact(fs, g.Pat) {
				ok = false
			}
		}
		r.Check("K1", csT+"enterPrecommit/precommit block/locked-or-validated", p.InstrPos(call), ok, "a precommit for a block that is not the locked block requires the three validations on this path")
	}
	// ValidateBlock reaches validateBlock with its own arguments
	{
		vb := p.Func("consensus", "BlockExecutor.ValidateBlock")
		ok := false
		for _, rt := range ir.Returns(vb) {
			if ir.Render(rt.Results[0]) == "consensus.validateBlock(blockExec.db,status,block)" {
				ok = true
			}
		}
		r.Check("K2", "consensus.(*BlockExecutor).ValidateBlock/delegates", p.Pos(vb.Pos()), ok, "returns validateBlock(blockExec.db, status, block)")
	}

	// ---- validateBlock covers what the property lists ---------------------------
	{
		fn := p.Func("consensus", "validateBlock")
		name := "consensus.validateBlock"
		k := 0
		for _, rt := range ir.Returns(fn) {
			if ir.AbstractResult(rt.Results[0]) != "nil" {
				continue
			}
			k++
			c.Guards(name, "return nil", rt.Instr,
				G{"internal-consistency", "eq(types.Block.ValidateBasic(block),nil)"},
				G{"chain-id", ir.EqPat("block.Header.ChainID", "status.ChainID")},
				G{"height", ir.EqPat("block.Header.Height", "(status.LastBlockHeight + 1)")},
				G{"last-block-id", "types.BlockID.Equals(block.Header.LastBlockID,status.LastBlockID) || types.BlockID.Equals(status.LastBlockID,block.Header.LastBlockID)"},
				G{"total-txs", ir.EqPat("block.Header.TotalTxs", "(status.LastBlockTotalTx + len(block.Data.Txs))")},
				G{"consensus-hash", "bytes.Equal(common.Hash.Bytes(block.Header.ConsensusHash),types.ConsensusParams.Hash(&status.ConsensusParams))"},
				G{"evidence-loop-finished", "le(len(block.Evidence.Evidence),*)"},
			)
			c.GuardsAny(name, "return nil", "validators-hash-unless-recover", rt.Instr,
				"bytes.Equal(common.Hash.Bytes(block.Header.ValidatorsHash),types.ValidatorSet.Hash(status.Validators))", "le(1,block.Header.Recover)")
			c.GuardsAny(name, "return nil", "last-commit-verified-unless-first", rt.Instr,
				"eq(types.ValidatorSet.VerifyCommit(status.LastValidators,status.ChainID,status.LastBlockID,(block.Header.Height - 1),block.LastCommit),nil)",
				ir.EqPat("block.Header.Height", "types.BlockHeightOne"), "eq(block.Header.Height,1)")
			c.GuardsAny(name, "return nil", "last-commit-size", rt.Instr,
				ir.EqPat("len(block.LastCommit.Precommits)", "types.ValidatorSet.Size(status.LastValidators)"), "eq(len(block.LastCommit.Precommits),0)")
		}
		c.MustFind("K1", name+"/return nil", fn, k, "nil return")
		// evidence loop: an iteration continues only after a successful verification
		loops := ir.Loops(fn)
		c.MustFind("K2", name+"/evidence-loop", fn, len(loops), "loop over block.Evidence.Evidence")
		for _, l := range loops {
			// paths that leave the loop header and come back to it (one iteration)
			ok, tr := ir.EveryPathFromHas(l.Header, l.Header,
				"eq(consensus.VerifyEvidence(statusDB,status,*),nil)",
				"eq(consensus.VerifyFaultValEvidence(status,block.LastCommit,*),nil)")
			pos := "-"
			if len(l.Header.Instrs) > 0 {
				pos = p.InstrPos(l.Header.Instrs[len(l.Header.Instrs)-1])
			}
			r.Check("K2", name+"/evidence-loop/verified-before-continue", pos, ok,
				fmt.Sprintf("every path through one iteration verifies the evidence item (VerifyEvidence / VerifyFaultValEvidence == nil) before continuing; offending path blocks %v", tr))
		}
	}
	// ---- ApplyBlock validates first ------------------------------------------------
	{
		fn := p.Func("consensus", "BlockExecutor.ApplyBlock")
		name := "consensus.(*BlockExecutor).ApplyBlock"
		for _, g := range []string{"consensus.updateStatus", "consensus.SaveStatus", "*EvidencePool.Update"} {
			calls := ir.Calls(fn, g)
			c.MustFind("K1", name+"/"+g, fn, len(calls), g)
			for _, call := range calls {
				c.Guards(name, "call "+strings.TrimPrefix(g, "*"), call, G{"validated", "eq(consensus.BlockExecutor.ValidateBlock(blockExec,status,block),nil)"})
			}
		}
		// finalizeCommit treats an ApplyBlock error as fatal and does not advance
		fin := p.Func("consensus", "ConsensusState.finalizeCommit")
		for _, call := range ir.Calls(fin, "consensus.ConsensusState.updateToStatus") {
			c.Guards(csT+"finalizeCommit", "advance height", call, G{"applied", "eq(consensus.BlockExecutor.ApplyBlock(*)#1,nil)"})
		}
		// CommitBlock (persist) only for a block that passed the application and evidence checks
		for _, call := range ir.Calls(fin, "*BlockChainApp.CommitBlock") {
			c.Guards(csT+"finalizeCommit", "persist", call,
				G{"evidence", "consensus.ConsensusState.checkBlockEvidence(cs,cs.RoundState.ProposalBlock)"},
				G{"application", "consensus.BlockChainApp.CheckBlock(cs.appmgr,cs.RoundState.ProposalBlock)"})
		}
	}
	var _ ssa.Value

	// ---- the last-commit verification validateBlock relies on (decided in detail under C03) --------
	verifyCommitTally(c)
	// the status blocks are validated against is rebuilt with the right validator set after a crash
	rebuildStatusRules(c)
	// a committed block the node does not hold is fetched into a FRESH block object (shared with C12)
	proposalBlockAndPartsChangeTogether(c)

	// what the next status carries over from the previous one is a reviewed list: LastRecover must NOT be
	// among it (a sticky flag switches the mandatory fault evidence and the validators-hash check off for
	// every later block)
	{
		us := p.Func("consensus", "updateStatus")
		carried := map[string]string{}
		n := 0
		for _, rt := range ir.Returns(us) {
			v := ir.Render(rt.Results[0])
			if !strings.HasPrefix(v, "consensus.NewStatus{") {
				continue
			}
			n++
			for _, fld := range []string{"LastRecover"} {
				r.Check("K4", "consensus.updateStatus/not-carried-over:"+fld, p.InstrPos(rt.Instr), !strings.Contains(v, fld+":"), "the new status does not inherit "+fld+" (it is set by updateToStatus for the one block produced in recover mode)")
			}
			for _, m := range regexp.MustCompile(`(\w+):status\.(\w+)`).FindAllStringSubmatch(v, -1) {
				carried[m[1]] = m[2]
			}
		}
		c.MustFind("K4", "consensus.updateStatus/status literal", us, n, "NewStatus literal")
		var bad []string
		reviewed := map[string]bool{"ChainID": true, "LastValidators": true}
		for f, from := range carried {
			if !reviewed[f] && f != from {
				bad = append(bad, f+"<-"+from)
			}
		}
		sort.Strings(bad)
		r.Check("K4", "consensus.updateStatus/fields-from-their-own-predecessor", p.Pos(us.Pos()), len(bad) == 0, fmt.Sprintf("a field copied from the previous status comes from the field of the same name (LastValidators <- Validators reviewed): %v", bad))
	}
}

var _ = report.Discharged
