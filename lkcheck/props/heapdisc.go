package props

import (
	"fmt"
	"go/types"
	"sort"
	"strings"

	"golang.org/x/tools/go/ssa"

	"lkcheck/ir"
)

// heapDiscipline: a type that is handed to container/heap keeps the heap order only if its elements
// enter and leave THROUGH container/heap (heap.Push sifts up after T.Push appended, heap.Pop swaps
// the minimum to the end before T.Pop removes it). A direct call of T.Push / T.Pop from the module
// leaves the slice in insertion order: the next heap.Pop hands out the wrong element. Rule: for
// every module type passed to heap.Init/Push/Pop/Fix/Remove, T.Push and T.Pop have no static
// caller in the module outside T's own methods.
func heapDiscipline(c C) {
	p, r := c.P, c.R
	heapTypes := map[string]bool{}
	for _, f := range p.Funcs {
		if f.Blocks == nil || f.Pkg == nil || ir.RelPkg(f.Pkg.Pkg) == "" {
			continue
		}
		ir.Instrs(f, func(in ssa.Instruction) {
			call, ok := in.(*ssa.Call)
			if !ok {
				return
			}
			cn := ir.CalleeName(call)
			if !(cn == "heap.Push" || cn == "heap.Pop" || cn == "heap.Init" || cn == "heap.Fix" || cn == "heap.Remove") || len(call.Call.Args) == 0 {
				return
			}
			if mi, ok := call.Call.Args[0].(*ssa.MakeInterface); ok {
				t := mi.X.Type()
				if pt, ok := t.(*types.Pointer); ok {
					t = pt.Elem()
				}
				if nt, ok := t.(*types.Named); ok && nt.Obj().Pkg() != nil && ir.RelPkg(nt.Obj().Pkg()) != "" {
					heapTypes[typeKey(nt)] = true
				}
			}
		})
	}
	var bad []string
	n := 0
	for _, f := range p.Funcs {
		if f.Blocks == nil || f.Pkg == nil || ir.RelPkg(f.Pkg.Pkg) == "" || strings.HasSuffix(p.Pos(f.Pos()), "_test.go") {
			continue
		}
		ir.Instrs(f, func(in ssa.Instruction) {
			call, ok := in.(ssa.CallInstruction)
			if !ok {
				return
			}
			callee := call.Common().StaticCallee()
			if callee == nil || callee.Signature.Recv() == nil || !(callee.Name() == "Push" || callee.Name() == "Pop") {
				return
			}
			t := callee.Signature.Recv().Type()
			if pt, ok := t.(*types.Pointer); ok {
				t = pt.Elem()
			}
			nt, ok := t.(*types.Named)
			if !ok || nt.Obj().Pkg() == nil || !heapTypes[typeKey(nt)] {
				return
			}
			n++
			// T's own methods may build on each other
			if rc := ir.EnclosingTop(f).Signature.Recv(); rc != nil {
				rt := rc.Type()
				if pt, ok := rt.(*types.Pointer); ok {
					rt = pt.Elem()
				}
				if types.Identical(rt, nt) {
					return
				}
			}
			bad = append(bad, fmt.Sprintf("%s: %s calls %s directly", p.InstrPos(in), ir.FuncName(f), ir.CalleeName(call)))
		})
	}
	var hs []string
	for h := range heapTypes {
		hs = append(hs, h)
	}
	sort.Strings(hs)
	r.Check("K3", "heap-discipline/push-pop-only-through-container-heap", "-", len(bad) == 0 && len(hs) >= 1, fmt.Sprintf("heap types %v: elements enter and leave through container/heap only; direct calls: %v", hs, bad))
}
