package ir

import (
	"go/token"
	"go/types"
	"regexp"
	"sort"
	"strings"

	"golang.org/x/tools/go/ssa"
)

// Fact is a branch condition known to hold at a program point because the
// corresponding successor of an `If` dominates the point.
//
// Atoms are normalised:
//
//	x == y  -> "eq(a,b)"  (operands sorted), x != y -> "!eq(a,b)"
//	x <  y  -> "lt(x,y)",  x <= y -> "le(x,y)",  > and >= are swapped,
//	negated orderings are flipped (!(x<y) -> le(y,x)), so order atoms are
//	always positive;
//	anything else -> rendered value, prefixed with "!" when false.
type Fact struct {
	Atom string
	If   *ssa.If
}

func flatten(v ssa.Value, pol bool, out *[]string) {
	switch x := v.(type) {
	case *ssa.UnOp:
		if x.Op == token.NOT {
			flatten(x.X, !pol, out)
			return
		}
	case *ssa.BinOp:
		a, b := Render(x.X), Render(x.Y)
		switch x.Op {
		case token.EQL, token.NEQ:
			_, ac := x.X.(*ssa.Const)
			_, bc := x.Y.(*ssa.Const)
			if (ac && !bc) || (ac == bc && a > b) {
				a, b = b, a
			}
			pos := (x.Op == token.EQL) == pol
			s := "eq(" + a + "," + b + ")"
			if !pos {
				s = "!" + s
			}
			*out = append(*out, s)
			// `H(...) == nil` for a transparent helper H: whatever holds at every nil return of H holds too
			if pos && len(newHelpers) > 0 && inlineDepth == 0 {
				var other ssa.Value
				if c, ok := x.Y.(*ssa.Const); ok && c.Value == nil {
					other = x.X
				} else if c, ok := x.X.(*ssa.Const); ok && c.Value == nil {
					other = x.Y
				}
				if other != nil {
					if call, idx := helperCallOf(other); call != nil {
						inlineDepth++
						*out = append(*out, nilResultFacts(call, idx)...)
						inlineDepth--
					}
				}
			}
			return
		case token.LSS, token.GTR, token.LEQ, token.GEQ:
			op := x.Op
			if op == token.GTR {
				a, b, op = b, a, token.LSS
			} else if op == token.GEQ {
				a, b, op = b, a, token.LEQ
			}
			if !pol {
				a, b = b, a
				if op == token.LSS {
					op = token.LEQ
				} else {
					op = token.LSS
				}
			}
			// a length is never negative: `len(x) < 1` is `len(x) == 0`, `1 <= len(x)` is `0 < len(x)`
			// (and `len(x) <= 0` is `len(x) == 0`): one canonical form, so that the rewrite is not a new fact
			if op == token.LSS && b == "1" && strings.HasPrefix(a, "len(") {
				*out = append(*out, "eq("+a+",0)")
				return
			}
			if op == token.LEQ && a == "1" && strings.HasPrefix(b, "len(") {
				*out = append(*out, "!eq("+b+",0)")
				*out = append(*out, "lt(0,"+b+")")
				return
			}
			if op == token.LSS {
				*out = append(*out, "lt("+a+","+b+")")
			} else {
				*out = append(*out, "le("+a+","+b+")")
			}
			return
		}
	}
	s := Render(v)
	if !pol {
		s = "!" + s
	}
	*out = append(*out, s)
	// A call of a small side-effect-free predicate of the module (the result of an "extract
	// helper" refactoring) additionally contributes the atoms its result implies, rendered with
	// the caller's arguments in place of the parameters.
	if call, ok := v.(*ssa.Call); ok {
		inlinePredicate(call, pol, out)
	}
}

// paramSubst maps parameters of a predicate being inlined to the caller's argument values; the
// renderer prints the argument instead of the parameter name while an inlining is in progress.
var (
	paramSubst   = map[*ssa.Parameter]ssa.Value{}
	inlineDepth  int
	predicateEff *Effects
)

// SetPredicateEffects gives the fact engine the effect analysis used to recognise pure predicates.
func SetPredicateEffects(e *Effects) { predicateEff = e }

func inlinePredicate(call *ssa.Call, pol bool, out *[]string) {
	if inlineDepth > 1 || predicateEff == nil {
		return
	}
	callee := call.Call.StaticCallee()
	if callee == nil || callee.Blocks == nil || len(callee.Blocks) > 6 || callee == call.Parent() {
		return
	}
	res := callee.Signature.Results()
	if res.Len() != 1 {
		return
	}
	if b, ok := res.At(0).Type().Underlying().(*types.Basic); !ok || b.Info()&types.IsBoolean == 0 {
		return
	}
	if len(call.Call.Args) != len(callee.Params) {
		return
	}
	n := 0
	for _, b := range callee.Blocks {
		n += len(b.Instrs)
	}
	if n > 40 {
		return
	}
	if pure, _ := predicateEff.Pure(callee); !pure {
		return
	}
	// exactly one return
	var ret *ssa.Return
	for _, b := range callee.Blocks {
		if r, ok := b.Instrs[len(b.Instrs)-1].(*ssa.Return); ok {
			if ret != nil {
				return
			}
			ret = r
		}
	}
	if ret == nil || len(ret.Results) != 1 {
		return
	}
	inlineDepth++
	for i, q := range callee.Params {
		paramSubst[q] = call.Call.Args[i]
	}
	defer func() {
		for _, q := range callee.Params {
			delete(paramSubst, q)
		}
		inlineDepth--
	}()
	var atoms []string
	rv := ret.Results[0]
	switch x := rv.(type) {
	case *ssa.Phi:
		// `a && b` : every edge is the constant false except one value V coming from block B;
		//            the result is true iff control reached B and V is true.
		// `a || b` : every edge is the constant true except one; false iff reached B and V false.
		var val ssa.Value
		var from *ssa.BasicBlock
		constAll := true
		var constVal bool
		first := true
		for i, e := range x.Edges {
			if c, ok := e.(*ssa.Const); ok && c.Value != nil && (c.Value.String() == "true" || c.Value.String() == "false") {
				cv := c.Value.String() == "true"
				if !first && cv != constVal {
					constAll = false
				}
				constVal, first = cv, false
				continue
			}
			if val != nil {
				return
			}
			val, from = e, x.Block().Preds[i]
		}
		if val == nil || !constAll || first {
			return
		}
		if constVal == pol {
			return // the known outcome is the disjunctive one: nothing can be split off
		}
		for _, f := range FactsAtBlock(from) {
			atoms = append(atoms, f.Atom)
		}
		flatten(val, pol, &atoms)
	default:
		// single expression: a comparison, a negation, another predicate call
		if _, isCall := rv.(*ssa.Call); !isCall {
			if _, isBin := rv.(*ssa.BinOp); !isBin {
				if _, isUn := rv.(*ssa.UnOp); !isUn {
					return
				}
			}
		}
		flatten(rv, pol, &atoms)
	}
	*out = append(*out, atoms...)
}

// CondAtoms returns the normalised atom for a condition with polarity.
func CondAtoms(v ssa.Value, pol bool) []string {
	var out []string
	flatten(v, pol, &out)
	return out
}

// edgeFact reports whether control entering block c implies the condition of
// d's terminating If with a definite polarity.
func edgeFact(fi *FnInfo, d, c *ssa.BasicBlock) (cond *ssa.If, pol bool, ok bool) {
	if len(d.Instrs) == 0 || fi.Dies[d] {
		return
	}
	ifi, isIf := d.Instrs[len(d.Instrs)-1].(*ssa.If)
	if !isIf || len(fi.Preds[c]) != 1 || fi.Preds[c][0] != d {
		return
	}
	if d.Succs[0] == d.Succs[1] {
		return
	}
	if d.Succs[0] == c {
		return ifi, true, true
	}
	if d.Succs[1] == c {
		return ifi, false, true
	}
	return
}

// factsAtBlockOwn: the facts established by the branches of b's own function.
func factsAtBlockOwn(b *ssa.BasicBlock) []Fact {
	var out []Fact
	fi := Info(b.Parent())
	for c := b; c != nil; c = fi.Idom(c) {
		d := fi.Idom(c)
		if d == nil {
			break
		}
		if ifi, pol, ok := edgeFact(fi, d, c); ok {
			for _, a := range CondAtoms(ifi.Cond, pol) {
				out = append(out, Fact{a, ifi})
			}
		}
	}
	return out
}

var factsBusy = map[*ssa.BasicBlock]bool{}

// FactsAtBlock returns every fact that holds on entry to block b. Inside a transparent
// helper (see helpers.go) the facts common to all its call sites hold as well; after a call of a
// transparent helper in a dominating block, the facts at the helper's return hold.
func FactsAtBlock(b *ssa.BasicBlock) []Fact {
	out := factsAtBlockOwn(b)
	if len(newHelpers) == 0 || factsBusy[b] {
		return out
	}
	factsBusy[b] = true
	defer delete(factsBusy, b)
	fn := b.Parent()
	top := fn
	for top.Parent() != nil {
		top = top.Parent()
	}
	if hi := newHelpers[top]; hi != nil && top == fn {
		// facts common to every call site (inside AtSite: the facts at that one site)
		var common map[string]Fact
		sites := hi.sites
		if ctxSite != nil && ctxSite.Common().StaticCallee() == top {
			sites = []ssa.CallInstruction{ctxSite}
		}
		for _, s := range sites {
			m := map[string]Fact{}
			for _, f := range FactsAt(s.(ssa.Instruction)) {
				m[f.Atom] = f
			}
			if common == nil {
				common = m
				continue
			}
			for a := range common {
				if _, ok := m[a]; !ok {
					delete(common, a)
				}
			}
		}
		for _, f := range common {
			out = append(out, f)
		}
	}
	// exit facts of helper calls in strictly dominating blocks
	fi := Info(fn)
	for d := fi.Idom(b); d != nil; d = fi.Idom(d) {
		for _, in := range d.Instrs {
			if h := helperCallee(in); h != nil {
				out = append(out, exitFacts(h)...)
			}
		}
	}
	return out
}

// FactsAt returns the facts holding at an instruction.
func FactsAt(in ssa.Instruction) []Fact {
	out := FactsAtBlock(in.Block())
	if len(newHelpers) == 0 {
		return out
	}
	// helper calls earlier in the same block
	for _, x := range in.Block().Instrs {
		if x == in {
			break
		}
		if h := helperCallee(x); h != nil {
			out = append(out, exitFacts(h)...)
		}
	}
	return out
}

// FactStrings is the sorted, de-duplicated atom list.
func FactStrings(fs []Fact) []string {
	m := map[string]bool{}
	for _, f := range fs {
		m[f.Atom] = true
	}
	var out []string
	for s := range m {
		out = append(out, s)
	}
	sort.Strings(out)
	return out
}

// Glob compiles a pattern in which `*` matches any text and everything else
// is literal. The pattern must match the whole atom.
func Glob(pat string) *regexp.Regexp {
	parts := strings.Split(pat, "*")
	for i, p := range parts {
		parts[i] = regexp.QuoteMeta(p)
	}
	return regexp.MustCompile("^" + strings.Join(parts, ".*") + "$")
}

var globCache = map[string]*regexp.Regexp{}

// Match reports whether s matches the glob pattern.
func Match(pat, s string) bool {
	re := globCache[pat]
	if re == nil {
		re = Glob(pat)
		globCache[pat] = re
	}
	return re.MatchString(s)
}

// MatchAtom matches a pattern against a normalised atom. Polarity is part of
// the atom: a pattern that does not start with "!" never matches a negated
// atom, even when it starts with a wildcard.
func MatchAtom(pat, atom string) bool {
	if strings.HasPrefix(atom, "!") != strings.HasPrefix(pat, "!") {
		return false
	}
	return Match(pat, atom)
}

// HasFact reports whether some fact matches the glob pattern.
func HasFact(fs []Fact, pat string) bool {
	for _, alt := range strings.Split(pat, " || ") {
		for _, f := range fs {
			if MatchAtom(alt, f.Atom) {
				return true
			}
		}
	}
	return false
}

// EqPat is the pattern for "a == b" in either operand order.
func EqPat(a, b string) string { return "eq(" + a + "," + b + ") || eq(" + b + "," + a + ")" }

// NePat is the pattern for "a != b" in either operand order.
func NePat(a, b string) string { return "!eq(" + a + "," + b + ") || !eq(" + b + "," + a + ")" }

// FindFact returns the first fact matching the pattern.
func FindFact(fs []Fact, pat string) *Fact {
	for i := range fs {
		if MatchAtom(pat, fs[i].Atom) {
			return &fs[i]
		}
	}
	return nil
}

// InstrIndex returns the index of in within its block.
func InstrIndex(in ssa.Instruction) int {
	for i, x := range in.Block().Instrs {
		if x == in {
			return i
		}
	}
	return -1
}

// Precedes reports whether instruction a executes before b on every path that
// reaches b (a dominates b).
func Precedes(a, b ssa.Instruction) bool {
	if a.Parent() != b.Parent() && len(newHelpers) > 0 {
		// one of them sits in a transparent helper of the other's function: decide at the call site(s)
		if sites := liftTo(a, b.Parent(), 0); sites != nil {
			// a executes at each of these call sites: one that dominates b is enough
			for _, s := range sites {
				if Precedes(s, b) {
					return true
				}
			}
			return false
		}
		if sites := liftTo(b, a.Parent(), 0); sites != nil {
			for _, s := range sites {
				if !Precedes(a, s) {
					return false
				}
			}
			return true
		}
		// both in (different) helpers of one owner
		oa, ob := LogicalOwner(EnclosingTop(a.Parent())), LogicalOwner(EnclosingTop(b.Parent()))
		if oa == ob && oa != nil {
			sa, sb := liftTo(a, oa, 0), liftTo(b, ob, 0)
			if sa != nil && sb != nil {
				// every execution of b (site y) is preceded by some execution of a (site x)
				for _, y := range sb {
					some := false
					for _, x := range sa {
						if Precedes(x, y) {
							some = true
						}
					}
					if !some {
						return false
					}
				}
				return true
			}
		}
		return false
	}
	if a.Block() == b.Block() {
		return InstrIndex(a) < InstrIndex(b)
	}
	return Info(a.Parent()).Dominates(a.Block(), b.Block())
}

// EveryPathHas decides a disjunctive guard: on every CFG path (pruned at
// non-returning calls) from the function entry to instruction `in`, at least
// one branch edge establishes a fact matching one of the patterns. It answers
// by searching for a path that avoids all such edges; the offending path
// (block indices) is returned when one exists.
func EveryPathHas(in ssa.Instruction, pats ...string) (ok bool, trace []int) {
	ok, trace = EveryPathFromHas(in.Parent().Blocks[0], in.Block(), pats...)
	if ok || len(newHelpers) == 0 {
		return ok, trace
	}
	// inside a transparent helper: what the helper itself does not establish may have been
	// established by its caller before the call (a function split into helpers called in sequence)
	top := in.Parent()
	for top.Parent() != nil {
		top = top.Parent()
	}
	hi := newHelpers[top]
	if hi == nil || everyPathDepth > 3 {
		return ok, trace
	}
	everyPathDepth++
	defer func() { everyPathDepth-- }()
	for _, s := range hi.sites {
		si := s.(ssa.Instruction)
		okSite := false
		// a dominating fact at the call site ...
		for _, p := range pats {
			for _, alt := range strings.Split(p, " || ") {
				if HasFact(FactsAt(si), alt) {
					okSite = true
				}
			}
		}
		// ... or every path to the call site
		if !okSite {
			okSite, _ = EveryPathHas(si, pats...)
		}
		if !okSite {
			return false, trace
		}
	}
	return true, nil
}

var everyPathDepth int

// EveryPathFromHas is EveryPathHas for paths that start at block `start`
// (e.g. a loop body entry) and end on entry to block `target`.
func EveryPathFromHas(start, target *ssa.BasicBlock, pats ...string) (ok bool, trace []int) {
	fn := start.Parent()
	fi := Info(fn)
	matches := func(d, s *ssa.BasicBlock) bool {
		if len(d.Instrs) == 0 {
			return false
		}
		ifi, isIf := d.Instrs[len(d.Instrs)-1].(*ssa.If)
		if !isIf || d.Succs[0] == d.Succs[1] {
			return false
		}
		pol := d.Succs[0] == s
		for _, a := range CondAtoms(ifi.Cond, pol) {
			for _, p := range pats {
				for _, alt := range strings.Split(p, " || ") {
					if MatchAtom(alt, a) {
						return true
					}
				}
			}
		}
		// `H(...) == nil` for a transparent helper: the edge counts when every path through H to
		// a nil return establishes one of the patterns (the helper walked as if inlined)
		if len(newHelpers) > 0 {
			cond, p2 := ifi.Cond, pol
			for {
				if u, ok := cond.(*ssa.UnOp); ok && u.Op == token.NOT {
					cond, p2 = u.X, !p2
					continue
				}
				break
			}
			if bo, ok := cond.(*ssa.BinOp); ok && (bo.Op == token.EQL || bo.Op == token.NEQ) {
				var other ssa.Value
				if c, ok := bo.Y.(*ssa.Const); ok && c.Value == nil {
					other = bo.X
				} else if c, ok := bo.X.(*ssa.Const); ok && c.Value == nil {
					other = bo.Y
				}
				isNilEdge := (bo.Op == token.EQL) == p2
				if other != nil && isNilEdge {
					if call, idx := helperCallOf(other); call != nil {
						h := call.Call.StaticCallee()
						rets := nilReturnsOf(h, idx)
						all := len(rets) > 0
						withCallArgs(call, func() {
							for _, rt := range rets {
								if okp, _ := EveryPathFromHas(h.Blocks[0], rt.Block(), pats...); !okp {
									all = false
								}
							}
						})
						if all {
							return true
						}
					}
				}
			}
		}
		return false
	}
	parent := map[*ssa.BasicBlock]*ssa.BasicBlock{}
	seen := map[*ssa.BasicBlock]bool{start: true}
	work := []*ssa.BasicBlock{start}
	first := true
	var backFrom *ssa.BasicBlock
	for len(work) > 0 {
		b := work[0]
		work = work[1:]
		if b == target && !(first && start == target) {
			var tr []int
			x := b
			if start == target && backFrom != nil {
				tr = []int{b.Index}
				x = backFrom
			}
			for ; x != nil; x = parent[x] {
				tr = append([]int{x.Index}, tr...)
				if x == start {
					break
				}
			}
			return false, tr
		}
		first = false
		for _, s := range fi.Succs[b] {
			if matches(b, s) {
				continue
			}
			if seen[s] && s != target {
				continue
			}
			if s == target && seen[s] && s != start {
				continue
			}
			seen[s] = true
			if _, ok := parent[s]; !ok && s != start {
				parent[s] = b
			}
			if s == start && backFrom == nil {
				backFrom = b
			}
			work = append(work, s)
		}
	}
	return true, nil
}

// Loop describes a natural loop found by back edges in the pruned CFG.
type Loop struct {
	Header  *ssa.BasicBlock
	Latches []*ssa.BasicBlock // blocks with an edge back to Header
	Body    map[*ssa.BasicBlock]bool
}

// Loops lists the natural loops of fn (one per header).
func Loops(fn *ssa.Function) []Loop {
	out := loopsOwn(fn)
	// the loops of transparent helpers belong to their owner (a function split into helpers keeps its loops)
	if len(newHelpers) > 0 && fn.Parent() == nil && newHelpers[fn] == nil {
		for _, h := range helpersOf(fn) {
			out = append(out, loopsOwn(h)...)
		}
	}
	return out
}

func loopsOwn(fn *ssa.Function) []Loop {
	fi := Info(fn)
	m := map[*ssa.BasicBlock]*Loop{}
	var order []*ssa.BasicBlock
	for _, b := range fn.Blocks {
		if !fi.Reach[b] {
			continue
		}
		for _, s := range fi.Succs[b] {
			if fi.Dominates(s, b) { // back edge b -> s
				l := m[s]
				if l == nil {
					l = &Loop{Header: s}
					m[s] = l
					order = append(order, s)
				}
				l.Latches = append(l.Latches, b)
			}
		}
	}
	var out []Loop
	for _, h := range order {
		l := m[h]
		// natural loop body: blocks that reach a latch backwards without passing the header
		l.Body = map[*ssa.BasicBlock]bool{h: true}
		work := append([]*ssa.BasicBlock{}, l.Latches...)
		for len(work) > 0 {
			b := work[0]
			work = work[1:]
			if l.Body[b] {
				continue
			}
			l.Body[b] = true
			work = append(work, fi.Preds[b]...)
		}
		out = append(out, *l)
	}
	return out
}
