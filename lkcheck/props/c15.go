package props

import (
	"fmt"
	"go/token"
	"go/types"
	"sort"
	"strings"

	"golang.org/x/tools/go/ssa"

	"lkcheck/ir"
	"lkcheck/report"
)

func init() { Registry["C15"] = C15 }

const memT = "mempool.(*Mempool)."

// holdsLockAt reports whether fn locks mutex field `mtx` of its receiver before instruction in
// (Lock call dominating `in`, released only by a deferred Unlock or an Unlock that `in` precedes).
func holdsLockAt(fn *ssa.Function, in ssa.Instruction, mtx string) bool {
	for _, lk := range ir.Calls(fn, "sync.*Mutex.*Lock") {
		n := ir.CalleeName(lk)
		if strings.HasSuffix(n, "Unlock") || strings.HasSuffix(n, "RUnlock") {
			continue
		}
		if _, isDefer := lk.(*ssa.Defer); isDefer {
			continue
		}
		if !strings.HasSuffix(Arg(lk, 0), "."+mtx) {
			continue
		}
		if !ir.Precedes(lk, in) {
			continue
		}
		// no explicit unlock between lock and access on any path
		found, _, _ := ir.FindPath(ir.PathQuery{From: ir.At(lk), Target: func(x ssa.Instruction) bool { return x == in },
			Avoid: func(x ssa.Instruction) bool {
				c, ok := x.(*ssa.Call)
				return ok && strings.HasSuffix(ir.CalleeName(c), "nlock") && strings.HasSuffix(Arg(c, 0), "."+mtx)
			}})
		if found {
			return true
		}
	}
	return false
}

// C15 mempool offers only executable, non-conflicting, ordered transactions.
func C15(p *ir.Program, r *report.R) {
	c := C{p, r}
	gasNeverSigned(c)
	heapDiscipline(c)
	r.Floor = 50
	r.Explain = "Decided: (admission) transactions enter the three offer lists only through addGoodTx/addPureUtxoTx/addSpecGoodTx, and every call of those is dominated by a successful state check (CheckTx(tx, StateCheck) == nil) of the same transaction; AddTx dispatches only after the cache accepted the hash (dedup) and the basic check passed; only ErrNonceTooHigh routes to the future queue; (maintenance) Update runs filterTxs, recheckTxs, recheckSpecTxs/recheckUtxoTxs, promoteExecutables in that order; every iteration of a recheck loop either keeps a transaction whose state check passed or removes it from its list; CommitBlock refreshes the check state and key-image set before Update, all under the mempool lock; (lockset) every access to the plain guarded fields (futureTxs, futureTxsCount, beats, height, notifiedTxsAvailable under proxyMtx; kImageCache under kImageMtx) happens with the mutex held in the accessing function or in every caller chain, Update being caller-locked; (order) the nonce queue hands out a gap-free run starting at the requested nonce and Forward drops exactly the nonces below the threshold; (caps) Reap waits for rechecks and respects the maxima; (check-state hygiene) a state check that rejects a transaction must not have mutated the shared check state before the rejection. ADDED after seeded-change testing: Update re-checks the offered lists on every path (recheckTxs always; recheckSpecTxs/recheckUtxoTxs skipped only for an empty list), also after an empty block. Rounds 4-5: no gas quantity converted to a signed integer without a bound; a helper split out of a locked method is read as part of it. Round 6: elements enter and leave container/heap types only through container/heap. NOT decided: content invariants of the pool over interleavings, executability of the reaped set against the real application, balance coverage."
	r.Trusted = []string{"clist.CList (internally locked list)", "container/heap"}

	// ---- admission -------------------------------------------------------------------
	{
		lists := map[string]string{"goodTxs": "addGoodTx", "utxoTxs": "addPureUtxoTx", "specGoodTxs": "addSpecGoodTx"}
		push := p.Obj("libs/clist", "CList.PushBack").(*types.Func)
		for _, cs := range p.CallSites(push) {
			if cs.Fn.Pkg == nil || ir.RelPkg(cs.Fn.Pkg.Pkg) != "mempool" {
				continue
			}
			recv := Arg(cs.Instr, 0)
			lst := recv[strings.LastIndex(recv, ".")+1:]
			want, isOffer := lists[lst]
			if !isOffer {
				continue
			}
			r.Check("K3", "admission/PushBack:"+lst, p.InstrPos(cs.Instr), ir.FuncName(cs.Fn) == memT+want, "the offer list "+lst+" is extended only by "+want+": "+ir.FuncName(cs.Fn))
		}
		sc := "false" // mempool.StateCheck
		for _, add := range []string{"addGoodTx", "addPureUtxoTx", "addSpecGoodTx"} {
			obj := p.Obj("mempool", "Mempool."+add).(*types.Func)
			n := 0
			for _, cs := range p.CallSites(obj) {
				n++
				tx := Arg(cs.Instr, 1)
				c.Guards(ir.FuncName(cs.Fn), "call "+add, cs.Instr, G{"state-checked", "eq(mempool.App.CheckTx(mem.app," + tx + "," + sc + "),nil) || eq(mempool.App.CheckTx(mem.app," + tx + ",false),nil)"})
			}
			if n == 0 {
				r.Undecided("K1", "admission/"+add, "-", "no call site found")
			}
		}
		at := p.Func("mempool", "Mempool.AddTx")
		name := memT + "AddTx"
		ir.Instrs(at, func(in ssa.Instruction) {
			call, ok := in.(*ssa.Call)
			if !ok || !strings.HasPrefix(ir.CalleeName(call), "dyn:") || !strings.Contains(ir.CalleeName(call), "addFunc") && !strings.Contains(ir.Render(call.Call.Value), "addLocalTx") {
				return
			}
			bc := "true" // mempool.BasicCheck
			c.Guards(name, "dispatch", in,
				G{"dedup", "mempool.txCache.Put(mem.cache,*)"},
				G{"basic-check", "eq(mempool.App.CheckTx(mem.app,tx," + bc + "),nil) || eq(mempool.App.CheckTx(mem.app,tx,true),nil)"},
				G{"not-blacklisted", "!types.*lacklist.IsBlackAddress(*)"})
			r.Check("K10", name+"/dispatch/locked", p.InstrPos(in), holdsLockAt(at, in, "proxyMtx"), "the add functions run under proxyMtx")
		})
		// only ErrNonceTooHigh routes to the future queue after a failed state check
		for _, fnn := range []string{"addUTXOTx", "addLocalTx"} {
			fn := p.Func("mempool", "Mempool."+fnn)
			for _, call := range ir.Calls(fn, "mempool.Mempool.addFutureTx") {
				fs := ir.FactsAt(call)
				ok := ir.HasFact(fs, ir.EqPat("mempool.App.CheckTx(mem.app,tx,*)", "types.ErrNonceTooHigh")) || ir.HasFact(fs, "eq(mempool.App.CheckTx(mem.app,tx,*),nil)")
				r.Check("K1", memT+fnn+"/future-queue-route", p.InstrPos(call), ok, "a transaction is queued for later only when its nonce is too high (or the pending list is full after a successful check)")
			}
		}
	}
	// ---- maintenance ---------------------------------------------------------------------
	{
		up := p.Func("mempool", "Mempool.Update")
		c.Order(memT+"Update", up, "mempool.Mempool.filterTxs", "mempool.Mempool.recheckTxs", "mempool.Mempool.promoteExecutables")
		mempoolRecheckRules(c)
		// what Reap offers is a PREFIX of the list: no element is skipped (a later transaction of the
		// same sender would be offered without its predecessor); quotas stop the collection
		{
			ct := p.Func("mempool", "Mempool.collectTxs")
			isTake := func(in ssa.Instruction) bool {
				call, ok := in.(*ssa.Call)
				if !ok {
					return false
				}
				bi, ok := call.Call.Value.(*ssa.Builtin)
				return ok && bi.Name() == "append" && len(call.Call.Args) == 2 && strings.Contains(ir.Render(call.Call.Args[1]), ".tx")
			}
			isNext := ir.CallMatcher("clist.CElement.Next")
			n := 0
			for _, l := range ir.Loops(ct) {
				n++
				found, hit, tr := ir.FindPath(ir.PathQuery{From: ir.Point{B: l.Header, I: -1}, Target: isNext, Avoid: isTake})
				d := "every iteration that moves on to the next element has taken the current one"
				if found {
					d += fmt.Sprintf(" — but %s is reached without taking the element, blocks %v", p.InstrPos(hit), tr)
				}
				r.Check("K2", memT+"collectTxs/prefix-no-skip", p.Pos(ct.Pos()), !found, d)
			}
			c.MustFind("K2", memT+"collectTxs/prefix-no-skip", ct, n, "collection loop")
		}
		// the speculative check state never leaves the application except as a copy
		{
			var bad []string
			nRet := 0
			for _, f := range p.Funcs {
				if f.Pkg == nil || ir.RelPkg(f.Pkg.Pkg) != "app" || f.Blocks == nil || strings.HasSuffix(p.Pos(f.Pos()), "_test.go") {
					continue
				}
				for _, rt := range ir.Returns(f) {
					for _, v := range rt.Results {
						if v.Type().String() != "*github.com/lianxiangcloud/linkchain/state.StateDB" {
							continue
						}
						nRet++
						if rv := ir.Render(v); rv == "app.checkTxState" || strings.HasSuffix(rv, ".checkTxState") {
							bad = append(bad, ir.FuncName(f)+" returns "+rv)
						}
					}
				}
			}
			r.Check("K3", "check-state/handed-out-only-as-copy", "-", len(bad) == 0 && nRet >= 2, fmt.Sprintf("%d StateDB-returning functions of package app inspected; the live check state is returned by: %v", nRet, bad))
		}
		for _, g := range []string{"mempool.Mempool.recheckSpecTxs", "mempool.Mempool.recheckUtxoTxs"} {
			a, b, cc := firstCall(up, "mempool.Mempool.filterTxs"), firstCall(up, g), firstCall(up, "mempool.Mempool.promoteExecutables")
			r.Check("K2", memT+"Update/order/filterTxs ≺ "+strings.TrimPrefix(g, "mempool.Mempool.")+" ≺ promoteExecutables", p.Pos(up.Pos()), a != nil && b != nil && cc != nil && notBefore(b, a) && notBefore(cc, b), "rechecks run after committed transactions were filtered and before promotion")
		}
		for _, fnn := range []string{"recheckTxs", "recheckUtxoTxs", "recheckSpecTxs"} {
			fn := p.Func("mempool", "Mempool."+fnn)
			n := 0
			all := ir.Loops(fn)
			for li, l := range all {
				hasCheck := false
				for _, call := range ir.Calls(fn, "mempool.App.CheckTx") {
					if ir.Info(fn).Dominates(l.Header, call.Block()) {
						hasCheck = true
					}
				}
				if !hasCheck {
					continue
				}
				// innermost: no other loop header with the check is dominated by this header
				inner := true
				for lj, m := range all {
					if lj != li && m.Header != l.Header && ir.Info(fn).Dominates(l.Header, m.Header) {
						for _, call := range ir.Calls(fn, "mempool.App.CheckTx") {
							if ir.Info(fn).Dominates(m.Header, call.Block()) {
								inner = false
							}
						}
					}
				}
				if !inner {
					continue
				}
				n++
				// one iteration: either the state check passed or the element is removed
				ok := true
				var tr []int
				found, _, t := ir.FindPath(ir.PathQuery{From: ir.Point{B: l.Header, I: -1}, Target: func(in ssa.Instruction) bool {
					// reaching the latch->header edge: approximate by reaching a jump back to header
					if j, isJ := in.(*ssa.Jump); isJ {
						return j.Block().Succs[0] == l.Header && j.Block() != l.Header
					}
					return false
				}, Avoid: func(in ssa.Instruction) bool {
					if !l.Body[in.Block()] {
						return true // left the loop: not an iteration path
					}
					return ir.CallMatcher("clist.CList.Remove")(in)
				}, AvoidEdge: func(atoms []string) bool {
					for _, a := range atoms {
						if ir.MatchAtom("eq(mempool.App.CheckTx(*),nil)", a) {
							return true
						}
					}
					return false
				}})
				if found {
					ok, tr = false, t
				}
				r.Check("K2", memT+fnn+"/keep-only-if-state-check-passed", p.Pos(fn.Pos()), ok, fmt.Sprintf("every iteration either continues on CheckTx == nil or removes the element from its list; offending %v", tr))
			}
			if n == 0 {
				r.Undecided("K2", memT+fnn+"/loop", p.Pos(fn.Pos()), "recheck loop not found")
			}
			for _, call := range ir.Calls(fn, "mempool.App.CheckTx") {
				r.Check("K1", memT+fnn+"/state-check-kind", p.InstrPos(call), Arg(call, 2) == "false", "rechecks use the state check: "+Arg(call, 2))
			}
		}
		cb := p.Func("app", "LinkApplication.CommitBlock")
		lk, ul := firstCall(cb, "*Mempool.Lock"), firstCall(cb, "*Mempool.Unlock")
		kr, upd := firstCall(cb, "*Mempool.KeyImageReset"), firstCall(cb, "*Mempool.Update")
		var cts ssa.Instruction
		for _, s := range p.Stores(p.Field("app", "LinkApplication.checkTxState")) {
			if s.Fn == cb {
				cts = s.Instr
				r.Check("K2", "app.(*LinkApplication).CommitBlock/check-state-is-copy-of-committed", p.InstrPos(s.Instr), strings.HasPrefix(ir.Render(s.Val), "state.StateDB.Copy("), "the mempool check state restarts from a copy of the committed state: "+short(ir.Render(s.Val), 100))
			}
		}
		okOrd := lk != nil && ul != nil && kr != nil && upd != nil && cts != nil &&
			ir.Precedes(lk, cts) && ir.Precedes(cts, upd) && ir.Precedes(kr, upd) && ir.Precedes(lk, kr) && ir.Precedes(upd, ul)
		r.Check("K2", "app.(*LinkApplication).CommitBlock/refresh ≺ Update under lock", p.Pos(cb.Pos()), okOrd, "Lock ≺ checkTxState refresh, KeyImageReset ≺ Update ≺ Unlock")
	}
	// ---- lockset ------------------------------------------------------------------------------
	{
		guarded := map[string]string{"futureTxs": "proxyMtx", "futureTxsCount": "proxyMtx", "beats": "proxyMtx", "height": "proxyMtx", "notifiedTxsAvailable": "proxyMtx", "kImageCache": "kImageMtx"}
		// caller-locked roots: Update (documented), checked at its call sites under C13/CommitBlock
		callerLocked := map[string]string{memT + "Update": "documented caller-locked; CommitBlock holds mempool.Lock() around it (checked above)", "mempool.NewMempool": "constructor, object not shared yet"}
		type access struct {
			fn *ssa.Function
			in ssa.Instruction
		}
		accs := map[string][]access{}
		for _, fn := range p.Funcs {
			if fn.Pkg == nil || ir.RelPkg(fn.Pkg.Pkg) != "mempool" || strings.Contains(p.Pos(fn.Pos()), "_test") {
				continue
			}
			if ir.IsTransparentHelper(fn) {
				continue // its instructions are visited as part of the function(s) it was split out of
			}
			ir.Instrs(fn, func(in ssa.Instruction) {
				fa, ok := in.(*ssa.FieldAddr)
				if !ok {
					return
				}
				fv := ir.FieldVar(fa.X, fa.Field)
				if fv == nil {
					return
				}
				if _, g := guarded[fv.Name()]; !g || !strings.HasSuffix(fa.X.Type().String(), "mempool.Mempool") {
					return
				}
				accs[fv.Name()] = append(accs[fv.Name()], access{fn, in})
			})
		}
		// lockedFn(f, mtx): every call chain into f holds mtx
		memo := map[string]int{} // 1 ok, 2 no, 3 in progress
		var lockedFn func(f *ssa.Function, mtx string, depth int) bool
		lockedFn = func(f *ssa.Function, mtx string, depth int) bool {
			top := ir.EnclosingTop(f)
			k := ir.FuncName(f) + "|" + mtx
			if v, ok := memo[k]; ok {
				return v == 1 || v == 3
			}
			if _, ok := callerLocked[ir.FuncName(top)]; ok {
				memo[k] = 1
				return true
			}
			if depth > 6 {
				return false
			}
			memo[k] = 3
			fo, _ := top.Object().(*types.Func)
			var sites []ir.CallSite
			if fo != nil {
				sites = p.CallSites(fo)
			}
			if f.Parent() != nil {
				// closure: judged where it is created/launched (go statements lose the lock)
				ok := true
				ir.Instrs(f.Parent(), func(in ssa.Instruction) {
					for _, op := range in.Operands(nil) {
						if mc, isMC := (*op).(*ssa.MakeClosure); isMC && mc.Fn == f {
							if _, isGo := in.(*ssa.Go); isGo {
								ok = false
							} else if !holdsLockAt(f.Parent(), in, mtx) && !lockedFn(f.Parent(), mtx, depth+1) {
								ok = false
							}
						}
					}
				})
				if ok {
					memo[k] = 1
				} else {
					memo[k] = 2
				}
				return ok
			}
			all := true
			// the function's value is taken (method value) and called dynamically elsewhere:
			// the dynamic call sites of the function that takes the value stand in for call sites
			nDyn := 0
			for _, use := range p.FuncValueUses(top) {
				g := use.Parent()
				ir.Instrs(g, func(in ssa.Instruction) {
					call, ok := in.(*ssa.Call)
					if !ok || call.Call.IsInvoke() || call.Call.StaticCallee() != nil {
						return
					}
					if _, isB := call.Call.Value.(*ssa.Builtin); isB {
						return
					}
					if !types.Identical(call.Call.Value.Type().Underlying(), top.Signature.Underlying()) && !sameParams(call.Call.Signature(), top.Signature) {
						return
					}
					nDyn++
					if !holdsLockAt(g, in, mtx) && !lockedFn(g, mtx, depth+1) {
						all = false
					}
				})
			}
			if len(sites) == 0 && nDyn == 0 {
				if fo != nil && !fo.Exported() {
					// unexported, never called, value never taken: unreachable code
					memo[k] = 1
					return true
				}
				memo[k] = 2
				return false
			}
			for _, cs := range sites {
				if strings.Contains(p.InstrPos(cs.Instr), "_test") {
					continue
				}
				if _, isGo := cs.Instr.(*ssa.Go); isGo {
					all = false
					continue
				}
				if holdsLockAt(cs.Fn, cs.Instr, mtx) {
					continue
				}
				if !lockedFn(cs.Fn, mtx, depth+1) {
					all = false
				}
			}
			if all {
				memo[k] = 1
			} else {
				memo[k] = 2
			}
			return all
		}
		var fields []string
		for f := range guarded {
			fields = append(fields, f)
		}
		sort.Strings(fields)
		for _, fld := range fields {
			mtx := guarded[fld]
			byFn := map[string]bool{}
			for _, a := range accs[fld] {
				fname := ir.FuncName(a.fn)
				ok := holdsLockAt(a.fn, a.in, mtx) || lockedFn(a.fn, mtx, 0)
				key := "lockset/" + fld + "/" + fname
				if done, seen := byFn[key]; seen && done == ok {
					continue
				}
				byFn[key] = ok
				r.Check("K10", key, p.InstrPos(a.in), ok, "access to mem."+fld+" requires "+mtx+" held here or in every caller chain")
			}
			if len(accs[fld]) == 0 {
				r.Undecided("K10", "lockset/"+fld, "-", "no access found")
			}
		}
	}
	// ---- nonce queue -----------------------------------------------------------------------------------
	{
		rd := p.Func("mempool", "txSortedMap.Ready")
		nA := 0
		ir.Instrs(rd, func(in ssa.Instruction) {
			call, ok := in.(*ssa.Call)
			if !ok || ir.CalleeName(call) != "append" || !strings.Contains(Arg(call, 1), "m.items[") {
				return
			}
			nA++
			c.Guards("mempool.(*txSortedMap).Ready", "hand out", in, G{"next-expected-nonce", ir.EqPat("heap.Pop(*).(uint64)*", "φ:curr")}, G{"below-end", "lt(heap.Pop(*).(uint64)*,end)"})
		})
		c.MustFind("K6", "mempool.(*txSortedMap).Ready/hand out", rd, nA, "append to ready")
		okInc := false
		for _, b := range rd.Blocks {
			for _, in := range b.Instrs {
				if ph, ok := in.(*ssa.Phi); ok && ir.LocalName(ph.Parent(), ph.Comment) == "curr" {
					var es []string
					for _, e := range ph.Edges {
						es = append(es, ir.Render(e))
					}
					sort.Strings(es)
					okInc = strings.Contains(strings.Join(es, "|"), "(φ:curr + 1)") && strings.Contains(strings.Join(es, "|"), "start")
				}
			}
		}
		r.Check("K6", "mempool.(*txSortedMap).Ready/gap-free", p.Pos(rd.Pos()), okInc, "the expected nonce starts at `start` and advances by one per transaction handed out")
		fw := p.Func("mempool", "txSortedMap.Forward")
		nF := 0
		for _, call := range ir.Calls(fw, "heap.Pop") {
			nF++
			c.Guards("mempool.(*txSortedMap).Forward", "drop", call, G{"below-threshold", "lt(*m.index[0],threshold) || lt((*m.index)[0],threshold)"})
		}
		c.MustFind("K6", "mempool.(*txSortedMap).Forward/drop", fw, nF, "heap.Pop")
	}
	// ---- reap caps ---------------------------------------------------------------------------------------
	{
		rp := p.Func("mempool", "Mempool.Reap")
		for _, call := range ir.Calls(rp, "mempool.Mempool.collectTxs") {
			r.Check("K10", memT+"Reap/collect/locked", p.InstrPos(call), holdsLockAt(rp, call, "proxyMtx"), "reaping runs under proxyMtx")
			c.Guards(memT+"Reap", "collect", call, G{"no-recheck-in-progress", "le(atomic.LoadInt32(&mem.rechecking),0)"})
		}
		ct := p.Func("mempool", "Mempool.collectTxs")
		nC := 0
		ir.Instrs(ct, func(in ssa.Instruction) {
			if call, ok := in.(*ssa.Call); ok && ir.CalleeName(call) == "append" && strings.Contains(Arg(call, 1), ".tx") {
				nC++
				c.Guards(memT+"collectTxs", "take", in, G{"below-max", "lt(len(φ:txs),maxTxs)"})
			}
		})
		c.MustFind("K1", memT+"collectTxs/take", ct, nC, "append to txs")
	}
	// ---- one capacity per list ---------------------------------------------------------------------------------
	// Whether a checked transaction goes to the pending list or is parked is decided AFTER the check state
	// advanced its nonce; every function that makes that decision for a list must use the same bound,
	// or one of them parks nonce n while a sibling still admits n+1 to the pending list.
	{
		bound := map[string]string{"mem.goodTxs": "Size", "mem.specGoodTxs": "SpecSize", "mem.futureTxsCount": "FutureSize", "mem.utxoTxs": "Size"}
		n := 0
		for _, f := range p.Funcs {
			if f.Pkg == nil || ir.RelPkg(f.Pkg.Pkg) != "mempool" || f.Blocks == nil || strings.HasSuffix(p.Pos(f.Pos()), "_test.go") {
				continue
			}
			ir.Instrs(f, func(in ssa.Instruction) {
				bo, ok := in.(*ssa.BinOp)
				if !ok {
					return
				}
				switch bo.Op {
				case token.LSS, token.LEQ, token.GTR, token.GEQ:
				default:
					return
				}
				x, y := ir.Render(bo.X), ir.Render(bo.Y)
				for _, pr := range [][2]string{{x, y}, {y, x}} {
					if !strings.HasPrefix(pr[1], "mem.config.") {
						continue
					}
					for list, want := range bound {
						if pr[0] == "clist.CList.Len("+list+")" || pr[0] == list {
							n++
							r.Check("K5", "pool-capacity/"+strings.TrimPrefix(list, "mem.")+"/"+ir.FuncName(ir.EnclosingTop(f)), p.InstrPos(in), pr[1] == "mem.config."+want,
								fmt.Sprintf("the fill level of %s is compared with config.%s everywhere: %s", list, want, pr[1]))
						}
					}
				}
			})
		}
		r.Check("K5", "pool-capacity/sites", "-", n >= 6, fmt.Sprintf("%d capacity comparisons found (confirmed by hand: 7)", n))
	}

	// ---- a list is walked with e.Next(): a removed element keeps its next pointer until the walk moved on ------
	// clist.Remove leaves e.next intact exactly so that a loop `for e := l.Front(); e != nil; e = e.Next()`
	// can remove while it walks. DetachNext on the element the walk stands on ends the walk: everything
	// behind it is never re-checked (and after a commit never re-registered in the key-image cache).
	{
		n := 0
		for _, f := range p.Funcs {
			if f.Pkg == nil || ir.RelPkg(f.Pkg.Pkg) != "mempool" || f.Blocks == nil || strings.HasSuffix(p.Pos(f.Pos()), "_test.go") {
				continue
			}
			for _, nx := range ir.Calls(f, "clist.CElement.Next") {
				n++
				recv := Arg(nx, 0)
				for _, dn := range ir.Calls(f, "clist.CElement.DetachNext") {
					if Arg(dn, 0) != recv {
						continue
					}
					found, _, tr := ir.FindPath(ir.PathQuery{From: ir.At(dn.(ssa.Instruction)), Target: func(x ssa.Instruction) bool { return x == nx.(ssa.Instruction) }})
					r.Check("K2", "list-walk/next-intact/"+ir.FuncName(ir.EnclosingTop(f)), p.InstrPos(dn.(ssa.Instruction)), !found, fmt.Sprintf("no DetachNext on the element whose Next() continues the walk; path %v", tr))
				}
			}
		}
		r.Check("K2", "list-walk/sites", "-", n >= 4, fmt.Sprintf("%d list walks with e.Next() found in package mempool", n))
	}

	// ---- check-state hygiene ---------------------------------------------------------------------------------
	for _, sp := range []struct{ fn, name string }{
		{"Transaction.CheckState", "types.(*Transaction).CheckState"},
		{"TokenTransaction.CheckState", "types.(*TokenTransaction).CheckState"},
		{"ContractUpgradeTx.CheckState", "types.(*ContractUpgradeTx).CheckState"},
		{"UTXOTransaction.checkState", "types.(*UTXOTransaction).checkState"},
	} {
		fn := p.Func("types", sp.fn)
		mut := ir.CallMatcher("types.State.SetNonce", "types.State.SubBalance", "types.State.SubTokenBalance", "types.State.AddBalance", "types.State.AddTokenBalance")
		ei := errorResultIndex(fn.Signature)
		bad := ""
		ir.Instrs(fn, func(in ssa.Instruction) {
			if !mut(in) {
				return
			}
			for _, rt := range ir.Returns(fn) {
				if ir.AbstractResult(rt.Results[ei]) == "nil" {
					continue
				}
				found, _, tr := ir.FindPath(ir.PathQuery{From: ir.At(in), Target: func(x ssa.Instruction) bool { return x == ssa.Instruction(rt.Instr) }})
				if found {
					bad = fmt.Sprintf("%s at %s is followed by the rejection at %s (blocks %v)", ir.CalleeName(in.(ssa.CallInstruction)), p.InstrPos(in), p.InstrPos(rt.Instr), tr)
				}
			}
		})
		r.Check("K2", "check-state-hygiene/"+sp.name, p.Pos(fn.Pos()), bad == "", "a state check that ends in a rejection must not have advanced the shared check state (nonce/balance) on that path: "+bad)
	}
}

var _ = report.Discharged

// sameParams: the dynamic call's signature equals the method's signature without receiver.
func sameParams(a, b *types.Signature) bool {
	if a.Params().Len() != b.Params().Len() || a.Results().Len() != b.Results().Len() {
		return false
	}
	for i := 0; i < a.Params().Len(); i++ {
		if !types.Identical(a.Params().At(i).Type(), b.Params().At(i).Type()) {
			return false
		}
	}
	return true
}

// mempoolRecheckRules: CommitBlock replaces the shared check state and clears the mempool's
// key-image set; Update must re-apply the pending transactions to them after EVERY block, also an
// empty one (shared by C07: the key-image set of pending transactions, and C15).
func mempoolRecheckRules(c C) {
	p, r := c.P, c.R
	up := p.Func("mempool", "Mempool.Update")
	// The caller (CommitBlock) has just replaced the shared check state and cleared the key-image
	// set: the pending transactions must be re-applied to it after EVERY block, also an empty one.
	c.MustPass(memT+"Update", "recheck-on-every-path/recheckTxs", ir.Entry(up), ir.IsReturn, ir.CallMatcher("mempool.Mempool.recheckTxs"), nil, "every path through Update re-checks the offered account transactions")
	for _, rc := range []struct{ call, size string }{{"mempool.Mempool.recheckSpecTxs", "mempool.Mempool.SpecGoodTxsSize(mem)"}, {"mempool.Mempool.recheckUtxoTxs", "mempool.Mempool.UTXOTxsSize(mem)"}} {
		okAll := true
		why := ""
		for _, rt := range ir.Returns(up) {
			found, _, tr := ir.FindPath(ir.PathQuery{From: ir.Entry(up), Target: func(in ssa.Instruction) bool { return in == ssa.Instruction(rt.Instr) }, Avoid: ir.CallMatcher(rc.call),
				AvoidEdge: func(atoms []string) bool {
					for _, a := range atoms {
						if a == "le("+rc.size+",0)" || a == "eq("+rc.size+",0)" {
							return true
						}
					}
					return false
				}})
			if found {
				okAll = false
				why = fmt.Sprintf("return at %s reachable without it although the list may be non-empty, blocks %v", p.InstrPos(rt.Instr), tr)
			}
		}
		r.Check("K2", memT+"Update/recheck-on-every-path/"+strings.TrimPrefix(rc.call, "mempool.Mempool."), p.Pos(up.Pos()), okAll, "skipped only when the list is empty: "+why)
	}
}
