#!/bin/bash
# tools/seedeval.sh <patch.diff> <prop> [more props...]  -- run the named checks on /repo's current sources with the
# patch applied as an OVERLAY (nothing in /repo is touched). Prints the new violations of each check.
HERE="$(cd "$(dirname "$0")/.." && pwd)"; REPO="${REPO:-/repo}"; BIN="${BIN:-$HERE/bin/lkcheck}"; TABLES="${TABLES:-$HERE}"
export GOFLAGS=-mod=mod GOPROXY=off GOSUMDB=off GOTOOLCHAIN=local
F="$(readlink -f "$1")"; shift
T="$(mktemp -d)"; trap 'rm -rf "$T"' EXIT
ov=""
for f in $(grep -E '^\+\+\+ b/' "$F" | sed 's#^+++ b/##'); do
  mkdir -p "$T/w/$(dirname "$f")"; [ -f "$REPO/$f" ] && cp "$REPO/$f" "$T/w/$f"; ov="$ov:$REPO/$f=$T/w/$f"
done
if ! (cd "$T/w" && patch -p1 -s -f --no-backup-if-mismatch < "$F" >/dev/null 2>&1); then echo "PATCH DOES NOT APPLY: $F"; exit 3; fi
for P in "$@"; do
  mkdir -p "$T/v$P"; cp "$TABLES/known_findings.json" "$TABLES/names.json" "$TABLES/errors.json" "$TABLES/guards.json" "$TABLES/fields.json" "$TABLES/defers.json" "$TABLES/properties.jsonl" "$T/v$P/"
  out=$("$BIN" -prop "$P" -repo "$REPO" -verif "$T/v$P" -overlay "${ov#:}" 2>&1); rc=$?
  echo "== $P rc=$rc"
  echo "$out" | grep -B1 "^VIOLATION" | grep -v "^VIOLATION\|^--" | cut -c1-260 | head -6
  echo "$out" | grep "lkcheck:\|unresolved\|type errors" | head -3
done
