package props

import (
	"fmt"
	"go/ast"
	"go/token"
	"go/types"
	"sort"
	"strings"

	"golang.org/x/tools/go/ssa"

	"lkcheck/ir"
	"lkcheck/report"
)

func init() { Registry["C11"] = C11 }

// caseClasses extracts, from the first `switch { ... }` of a function, the
// ordered list of dispatch classes named in its case conditions.
func caseClasses(p *ir.Program, rel, fname string) []string {
	pk, fd := p.FuncDecl(rel, fname)
	var out []string
	var sw *ast.SwitchStmt
	ast.Inspect(fd.Body, func(n ast.Node) bool {
		if s, ok := n.(*ast.SwitchStmt); ok && sw == nil && s.Tag == nil {
			sw = s
		}
		return sw == nil
	})
	if sw == nil {
		return nil
	}
	for _, st := range sw.Body.List {
		cc := st.(*ast.CaseClause)
		if cc.List == nil {
			out = append(out, "default")
			continue
		}
		var names []string
		for _, e := range cc.List {
			ast.Inspect(e, func(n ast.Node) bool {
				switch x := n.(type) {
				case *ast.SelectorExpr:
					if o := pk.TypesInfo.Uses[x.Sel]; o != nil && o.Pkg() != nil && o.Pkg().Path() == "reflect" {
						if _, isConst := o.(*types.Const); isConst {
							names = append(names, "kind:"+o.Name())
						}
						if o.Name() == "PtrTo" {
							names = append(names, "ptrto")
						}
					}
				case *ast.Ident:
					if o := pk.TypesInfo.Uses[x]; o != nil && o.Pkg() != nil && o.Pkg().Path() == pk.PkgPath {
						switch o.Name() {
						case "rawValueType":
							names = append(names, "raw")
						case "encoderInterface", "decoderInterface":
							names = append(names, "coder")
						case "bigInt":
							names = append(names, "bigint")
						case "isUint":
							names = append(names, "uint")
						case "isInt":
							names = append(names, "int")
						case "isByte":
							names = append(names, "bytes")
						}
					}
				}
				return true
			})
		}
		sort.Strings(names)
		names = uniq(names)
		// a case is labelled by its most specific class
		primary := ""
		for _, pr := range []string{"raw", "coder", "bigint"} {
			for _, n := range names {
				if n == pr {
					primary = pr
				}
			}
			if primary != "" {
				break
			}
		}
		if primary != "" {
			names = []string{primary}
		}
		out = append(out, strings.Join(names, "+"))
	}
	return out
}

func uniq(s []string) []string {
	var out []string
	for i, x := range s {
		if i == 0 || x != s[i-1] {
			out = append(out, x)
		}
	}
	return out
}

// C11 encoding canonical, lossless, safe on arbitrary input (structural clauses).
func C11(p *ir.Program, r *report.R) {
	c := C{p, r}
	r.Floor = 110
	r.Explain = "Decided: (registry) every ser.RegisterConcrete call in the module uses a distinct constant name and a distinct type, from init-time code; for every message interface the set of registered concrete types equals the set of case types of the handler's type switch (both directions, exemptions listed); (dispatch) encoder and decoder kind dispatch cover the same classes in the same precedence for the special cases; (canonical maps) the map writer sorts the keys before emitting on every path and the key order is strict byte order; (bounded allocation) in Stream.Kind a size beyond the remaining input / enclosing list sets the sticky error, every allocation in the decoder whose size derives from the stream is dominated by the no-error result of Kind or by an explicit bound, slice growth is incremental, the map decoder bounds its entry count; every decode entry point in the module is given a bytes.Reader or a non-zero limit; (no panic on input) the set of explicit panic sites and unchecked type assertions reachable from the decode entry points inside libs/ser equals the reviewed table. ADDED after seeded-change testing: the type cache is entered only under typeCacheMutex.Lock (greatest fixed point over the generator recursion; RLock does not count); encbuf.toBytes returns fresh memory (never the pooled buffer) ; Stream.Kind: after a successful readKind no path reaches the return without an error or the established bound (size <= rest of list / remaining limited input), whatever the kind; DecodeBytes/DecodeBytesWithType return success only with an exhausted reader (one value per byte string). Rounds 4-5: the time decoder accepts exactly the encoder's nanosecond range; the one long-lived decode target (cs.ProposalBlock) is nil whenever a new part set is installed. Round 6: no comparison of the codec is on the sum of two input-chosen unsigned values; intsize shifts until zero. Round 7: a type prefix never starts with the nil marker 0x00 (nameToDisfix skips leading zero bytes before each copy). NOT decided: round-trip equality, canonical integer forms, equality of decoded values; implicit runtime panics inside reflect operations other than allocation sizes."
	r.Trusted = []string{"package reflect, encoding/json", "sort.Sort"}

	serPath := ir.Module + "/libs/ser"
	// ---- registry ------------------------------------------------------------
	type reg struct {
		name, typ, pos, in string
		t                  types.Type
		iface              string // the interface registered just before, in the same function
	}
	var regs []reg
	for _, fn := range p.Funcs {
		curIface := ""
		ir.Instrs(fn, func(in ssa.Instruction) {
			call, ok := in.(ssa.CallInstruction)
			if !ok {
				return
			}
			n := ir.CalleeName(call)
			if n == "ser.RegisterInterface" || n == "ser.Codec.RegisterInterface" {
				a := call.Common().Args
				v := a[len(a)-2]
				if mi, ok := v.(*ssa.MakeInterface); ok {
					if pt, ok := mi.X.Type().(*types.Pointer); ok {
						curIface = typeShortT(pt.Elem())
					}
				}
				return
			}
			if n != "ser.RegisterConcrete" && n != "ser.Codec.RegisterConcrete" {
				return
			}
			if fn.Pkg != nil && fn.Pkg.Pkg.Path() == serPath {
				return // the package-level wrapper itself
			}
			args := call.Common().Args
			off := 0
			if n == "ser.Codec.RegisterConcrete" {
				off = 1
			}
			var t types.Type
			if mi, ok := args[off].(*ssa.MakeInterface); ok {
				t = mi.X.Type()
			} else {
				t = args[off].Type()
			}
			nm := ir.Render(args[off+1])
			regs = append(regs, reg{nm, types.TypeString(t, nil), p.InstrPos(in), ir.FuncName(ir.EnclosingTop(fn)), t, curIface})
		})
	}
	r.Stats["RegisterConcrete calls"] = len(regs)
	byName := map[string][]reg{}
	byType := map[string][]reg{}
	for _, g := range regs {
		byName[g.name] = append(byName[g.name], g)
		byType[strings.TrimPrefix(g.typ, "*")] = append(byType[strings.TrimPrefix(g.typ, "*")], g)
	}
	for _, g := range regs {
		isConst := strings.HasPrefix(g.name, `"`)
		r.Check("K5", "registry/name:"+g.name, g.pos, isConst && len(byName[g.name]) == 1, fmt.Sprintf("registered name is a constant used once in the module (%d uses)", len(byName[g.name])))
		// wal registers types.EventDataRoundState under a second name for the WAL interface: allowed, reviewed
		dupOK := len(byType[strings.TrimPrefix(g.typ, "*")]) == 1 || strings.HasSuffix(g.typ, "types.EventDataRoundState")
		r.Check("K5", "registry/type:"+g.typ+"@"+g.name, g.pos, dupOK, "a concrete type is registered once (exemption: EventDataRoundState is also a WALMessage)")
		initTime := strings.Contains(g.in, ".init") || strings.Contains(g.in, "Register") || strings.Contains(g.in, "register")
		r.Check("K3", "registry/init-time:"+g.name, g.pos, initTime, "registration happens in init-time code: "+g.in)
	}
	// exhaustiveness of handler type switches
	type hs struct {
		rel, fn, irel, iface string
		exempt               map[string]string
	}
	handlers := []hs{
		{"consensus", "ConsensusReactor.Receive", "consensus", "ConsensusMessage", map[string]string{}},
		{"blockchain", "BlockchainReactor.Receive", "blockchain", "BlockchainMessage", map[string]string{
			"blockchain.bcNoBlockResponseMessage": "informational reply; the requester times the request out in the block pool (falls into the default branch)",
		}},
		{"mempool", "defaultHandReceiveMsg", "mempool", "MempoolMessage", map[string]string{}},
		{"evidence", "EvidenceReactor.Receive", "evidence", "EvidenceMessage", map[string]string{}},
		{"consensus", "ConsensusState.readReplayMessage", "consensus", "WALMessage", map[string]string{
			"consensus.EndHeightMessage": "the marker is consumed by SearchForEndHeight/catchupReplay positioning, replay ignores it",
		}},
		{"libs/p2p/conn", "MConnection.recvRoutine", "libs/p2p/conn", "Packet", map[string]string{}},
	}
	for _, h := range handlers {
		fn := p.Func(h.rel, h.fn)
		named := p.Obj(h.irel, h.iface).Type()
		ifaceName := typeShortT(named)
		cases := map[string]bool{}
		ir.InstrsDeep(fn, func(f *ssa.Function, in ssa.Instruction) {
			ta, ok := in.(*ssa.TypeAssert)
			if !ok || !ta.CommaOk {
				return
			}
			if types.Identical(ta.X.Type(), named) {
				cases[strings.TrimPrefix(typeShortT(ta.AssertedType), "*")] = true
			}
		})
		registered := map[string]bool{}
		for _, g := range regs {
			if g.iface == ifaceName {
				registered[strings.TrimPrefix(typeShortT(g.t), "*")] = true
			}
		}
		key := h.rel + "." + h.fn + "/" + h.iface
		for t := range registered {
			_, ex := h.exempt[t]
			r.Check("K5", "dispatch-exhaustive/"+key+"/handles:"+t, p.Pos(fn.Pos()), cases[t] || ex, "every registered concrete type of "+h.iface+" has a case in the handler (or a listed reason: "+h.exempt[t]+")")
		}
		for t := range cases {
			r.Check("K5", "dispatch-exhaustive/"+key+"/registered:"+t, p.Pos(fn.Pos()), registered[t], "every case type of the handler is a registered concrete type of "+h.iface)
		}
		// ... in the FORM the decoder produces: a type registered as T{} decodes to a T, one registered
		// as &T{} to a *T; a `case T:` for a pointer registration never matches a decoded message
		formCase := map[string]string{}
		ir.InstrsDeep(fn, func(f *ssa.Function, in ssa.Instruction) {
			if ta, ok := in.(*ssa.TypeAssert); ok && ta.CommaOk && types.Identical(ta.X.Type(), named) {
				ts := typeShortT(ta.AssertedType)
				formCase[strings.TrimPrefix(ts, "*")] = ts
			}
		})
		for _, g := range regs {
			if g.iface != ifaceName {
				continue
			}
			ts := typeShortT(g.t)
			base := strings.TrimPrefix(ts, "*")
			if fc, ok := formCase[base]; ok {
				r.Check("K5", "dispatch-exhaustive/"+key+"/form:"+base, g.pos, fc == ts, fmt.Sprintf("registered as %s, handled as %s (value vs pointer must agree)", ts, fc))
			}
		}
		if len(registered) == 0 {
			r.Undecided("K5", "dispatch-exhaustive/"+key, p.Pos(fn.Pos()), "no registered types found for "+h.iface)
		}
	}

	// ---- writer/reader dispatch agreement ------------------------------------------
	{
		w := caseClasses(p, "libs/ser", "makeWriter")
		d := caseClasses(p, "libs/ser", "makeDecoder")
		r.Stats["makeWriter cases"] = len(w)
		r.Stats["makeDecoder cases"] = len(d)
		// normalise: the writer splits byte slices/arrays out of Slice/Array; the decoder does so inside makeListDecoder
		norm := func(cs []string) (set map[string]bool, order []string) {
			set = map[string]bool{}
			for _, cl := range cs {
				for _, part := range strings.Split(cl, "+") {
					if part == "bytes" || part == "ptrto" || part == "" {
						continue
					}
					if !set[part] {
						set[part] = true
						order = append(order, part)
					}
				}
			}
			return
		}
		ws, wo := norm(w)
		ds, do := norm(d)
		var onlyW, onlyD []string
		for k := range ws {
			if !ds[k] {
				onlyW = append(onlyW, k)
			}
		}
		for k := range ds {
			if !ws[k] {
				onlyD = append(onlyD, k)
			}
		}
		sort.Strings(onlyW)
		sort.Strings(onlyD)
		pw, _ := p.FuncDecl("libs/ser", "makeWriter")
		_ = pw
		r.Check("K5", "ser.makeWriter~makeDecoder/same-classes", p.Pos(p.Func("libs/ser", "makeWriter").Pos()), len(onlyW) == 0 && len(onlyD) == 0,
			fmt.Sprintf("a kind handled on one side only: writer-only %v, decoder-only %v (writer %v; decoder %v)", onlyW, onlyD, wo, do))
		// precedence of the special cases: raw < coder < bigint < every plain kind, on both sides
		prec := func(order []string) bool {
			idx := map[string]int{}
			for i, o := range order {
				idx[o] = i
			}
			if !(idx["raw"] < idx["coder"] && idx["coder"] < idx["bigint"]) {
				return false
			}
			for _, k := range []string{"kind:Struct", "kind:Slice", "kind:Array", "kind:Map", "kind:Ptr", "kind:String", "kind:Bool", "uint", "int"} {
				if idx[k] < idx["bigint"] {
					return false
				}
			}
			return true
		}
		r.Check("K5", "ser.makeWriter/special-case-precedence", p.Pos(p.Func("libs/ser", "makeWriter").Pos()), prec(wo), fmt.Sprintf("raw value, Encoder, *big.Int are tested before the plain kinds: %v", wo))
		r.Check("K5", "ser.makeDecoder/special-case-precedence", p.Pos(p.Func("libs/ser", "makeDecoder").Pos()), prec(do), fmt.Sprintf("raw value, Decoder, *big.Int are tested before the plain kinds: %v", do))
		r.Check("K5", "ser.makeWriter~makeDecoder/default-errors", p.Pos(p.Func("libs/ser", "makeDecoder").Pos()), w[len(w)-1] == "default" && d[len(d)-1] == "default", "both dispatchers end in a default that returns an error")
		// map support is restricted identically on both sides (case conditions compared as type-checked expressions)
		conds := func(fname string) string {
			_, fd := p.FuncDecl("libs/ser", fname)
			var cs []string
			ast.Inspect(fd.Body, func(n ast.Node) bool {
				if cc, ok := n.(*ast.CaseClause); ok {
					for _, e := range cc.List {
						cs = append(cs, types.ExprString(e))
					}
				}
				if _, ok := n.(*ast.FuncLit); ok {
					return false
				}
				return true
			})
			return strings.Join(cs, " | ")
		}
		md := p.Func("libs/ser", "makeMapDecoder")
		cw, cd := conds("makeMapWriter"), conds("makeMapDecoder")
		r.Check("K5", "ser.makeMapWriter~makeMapDecoder/same-type-restriction", p.Pos(md.Pos()), cw == cd && cw != "", "map writer and decoder accept exactly the same key/value types: "+short(cw, 200)+" vs "+short(cd, 200))
	}

	// ---- canonical maps -----------------------------------------------------------------
	serCanonicalMaps(p, r)

	// ---- the type cache is written only under its WRITE lock --------------------------------------------
	// cachedTypeInfo1 inserts into the package-level typeCache map. Every entry into it from outside
	// its own recursion (generators call it again while the outer caller holds the lock) holds
	// typeCacheMutex.Lock — a read lock lets two first-time decodes write the map concurrently and the
	// runtime aborts the process.
	{
		ci1 := p.Func("libs/ser", "cachedTypeInfo1")
		isLock := func(x ssa.Instruction, suffix string) bool {
			c2, ok := x.(*ssa.Call)
			return ok && strings.HasSuffix(ir.CalleeName(c2), suffix) && strings.HasSuffix(Arg(c2, 0), "typeCacheMutex")
		}
		lockedAt := func(fn *ssa.Function, in ssa.Instruction) bool {
			for _, lk := range ir.Calls(fn, "sync.RWMutex.Lock") {
				li, ok := lk.(*ssa.Call)
				if !ok || !isLock(li, "RWMutex.Lock") || !ir.Precedes(li, in) {
					continue
				}
				if found, _, _ := ir.FindPath(ir.PathQuery{From: ir.At(li), Target: func(x ssa.Instruction) bool { return x == in },
					Avoid: func(x ssa.Instruction) bool { return isLock(x, "nlock") }}); found {
					return true
				}
			}
			return false
		}
		// greatest fixed point of "entered with the lock held": named functions of the package that are
		// never used as values and all of whose call sites hold the lock (locally or by being in such a
		// function themselves). The recursion cachedTypeInfo1 -> genTypeInfo -> make*Decoder -> cachedTypeInfo1
		// is justified by its outside entries.
		entered := map[*ssa.Function]bool{}
		for _, f := range p.Funcs {
			if f.Pkg != nil && ir.RelPkg(f.Pkg.Pkg) == "libs/ser" && f.Parent() == nil && f.Object() != nil && f.Synthetic == "" && !strings.HasSuffix(p.Pos(f.Pos()), "_test.go") {
				entered[f] = true
			}
		}
		for _, f := range p.Funcs {
			if f.Pkg == nil || ir.RelPkg(f.Pkg.Pkg) != "libs/ser" {
				continue
			}
			for _, b := range f.Blocks {
				for _, in := range b.Instrs {
					for _, op := range in.Operands(nil) {
						if g, ok := (*op).(*ssa.Function); ok && entered[g] {
							if c2, isCall := in.(ssa.CallInstruction); isCall && c2.Common().Value == *op {
								if _, plain := in.(*ssa.Call); plain {
									continue
								}
							}
							delete(entered, g) // used as a value, deferred or started as a goroutine
						}
					}
				}
			}
		}
		sitesOf := func(f *ssa.Function) []ir.CallSite {
			var out []ir.CallSite
			for _, cs := range p.CallSites(f.Object().(*types.Func)) {
				if !strings.HasSuffix(p.Pos(cs.Fn.Pos()), "_test.go") {
					out = append(out, cs)
				}
			}
			return out
		}
		for changed := true; changed; {
			changed = false
			for f := range entered {
				cs := sitesOf(f)
				// no caller at all: an exported function is entered from outside the package without the
				// lock; an unexported one that is neither called nor used as a value is dead code
				ok := len(cs) > 0 || (!f.Object().Exported() && f.Signature.Recv() == nil)
				for _, s := range cs {
					if !(entered[s.Fn] || lockedAt(s.Fn, s.Instr.(ssa.Instruction))) {
						ok = false
					}
				}
				if !ok {
					delete(entered, f)
					changed = true
				}
			}
		}
		nLocal, nInner := 0, 0
		for _, cs := range sitesOf(ci1) {
			in := cs.Instr.(ssa.Instruction)
			local := lockedAt(cs.Fn, in)
			if local {
				nLocal++
			} else {
				nInner++
			}
			r.Check("K10", "type-cache/write-lock-held/"+ir.FuncName(cs.Fn), p.InstrPos(in), local || entered[cs.Fn], "cachedTypeInfo1 is entered with typeCacheMutex.Lock() held (not RLock): at the call, or at every entry of the enclosing generator")
		}
		r.Check("K10", "type-cache/write-lock-held/sites", p.Pos(ci1.Pos()), nLocal >= 3 && nInner >= 5, fmt.Sprintf("%d locking entries and %d recursive entries into cachedTypeInfo1 (confirmed by hand: 3 and 6)", nLocal, nInner))
	}

	// ---- what an encoder hands out is the caller's own memory ------------------------------------------------
	// encbuf objects are pooled: toBytes returns a fresh slice, never (a slice of) the pooled buffer
	{
		tb := p.Func("libs/ser", "encbuf.toBytes")
		sum := ir.DefaultEffects(p).Summarize(tb)
		r.Check("K4", "ser.(*encbuf).toBytes/returns-fresh-memory", p.Pos(tb.Pos()), sum.RetFresh, "the encoding handed to the caller does not alias the pooled buffer")
	}

	// ---- a type chosen by the input fits where it is stored ------------------------------------------------
	// Interface fields are decoded by looking the concrete type up BY THE PREFIX BYTES OF THE INPUT among
	// all registered types. reflect.Value.Set panics when that type cannot be stored in the field, so the
	// store is guarded by an assignability test (fix d85487d: a vote message where a types.Tx is expected
	// used to panic inside the consensus routine).
	typeChosenByInputFits(c)

	// ---- decode targets are fresh -----------------------------------------------------------------------------
	// The decoder REUSES a non-nil pointer target and assigns exported fields only: memoised fields of the
	// old value (block hash) survive. The one long-lived decode target of the module is cs.ProposalBlock
	// (addProposalBlockPart decodes the completed part set into it): it is nil whenever a new part set is
	// installed, so every decode starts from a fresh value.
	proposalBlockAndPartsChangeTogether(c)

	// ---- a type prefix never starts with the nil marker -----------------------------------------------------------------
	// A first byte 0x00 on the wire means "nil interface" to both the writer and the decoder. nameToDisfix
	// therefore skips leading zero bytes of the name hash before it takes the disambiguation and the prefix
	// bytes: each copy is reached only after a loop that exits on bz[0] != 0.
	{
		nd := p.Func("libs/ser", "nameToDisfix")
		n := 0
		ir.Instrs(nd, func(in ssa.Instruction) {
			call, ok := in.(*ssa.Call)
			if !ok {
				return
			}
			if bi, isB := call.Call.Value.(*ssa.Builtin); !isB || bi.Name() != "copy" {
				return
			}
			n++
			okZ := false
			for _, a := range ir.FactsAt(in) {
				if ir.MatchAtom("!eq(*[0],0)", a.Atom) {
					okZ = true
				}
			}
			r.Check("K1", fmt.Sprintf("ser.nameToDisfix/copy#%d/no-leading-zero", n), p.InstrPos(in), okZ, "the bytes copied into a type prefix start with a non-zero byte (0x00 is the nil marker)")
		})
		r.Check("K1", "ser.nameToDisfix/copies", p.Pos(nd.Pos()), n == 2, fmt.Sprintf("%d copies (disambiguation bytes, prefix bytes)", n))
	}

	// ---- bounds are tested without overflowing sums -----------------------------------------------------------------
	// Sizes read from the input are 64-bit values the sender chooses. A bound of the form `a + b > limit`
	// wraps for a near 2^64 and lets the value through (the callers then slice with it and panic); the codec
	// tests `b > limit - a` after establishing a <= limit, or compares single values. No comparison in the
	// codec has an operand that is the sum of two non-constant unsigned 64-bit values.
	{
		var bad []string
		nCmp := 0
		for _, f := range p.Funcs {
			if f.Pkg == nil || ir.RelPkg(f.Pkg.Pkg) != "libs/ser" || f.Blocks == nil || strings.HasSuffix(p.Pos(f.Pos()), "_test.go") || strings.Contains(p.Pos(f.Pos()), "libs/ser/json") {
				continue
			}
			ir.Instrs(f, func(in ssa.Instruction) {
				bo, ok := in.(*ssa.BinOp)
				if !ok {
					return
				}
				switch bo.Op {
				case token.LSS, token.GTR, token.LEQ, token.GEQ:
				default:
					return
				}
				nCmp++
				for _, side := range []ssa.Value{bo.X, bo.Y} {
					add, isAdd := side.(*ssa.BinOp)
					if !isAdd || add.Op != token.ADD {
						continue
					}
					bt, isB := add.Type().Underlying().(*types.Basic)
					if !isB || !(bt.Kind() == types.Uint64 || bt.Kind() == types.Uint || bt.Kind() == types.Uintptr) {
						continue
					}
					_, cx := add.X.(*ssa.Const)
					_, cy := add.Y.(*ssa.Const)
					if cx || cy {
						continue
					}
					bad = append(bad, p.InstrPos(in)+": "+short(ir.Render(bo), 80))
				}
			})
		}
		r.Check("K6", "ser/no-overflowing-sum-in-a-bound", "-", len(bad) == 0 && nCmp >= 20, fmt.Sprintf("%d comparisons in the codec, none on the sum of two input-chosen unsigned values: %v", nCmp, bad))
	}

	// ---- intsize is the byte length of its argument --------------------------------------------------------------------
	// intsize(i) sizes every list/string header: it counts how often i can be shifted right by 8 until it
	// is zero (1 for i < 256, 2 for i < 65536, ...). The size bookkeeping of encbuf and the header bytes
	// written by putint agree only with exactly that function.
	{
		is := p.Func("libs/ser", "intsize")
		okShape := false
		for _, rt := range ir.Returns(is) {
			fs := ir.FactsAt(rt.Instr)
			if ir.HasFact(fs, "eq((* >> 8),0)") {
				okShape = true
			}
		}
		nShift := 0
		ir.Instrs(is, func(in ssa.Instruction) {
			if bo, ok := in.(*ssa.BinOp); ok && bo.Op == token.SHR && ir.Render(bo.Y) == "8" {
				nShift++
			}
		})
		r.Check("K11", "ser.intsize/shift-until-zero", p.Pos(is.Pos()), okShape && nShift == 1 && len(ir.Returns(is)) == 1, "intsize returns when the value shifted right by 8 once more is zero (one return, one shift)")
	}

	// ---- one text form for signed integers --------------------------------------------------------------------------
	// Signed integers (and the entry count of a map) travel as base-16 text: writeInt formats, decodeInt
	// parses, with the same base, and nothing else in the codec converts between text and integers. A
	// reader that parses a count with another base or function agrees with the writer only for 0..9.
	{
		var bad []string
		nFmt, nParse := 0, 0
		for _, f := range p.Funcs {
			if f.Pkg == nil || ir.RelPkg(f.Pkg.Pkg) != "libs/ser" || f.Blocks == nil || strings.HasSuffix(p.Pos(f.Pos()), "_test.go") || strings.Contains(p.Pos(f.Pos()), "libs/ser/json") {
				continue
			}
			ir.Instrs(f, func(in ssa.Instruction) {
				call, ok := in.(*ssa.Call)
				if !ok {
					return
				}
				cn := ir.CalleeName(call)
				if !strings.HasPrefix(cn, "strconv.") || cn == "strconv.init" {
					return
				}
				top := ir.FuncName(ir.EnclosingTop(f))
				switch {
				case cn == "strconv.FormatInt" && top == "libs/ser.writeInt" && Arg(call, 1) == "16":
					nFmt++
				case cn == "strconv.ParseInt" && top == "libs/ser.decodeInt" && Arg(call, 1) == "16" && Arg(call, 2) == "64":
					nParse++
				case cn == "strconv.Quote" || cn == "strconv.Itoa" && strings.Contains(top, "Error"):
					// error texts
				default:
					bad = append(bad, p.InstrPos(in)+": "+cn+" in "+top)
				}
			})
		}
		r.Check("K5", "ser/signed-integer-text-form/writer~reader", "-", nFmt == 1 && nParse == 1 && len(bad) == 0, fmt.Sprintf("writeInt formats base 16 (%d), decodeInt parses base 16 into 64 bits (%d), no other text/integer conversion in the codec: %v", nFmt, nParse, bad))
		// the map decoder reads its entry count with decodeInt, as the map writer writes it with writeInt
		nCnt := 0
		for _, cl := range p.Func("libs/ser", "makeMapDecoder").AnonFuncs {
			nCnt += len(ir.Calls(cl, "ser.decodeInt"))
		}
		r.Check("K5", "ser.makeMapDecoder/count-read-as-written", p.Pos(p.Func("libs/ser", "makeMapDecoder").Pos()), nCnt >= 1, "the entry count is read with decodeInt (the writer uses writeInt)")
	}

	// ---- time.Time: the decoder accepts exactly what the encoder emits -------------------------------------
	// The encoder writes (Unix seconds, Nanosecond()) and Nanosecond() ranges over [0, 999999999]. The
	// decoder rebuilds the time only inside that range and nothing narrower: a bound tighter by one
	// rejects the node's own votes and blocks stamped at such an instant.
	{
		n := 0
		{
			for _, call := range ir.CallsDeep(p.Func("libs/ser", "makeStructDecoder"), "time.Unix") {
				n++
				nsec := Arg(call, 1)
				var about []string
				for _, a := range ir.FactsAt(call) {
					if strings.Contains(a.Atom, nsec) {
						about = append(about, a.Atom)
					}
				}
				sort.Strings(about)
				want := []string{"le(" + nsec + ",999999999)", "le(0," + nsec + ")"}
				sort.Strings(want)
				r.Check("K6", "ser.makeStructDecoder/time/nanosecond-range-is-the-encoders", p.InstrPos(call), strings.Join(about, " ") == strings.Join(want, " "), "time.Unix is reached exactly under 0 <= nsec <= 999999999: "+strings.Join(about, " "))
			}
		}
		r.Check("K6", "ser.makeStructDecoder/time/sites", "-", n == 1, fmt.Sprintf("%d time.Unix call in the struct decoder", n))
	}

	// ---- one value per byte string -----------------------------------------------------------
	// The slice decoders accept exactly one value: success is returned only when the reader is
	// exhausted (trailing bytes would make two different inputs decode to the same value).
	for _, fnn := range []string{"DecodeBytes", "DecodeBytesWithType"} {
		fn := p.Func("libs/ser", fnn)
		n := 0
		for _, rt := range ir.Returns(fn) {
			if ir.AbstractResult(rt.Results[0]) != "nil" {
				continue
			}
			n++
			c.Guards("ser."+fnn, "return nil", rt.Instr,
				G{"no-trailing-bytes", "le(bytes.Reader.Len(bytes.NewReader(b)),0) || eq(bytes.Reader.Len(bytes.NewReader(b)),0)"},
				G{"decoded", "eq(ser.Stream.Decode*(ser.NewStream(bytes.NewReader(b),len(b)),val),nil)"})
		}
		// a success return that is not the nil constant (an error value passed through) must also be preceded by the test
		for _, rt := range ir.Returns(fn) {
			if ir.AbstractResult(rt.Results[0]) == "nil" || strings.HasPrefix(ir.AbstractResult(rt.Results[0]), "nonnil:") {
				continue
			}
			v := ir.Render(rt.Results[0])
			if ir.HasFact(ir.FactsAt(rt.Instr), "!eq("+v+",nil)") {
				continue // the failure branch returning the decode error
			}
			n++
			r.Check("K1", "ser."+fnn+"/return passthrough/no-trailing-bytes", p.InstrPos(rt.Instr), false, "a result that may be nil is returned without the exhausted-reader test: "+short(v, 120))
		}
		c.MustFind("K1", "ser."+fnn+"/return nil", fn, n, "success return")
	}

	// ---- bounded allocation -----------------------------------------------------------------
	{
		kd := p.Func("libs/ser", "Stream.Kind")
		ke := p.Field("libs/ser", "Stream.kinderr")
		var top, inl bool
		for _, s := range p.Stores(ke) {
			if s.Fn != kd {
				continue
			}
			v := ir.Render(s.Val)
			fs := ir.FactsAt(s.Instr)
			if v == "ser.ErrValueTooLarge" && ir.HasFact(fs, "lt(s.remaining,s.size)") && ir.HasFact(fs, "s.limited") {
				top = true
			}
			if v == "ser.ErrElemTooLarge" && ir.HasFact(fs, "lt((*.size - *.pos),s.size)") {
				inl = true
			}
		}
		r.Check("K1", "ser.(*Stream).Kind/top-level-bound", p.Pos(kd.Pos()), top, "a top-level value larger than the remaining (limited) input sets ErrValueTooLarge")
		r.Check("K1", "ser.(*Stream).Kind/in-list-bound", p.Pos(kd.Pos()), inl, "a value larger than the rest of its list sets ErrElemTooLarge")
		// exactness: after a successful readKind there is no way to the return that neither sets one
		// of the two errors nor has established the bound (size <= rest of list / remaining input, or an
		// unlimited top-level stream) — whatever the kind of the value
		for _, rk := range ir.Calls(kd, "ser.Stream.readKind") {
			found, hit, tr := ir.FindPath(ir.PathQuery{From: ir.At(rk.(ssa.Instruction)), Target: ir.IsReturn,
				Avoid: func(in ssa.Instruction) bool {
					st, ok := in.(*ssa.Store)
					if !ok {
						return false
					}
					v := ir.Render(st.Val)
					return v == "ser.ErrElemTooLarge" || v == "ser.ErrValueTooLarge"
				},
				AvoidEdge: func(atoms []string) bool {
					for _, a := range atoms {
						if a == "!eq(s.kinderr,nil)" || ir.Match("le(s.size,(*.size - *.pos))", a) || a == "le(s.size,s.remaining)" || a == "!s.limited" {
							return true
						}
					}
					return false
				}})
			d := "every successful kind read is bounded by the rest of its list or of the limited input before Kind returns"
			if found {
				d += fmt.Sprintf(" — but the return at %s is reached without error and without the bound, blocks %v", p.InstrPos(hit), tr)
			}
			r.Check("K1", "ser.(*Stream).Kind/bound-on-every-path", p.InstrPos(rk.(ssa.Instruction)), !found, d)
		}
		okRet := false
		for _, rt := range ir.Returns(kd) {
			if ir.Render(rt.Results[2]) == "s.kinderr" {
				okRet = true
			}
		}
		r.Check("K1", "ser.(*Stream).Kind/returns-sticky-error", p.Pos(kd.Pos()), okRet, "Kind returns s.kinderr")
		// allocation sites in the binary decoder
		nAlloc := 0
		for _, fn := range p.Funcs {
			if fn.Pkg == nil || fn.Pkg.Pkg.Path() != serPath || !strings.HasSuffix(p.Fset.Position(fn.Pos()).Filename, "libs/ser/decode.go") {
				continue
			}
			fname := ir.FuncName(fn)
			ir.Instrs(fn, func(in ssa.Instruction) {
				switch x := in.(type) {
				case *ssa.MakeSlice:
					if _, isConst := x.Len.(*ssa.Const); isConst {
						return
					}
					nAlloc++
					c.Guards(fname, "alloc "+short(ir.Render(x.Len), 40), in, G{"size-checked-by-Kind", "eq(ser.Stream.Kind(s)#2,nil)"})
				case *ssa.Call:
					n := ir.CalleeName(x)
					switch n {
					case "reflect.MakeMapWithSize":
						nAlloc++
						sz := Arg(x, 1)
						c.Guards(fname, "alloc map", in, G{"count>=0", "le(0," + sz + ")"}, G{"count<=list-size", "le(" + sz + ",ser.Stream.List(s)#0)"})
					case "reflect.MakeSlice":
						nAlloc++
						l, cp := Arg(x, 1), Arg(x, 2)
						switch {
						case l == "0" && cp == "0":
							r.Check("K1", fname+"/alloc slice/empty", p.InstrPos(in), true, "empty slice")
						case cp == "φ:newcap":
							c.Guards(fname, "alloc slice/grow", in, G{"only-when-full", "le(reflect.Value.Cap(val),φ:i)"})
							r.Check("K1", fname+"/alloc slice/len-kept", p.InstrPos(in), l == "reflect.Value.Len(val)", "growth keeps the current length (capacity grows with elements actually decoded): "+l)
						default:
							r.Check("K1", fname+"/alloc slice/unrecognised", p.InstrPos(in), false, "slice allocation with a size the rule does not recognise: "+l+","+cp)
						}
					}
				}
			})
		}
		r.Stats["stream-sized allocations in decode.go"] = nAlloc
		if nAlloc < 4 {
			r.Undecided("K1", "ser/decode.go/allocations", "-", fmt.Sprintf("only %d allocation sites found, expected at least 4", nAlloc))
		}
	}
	// entry points
	{
		n := 0
		for _, name := range []string{"Decode", "DecodeWithType", "DecodeReader", "DecodeReaderWithType", "NewStream"} {
			o := p.Obj("libs/ser", name).(*types.Func)
			for _, cs := range p.CallSites(o) {
				if cs.Fn.Pkg != nil && cs.Fn.Pkg.Pkg.Path() == serPath && name == "NewStream" {
					// the wrappers themselves: limit is their parameter or 0 for the reader-detecting variants
					continue
				}
				n++
				key := "decode-entry/" + ir.FuncName(ir.EnclosingTop(cs.Fn)) + "/" + name
				a := cs.Instr.Common().Args
				switch name {
				case "Decode", "DecodeWithType":
					rd := ir.Render(a[0])
					r.Check("K1", key, p.InstrPos(cs.Instr), strings.HasPrefix(rd, "bytes.NewReader(") || strings.HasPrefix(rd, "strings.NewReader("), "an unlimited decode is given a bytes/strings Reader (auto-limited by Stream.Reset): "+short(rd, 80))
				case "DecodeReader", "DecodeReaderWithType":
					lim := ir.Render(a[2])
					_, isConst := a[2].(*ssa.Const)
					bad := isConst && (lim == "0" || strings.HasPrefix(lim, "-"))
					r.Check("K1", key, p.InstrPos(cs.Instr), !bad, "a decode from a connection/reader has a non-zero limit: "+short(lim, 80))
				case "NewStream":
					lim := ir.Render(a[1])
					rd := ir.Render(a[0])
					r.Check("K1", key, p.InstrPos(cs.Instr), lim != "0" || strings.HasPrefix(rd, "bytes.NewReader("), "stream is limited: "+lim)
				}
			}
		}
		r.Stats["decode entry call sites"] = n
		// the wrappers pass their limit on; the reader-detecting path limits bytes/strings readers
		rs := p.Func("libs/ser", "Stream.Reset")
		lim := 0
		for _, s := range p.Stores(p.Field("libs/ser", "Stream.limited")) {
			if s.Fn == rs && ir.Render(s.Val) == "true" {
				lim++
			}
		}
		r.Check("K1", "ser.(*Stream).Reset/auto-limit", p.Pos(rs.Pos()), lim >= 3, "Reset limits the stream for an explicit limit and for bytes.Reader / strings.Reader")
		for _, w := range []string{"DecodeReader", "DecodeReaderWithType"} {
			f := p.Func("libs/ser", w)
			ok := false
			for _, call := range ir.Calls(f, "ser.NewStream") {
				if Arg(call, 1) == "inputLimit" {
					ok = true
				}
			}
			r.Check("K1", "ser."+w+"/passes-limit", p.Pos(f.Pos()), ok, "the wrapper passes its inputLimit to the stream")
		}
	}

	// ---- no explicit panic / unchecked assertion on the decode path ---------------------------
	{
		var entries []*ssa.Function
		for _, n := range []string{"Decode", "DecodeWithType", "DecodeReader", "DecodeReaderWithType", "DecodeBytes", "DecodeBytesWithType", "Stream.Decode", "Stream.DecodeWithPrefix"} {
			entries = append(entries, p.Func("libs/ser", n))
		}
		reach := ir.ReachableIn(entries, func(f *ssa.Function) bool { return f.Pkg != nil && f.Pkg.Pkg.Path() == serPath })
		r.Stats["functions reachable from decode entry points in libs/ser"] = len(reach)
		if len(reach) < 60 {
			r.Undecided("K9", "ser/decode-reachability", "-", fmt.Sprintf("reachable set collapsed to %d functions", len(reach)))
		}
		allowed := map[string]string{
			"PANIC libs/ser.writeCDCInterface":   "encoder side (shares the type-info cache with the decoder), type-level invariant",
			"ASSERT libs/ser.decodeBigInt":       "installed by makeDecoder only for types assignable to *big.Int",
			"ASSERT libs/ser.decodeByteArray":    "Slice(0,len).Interface() of a byte array is always []byte",
			"ASSERT libs/ser.decodeDecoderNoPtr": "installed by makeDecoder only when PtrTo(typ) implements Decoder",
			"ASSERT libs/ser.decodeDecoder":      "installed by makeDecoder only when typ implements Decoder",
			"ASSERT libs/ser.writeBigIntPtr":     "encoder side, type-dispatched",
			"ASSERT libs/ser.writeBigIntNoPtr":   "encoder side, type-dispatched",
			"ASSERT libs/ser.writeEncoder":       "encoder side, type-dispatched",
			"ASSERT libs/ser.writeEncoderNoPtr":  "encoder side, type-dispatched",
			"ASSERT libs/ser.makeStructWriter$1": "encoder side, guarded by the time.Time type test",
		}
		var fns []*ssa.Function
		for f := range reach {
			fns = append(fns, f)
		}
		sort.Slice(fns, func(i, j int) bool { return ir.FuncName(fns[i]) < ir.FuncName(fns[j]) })
		nSites := 0
		for _, f := range fns {
			ir.Instrs(f, func(in ssa.Instruction) {
				var k string
				switch x := in.(type) {
				case *ssa.Panic:
					k = "PANIC " + ir.FuncName(f)
				case *ssa.TypeAssert:
					if x.CommaOk {
						return
					}
					k = "ASSERT " + ir.FuncName(f)
				case *ssa.Call:
					if ir.IsNoReturnCall(in) {
						k = "PANIC " + ir.FuncName(f)
					} else {
						return
					}
				default:
					return
				}
				nSites++
				why, ok := allowed[k]
				r.Check("K9", "decode-path/"+k, p.InstrPos(in), ok, "explicit panic / unchecked assertion reachable from the decode entry points must be in the reviewed table (type-level, not input-dependent): "+why)
			})
		}
		r.Stats["panic/assert sites on the decode path"] = nSites
	}
	_ = c
}

func typeShortT(t types.Type) string {
	return types.TypeString(t, func(p *types.Package) string { return p.Name() })
}

var _ = report.Discharged

// serCanonicalMaps: the ser map writer emits keys in strict byte order on every
// path (shared by C05 and C11).
func serCanonicalMaps(p *ir.Program, r *report.R) {
	mw := p.Func("libs/ser", "makeMapWriter")
	var cl *ssa.Function
	for _, a := range mw.AnonFuncs {
		cl = a
	}
	if cl == nil {
		r.Undecided("K7", "ser.makeMapWriter/closure", p.Pos(mw.Pos()), "writer closure not found")
	} else {
		keys := firstCall(cl, "reflect.Value.MapKeys")
		srt := firstCall(cl, "sort.Sort")
		emits := ir.Calls(cl, "ser.writeByteArray")
		if keys == nil || srt == nil || len(emits) == 0 {
			r.Undecided("K7", "ser.makeMapWriter/shape", p.Pos(cl.Pos()), "MapKeys / sort.Sort / writeByteArray not found")
		} else {
			for _, e := range emits {
				found, _, tr := ir.FindPath(ir.PathQuery{From: ir.At(keys), Target: func(in ssa.Instruction) bool { return in == e }, Avoid: func(in ssa.Instruction) bool { return in == srt }})
				r.Check("K7", "ser.makeMapWriter/sorted-before-emit", p.InstrPos(e), !found, fmt.Sprintf("every path from MapKeys() to the emission of a key passes sort.Sort; offending %v", tr))
			}
			r.Check("K7", "ser.makeMapWriter/sorts-the-emitted-slice", p.InstrPos(srt), strings.HasPrefix(Arg(srt, 0), "make") && strings.Contains(Arg(srt, 0), "sortableMapKey"), "the slice that is sorted is the one emitted: "+Arg(srt, 0))
		}
		// the count prefix is the map length
		okLen := false
		for _, call := range ir.Calls(cl, "ser.writeInt") {
			if strings.Contains(Arg(call, 0), "reflect.Value.Len(val)") {
				okLen = true
			}
		}
		r.Check("K5", "ser.makeMapWriter/count-prefix", p.Pos(cl.Pos()), okLen, "the writer emits the entry count the decoder reads")
	}
	ls := p.Func("libs/ser", "sortableMapKey.Less")
	okL := false
	for _, rt := range ir.Returns(ls) {
		for _, a := range ir.CondAtoms(rt.Results[0], true) {
			if ir.Match("lt(bytes.Compare(sm[i].key,sm[j].key),0)", a) || ir.Match("eq(bytes.Compare(sm[i].key,sm[j].key),-1)", a) {
				okL = true
			}
		}
	}
	r.Check("K6", "ser.sortableMapKey.Less/strict-byte-order", p.Pos(ls.Pos()), okL, "Less is the strict byte order of the keys")
}

// typeChosenByInputFits is shared by C11 (decoding never crashes) and C16 (no peer message halts
// consensus).
func typeChosenByInputFits(c C) {
	p, r := c.P, c.R
	n := 0
	for _, f := range p.Funcs {
		if f.Pkg == nil || ir.RelPkg(f.Pkg.Pkg) != "libs/ser" || f.Blocks == nil || strings.HasSuffix(p.Pos(f.Pos()), "_test.go") {
			continue
		}
		if strings.Contains(p.Pos(f.Pos()), "libs/ser/json-") {
			continue // the JSON codec (config files, RPC client side) is outside the statement; same gap, see DESIGN 8.7
		}
		for _, call := range ir.Calls(f, "reflect.Value.Set") {
			src := Arg(call, 1)
			if !strings.Contains(src, "getTypeInfoFrom") {
				continue // the value's type is derived from the destination's own type
			}
			n++
			dst := Arg(call, 0)
			fs := ir.FactsAt(call.(ssa.Instruction))
			ok := ir.HasFact(fs, "reflect.Type.AssignableTo(reflect.Value.Type("+src+"),reflect.Value.Type("+dst+"))") ||
				ir.HasFact(fs, "reflect.Type.Implements(reflect.Value.Type("+src+"),reflect.Value.Type("+dst+"))")
			r.Check("K9", "ser/type-chosen-by-input-fits/"+ir.FuncName(ir.EnclosingTop(f)), p.InstrPos(call.(ssa.Instruction)), ok, "Set of a value whose type was selected by the input bytes is guarded by AssignableTo/Implements for the destination type")
		}
	}
	r.Check("K9", "ser/type-chosen-by-input-fits/sites", "-", n >= 1, fmt.Sprintf("%d stores of an input-selected type found in libs/ser", n))
}
