package props

import (
	"go/constant"
	"go/token"
	"go/types"
	"strings"

	"golang.org/x/tools/go/ssa"

	"lkcheck/ir"
)

// Database keys as a sequence of pieces (K11 normal form).
//
// A key builder concatenates constant text with encodings of its arguments. The map
// (arguments) -> key is injective when every variable-width piece is followed by a constant
// separator that cannot occur in the piece (decimal digits followed by a non-digit), and
// fixed-width pieces may be followed by anything. The extractor recognises the repository's
// idioms: fmt.Sprintf with a constant format, string +, append(a, b...), strconv.Append*/Format*/Itoa,
// []byte(string) conversions, whole-array slices, Hash/Address.Bytes(), and package-level
// []byte prefixes initialised from a constant.

type keyPieceKind int

const (
	kpLit keyPieceKind = iota
	kpDecimal
	kpFixed
	kpVar
	kpUnknown
)

type keyPiece struct {
	Kind keyPieceKind
	Lit  string
	What string
}

func (k keyPiece) String() string {
	switch k.Kind {
	case kpLit:
		return "\"" + k.Lit + "\""
	case kpDecimal:
		return "<decimal " + k.What + ">"
	case kpFixed:
		return "<fixed " + k.What + ">"
	case kpVar:
		return "<var " + k.What + ">"
	}
	return "<? " + k.What + ">"
}

func isIntegerType(t types.Type) bool {
	b, ok := t.Underlying().(*types.Basic)
	return ok && b.Info()&types.IsInteger != 0
}

func isFixedBytes(t types.Type) bool {
	if pt, ok := t.Underlying().(*types.Pointer); ok {
		t = pt.Elem()
	}
	a, ok := t.Underlying().(*types.Array)
	if !ok {
		return false
	}
	b, ok := a.Elem().Underlying().(*types.Basic)
	return ok && b.Kind() == types.Uint8
}

// varargValues returns the values stored in a `varargs` array behind a slice.
func varargValues(v ssa.Value) []ssa.Value {
	sl, ok := v.(*ssa.Slice)
	if !ok {
		return nil
	}
	al, ok := sl.X.(*ssa.Alloc)
	if !ok || al.Referrers() == nil {
		return nil
	}
	m := map[int64]ssa.Value{}
	max := int64(-1)
	for _, r := range *al.Referrers() {
		ia, ok := r.(*ssa.IndexAddr)
		if !ok {
			continue
		}
		c, ok := ia.Index.(*ssa.Const)
		if !ok || c.Value == nil || ia.Referrers() == nil {
			return nil
		}
		for _, rr := range *ia.Referrers() {
			if st, ok := rr.(*ssa.Store); ok && st.Addr == ia {
				val := st.Val
				if mi, ok := val.(*ssa.MakeInterface); ok {
					val = mi.X
				}
				m[c.Int64()] = val
				if c.Int64() > max {
					max = c.Int64()
				}
			}
		}
	}
	out := make([]ssa.Value, max+1)
	for i := range out {
		out[i] = m[int64(i)]
	}
	return out
}

func globalInit(p *ir.Program, g *ssa.Global) ssa.Value {
	stores := map[*ssa.Store]bool{}
	scan := func(f *ssa.Function) {
		if f == nil {
			return
		}
		for _, b := range f.Blocks {
			for _, in := range b.Instrs {
				if st, ok := in.(*ssa.Store); ok && st.Addr == g {
					stores[st] = true
				}
			}
		}
	}
	for _, f := range p.Funcs {
		if f.Pkg == g.Pkg {
			scan(f)
		}
	}
	scan(g.Pkg.Func("init"))
	if len(stores) != 1 {
		return nil
	}
	for st := range stores {
		return st.Val
	}
	return nil
}

// keyPieces decomposes the value of a key expression.
func keyPieces(p *ir.Program, v ssa.Value, depth int) []keyPiece {
	unknown := func(what string) []keyPiece { return []keyPiece{{Kind: kpUnknown, What: what}} }
	if depth > 12 {
		return unknown("too deep")
	}
	switch x := v.(type) {
	case *ssa.Const:
		if x.Value != nil && x.Value.Kind() == constant.String {
			s := constant.StringVal(x.Value)
			if s == "" {
				return nil
			}
			return []keyPiece{{Kind: kpLit, Lit: s}}
		}
		if x.Value == nil {
			return nil // nil slice
		}
		return unknown(ir.Render(v))
	case *ssa.Convert:
		return keyPieces(p, x.X, depth+1)
	case *ssa.ChangeType:
		return keyPieces(p, x.X, depth+1)
	case *ssa.MakeSlice:
		if c, ok := x.Len.(*ssa.Const); ok && c.Value != nil && c.Int64() == 0 {
			return nil
		}
		return unknown(ir.Render(v))
	case *ssa.BinOp:
		if x.Op == token.ADD {
			return append(keyPieces(p, x.X, depth+1), keyPieces(p, x.Y, depth+1)...)
		}
	case *ssa.Slice:
		if c, ok := x.High.(*ssa.Const); ok && c.Value != nil && c.Int64() == 0 {
			return nil // make([]byte, 0, n)
		}
		if x.Low == nil && x.High == nil && isFixedBytes(x.X.Type()) {
			return []keyPiece{{Kind: kpFixed, What: ir.Render(x.X)}}
		}
	case *ssa.UnOp:
		if x.Op == token.MUL {
			if g, ok := x.X.(*ssa.Global); ok {
				if iv := globalInit(p, g); iv != nil {
					return keyPieces(p, iv, depth+1)
				}
			}
		}
	case *ssa.Parameter:
		if isIntegerType(x.Type()) {
			return unknown("raw integer " + x.Name())
		}
		return []keyPiece{{Kind: kpVar, What: ir.Render(v)}}
	case *ssa.Call:
		if b, ok := x.Call.Value.(*ssa.Builtin); ok && b.Name() == "append" && len(x.Call.Args) == 2 {
			return append(keyPieces(p, x.Call.Args[0], depth+1), keyPieces(p, x.Call.Args[1], depth+1)...)
		}
		name := ir.CalleeName(x)
		switch {
		case strings.HasSuffix(name, "fmt.Sprintf") && len(x.Call.Args) == 2:
			fc, ok := x.Call.Args[0].(*ssa.Const)
			if !ok || fc.Value == nil || fc.Value.Kind() != constant.String {
				return unknown("non-constant format")
			}
			args := varargValues(x.Call.Args[1])
			return sprintfPieces(constant.StringVal(fc.Value), args)
		case strings.HasSuffix(name, "strconv.AppendUint"), strings.HasSuffix(name, "strconv.AppendInt"):
			return append(keyPieces(p, x.Call.Args[0], depth+1), keyPiece{Kind: kpDecimal, What: ir.Render(x.Call.Args[1])})
		case strings.HasSuffix(name, "strconv.Itoa"), strings.HasSuffix(name, "strconv.FormatInt"), strings.HasSuffix(name, "strconv.FormatUint"):
			return []keyPiece{{Kind: kpDecimal, What: ir.Render(x.Call.Args[0])}}
		case strings.HasSuffix(name, "common.Hash.Bytes"), strings.HasSuffix(name, "common.Address.Bytes"):
			return []keyPiece{{Kind: kpFixed, What: ir.Render(x.Call.Args[0])}}
		}
	}
	return unknown(ir.Render(v))
}

// sprintfPieces splits a constant format into literal text and one piece per verb.
func sprintfPieces(format string, args []ssa.Value) []keyPiece {
	var out []keyPiece
	lit := ""
	flush := func() {
		if lit != "" {
			out = append(out, keyPiece{Kind: kpLit, Lit: lit})
			lit = ""
		}
	}
	ai := 0
	for i := 0; i < len(format); i++ {
		ch := format[i]
		if ch != '%' {
			lit += string(ch)
			continue
		}
		if i+1 < len(format) && format[i+1] == '%' {
			lit += "%"
			i++
			continue
		}
		// flags / width / precision
		j := i + 1
		plain := true
		for j < len(format) && strings.ContainsRune("+-# 0123456789.*[]", rune(format[j])) {
			plain = false
			j++
		}
		if j >= len(format) {
			flush()
			out = append(out, keyPiece{Kind: kpUnknown, What: "truncated verb"})
			break
		}
		verb := format[j]
		i = j
		flush()
		if ai >= len(args) || args[ai] == nil {
			out = append(out, keyPiece{Kind: kpUnknown, What: "verb without argument"})
			ai++
			continue
		}
		a := args[ai]
		ai++
		if cs, ok := a.(*ssa.Const); ok && plain && (verb == 's' || verb == 'v') && cs.Value != nil && cs.Value.Kind() == constant.String {
			lit = constant.StringVal(cs.Value)
			flush()
			continue
		}
		switch {
		case plain && (verb == 'v' || verb == 'd') && isIntegerType(a.Type()):
			out = append(out, keyPiece{Kind: kpDecimal, What: ir.Render(a)})
		case plain && (verb == 'x' || verb == 'X') && isFixedBytes(a.Type()):
			out = append(out, keyPiece{Kind: kpFixed, What: ir.Render(a)})
		default:
			out = append(out, keyPiece{Kind: kpVar, What: "%" + string(verb) + " " + ir.Render(a)})
		}
	}
	flush()
	if ai < len(args) {
		out = append(out, keyPiece{Kind: kpUnknown, What: "extra arguments"})
	}
	return out
}

// keyInjective decides the piece sequence; reason is empty when injective.
func keyInjective(ps []keyPiece) (ok, decided bool, reason string) {
	// merge adjacent literals
	var m []keyPiece
	for _, k := range ps {
		if k.Kind == kpLit && len(m) > 0 && m[len(m)-1].Kind == kpLit {
			m[len(m)-1].Lit += k.Lit
			continue
		}
		m = append(m, k)
	}
	for i, k := range m {
		if k.Kind == kpUnknown {
			return false, false, "unrecognised piece " + k.String()
		}
		if i == len(m)-1 {
			break
		}
		next := m[i+1]
		switch k.Kind {
		case kpDecimal:
			if next.Kind != kpLit || next.Lit == "" || (next.Lit[0] >= '0' && next.Lit[0] <= '9') || next.Lit[0] == '-' {
				return false, true, k.String() + " is followed by " + next.String() + " without a non-digit separator"
			}
		case kpVar:
			return false, true, k.String() + " (variable width) is not the last piece"
		}
	}
	return true, true, ""
}

func keyString(ps []keyPiece) string {
	var s []string
	for _, k := range ps {
		s = append(s, k.String())
	}
	return strings.Join(s, " ")
}

// keyPrefix is the leading constant text of a key.
func keyPrefix(ps []keyPiece) string {
	s := ""
	for _, k := range ps {
		if k.Kind != kpLit {
			break
		}
		s += k.Lit
	}
	return s
}
